#!/usr/bin/env python3
"""mkpatch.py <out.diff> <repo-relative-file> <old> <new> [<file> <old> <new> ...]
Builds a unified diff (a/ b/ prefixes) replacing the first occurrence of <old> by <new> (multiple triples allowed).
'\\n' and '\\t' in old/new are unescaped."""
import sys, difflib, os
out = sys.argv[1]
args = sys.argv[2:]
repo = os.environ.get("VERIF_REPO", "/repo")
chunks = []
files = {}
for i in range(0, len(args), 3):
    f, old, new = args[i], args[i+1], args[i+2]
    old = old.replace("\\n", "\n").replace("\\t", "\t")
    new = new.replace("\\n", "\n").replace("\\t", "\t")
    src = files.get(f)
    if src is None:
        src = open(os.path.join(repo, f)).read()
    if old not in src:
        sys.exit(f"mkpatch: pattern not found in {f}: {old!r}")
    files[f] = src.replace(old, new, 1)
for f, dst in files.items():
    src = open(os.path.join(repo, f)).read()
    chunks.append("".join(difflib.unified_diff(src.splitlines(True), dst.splitlines(True), "a/" + f, "b/" + f)))
open(out, "w").write("".join(chunks))
