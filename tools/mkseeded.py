#!/usr/bin/env python3
"""mkseeded.py <seed-root> <verify-log>... -- file confirmed seeded changes under /verif/seeded/<id>/.

<seed-root>/<PROP>/<mN>/ holds what a seeding sub-agent produced (patch.diff, run.sh, demo files, notes.md);
the verify logs hold one line per seed written by tools/verify_seed.sh
(`<dir> base-demo=ok apply=ok suite=ok demo-with-patch=fails`); only seeds confirmed on all four counts are filed.
The checks that fire on each seed are taken from a seedrun log (`<dir> => P:rule:construct ...`) given with --fired.
"""
import json, os, re, shutil, sys

def main():
    args = sys.argv[1:]
    fired_logs = []
    idfmt = "%s-%s"
    if "--idfmt" in args:
        i = args.index("--idfmt")
        idfmt = args[i + 1]
        del args[i:i + 2]
    keep_index = "--append" in args
    if keep_index:
        args.remove("--append")
    while "--fired" in args:
        i = args.index("--fired")
        fired_logs.append(args[i + 1])
        del args[i:i + 2]
    root, logs = args[0], args[1:]
    status = {}
    for lg in logs:
        for line in open(lg):
            m = re.match(r"(\S+) base-demo=(\S+) apply=(\S+) suite=(\S+) demo-with-patch=(\S+)", line)
            if m:
                status[m.group(1)] = dict(base_demo=m.group(2), apply=m.group(3), suite=m.group(4), demo_with_patch=m.group(5))
    fired = {}
    for lg in fired_logs:
        for line in open(lg):
            m = re.match(r"(\S+) => (.*)", line)
            if m:
                fired[m.group(1)] = m.group(2).split()
    out_root = "/verif/seeded"
    os.makedirs(out_root, exist_ok=True)
    index = []
    for prop in sorted(os.listdir(root)):
        pd = os.path.join(root, prop)
        if not re.match(r"C\d\d$", prop) or not os.path.isdir(pd):
            continue
        for m in sorted(os.listdir(pd)):
            d = os.path.join(pd, m)
            if not os.path.isfile(os.path.join(d, "patch.diff")):
                continue
            st = status.get(d)
            if not st:
                continue
            ok = st["base_demo"] == "ok" and st["apply"] == "ok" and st["suite"] == "ok" and st["demo_with_patch"] == "fails"
            if not ok:
                print("not filed (unconfirmed):", d, st)
                continue
            sid = idfmt % (prop, m)
            dst = os.path.join(out_root, sid)
            if os.path.isdir(dst):
                shutil.rmtree(dst)
            os.makedirs(dst)
            for f in os.listdir(d):
                if f.startswith("suite_attempt") or f.startswith("verify-") or f.endswith(".log"):
                    continue
                s = os.path.join(d, f)
                if os.path.isdir(s):
                    shutil.copytree(s, os.path.join(dst, f))
                else:
                    shutil.copy2(s, os.path.join(dst, f))
            notes = ""
            if os.path.isfile(os.path.join(d, "notes.md")):
                notes = open(os.path.join(d, "notes.md")).read()
            title = notes.splitlines()[0].lstrip("# ").strip() if notes else sid

            def section(*names):
                for nm in names:
                    mm = re.search(r"^##+\s*" + nm + r".*?\n(.*?)(?=^##+\s|\Z)", notes, re.S | re.M | re.I)
                    if mm:
                        return re.sub(r"\s+", " ", mm.group(1)).strip()[:1500]
                return ""
            caught = fired.get(d, [])
            meta = {
                "id": sid,
                "property": prop,
                "title": title,
                "origin": "written by a fresh sub-agent that was given only the text of the property and its own scratch git worktree of /repo (nothing from /verif)",
                "breaks": section("Which clause breaks", "Which clause", "Clause"),
                "needs_to_manifest": section("What it needs to manifest", "What it needs", "Needs"),
                "demonstration": "run.sh <repo-root> : exit 0 = property holds, non-zero = broken (self-contained module with replace directives to the given tree)",
                "confirmed_by_me": {
                    "how": "tools/verify_seed.sh in a scratch copy of /repo outside /repo and /verif, removed afterwards",
                    "demo_on_unchanged_tree": "passes" if st["base_demo"] == "ok" else st["base_demo"],
                    "patch_applies_and_every_module_builds": st["apply"],
                    "existing_suite_with_patch": "passes" if st["suite"] == "ok" else st["suite"],
                    "demo_with_patch": st["demo_with_patch"],
                },
                "commands": [
                    "git -C /repo apply /verif/seeded/%s/patch.diff" % sid,
                    "cd /verif && ./run.sh check %s --tier quick   # expect exit 1 and VIOLATION lines" % prop,
                    "git -C /repo checkout -- .",
                ],
                "checks_that_fire": caught,
                "detected": bool(caught) and caught != ["MISSED"] and caught != ["PATCH-FAILED"],
            }
            json.dump(meta, open(os.path.join(dst, "meta.json"), "w"), indent=1)
            index.append(meta)
    entries = [{k: m[k] for k in ("id", "property", "title", "detected", "checks_that_fire")} for m in index]
    ipath = os.path.join(out_root, "INDEX.json")
    if keep_index and os.path.isfile(ipath):
        old = [e for e in json.load(open(ipath)) if e["id"] not in {x["id"] for x in entries}]
        entries = sorted(old + entries, key=lambda e: e["id"])
    json.dump(entries, open(ipath, "w"), indent=1)
    print("filed", len(index), "seeds;", sum(1 for m in index if m["detected"]), "detected")

if __name__ == "__main__":
    main()
