#!/bin/sh
# refacrun.sh <dir-with-patch.diff>... : run every check against each behaviour-preserving refactoring; any VIOLATION is a false alarm.
ids=$(/verif/bin/golemcheck list)
for d in "$@"; do
  p="$d/patch.diff"
  [ -f "$p" ] || continue
  out=$(/verif/tools/mutest.sh "$p" $ids 2>&1)
  fired=$(echo "$out" | grep '^VIOLATION' | sed 's/.*property=\([A-Z0-9]*\).*kind=\([a-z]*\).*rule=\([A-Za-z0-9-]*\).*construct=\(.*\)/\1:\3/' | sort -u | tr '\n' ' ')
  if echo "$out" | grep -q PATCH-FAILED; then fired="PATCH-FAILED"; fi
  echo "$d => ${fired:-silent}"
done
