#!/usr/bin/env python3
"""gentable.py : regenerate the seed table of DESIGN.md (between the marker line and the next blank line) from seeded/INDEX.json."""
import json, re
idx = json.load(open('/verif/seeded/INDEX.json'))
rows = []
for e in sorted(idx, key=lambda e: e['id']):
    title = e.get('title', '')
    title = re.sub(r'^C\d\d\s*/\s*m\d+p?\s*[-–:]\s*', '', title).strip()
    title = title.replace('|', '\\|')
    rules = sorted(set(':'.join(x.split(':')[:2]) for x in e.get('checks_that_fire', [])))
    rows.append('| %s | %s | %s |' % (e['id'], title, ', '.join(rules)))
table = ['<!-- generated from seeded/INDEX.json -->', '| seed | change | rules that fire |', '|------|--------|-----------------|'] + rows
s = open('/verif/DESIGN.md').read().split('\n')
a = s.index('<!-- generated from seeded/INDEX.json -->')
b = a
while b < len(s) and s[b].strip() != '':
    b += 1
s[a:b] = table
open('/verif/DESIGN.md', 'w').write('\n'.join(s))
print(len(rows), 'rows')
