#!/bin/sh
# mutest.sh <patch.diff> <ID...> : run checks against a scratch copy of /repo with the patch applied.
# The copy lives under a fresh temp dir and is removed afterwards; evidence of the run goes there too.
set -u
patch=$1; shift
case "$patch" in -|/*) ;; *) patch="$(pwd)/$patch";; esac
tmp=$(mktemp -d /tmp/mutest.XXXXXX)
trap 'rm -rf "$tmp"' EXIT
rsync -a --exclude .git /repo/ "$tmp/repo/"
if [ "$patch" != "-" ]; then
  (cd "$tmp/repo" && git apply --unsafe-paths -p1 "$patch" 2>/dev/null || patch -s -p1 < "$patch") || { echo "PATCH-FAILED $patch"; exit 3; }
fi
mkdir -p "$tmp/out"
VERIF_REPO="$tmp/repo" VERIF_OUT="$tmp/out" /verif/bin/golemcheck check "$@"
