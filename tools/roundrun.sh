#!/bin/sh
# roundrun.sh <round-root> [-j N] : process what the sub-agents of one seeding/refactoring round left under
#   <round-root>/out-s/<PROP>/mN/{patch.diff,run.sh,demo*,notes.md}   and   <round-root>/out-r/<PROP>/rN/{patch.diff,notes.md}
# - every seed is confirmed independently (tools/verify_seed.sh, scratch copies outside /repo and /verif) -> verify.log
# - every seed is run against all checks (tools/seedrun.sh)                                            -> fired.log
# - every refactoring is run against all checks (tools/refacrun.sh)                                    -> refac.log
# Only new directories are processed (a line already in a log is kept), so it can be called while agents still work.
root=$1; shift
J=6
[ "$1" = "-j" ] && J=$2
cd "$root" || exit 2
touch verify.log fired.log refac.log
for d in out-s/C*/m[0-9]*; do
  [ -f "$d/patch.diff" ] && [ -f "$d/run.sh" ] && [ -f "$d/notes.md" ] || continue
  grep -q "^$root/$d " verify.log || echo "$root/$d"
done > todo-s.txt
for d in out-r/C*/r[0-9]*; do
  [ -f "$d/patch.diff" ] && [ -f "$d/notes.md" ] || continue
  grep -q "^$root/$d " refac.log || echo "$root/$d"
done > todo-r.txt
if [ -s todo-s.txt ]; then
  xargs -P "$J" -I{} sh -c '/verif/tools/verify_seed.sh {} 2>&1 | tail -1' < todo-s.txt >> verify.log &
  /verif/tools/seedrun.sh $(cat todo-s.txt) >> fired.log 2>&1
fi
[ -s todo-r.txt ] && /verif/tools/refacrun.sh $(cat todo-r.txt) >> refac.log 2>&1
wait
echo "seeds: $(wc -l < verify.log) verified, $(grep -vc 'base-demo=ok apply=ok suite=ok demo-with-patch=fails' verify.log) unconfirmed, $(grep -c '=> MISSED' fired.log) missed"
echo "refactorings: $(wc -l < refac.log) run, $(grep -vc '=> silent' refac.log) alarms"
grep -v 'base-demo=ok apply=ok suite=ok demo-with-patch=fails' verify.log
grep '=> MISSED\|PATCH-FAILED' fired.log
grep -v '=> silent' refac.log
exit 0
