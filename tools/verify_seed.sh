#!/bin/sh
# verify_seed.sh <seed-dir> : confirm a seeded change independently in a scratch copy of /repo:
#  (1) demo passes on the unchanged tree, (2) patch applies and every module builds,
#  (3) the existing suite passes with the patch (the timing-sensitive TestThrottling and TestFMap/Cancel, which also fail
#      now and then on the unchanged tree, are retried up to 8 times; a test that fails every time counts as failing), (4) demo fails with the patch.
# Prints one line: <dir> base-demo=<ok|FAIL> apply=<ok|FAIL> suite=<ok|FAIL> demo-with-patch=<fails|PASSES>
d=$1
tmp=$(mktemp -d /tmp/vseed.XXXXXX)
trap 'rm -rf "$tmp"' EXIT
export GOFLAGS=-mod=mod
rsync -a --exclude .git /repo/ "$tmp/repo/"
run() { if [ -x "$d/run.sh" ]; then (cd "$d" && timeout 900 ./run.sh "$tmp/repo") >"$tmp/demo.log" 2>&1; else (cd "$d" && timeout 900 sh ./run.sh "$tmp/repo") >"$tmp/demo.log" 2>&1; fi; }
run; b=$?
[ $b -eq 0 ] && base=ok || base=FAIL
cp "$tmp/demo.log" "$tmp/demo-base.log"
(cd "$tmp/repo" && git apply --unsafe-paths -p1 "$d/patch.diff" 2>/dev/null || patch -s -p1 < "$d/patch.diff" >/dev/null 2>&1) && ap=ok || ap=FAIL
suite=ok
if [ $ap = ok ]; then
  for m in duct hseq optics pipe pure trait; do
    okm=0
    for try in 1 2 3 4 5 6 7 8; do
      out=$(cd "$tmp/repo/$m" && go build ./... 2>&1 && go test -vet=off -count=1 ./... 2>&1)
      if echo "$out" | grep -q '^FAIL\|^--- FAIL\|cannot\|undefined'; then
        # only TestThrottling failing? retry
        if echo "$out" | grep '^--- FAIL' | grep -vq 'TestThrottling\|TestFMap'; then echo "$out" | grep -E '^(--- FAIL|FAIL)' | head -5 > "$tmp/suite-$m.log"; break; fi
        if ! echo "$out" | grep -q '^--- FAIL'; then echo "$out" | tail -5 > "$tmp/suite-$m.log"; break; fi
      else okm=1; break; fi
    done
    [ $okm -eq 1 ] || { suite="FAIL($m)"; cat "$tmp/suite-$m.log" 2>/dev/null | head -3; }
  done
fi
run; a=$?
[ $a -ne 0 ] && with=fails || with=PASSES
echo "$d base-demo=$base apply=$ap suite=$suite demo-with-patch=$with"
if [ -n "$KEEPLOG" ]; then cp "$tmp/demo-base.log" "$d/verify-base.log"; cp "$tmp/demo.log" "$d/verify-patched.log"; fi
