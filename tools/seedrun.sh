#!/bin/sh
# seedrun.sh <dir-with-patch.diff>... : run every built check against each seeded change; print which properties fire.
ids=$(/verif/bin/golemcheck list)
for d in "$@"; do
  p="$d/patch.diff"
  [ -f "$p" ] || continue
  out=$(/verif/tools/mutest.sh "$p" $ids 2>&1)
  fired=$(echo "$out" | grep '^VIOLATION' | sed 's/.*property=\([A-Z0-9]*\).*rule=\([a-z0-9-]*\).*construct=\(.*\)/\1:\2:\3/' | sort -u | tr '\n' ' ')
  if echo "$out" | grep -q PATCH-FAILED; then fired="PATCH-FAILED"; fi
  echo "$d => ${fired:-MISSED}"
done
