#!/usr/bin/env python3
"""Regenerates /verif/MANIFEST.json from the claim table below."""
import json, subprocess
props = [json.loads(l) for l in open('/verif/properties.jsonl')]
ids = [p['id'] for p in props]

CLAIMS = {
 "C18": dict(cat="other", ref="DESIGN.md section 4, C18",
   text="EXPLICITLY WEAK: only necessary structural conditions, decided independently of the loop forms (helpers inlined with their loops; segments between loop heads classified by the successor they inspect) - both traversals compare only the key of cursor.fingers[index] after a nil test and advance iff it is less than the search key (siblings agree); the level loop begins a pass iff index >= 0, 'less' keeps the level, 'stop' lowers it by one, every traversal starts on the top level (first index = number of levels - 1 = len(head.fingers) - 1) with the cursor at the head, moves only to the inspected successor, the insertion path records the cursor once per level, the result is the level-0 successor; Put splices every level of the new node reading the successor before linking, a node's height never exceeds the list's levels, Remove's loop covers the node's levels and unlinks only where the path points to it; results under equal / not equal. The ordered-map behaviour over histories, the sorted-sublist invariant, and independence from random heights are NOT decided; of the printed form only its walk is decided (print-walk: String() goes from the head along level 0 until nil and renders every node it passes; print-node: a node shows its own key and, behind the finger's nil test, the key each finger points to; print-pure: it keeps no state) - that this chain is ascending and holds exactly the live keys rests on the undecided invariant. A new node's height is at least 1 on every path (node-height-positive; defect D9 repaired by a fix: commit). The library's own ord.Int / ord.String are total orders (instance rules shared with C17). nil-guard: Put/Get/Remove read fields of the traversal's node result only behind its nil test (directly or through a helper that answers true only for a non-nil node).",
   note="assumes the comparison trait is a total order; internal/maplike is staged into a temporary module (no module of the repository builds it)",
   tech="static analysis: path constraints and counted-loop bounds over SSA of the staged package"),
 "C19": dict(cat="other", ref="DESIGN.md section 4, C19",
   text="ADT laws of both implementations by composing symbolic operation summaries and normalising with a fixed rewrite system (field-of-literal, linear arithmetic, append/reslice/len axioms): Length(New)=len, Head(Cons)=x, Tail(Cons)=s, Length(Cons)=Length+1, IsEmpty=(Length==0); persistence (no store into / append onto the argument); list.New's descending prepend loop; Fold's accumulator discipline. 'Any script gives the same list on both implementations' is the initial-algebra argument on paper. Monoid constructor rules shared with C10/C17 (Fold is stated for the monoid built by them).",
   note="the rewrite axioms for append and reslicing are a trusted base; internal/seq is staged into a temporary module",
   tech="static analysis: symbolic composition of straight-line SSA summaries + term rewriting"),

 "C08": dict(cat="other", ref="DESIGN.md section 4, C08",
   text="Pump arm constraints (one blocking select per iteration with the receive arm always on the send-side channel itself; enq exactly once from a per-iteration fresh cell; send arm sends head on emit(...) and deqs once), emit/head/enq/deq conditional-store summaries, flush loops, close typestate. Known findings: D5 (sender close => double close, backlog dropped) and D6 (cancel loses buffered sends). FIFO/lossless/duplicate-free follows on paper from single pump + queue discipline; interleavings are not enumerated.",
   note="assumes sync.Pool hands out unshared nodes and never blocks",
   tech="static analysis: path constraints on the pump's select arms with inlined helper summaries, typestate of closed channels"),
 "C16": dict(cat="other", ref="DESIGN.md section 4, C16",
   text="Bracketing and error-stop of every Apply on all paths, children loop, Root/callback pairing, TypeOf type arguments recorded by the constructors, what each combinator appends and to which code, the append and unit disciplines (refuse when closed, innermost open child first, exactly one append / the root never closes). The tree shape for all programs follows on paper from the two disciplines.",
   note="recursion over run-time trees is not decided",
   tech="static analysis: path constraints with branch polarities, type-argument checks on go/types"),

 "C04": dict(cat="other", ref="DESIGN.md section 4, C04",
   text="Every composite optic's ordered event list is compared with its defining equation (join, Getter, Setter, BiMap, BiMapS/B/I/F through inlined helpers, lensM, iso, morphism with its nil test, shapeN Put/Get positional over N field lenses, ForShapeN, constructors). The constructors every composite is built over (NewLens / NewReflector) return a fresh lens of the very hseq.Type they were given, behind the type guard (guard rules shared with C01/C02: an interned or memoised lens of another entry breaks every ShapeN / BiMap / Join built on it). Lawfulness of the compositions follows on paper when the components are lawful; user conversions being inverse is a premise. Also run here because every composite presupposes them: the accessor address term and the offsets of the unfolding (shared with C01).",
   note="trusted: go/types, go/ssa, path engine; no composite performs a store of its own except lensM (census from C01)",
   tech="static analysis: event-list equality of straight-line SSA paths against defining equations; type-level witnesses"),
 "C14": dict(cat="other", ref="DESIGN.md section 4, C14/C15",
   text="Iterator protocol of every combinator of trait/seq as path constraints: nil-is-empty, eager positioning of constructors, Next protocols of takeWhile/filter/plus/join, map.Value, leaves, ForEach drain/first-error, user functions always fed the element the iterator is positioned on (phi-aware), no writes to source slices. List semantics at any nesting follows by induction on paper; the induction and user functions are not decided. typed-nil: no possibly-nil pointer is converted to the iterator interface (nil interface = empty). value-source: Value of every combinator that wraps an iterator is promoted through / forwarded to the wrapped iterator (a shadowing method declared in any file of the package is reported); only the mapping type computes its own.",
   note="assumes iterators are not aliased by their wrapper and are dead after Next returned false",
   tech="static analysis: path constraints with branch polarities over SSA, loop-carried value freshness, slice-write census"),
 "C15": dict(cat="other", ref="DESIGN.md section 4, C14/C15",
   text="Same protocol rules for trait/pair (incl. ToSeq/FromSeq), plus key/value pairing: Key, Value, Next resolve through the same embedded iterator (method-set resolution), Key never redefined, two-argument user functions receive (X.Key(), X.Value()) of one iterator X read after X's last Next. typed-nil: no possibly-nil pointer is converted to the iterator interface (nil interface = empty). value-source as in C14, for Value and Key.",
   note="assumes iterators are not aliased by their wrapper and are dead after Next returned false",
   tech="static analysis: path constraints over SSA + method-set resolution paths on go/types"),

 "C01": dict(cat="other", ref="DESIGN.md section 4, C01",
   text="Address term of every unsafe dereference in optics (base + L.Offset + L.RootOffs typed *A, four sibling methods agree), Put/Get effects, census of every unsafe.Pointer conversion in all packages, who-may-write census of hseq.Type.RootOffs/StructField with the offset-accumulation term of the unfolding recursion, positional pairing of ForProductN/ForSpectrumN/NewN/FMapN on type arguments, the type-identity guard, first-match lookups and the order of a selection by names (shared with C03). GetPut/PutGet/PutPut and 'neighbours untouched' for every layout follow on paper (reflect offsets along value embedding = compiler offsets; typed store writes sizeof(A)). construct-census (shared with C02): nothing but NewLens/NewReflector makes or re-types a lens.",
   note="assumes reflect reports true offsets and hseq.Type values are produced by hseq (public struct: clients are an assumption); thorough repeats under GOARCH=386/arm64",
   tech="static analysis: SSA address-term normalisation, unsafe/field-writer censuses over all packages, type-argument consistency on go/types"),
 "C02": dict(cat="other", ref="DESIGN.md section 4, C02",
   text="Construction census of the lens type, guard dominance and strength (type identity; container must be a struct) on every returning path of NewLens/NewReflector, loud lookups, dynamic *S assertion in Putt/Gett, pointer-strip taint into the offset recursion, interval of len(attr) at every attr[0:N]; 'reads and writes stay inside that field' through the address term of the four accessors and the offset-accumulation rules of the unfolding (shared with C01); positional hand-over of names / focus types by the ForProductN / ForSpectrumN / NewN families and exact first-match lookups (shared with C01 / C03). Known findings: D1 (pointer-embedded fields accepted) and D3 (16 reslice sites); D2 and D3b were repaired by fix: commits. panic-propagates: no function of hseq/optics recovers a panic and returns normally with a non-nil recovered value; interface-vs-nil comparisons of a converted concrete pointer are evaluated as the language defines them (never equal).",
   note="panic messages and reflect's behaviour are not decided",
   tech="static analysis: who-may-construct census, dominance of guard edges on cut-point paths, interval analysis, taint of reflect .Elem() results"),
 "C03": dict(cat="other", ref="DESIGN.md section 4, C03",
   text="Canonical field loop, exactly one append per iteration with the descent after it, consecutive IDs, descent condition, PureType, FieldKey, first-match lookups with exact matching, names order, positional FMap/NewN/FMapN, true offsets (shared with C01). The listing as a whole follows on paper by induction; reflect's field order is trusted. listing-immutable: no function of hseq stores into, sorts or copies onto a listing it was given.",
   note="assumes no struct embeds a pointer to itself (no cycle guard in the code; outside what the property can mean)",
   tech="static analysis: counted-loop recognition, loop-carried value provenance, path constraints on SSA terms"),

 "C05": dict(cat="other", ref="DESIGN.md section 4, C05",
   text="Per-iteration event constraints of every sequential stage, decided on all cut-point paths of the single stage goroutine (Map/FMap/Filter/TakeWhile/Take/Partition/Fold/ForEach/Void/Seq/ToSeq), Take's budget by interval analysis, Fold's accumulator provenance, one goroutine per stage, outputs closed on every exit; the wrappers built by Lift/Pure/LiftF/Try/TryF apply the user's function exactly once per call and return its result unchanged, Pure's closure analysed as re-entrant (its own captured state unknown on entry); Map / FMap enter the error hand-off exactly when the function reported an error. The list-image claim for every capacity and interleaving follows on paper from single goroutine + FIFO + exactly-once-per-iteration; schedules are not enumerated. ctor-leaves-inputs: the stage function itself performs no receive on its input channels. The monoid a caller builds with monoid.From/FromOp is the one Fold folds with (constructor rules shared with C10/C17).",
   note="assumes user functions terminate and do not touch the channels; Take's n >= 0; trusted: go/ssa, path engine, Go channel FIFO. Not decided: nothing is observed at run time.",
   tech="static analysis: cut-point path enumeration over SSA with event lists, branch polarities and infeasible-path pruning; interval analysis"),
 "C06": dict(cat="other", ref="DESIGN.md section 4, C06",
   text="Pairing/typestate/ownership: single closer and exactly one close on every exit after the last send (or after wg.Wait with Done-after-last-send and Add = spawn count), every blocking operation classified (range over input, select with the stage's ctx.Done arm that exits, capacity-accounted send, wg.Wait), every loop cycle has a cancellation point and an exit, catch's false edge exits, no panic source, nothing delivered after an observed cancel (1 known finding: pipe.Fold). Termination/closure for every interleaving follows on paper. spawn-channels: no goroutine is started, on any path of its parent, with a channel variable it operates on still nil. ctor-leaves-inputs: the stage function itself performs no receive on its input channels. The try-form catch hands the error over only in a select that has the <-ctx.Done() arm beside the send (it is the stage's only look at the context on the failure path); an assertion on a countdown is accepted as unreachable only when the interval analysis never finds its segment feasible; monoid constructor rules shared with C17 (a Combine that can panic inside Fold's goroutine).",
   note="assumes inputs are eventually closed and user functions return; pipe.New is covered by C08; goroutine dumps are not taken",
   tech="static analysis: typestate/ownership rules over cut-point paths of every spawned goroutine (SSA), closed-world summaries of the catch role"),
 "C07": dict(cat="other", ref="DESIGN.md section 4, C07",
   text="Shape of the error hand-off on every path of Emit/Map/FMap/Unfold (pipe) and Map/FMap (fork): exactly one catch(ctx, that error, the stage's exx), no output, no second application, false=>exit with nothing further received, sent, started or called, true=>loop head; Unfold delivers the seed before the step that may fail is applied to it; closed-world summaries of the eight catch/errch implementations tied to their exported constructors, pipe/fork sibling agreement, wrapper Apply = f(args). Which elements fail is a run-time quantity and is not enumerated.",
   note="closed world: F/FF have unexported methods; trusted: go/ssa, path engine",
   tech="static analysis: path rules on the error branch + summaries of interface implementations (closed world) + sibling cross-check"),
 "C09": dict(cat="other", ref="DESIGN.md section 4, C09",
   text="fork workers satisfy the per-iteration constraint of their pipe sibling (same rule template), receive only through one range loop, store to no captured variable (static no-data-race form), pool counting (Add = spawn trip count = par = accounted capacities), closes dominated by wg.Wait, C06 rule set on workers and closer, delegations forward to pipe with arguments in order, pipef maps kinds, the completion signal of ForEach / Void is ordered after every worker by the WaitGroup, a worker that meets a failing element hands it to catch and goes on or leaves as catch says, the constructors of package fork build the error-mode kind they promise. Completion orders / race detector are dynamic and not decided.",
   note="trusted: go/ssa, path engine, Go channel semantics (one receiver per value)",
   tech="static analysis: sibling cross-check of path constraints, who-may-write census on captured cells, counted-loop trip counts"),
 "C10": dict(cat="other", ref="DESIGN.md section 4, C10",
   text="Accumulator provenance (every value reaching Combine's first argument is the goroutine's own m.Empty() or a previous Combine), one Combine per element/partial, collector trip count = spawn count = wg.Add = cap(partials) = par, one partial per worker before Done, single result then close. Equality with the sequential fold follows on paper given the user's monoid laws.",
   note="assumes the monoid is associative/commutative with Empty as identity (premise); the genuine defect D7 (zero-value accumulator) was repaired by a fix: commit",
   tech="static analysis: reaching-definition/provenance of the accumulator over phis and cells, counted-loop trip counts"),
 "C11": dict(cat="other", ref="DESIGN.md section 4, C11",
   text="Unfold: send(seed) precedes the single Apply(seed), result becomes next seed; Emit: index from 0, +1 on every back edge, value = Apply(i), exactly one time.Sleep(frequency) before each application; closing rules; the closed-world catch implementations give up on cancellation (a Try function that keeps failing cannot hold the stage after cancel), Try / TryF build the kind that continues and Lift / Pure / LiftF the kind that stops, the error hand-off is entered exactly when the step function reported an error, the value channel has the requested capacity. Clock statements (k-th value not before k ticks) are NOT decided, only the pacing shape.",
   note="assumes time.Sleep(d) returns no earlier than d",
   tech="static analysis: loop-carried value stepping and must-pass-through over cut-point paths"),
 "C12": dict(cat="other", ref="DESIGN.md section 4, C12",
   text="Join: one copier per range element with wg.Add(len(in)) before the spawns, copier forwards each received element exactly once with a cancellable send, single closer after wg.Wait, Done after last send. Arrival orders are not decided. ctor-leaves-inputs: the stage function itself performs no receive on its input channels. fork.Join stays a plain forwarding of pipe.Join (delegation, shared with C09).",
   note="trusted: go/ssa, path engine, range-loop recognition",
   tech="static analysis: counted-loop/range recognition + path constraints + WaitGroup ordering"),
 "C13": dict(cat="other", ref="DESIGN.md section 4, C13",
   text="ONLY the structure of the token scheme: cap(ctl)=ops, ops cancellable token sends per cycle, exactly one time.After(interval) wait per cycle, one token then one cancellable send per element in order, outputs closed. The rate bound and every timing statement of the property are NOT decided (they quantify over a clock). ctor-leaves-inputs: the stage function itself performs no receive on its input channels. fork.Throttling stays a plain forwarding of pipe.Throttling (delegation, shared with C09).",
   note="rate not decided; assumes time.After(d) fires no earlier than d",
   tech="static analysis: counted-loop trip counts, must-pass-through, path constraints"),

 "C17": dict(cat="proof", ref="DESIGN.md section 4, C17",
   text="Complete static decision for the loop-free instance methods: ord.Compare's decision tree is evaluated under the three possible orderings (trichotomy) and must return LT/EQ/GT; Equal, ContraMap, From and the monoid constructors are matched as normalised SSA terms against their defining equations. All obligations must be discharged.",
   note="trusted: go/types, go/ssa (x/tools v0.50.0), Go spec for ==,<,> on int/string; floats (NaN) are outside the property (ord.Int/ord.String only)",
   tech="static analysis: SSA term normalisation + finite-domain evaluation of the comparison decision tree"),
 "C20": dict(cat="proof", ref="DESIGN.md section 4, C20",
   text="For each of the 19 PipeN functions the SSA term of the returned closure's result must be exactly f_N(...f_1(a)...) with the k-th parameter as k-th callee, exactly N calls and nothing else; helper extraction is followed by inlining. Plus type-level witnesses (in-memory transposed variants must be rejected by go/types).",
   note="trusted: go/types, go/ssa, Go call semantics; internal/pipe is staged into a temporary module because no module of the repository builds it",
   tech="static analysis: SSA def-use term of the returned closure + compile-fail witnesses via go/types"),
}
NA = {}

def main():
    checks = []
    for i in ids:
        if i not in CLAIMS: continue
        c = CLAIMS[i]
        checks.append({
          "property_id": i,
          "quick_cmd": f"./run.sh check {i} --tier quick",
          "thorough_cmd": f"./run.sh check {i} --tier thorough",
          "evidence_file": f"/verif/evidence/{i}.json",
          "replay_cmd_template": "./run.sh replay {path}",
          "engine": "golemcheck",
          "level_claimed": {"category": c["cat"], "text": c["text"], "design_ref": c["ref"]},
          "level_note": c["note"],
          "technique": c["tech"],
        })
    na = []
    for i in ids:
        if i in CLAIMS: continue
        na.append({"property_id": i, "reason": NA.get(i, "check under construction (see DESIGN.md section 4); not yet claimed")})
    fixes = []
    try:
        out = subprocess.run(["git","-C","/repo","log","--format=%H %s"],capture_output=True,text=True).stdout
        for l in out.splitlines():
            h, s = l.split(" ",1)
            if s.startswith("fix:"): fixes.append(h)
    except Exception: pass
    m = {"version": 1, "setup_cmd": "./setup.sh",
      "hooks": {"guard": "verif", "enable": "none needed: the checker only reads source; no hook or instrumentation is compiled into /repo (the tag is declared but unused)",
                "baseline_off_cmd": "for m in duct hseq optics pipe pure trait; do (cd /repo/$m && go test -mod=mod -vet=off -count=1 -timeout 25m ./...) || exit 1; done",
                "source_commits": fixes, "add_only": True},
      "engines": [{"name": "golemcheck", "path": "/verif/checker", "serves_properties": sorted(CLAIMS), "kind_free_text": "repository-specific static analyser over go/types + go/ssa: term normaliser, cut-point path extractor with event lists and infeasible-path pruning, dominance/interval/loop analyses, who-may censuses, type-level compile-fail witnesses"}],
      "checks": checks,
      "notes": "Technique family: static analysis only. Nothing in /repo is executed; every verdict is computed from the type-checked source and its SSA/CFG, loaded from the working tree on every run. See DESIGN.md.",
      "not_applicable": na}
    json.dump(m, open('/verif/MANIFEST.json','w'), indent=1)
main()
