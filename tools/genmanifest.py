#!/usr/bin/env python3
"""Regenerates /verif/MANIFEST.json from the claim table below."""
import json, subprocess
props = [json.loads(l) for l in open('/verif/properties.jsonl')]
ids = [p['id'] for p in props]

CLAIMS = {
 "C17": dict(cat="proof", ref="DESIGN.md section 4, C17",
   text="Complete static decision for the loop-free instance methods: ord.Compare's decision tree is evaluated under the three possible orderings (trichotomy) and must return LT/EQ/GT; Equal, ContraMap, From and the monoid constructors are matched as normalised SSA terms against their defining equations. All obligations must be discharged.",
   note="trusted: go/types, go/ssa (x/tools v0.50.0), Go spec for ==,<,> on int/string; floats (NaN) are outside the property (ord.Int/ord.String only)",
   tech="static analysis: SSA term normalisation + finite-domain evaluation of the comparison decision tree"),
 "C20": dict(cat="proof", ref="DESIGN.md section 4, C20",
   text="For each of the 19 PipeN functions the SSA term of the returned closure's result must be exactly f_N(...f_1(a)...) with the k-th parameter as k-th callee, exactly N calls and nothing else; helper extraction is followed by inlining. Plus type-level witnesses (in-memory transposed variants must be rejected by go/types).",
   note="trusted: go/types, go/ssa, Go call semantics; internal/pipe is staged into a temporary module because no module of the repository builds it",
   tech="static analysis: SSA def-use term of the returned closure + compile-fail witnesses via go/types"),
}
NA = {}

def main():
    checks = []
    for i in ids:
        if i not in CLAIMS: continue
        c = CLAIMS[i]
        checks.append({
          "property_id": i,
          "quick_cmd": f"./run.sh check {i} --tier quick",
          "thorough_cmd": f"./run.sh check {i} --tier thorough",
          "evidence_file": f"/verif/evidence/{i}.json",
          "replay_cmd_template": "./run.sh replay {path}",
          "engine": "golemcheck",
          "level_claimed": {"category": c["cat"], "text": c["text"], "design_ref": c["ref"]},
          "level_note": c["note"],
          "technique": c["tech"],
        })
    na = []
    for i in ids:
        if i in CLAIMS: continue
        na.append({"property_id": i, "reason": NA.get(i, "check under construction (see DESIGN.md section 4); not yet claimed")})
    fixes = []
    try:
        out = subprocess.run(["git","-C","/repo","log","--format=%H %s"],capture_output=True,text=True).stdout
        for l in out.splitlines():
            h, s = l.split(" ",1)
            if s.startswith("fix:"): fixes.append(h)
    except Exception: pass
    m = {"version": 1, "setup_cmd": "./setup.sh",
      "hooks": {"guard": "verif", "enable": "none needed: the checker only reads source; no hook or instrumentation is compiled into /repo (the tag is declared but unused)",
                "baseline_off_cmd": "for m in duct hseq optics pipe pure trait; do (cd /repo/$m && go test -mod=mod -vet=off -count=1 -timeout 25m ./...) || exit 1; done",
                "source_commits": fixes, "add_only": True},
      "engines": [{"name": "golemcheck", "path": "/verif/checker", "serves_properties": sorted(CLAIMS), "kind_free_text": "repository-specific static analyser over go/types + go/ssa: term normaliser, cut-point path extractor with event lists and infeasible-path pruning, dominance/interval/loop analyses, who-may censuses, type-level compile-fail witnesses"}],
      "checks": checks,
      "notes": "Technique family: static analysis only. Nothing in /repo is executed; every verdict is computed from the type-checked source and its SSA/CFG, loaded from the working tree on every run. See DESIGN.md.",
      "not_applicable": na}
    json.dump(m, open('/verif/MANIFEST.json','w'), indent=1)
main()
