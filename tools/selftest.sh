#!/bin/sh
# selftest.sh [-j N] : test the checker both ways against scratch copies of /repo (outside /repo and /verif, removed afterwards):
#   firing : every seeded change (seeded/*/patch.diff) and every hand-made broken variant (fixtures/firing/*.diff)
#            must be reported by at least one check (for seeds: the checks recorded in meta.json are printed);
#   silent : every behaviour-preserving variant (fixtures/silent/*.diff) must leave every check silent.
# Prints one line per variant and a summary; exit 1 if a firing variant is missed or a silent variant raises an alarm.
# A patch that no longer applies to the current tree is reported as STALE and not counted.
J=8
[ "$1" = "-j" ] && { J=$2; shift 2; }
cd /verif || exit 2
./run.sh list >/dev/null 2>&1
ids=$(/verif/bin/golemcheck list)
tmp=$(mktemp /tmp/selftest.XXXXXX)
{
  for p in /verif/seeded/*/patch.diff /verif/fixtures/firing/*.diff; do [ -f "$p" ] && echo "firing $p"; done
  for p in /verif/fixtures/silent/*.diff; do [ -f "$p" ] && echo "silent $p"; done
} > "$tmp.list"
ids="$ids" xargs -P "$J" -L 1 sh -c '
  kind=$0; p=$1
  out=$(/verif/tools/mutest.sh "$p" $ids 2>&1)
  if echo "$out" | grep -q PATCH-FAILED; then echo "STALE  $kind $p"; exit 0; fi
  fired=$(echo "$out" | grep "^VIOLATION" | sed "s/.*property=\([A-Z0-9]*\).*rule=\([a-z0-9-]*\).*/\1:\2/" | sort -u | tr "\n" " ")
  if [ "$kind" = firing ]; then
    if [ -n "$fired" ]; then echo "OK     firing $p => $fired"; else echo "MISSED firing $p"; fi
  else
    if [ -z "$fired" ]; then echo "OK     silent $p"; else echo "ALARM  silent $p => $fired"; fi
  fi
' < "$tmp.list" | sort > "$tmp"
cat "$tmp"
ok=$(grep -c '^OK' "$tmp"); miss=$(grep -c '^MISSED' "$tmp"); alarm=$(grep -c '^ALARM' "$tmp"); stale=$(grep -c '^STALE' "$tmp")
echo "selftest: $ok ok, $miss missed, $alarm false alarms, $stale stale"
rm -f "$tmp" "$tmp.list"
[ "$miss" -eq 0 ] && [ "$alarm" -eq 0 ]
