#!/bin/sh
# dbgtree.sh <patch.diff> : make /tmp/dbg/repo = /repo + patch (scratch copy for debugging a single variant; remove with rm -rf /tmp/dbg)
rm -rf /tmp/dbg; mkdir -p /tmp/dbg/out
rsync -a --exclude .git /repo/ /tmp/dbg/repo/
cd /tmp/dbg/repo && (git apply --unsafe-paths -p1 "$1" 2>/dev/null || patch -s -p1 < "$1") || echo PATCH-FAILED
echo "VERIF_REPO=/tmp/dbg/repo VERIF_OUT=/tmp/dbg/out /verif/bin/golemcheck ..."
