#!/bin/sh
# Build the checker offline from /verif/checker (go1.26.8 + x/tools v0.50.0 from the module cache).
set -e
cd "$(dirname "$0")/checker"
export GOFLAGS=-mod=mod GOPROXY=off GOSUMDB=off GOTOOLCHAIN=local CGO_ENABLED=0
export PATH=/opt/veriftools/go1.26.8/bin:$PATH
unset GOWORK
mkdir -p ../bin ../evidence
go build -o ../bin/golemcheck .
echo "built $(cd .. && pwd)/bin/golemcheck"
