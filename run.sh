#!/bin/sh
# Entry point of every registered command: (re)builds the checker when its sources are newer, then runs it.
cd "$(dirname "$0")"
if [ ! -x bin/golemcheck ] || [ -n "$(find checker -newer bin/golemcheck -name '*.go' -print -quit 2>/dev/null)" ]; then
  ./setup.sh >/dev/null || { echo "setup failed"; exit 2; }
fi
exec bin/golemcheck "$@"
