package d3

import (
	"testing"

	"github.com/fogfish/golem/optics"
)

type P struct {
	A int
	B int
}

// Too few names must panic. With spare capacity in the caller's slice, attr[0:2] silently re-extends
// the slice over a stale name and two lenses are derived from one given name.
func TestTooFewNamesPanics(t *testing.T) {
	all := []string{"A", "B"}
	defer func() {
		if r := recover(); r == nil {
			t.Fatalf("ForProduct2 accepted a single name")
		}
	}()
	a, b := optics.ForProduct2[P, int, int](all[:1]...)
	p := &P{A: 1, B: 2}
	t.Logf("derived two lenses from one name: %d %d", a.Get(p), b.Get(p))
}
