package d1

import (
	"testing"

	"github.com/fogfish/golem/optics"
)

type Inner struct {
	X int
	Y int
}

type Outer struct {
	A int
	*Inner
	B int
	C int
}

// Y is reached through the embedded *Inner. hseq.unfold lists it with RootOffs = offset(Inner pointer)
// and Offset = offset of Y inside Inner, as if Inner were inline; the lens then addresses the outer
// struct's own memory (field B/C) instead of the pointed-to Inner.Y. Derivation must panic instead.
func TestPointerEmbeddedFieldRejected(t *testing.T) {
	o := &Outer{A: 1, Inner: &Inner{X: 10, Y: 20}, B: 2, C: 3}
	defer func() {
		if r := recover(); r == nil {
			t.Fatalf("lens for Y behind an embedded pointer was derived; B=%d C=%d Inner.Y=%d", o.B, o.C, o.Inner.Y)
		}
	}()
	l := optics.ForProduct1[Outer, int]("Y")
	got := l.Get(o)
	l.Put(o, 99)
	t.Logf("Get returned %d (Inner.Y is 20); after Put(99): B=%d C=%d Inner.Y=%d", got, o.B, o.C, o.Inner.Y)
}
