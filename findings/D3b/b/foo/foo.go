package foo

// T prints as "foo.T" too, and a/foo.T is assignable to it.
type T interface{ M() }
