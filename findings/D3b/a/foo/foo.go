package foo

// T is a one-word struct that implements b/foo.T.
type T struct{ X int }

func (T) M() {}
