package d3b

import (
	"testing"

	afoo "d3b/a/foo"
	bfoo "d3b/b/foo"

	"github.com/fogfish/golem/optics"
)

type Doc struct {
	Body  afoo.T // one word
	Guard int    // must never be touched by a lens on Body
}

// Deriving a lens with focus type b/foo.T (an interface, two words) for a field whose declared
// type is a/foo.T (a struct, one word) must panic: the types are not identical.
func TestFocusTypeIdentity(t *testing.T) {
	defer func() {
		if r := recover(); r == nil {
			t.Fatalf("ForProduct1[Doc, b/foo.T](\"Body\") was accepted although Body has type a/foo.T")
		}
	}()
	l := optics.ForProduct1[Doc, bfoo.T]("Body")
	d := &Doc{Body: afoo.T{X: 1}, Guard: 42}
	l.Put(d, afoo.T{X: 7})
	if d.Guard != 42 {
		t.Logf("neighbour overwritten: Guard = %d", d.Guard)
	}
}
