module d3b

go 1.22

require github.com/fogfish/golem/optics v0.0.0
require github.com/fogfish/golem/hseq v1.3.0

replace github.com/fogfish/golem/optics => /repo/optics
