package d2

import (
	"testing"

	"github.com/fogfish/golem/optics"
)

type P struct {
	A int
	B int
}

// A container type parameter that is a pointer to a struct must be rejected at derivation time:
// hseq unfolds *P like P, but the lens for container *P takes a **P and would add the field offset
// to the address of the pointer variable.
func TestPointerContainerRejected(t *testing.T) {
	defer func() {
		if r := recover(); r == nil {
			t.Fatalf("ForProduct1[*P, int](\"B\") was accepted")
		}
	}()
	_ = optics.ForProduct1[*P, int]("B")
}
