module d5

go 1.24

require github.com/fogfish/golem/pipe/v2 v2.0.0

require github.com/fogfish/golem/pure v0.10.1 // indirect

replace github.com/fogfish/golem/pipe/v2 => /repo/pipe
