// D5: closing the send side of pipe.New must be a clean end of stream. Today the pump observes the
// close (ok == false), returns, and its deferred close(in) closes the channel a second time:
// the whole process dies with "panic: close of closed channel" and the backlog is dropped.
// Exit status 0 = property holds (all values delivered, receive side closed), 2 = crashed.
package main

import (
	"context"
	"fmt"
	"os"
	"time"

	"github.com/fogfish/golem/pipe/v2"
)

func main() {
	rcv, snd := pipe.New[int](context.Background(), 0)
	for i := 0; i < 5; i++ {
		snd <- i
	}
	close(snd)
	got := []int{}
	timeout := time.After(2 * time.Second)
	for {
		select {
		case v, ok := <-rcv:
			if !ok {
				fmt.Println("received", got)
				if len(got) != 5 {
					os.Exit(1)
				}
				return
			}
			got = append(got, v)
		case <-timeout:
			fmt.Println("timeout; received", got)
			os.Exit(1)
		}
	}
}
