// D6: after cancel every value whose send had completed must still be delivered. With capacity 8 the
// eight sends complete into the send-side buffer; on cancel the pump flushes only its queue and
// closes, so values still sitting in that buffer are lost.
package main

import (
	"context"
	"fmt"
	"os"
	"time"

	"github.com/fogfish/golem/pipe/v2"
)

func main() {
	bad := 0
	for round := 0; round < 50; round++ {
		ctx, cancel := context.WithCancel(context.Background())
		rcv, snd := pipe.New[int](ctx, 8)
		for i := 0; i < 8; i++ {
			snd <- i // completes at once: buffered
		}
		cancel()
		got := 0
		deadline := time.After(time.Second)
	loop:
		for {
			select {
			case _, ok := <-rcv:
				if !ok {
					break loop
				}
				got++
			case <-deadline:
				break loop
			}
		}
		if got != 8 {
			bad++
			if bad == 1 {
				fmt.Printf("round %d: 8 sends completed before cancel, receiver got %d\n", round, got)
			}
		}
	}
	if bad > 0 {
		fmt.Printf("%d/50 rounds lost completed sends\n", bad)
		os.Exit(1)
	}
}
