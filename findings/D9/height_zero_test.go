package skiplist

// Witness for D9 (triage only, not part of any check): a new node can get height 0 and is then never linked.
// mkNode draws p := float64(Int63()) / (1 << 63); for draws >= 2^63-512 the conversion rounds up to 2^63, so p == 1.0,
// the first test `p < list.p[0]` (= 1.0) fails, the node gets 0 fingers, Put's splice loop runs 0 times: the key is lost.
// Run by run.sh in a staged copy of internal/maplike (package-internal test: it replaces the list's random source).

import (
	"math"
	"testing"

	"github.com/fogfish/golem/pure/ord"
)

type fixed int64

func (f fixed) Int63() int64 { return int64(f) }
func (f fixed) Seed(int64)   {}

func TestHeightZeroLosesKey(t *testing.T) {
	kv := New[int, string](ord.Int).(*tSkipList[int, string])
	kv.random = fixed(math.MaxInt64)
	kv.Put(7, "seven")
	if got := kv.Get(7); got != "seven" {
		t.Fatalf("Put(7, seven); Get(7) = %q: the key is lost (node of height 0)", got)
	}
}
