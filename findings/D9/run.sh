#!/bin/sh
# run.sh [repo-root] : stages internal/maplike of the given tree (default /repo) as module github.com/fogfish/golem in a
# temp dir, adds the witness test and runs it. exit 0 = Put/Get round trip holds, non-zero = key lost.
repo=${1:-/repo}
here=$(cd "$(dirname "$0")" && pwd)
export GOFLAGS=-mod=mod GOPROXY=off GOSUMDB=off GOTOOLCHAIN=local PATH=/opt/veriftools/go1.26.8/bin:$PATH
unset GOWORK
tmp=$(mktemp -d /tmp/d9.XXXXXX); trap 'rm -rf "$tmp"' EXIT
mkdir -p "$tmp/maplike/skiplist"
cp "$repo"/internal/maplike/*.go "$tmp/maplike/" 2>/dev/null
cp "$repo"/internal/maplike/skiplist/*.go "$tmp/maplike/skiplist/"
rm -f "$tmp"/maplike/skiplist/*_test.go
cp "$here/height_zero_test.go" "$tmp/maplike/skiplist/"
cat > "$tmp/go.mod" <<EOF
module github.com/fogfish/golem
go 1.24
require github.com/fogfish/golem/pure v0.0.0
replace github.com/fogfish/golem/pure => $repo/pure
EOF
cp "$repo/pure/go.sum" "$tmp/go.sum" 2>/dev/null
cd "$tmp" && go test -count=1 ./maplike/skiplist/
