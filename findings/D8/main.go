// D8: what a stage delivers must be a prefix of its uncancelled result. pipe.Fold sends its accumulator
// from a deferred closure, which also runs on the cancel exit: cancelled after the first of 1,2,3 the
// result channel yields the partial sum 1 (or 3), the uncancelled result is [6].
package main

import (
	"context"
	"fmt"
	"os"

	"github.com/fogfish/golem/pipe/v2"
	"github.com/fogfish/golem/pure/monoid"
)

func main() {
	ctx, cancel := context.WithCancel(context.Background())
	in := make(chan int)
	out := pipe.Fold(ctx, in, monoid.FromOp(0, func(a, b int) int { return a + b }))
	in <- 1
	cancel()
	// keep offering: the stage may take one more element before it polls ctx
	select {
	case in <- 2:
	default:
	}
	v, ok := <-out
	if ok && v != 6 {
		fmt.Printf("cancelled Fold delivered the partial result %d (uncancelled result is 6)\n", v)
		os.Exit(1)
	}
}
