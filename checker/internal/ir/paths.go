package ir

import (
	"fmt"
	"go/token"
	"go/types"
	"os"
	"sort"
	"strconv"
	"strings"
	"sync"

	"golang.org/x/tools/go/ssa"
)

// ---------------------------------------------------------------------------
// Events

type Kind int

const (
	KSend Kind = iota
	KRecv
	KClose
	KSelect
	KCall
	KGo
	KDefer
	KStore
	KMapUpdate
	KBranch
	KReturn
	KPanic
	KEnter // entering an inlined callee (informational)
	KLeave
)

func (k Kind) String() string {
	return [...]string{"send", "recv", "close", "select", "call", "go", "defer", "store", "mapupdate", "branch", "return", "panic", "enter", "leave"}[k]
}

type SelArm struct {
	Send bool
	Chan *Term
	Val  *Term // value sent (send arms)
}

type Step struct {
	Kind    Kind
	Instr   ssa.Instruction
	Fn      *ssa.Function // function containing Instr
	Depth   int           // inline depth (0 = root)
	Chain   string        // root function and the call sites through which the frame of Instr was inlined
	InDefer bool          // executed while running deferred calls

	// operands; meaning by kind:
	//  send: A[0]=chan A[1]=value        recv: A[0]=chan, R=result (tuple if CommaOk)
	//  close: A[0]=chan                  store: A[0]=addr A[1]=value
	//  call/go/defer: Callee, A=args (invoke: A[0]=receiver), R=result
	//  mapupdate: A[0]=map A[1]=key A[2]=value
	//  branch: Atom, Pol                 return: A=results   panic: A[0]
	A      []*Term
	R      *Term
	Callee *Term       // dynamic callee term / fn term / builtin
	Method *types.Func // invoke: interface method
	Static *ssa.Function
	// InstArgs: type arguments of the (static or function-valued) callee as called, expressed in the types of the
	// analysed root function
	InstArgs []types.Type

	// select
	Arms     []SelArm
	Chosen   int // arm index, -1 = default
	Blocking bool
	CommaOk  bool

	// branch
	Atom *Term
	Pol  bool

	// go: snapshot of the state for analysing the spawned function
	Snap *State

	LocalStore bool // store into a cell allocated on this very path (e.g. composite literal construction)
}

func (s *Step) Pos() token.Pos {
	if s.Instr != nil {
		if p := s.Instr.Pos(); p.IsValid() {
			return p
		}
		// fall back to something in the same block with a position
		if b := s.Instr.Block(); b != nil {
			for _, in := range b.Instrs {
				if in.Pos().IsValid() {
					return in.Pos()
				}
			}
		}
	}
	if s.Fn != nil {
		return s.Fn.Pos()
	}
	return token.NoPos
}

// CalleeName gives a printable, resolution-based name of the callee.
func (s *Step) CalleeName() string {
	switch {
	case s.Method != nil:
		return "(" + shortType(s.Method.Type().(*types.Signature).Recv().Type()) + ")." + s.Method.Name()
	case s.Static != nil:
		return FuncName(s.Static)
	case s.Callee != nil:
		return s.Callee.Key()
	}
	return "?"
}

func shortType(t types.Type) string {
	s := types.TypeString(t, func(p *types.Package) string { return p.Name() })
	return s
}

func (s Step) String() string {
	var b strings.Builder
	if s.InDefer {
		b.WriteString("deferred ")
	}
	b.WriteString(s.Kind.String())
	switch s.Kind {
	case KBranch:
		fmt.Fprintf(&b, " %v is %v", s.Atom, s.Pol)
	case KSelect:
		fmt.Fprintf(&b, " blocking=%v chosen=%d arms=[", s.Blocking, s.Chosen)
		for i, a := range s.Arms {
			if i > 0 {
				b.WriteString("; ")
			}
			if a.Send {
				fmt.Fprintf(&b, "%v <- %v", a.Chan, a.Val)
			} else {
				fmt.Fprintf(&b, "<-%v", a.Chan)
			}
		}
		b.WriteString("]")
	case KCall, KGo, KDefer:
		fmt.Fprintf(&b, " %s(", s.CalleeName())
		for i, a := range s.A {
			if i > 0 {
				b.WriteString(", ")
			}
			b.WriteString(a.Key())
		}
		b.WriteString(")")
	default:
		for _, a := range s.A {
			b.WriteString(" ")
			b.WriteString(a.Key())
		}
	}
	return b.String()
}

// ---------------------------------------------------------------------------
// State

type deferRec struct {
	instr   *ssa.Defer
	callee  *Term // closure/fn term or nil
	static  *ssa.Function
	method  *types.Func
	args    []*Term
	builtin string
}

func (d *deferRec) key() string {
	s := d.builtin
	if d.static != nil {
		s += FuncName(d.static)
	}
	if d.callee != nil {
		s += d.callee.Key()
	}
	if d.method != nil {
		s += d.method.FullName()
	}
	for _, a := range d.args {
		s += "," + a.Key()
	}
	return s
}

type frame struct {
	fn       *ssa.Function
	env      map[ssa.Value]*Term
	id       string
	retBlock *ssa.BasicBlock
	retIdx   int
	retVal   ssa.Value // value in the caller to bind the result to (nil for deferred calls)
	defers   []*deferRec
	inDefer  bool
	// tsub: the callee's type parameters as the caller's types (inlined instances of generic functions)
	tsub map[*types.TypeParam]types.Type
}

// ty expresses a type of this frame's function in the terms of the analysed root function.
func (f *frame) ty(t types.Type) types.Type {
	if len(f.tsub) == 0 || t == nil {
		return t
	}
	return substType(t, f.tsub, 0)
}

func substType(t types.Type, m map[*types.TypeParam]types.Type, depth int) types.Type {
	if depth > 8 {
		return t
	}
	switch x := t.(type) {
	case *types.TypeParam:
		if r, ok := m[x]; ok {
			return r
		}
	case *types.Pointer:
		if e := substType(x.Elem(), m, depth+1); e != x.Elem() {
			return types.NewPointer(e)
		}
	case *types.Slice:
		if e := substType(x.Elem(), m, depth+1); e != x.Elem() {
			return types.NewSlice(e)
		}
	case *types.Array:
		if e := substType(x.Elem(), m, depth+1); e != x.Elem() {
			return types.NewArray(e, x.Len())
		}
	case *types.Chan:
		if e := substType(x.Elem(), m, depth+1); e != x.Elem() {
			return types.NewChan(x.Dir(), e)
		}
	case *types.Map:
		k, e := substType(x.Key(), m, depth+1), substType(x.Elem(), m, depth+1)
		if k != x.Key() || e != x.Elem() {
			return types.NewMap(k, e)
		}
	case *types.Named:
		ta := x.TypeArgs()
		if ta == nil || ta.Len() == 0 {
			return t
		}
		args := make([]types.Type, ta.Len())
		changed := false
		for i := range args {
			args[i] = substType(ta.At(i), m, depth+1)
			if args[i] != ta.At(i) {
				changed = true
			}
		}
		if changed {
			if r, err := types.Instantiate(nil, x.Origin(), args, false); err == nil {
				return r
			}
		}
	}
	return t
}

type memEntry struct {
	addr *Term
	val  *Term
	seq  int
}

type State struct {
	frames []*frame
	mem    map[string]*memEntry
	seq    int
	facts  map[string]bool
	steps  []Step
	fresh  map[string]bool // alloc keys created on this path
	// dyn: the concrete type a term was given when it was converted to an interface (shared by all clones: a fact
	// about the term, not about the path). Lets an invocation on a locally built collaborator be resolved.
	dyn map[string][]types.Type
}

func NewState() *State {
	return &State{mem: map[string]*memEntry{}, facts: map[string]bool{}, fresh: map[string]bool{}, dyn: map[string][]types.Type{}}
}

func (s *State) Clone() *State {
	n := &State{mem: make(map[string]*memEntry, len(s.mem)), facts: make(map[string]bool, len(s.facts)), seq: s.seq, fresh: make(map[string]bool, len(s.fresh)), dyn: s.dyn}
	for k, v := range s.mem {
		n.mem[k] = v
	}
	for k, v := range s.facts {
		n.facts[k] = v
	}
	for k, v := range s.fresh {
		n.fresh[k] = v
	}
	n.steps = append([]Step(nil), s.steps...)
	for _, f := range s.frames {
		nf := *f
		nf.env = make(map[ssa.Value]*Term, len(f.env))
		for k, v := range f.env {
			nf.env[k] = v
		}
		nf.defers = append([]*deferRec(nil), f.defers...)
		n.frames = append(n.frames, &nf)
	}
	return n
}

// JoinSnapshots: the state in which a goroutine started by one `go` statement is analysed when that statement is
// reached on several paths of its parent: what all paths agree on is kept, a cell whose content differs between them
// (a parameter clamped on one path only, a channel made on one path only) is unknown. nil when snaps is empty.
func JoinSnapshots(snaps []*State) *State {
	var base *State
	for _, sn := range snaps {
		if sn != nil {
			base = sn
			break
		}
	}
	if base == nil {
		return nil
	}
	j := base.Clone()
	for _, sn := range snaps {
		if sn == nil || sn == base {
			continue
		}
		keys := map[string]bool{}
		for k := range j.mem {
			keys[k] = true
		}
		for k := range sn.mem {
			keys[k] = true
		}
		for k := range keys {
			a, b := j.mem[k], sn.mem[k]
			switch {
			case a != nil && b != nil && a.val != nil && b.val != nil && a.val.Key() == b.val.Key():
			case a != nil:
				j.havoc(a.addr, "spawn-join")
			case b != nil:
				j.havoc(b.addr, "spawn-join")
			}
		}
	}
	return j
}

// EachMem visits every known memory cell (address term, content term).
func (s *State) EachMem(f func(addr, val *Term)) {
	if s == nil {
		return
	}
	keys := make([]string, 0, len(s.mem))
	for k := range s.mem {
		keys = append(keys, k)
	}
	sort.Strings(keys)
	for _, k := range keys {
		f(s.mem[k].addr, s.mem[k].val)
	}
}

// knownValue: a returned value the path condition has already decided - a boolean that was branched on, a
// reference that was compared with nil and found nil - is that constant (`has = f(x); if !has {..}; return has`).
func (s *State) knownValue(t *Term, typ types.Type) *Term {
	if t == nil || t.IsConst() || typ == nil {
		return t
	}
	switch u := typ.Underlying().(type) {
	case *types.Basic:
		if u.Info()&types.IsBoolean != 0 {
			atom, pol := Atom(t)
			if v, ok := s.facts[atom.Key()]; ok {
				return boolT(v == pol)
			}
		}
	case *types.Pointer, *types.Interface, *types.Slice, *types.Map, *types.Chan, *types.Signature:
		atom, pol := Atom(mkBin("==", t, Nil))
		if atom.IsConst() {
			return t
		}
		if v, ok := s.facts[atom.Key()]; ok && v == pol {
			return &Term{Op: "const", Aux: "nil", Typ: typ}
		}
	}
	return t
}

// Fact returns the recorded truth of a branch atom in this state.
func (s *State) Fact(atom *Term) (val, known bool) {
	if s == nil {
		return false, false
	}
	v, ok := s.facts[atom.Key()]
	return v, ok
}

// Reg returns the term bound to an SSA value in the root frame (nil if none).
func (s *State) Reg(v ssa.Value) *Term {
	if s == nil || len(s.frames) == 0 {
		return nil
	}
	for i := len(s.frames) - 1; i >= 0; i-- {
		if t, ok := s.frames[i].env[v]; ok {
			return t
		}
	}
	return nil
}

func (s *State) top() *frame { return s.frames[len(s.frames)-1] }

// Poke records val as the contents of addr in a state that is being prepared as the start of an analysis (the cell a
// recursive function literal is assigned to holds that very closure).
func (s *State) Poke(addr, val *Term) { s.store(addr, val) }

// Mem returns the current symbolic contents of addr (nil if unknown).
func (s *State) MemAt(addr *Term) *Term { return s.load(addr, "q") }

// DynType: the concrete type term t had when it was converted to an interface on the analysed paths (nil if it
// never was).
func (s *State) DynType(t *Term) types.Type {
	if s == nil || s.dyn == nil || t == nil {
		return nil
	}
	ts := s.dyn[t.Key()]
	if len(ts) != 1 {
		return nil
	}
	return ts[0]
}

// dynMethod: the method implementing interface method m on the receiver term recv, when the conversions recorded for
// that term leave exactly one concrete type that has such a method (one term can be converted more than once: a
// string parameter as a named string type with methods here, as a plain string for a message there).
func (s *State) dynMethod(prog *ssa.Program, recv *Term, m *types.Func) *ssa.Function {
	if s == nil || s.dyn == nil || recv == nil {
		return nil
	}
	var found *ssa.Function
	n := 0
	for _, t := range s.dyn[recv.Key()] {
		if prog.MethodSets.MethodSet(t).Lookup(m.Pkg(), m.Name()) == nil {
			continue
		}
		n++
		found = concreteMethod(prog, t, m)
	}
	if n != 1 {
		return nil
	}
	return found
}

func (s *State) recordDyn(t *Term, typ types.Type) {
	k := t.Key()
	for _, o := range s.dyn[k] {
		if types.Identical(o, typ) {
			return
		}
	}
	s.dyn[k] = append(s.dyn[k], typ)
}

// addrParent: faddr/iaddr -> base
func addrParent(a *Term) *Term {
	if a.Op == "faddr" || a.Op == "iaddr" {
		return a.Args[0]
	}
	return nil
}

func (s *State) store(addr, val *Term) {
	s.seq++
	k := addr.Key()
	// a whole-object store supersedes sub-entries
	for mk, e := range s.mem {
		if mk != k && isSubAddr(e.addr, addr) {
			delete(s.mem, mk)
		}
	}
	s.mem[k] = &memEntry{addr: addr, val: val, seq: s.seq}
}

func isSubAddr(a, base *Term) bool {
	bk := base.Key()
	for p := addrParent(a); p != nil; p = addrParent(p) {
		if p.Key() == bk {
			return true
		}
	}
	return false
}

func (s *State) havoc(addr *Term, tag string) {
	k := addr.Key()
	for mk, e := range s.mem {
		if mk == k || isSubAddr(e.addr, addr) {
			delete(s.mem, mk)
		}
	}
	s.seq++
	s.mem[k] = &memEntry{addr: addr, val: &Term{Op: "load", Aux: tag, Args: []*Term{addr}}, seq: s.seq}
}

// ReentrantState: the state in which a function value that may be called any number of times is analysed - the root
// state for fn with the given bindings and memory, where every captured variable that fn itself (or a function
// literal inside it) assigns is unknown: what an earlier call left there is not what the constructor put there.
func ReentrantState(fn *ssa.Function, bindings []*Term, mem *State) *State {
	st := NewRootState(fn, nil, bindings, mem)
	st.facts = map[string]bool{}
	written := writtenFreeVars(fn)
	for i := range fn.FreeVars {
		if written[i] && i < len(bindings) && bindings[i] != nil && bindings[i].Op == "alloc" {
			st.havoc(bindings[i], "reentry")
		}
	}
	return st
}

// writtenFreeVars: the indices of fn's free variables that fn itself, or a function literal inside it, assigns.
func writtenFreeVars(fn *ssa.Function) map[int]bool {
	written := map[int]bool{}
	var scan func(f *ssa.Function, fvIndex map[ssa.Value]int)
	scan = func(f *ssa.Function, fvIndex map[ssa.Value]int) {
		for _, b := range f.Blocks {
			for _, in := range b.Instrs {
				switch in := in.(type) {
				case *ssa.Store:
					if i, ok := fvIndex[in.Addr]; ok {
						written[i] = true
					}
				case *ssa.MakeClosure:
					inner, _ := in.Fn.(*ssa.Function)
					if inner == nil {
						continue
					}
					m := map[ssa.Value]int{}
					for j, bv := range in.Bindings {
						if i, ok := fvIndex[bv]; ok && j < len(inner.FreeVars) {
							m[inner.FreeVars[j]] = i
						}
					}
					if len(m) > 0 {
						scan(inner, m)
					}
				}
			}
		}
	}
	idx := map[ssa.Value]int{}
	for i, fv := range fn.FreeVars {
		idx[fv] = i
	}
	scan(fn, idx)
	return written
}

func (s *State) load(addr *Term, ver string) *Term {
	k := addr.Key()
	if e, ok := s.mem[k]; ok {
		// overlay later sub-entries (composite literal construction)
		var subs []*memEntry
		for _, se := range s.mem {
			if se.seq > e.seq && addrParent(se.addr) != nil && addrParent(se.addr).Key() == k && subName(se.addr) != "" {
				subs = append(subs, se)
			}
		}
		if len(subs) == 0 {
			return e.val
		}
		sort.Slice(subs, func(i, j int) bool { return subName(subs[i].addr) < subName(subs[j].addr) })
		var kvs []*Term
		for _, se := range subs {
			// nested literal fields / elements
			v := s.load(se.addr, ver)
			kvs = append(kvs, &Term{Op: "kv", Aux: subName(se.addr), Args: []*Term{v}})
		}
		return overlay(e.val, kvs)
	}
	// sub-entries without a whole entry
	var subs []*memEntry
	for _, se := range s.mem {
		if p := addrParent(se.addr); p != nil && p.Key() == k && se.addr.Op == "faddr" {
			subs = append(subs, se)
		}
	}
	if p := addrParent(addr); p != nil {
		pv := s.loadParent(p)
		if pv != nil {
			if addr.Op == "faddr" {
				return fieldOf(pv, addr.Aux)
			}
			return indexOf(pv, addr.Args[1])
		}
	}
	if len(subs) > 0 {
		sort.Slice(subs, func(i, j int) bool { return subs[i].addr.Aux < subs[j].addr.Aux })
		var kvs []*Term
		for _, se := range subs {
			kvs = append(kvs, &Term{Op: "kv", Aux: se.addr.Aux, Args: []*Term{s.load(se.addr, ver)}})
		}
		return overlay(&Term{Op: "load", Aux: "0", Args: []*Term{addr}}, kvs)
	}
	return &Term{Op: "load", Aux: "0", Args: []*Term{addr}}
}

// loadParent returns the whole-value of p only when an entry for p (or one of
// its ancestors) exists; nil otherwise.
func (s *State) loadParent(p *Term) *Term {
	if e, ok := s.mem[p.Key()]; ok {
		_ = e
		return s.load(p, "p")
	}
	if pp := addrParent(p); pp != nil {
		v := s.loadParent(pp)
		if v != nil {
			if p.Op == "faddr" {
				return fieldOf(v, p.Aux)
			}
			return indexOf(v, p.Args[1])
		}
	}
	return nil
}

// overlay builds the struct value "base with the given fields replaced".
// A literal base is merged; any other base is kept as a leading "base" argument.
func overlay(base *Term, kvs []*Term) *Term {
	if base == nil || base.Op == "const" && strings.HasPrefix(base.Aux, "zero") {
		out := &Term{Op: "lit", Args: kvs}
		if base != nil {
			out.Typ = base.Typ
		}
		return out
	}
	if base.Op == "lit" {
		merged := map[string]*Term{}
		var baseArg *Term
		for _, a := range base.Args {
			if a.Op == "base" {
				baseArg = a
			} else {
				merged[a.Aux] = a
			}
		}
		for _, kv := range kvs {
			merged[kv.Aux] = kv
		}
		names := make([]string, 0, len(merged))
		for n := range merged {
			names = append(names, n)
		}
		sort.Strings(names)
		out := &Term{Op: "lit", Typ: base.Typ}
		if baseArg != nil {
			out.Args = append(out.Args, baseArg)
		}
		for _, n := range names {
			out.Args = append(out.Args, merged[n])
		}
		return out
	}
	return &Term{Op: "lit", Args: append([]*Term{{Op: "base", Args: []*Term{base}}}, kvs...)}
}

// subName: the key under which a sub-cell of a composite value is recorded in a literal term - the field name,
// or "#k" for the element with constant index k ("" when the sub-address has no such name).
func subName(a *Term) string {
	switch a.Op {
	case "faddr":
		return a.Aux
	case "iaddr":
		if k, ok := a.Args[1].IntConst(); ok {
			return "#" + strconv.FormatInt(k, 10)
		}
	}
	return ""
}

// indexOf: element idx of the array value v (resolved when v is a literal built on this path and idx a constant).
func indexOf(v, idx *Term) *Term {
	if k, ok := idx.IntConst(); ok {
		name := "#" + strconv.FormatInt(k, 10)
		switch {
		case v.Op == "lit":
			r := fieldOf(v, name)
			if !(r.Op == "field" && r.Aux == name) {
				return r
			}
		case v.Op == "const" && strings.HasPrefix(v.Aux, "zero"):
			return zeroSub(v, name)
		}
	}
	return &Term{Op: "index", Args: []*Term{v, idx}}
}

// zeroSub: the zero value of the field / element `name` of a composite whose own value is (partly) zero: a proper
// constant when the composite's type is known (so that `c.pos` of `cursor{seq: s}` is 0), an opaque zero otherwise.
func zeroSub(v *Term, name string) *Term {
	if v.Typ != nil {
		switch u := v.Typ.Underlying().(type) {
		case *types.Struct:
			for i := 0; i < u.NumFields(); i++ {
				if u.Field(i).Name() == name {
					return zeroTerm(u.Field(i).Type())
				}
			}
		case *types.Array:
			if strings.HasPrefix(name, "#") {
				return zeroTerm(u.Elem())
			}
		}
	}
	return &Term{Op: "const", Aux: "zero:." + name}
}

func fieldOf(v *Term, name string) *Term {
	if v.Op == "lit" {
		var baseArg *Term
		for _, kv := range v.Args {
			if kv.Op == "base" {
				baseArg = kv
				continue
			}
			if kv.Aux == name {
				return kv.Args[0]
			}
		}
		if baseArg != nil {
			return fieldOf(baseArg.Args[0], name)
		}
		return zeroSub(v, name)
	}
	if v.Op == "const" && strings.HasPrefix(v.Aux, "zero") {
		return zeroSub(v, name)
	}
	if v.Op == "load" && len(v.Args) == 1 {
		// a field of a struct value loaded from memory is the content of that field's cell in the same memory
		// version: (*p).f and p.f get one normal form, whichever way the code copies the struct
		return &Term{Op: "load", Aux: v.Aux, Args: []*Term{{Op: "faddr", Aux: name, Args: []*Term{v.Args[0]}}}}
	}
	return &Term{Op: "field", Aux: name, Args: []*Term{v}}
}

// FieldOf is the exported field projection used by rule packs.
func FieldOf(v *Term, name string) *Term { return fieldOf(v, name) }

// LitFields lists the explicit fields of a literal term (without its base).
func LitFields(v *Term) []*Term {
	var out []*Term
	if v == nil || v.Op != "lit" {
		return nil
	}
	for _, a := range v.Args {
		if a.Op == "kv" {
			out = append(out, a)
		}
	}
	return out
}

// LitBase returns the base value a literal overlays (nil when it is a plain literal).
func LitBase(v *Term) *Term {
	if v == nil || v.Op != "lit" {
		return nil
	}
	for _, a := range v.Args {
		if a.Op == "base" {
			return a.Args[0]
		}
	}
	return nil
}

// ---------------------------------------------------------------------------
// Paths

type ExitKind int

const (
	ExitNone ExitKind = iota // ends at a loop header (To != nil)
	ExitReturn
	ExitPanic
)

type Path struct {
	From    *ssa.BasicBlock // nil = function entry
	To      *ssa.BasicBlock // loop header reached, nil = exit
	Exit    ExitKind
	Steps   []Step
	PhiOut  map[*ssa.Phi]*Term // values flowing into To's phis
	Results []*Term
	End     *State
}

func (p *Path) String() string {
	var b strings.Builder
	from, to := "entry", "exit"
	if p.From != nil {
		from = fmt.Sprintf("loop@b%d", p.From.Index)
	}
	if p.To != nil {
		to = fmt.Sprintf("loop@b%d", p.To.Index)
	} else if p.Exit == ExitPanic {
		to = "panic"
	}
	fmt.Fprintf(&b, "%s -> %s\n", from, to)
	for _, s := range p.Steps {
		fmt.Fprintf(&b, "    %s\n", s.String())
	}
	return b.String()
}

// Events returns the steps of the given kinds.
func (p *Path) Events(kinds ...Kind) []*Step {
	var out []*Step
	for i := range p.Steps {
		for _, k := range kinds {
			if p.Steps[i].Kind == k {
				out = append(out, &p.Steps[i])
			}
		}
	}
	return out
}

type Options struct {
	MaxInline int
	// SelfNesting: how many frames of one function may be on the inline stack at once (0 = 1: a function is
	// never inlined into itself; closures of one function value-nested in each other need more)
	SelfNesting int
	// LoopInline: also inline callees that contain loops (their loop heads become cut points); off by default.
	// Directly recursive callees are never inlined together with their loops.
	LoopInline bool
	// Inline decides whether a resolved callee with a body may be inlined.
	Inline func(*ssa.Function) bool
	// PureCall marks callee names (see calleeKey) whose results are functions of
	// their arguments (no event, no instance id).
	PureCall func(name string) bool
	MaxPaths int
}

type Analysis struct {
	Fn *ssa.Function
	// Headers: loop headers that are cut points: those of Fn first, then those of callees inlined together
	// with their loops (a callee with loops is inlined at one call site only - the first one explored)
	Headers   []*ssa.BasicBlock
	loopOwner map[*ssa.Function]string
	unrolled  map[*ssa.BasicBlock]bool    // loop heads passed through (loops over a table of function values)
	Segs      map[*ssa.BasicBlock][]*Path // nil key = from entry
	Start     map[*ssa.BasicBlock]*State
	Problems  []string
	NPaths    int
	// Assumed: panic sites inside assertion helpers that were taken as never firing
	Assumed []ssa.Instruction
}

func (a *Analysis) noteAssumed(in ssa.Instruction) {
	for _, x := range a.Assumed {
		if x == in {
			return
		}
	}
	a.Assumed = append(a.Assumed, in)
}

var assertHelperCache sync.Map

// isAssertionHelper: fn is an unexported function without results whose whole body is a guard around one panic -
// `func invariant(ok bool, msg string) { if !ok { panic(msg) } }` and its like: no store, send, go, defer, no call
// except to format the message.
func isAssertionHelper(fn *ssa.Function) bool {
	if fn == nil || fn.Signature.Results().Len() != 0 || len(fn.Blocks) == 0 || len(fn.Blocks) > 20 {
		return false
	}
	if v, hit := assertHelperCache.Load(fn); hit {
		return v.(bool)
	}
	res := func() bool {
		if fn.Object() != nil && fn.Object().Exported() {
			return false
		}
		nPanic, nIf, nInstr := 0, 0, 0
		for _, b := range fn.Blocks {
			for _, in := range b.Instrs {
				nInstr++
				switch in := in.(type) {
				case *ssa.Panic:
					nPanic++
				case *ssa.If:
					nIf++
				case *ssa.Store:
					if !storesIntoOwnAlloc(in) {
						return false // the argument list of the formatting call is the helper's own fresh memory
					}
				case *ssa.Send, *ssa.Go, *ssa.Defer, *ssa.MapUpdate, *ssa.Select, *ssa.RunDefers:
					return false
				case *ssa.Call:
					if bi, isB := in.Call.Value.(*ssa.Builtin); isB && (bi.Name() == "len" || bi.Name() == "cap") {
						continue
					}
					callee := in.Call.StaticCallee()
					if callee == nil || callee.Pkg == nil {
						return false
					}
					switch callee.Pkg.Pkg.Path() {
					case "fmt", "errors", "strings", "strconv":
					default:
						return false
					}
				}
			}
		}
		// one guarded panic, or a validation helper checking several conditions (one panic each, possibly in a loop
		// over its arguments): nothing but tests, message formatting and panics
		return nPanic >= 1 && nIf >= 1 && (nPanic == 1 && nInstr <= 40 || nPanic > 1 && nInstr <= 40*nPanic && nInstr <= 160)
	}()
	assertHelperCache.Store(fn, res)
	return res
}

// AllPaths returns every segment, entry first, then headers by block index.
func (a *Analysis) AllPaths() []*Path {
	var out []*Path
	out = append(out, a.Segs[nil]...)
	for _, h := range a.Headers {
		out = append(out, a.Segs[h]...)
	}
	return out
}

func LoopHeaders(fn *ssa.Function) []*ssa.BasicBlock {
	var hs []*ssa.BasicBlock
	for _, b := range fn.Blocks {
		for _, p := range b.Preds {
			if b.Dominates(p) {
				if atomicSpinExit(b) == nil {
					hs = append(hs, b)
				}
				break
			}
		}
	}
	return hs
}

var spinExitCache sync.Map // *ssa.BasicBlock -> *ssa.BasicBlock (nil entry = not a spin loop)

// atomicSpinExit: h heads a compare-and-swap loop of a counter or gauge - `for { cur := g.Load(); if x <= cur ||
// g.CompareAndSwap(cur, x) { break } }`: nothing is carried round the loop, its blocks hold nothing but sync/atomic
// calls, loads, arithmetic, comparisons and branches, no value computed inside is used after it, and it leaves
// through one block. Such a loop is bookkeeping: it is no loop of the analysed protocol (no cut point) and is
// stepped over. Returns the block the loop leaves to, nil when h is not such a loop.
func atomicSpinExit(h *ssa.BasicBlock) *ssa.BasicBlock {
	if v, ok := spinExitCache.Load(h); ok {
		e, _ := v.(*ssa.BasicBlock)
		return e
	}
	res := func() *ssa.BasicBlock {
		isLoopHead := false
		for _, p := range h.Preds {
			if h.Dominates(p) {
				isLoopHead = true
			}
		}
		if !isLoopHead {
			return nil
		}
		lb := LoopBlocks(h)
		if len(lb) > 6 {
			return nil
		}
		var exit *ssa.BasicBlock
		nAtomic := 0
		for b := range lb {
			for _, in := range b.Instrs {
				switch x := in.(type) {
				case *ssa.Phi:
					return nil
				case *ssa.If, *ssa.Jump, *ssa.DebugRef, *ssa.BinOp, *ssa.Convert, *ssa.ChangeType, *ssa.FieldAddr, *ssa.IndexAddr:
				case *ssa.UnOp:
					if x.Op == token.ARROW {
						return nil
					}
				case *ssa.Call:
					sc := x.Call.StaticCallee()
					if sc == nil || sc.Pkg == nil || sc.Pkg.Pkg.Path() != "sync/atomic" {
						return nil
					}
					nAtomic++
				default:
					return nil
				}
				if v, isV := in.(ssa.Value); isV && v.Referrers() != nil {
					for _, r := range *v.Referrers() {
						if r.Block() != nil && !lb[r.Block()] {
							return nil
						}
					}
				}
			}
			for _, sc := range b.Succs {
				if !lb[sc] {
					if exit != nil && exit != sc {
						return nil
					}
					exit = sc
				}
			}
		}
		if exit == nil || nAtomic == 0 {
			return nil
		}
		if len(exit.Instrs) > 0 {
			if _, isPhi := exit.Instrs[0].(*ssa.Phi); isPhi {
				return nil
			}
		}
		return exit
	}()
	spinExitCache.Store(h, res)
	return res
}

// LoopBlocks returns the natural loop of header h.
func LoopBlocks(h *ssa.BasicBlock) map[*ssa.BasicBlock]bool {
	in := map[*ssa.BasicBlock]bool{h: true}
	var stack []*ssa.BasicBlock
	for _, p := range h.Preds {
		if h.Dominates(p) && !in[p] {
			in[p] = true
			stack = append(stack, p)
		}
	}
	for len(stack) > 0 {
		b := stack[len(stack)-1]
		stack = stack[:len(stack)-1]
		for _, p := range b.Preds {
			if !in[p] {
				in[p] = true
				stack = append(stack, p)
			}
		}
	}
	return in
}

func HasLoop(fn *ssa.Function) bool { return len(LoopHeaders(fn)) > 0 }

type explorer struct {
	an           *Analysis
	opt          *Options
	unrollPasses int
	isHdr        map[*ssa.BasicBlock]bool
	from         *ssa.BasicBlock
	out          []*Path
	ids          map[ssa.Instruction]string
	budget       int
	work         *int
}

// Analyze explores fn from init (a state with one root frame prepared by
// NewRootState) to a fixpoint over its loop headers.
func Analyze(fn *ssa.Function, init *State, opt *Options) *Analysis {
	an := &Analysis{Fn: fn, Segs: map[*ssa.BasicBlock][]*Path{}, Start: map[*ssa.BasicBlock]*State{}, loopOwner: map[*ssa.Function]string{}}
	if len(fn.Blocks) == 0 {
		an.Problems = append(an.Problems, "function has no body: "+FuncName(fn))
		return an
	}
	an.Headers = LoopHeaders(fn)
	isHdr := map[*ssa.BasicBlock]bool{}
	for _, h := range an.Headers {
		isHdr[h] = true
	}
	if opt.MaxPaths == 0 {
		opt.MaxPaths = 20000
	}
	ids := map[ssa.Instruction]string{}
	workLeft := 3000000
	work := []*ssa.BasicBlock{nil}
	an.Start[nil] = init
	iter := 0
	for len(work) > 0 {
		iter++
		if iter > 200 {
			an.Problems = append(an.Problems, "fixpoint did not converge")
			break
		}
		c := work[0]
		work = work[1:]
		ex := &explorer{an: an, opt: opt, isHdr: isHdr, from: c, ids: ids, budget: opt.MaxPaths, work: &workLeft}
		st := an.Start[c].Clone()
		st.steps = nil
		if c == nil {
			ex.run(st, fn.Blocks[0], 0, nil, true)
		} else {
			ex.run(st, c, 0, nil, true)
		}
		an.Segs[c] = ex.out
		for _, p := range ex.out {
			if p.To == nil {
				continue
			}
			merged, changed := mergeAt(p.To, an.Start[p.To], p)
			if changed {
				an.Start[p.To] = merged
				found := false
				for _, w := range work {
					if w == p.To {
						found = true
					}
				}
				if !found {
					work = append(work, p.To)
				}
			}
		}
	}
	for _, ps := range an.Segs {
		an.NPaths += len(ps)
	}
	if len(an.unrolled) > 0 {
		// a loop that was unrolled on every arrival is not a cut point of this analysis
		kept := an.Headers[:0:0]
		for _, h := range an.Headers {
			if an.unrolled[h] && an.Start[h] == nil {
				continue
			}
			kept = append(kept, h)
		}
		an.Headers = kept
	}
	return an
}

// tableLoop: blk is the head of `for i, f := range table` where table is a slice over a local array of function
// values of known, small length built on this path (a variadic list of selectors / stages): such a loop is unrolled -
// the calls through the table are then calls of the functions stored in it, in their order. Nothing else is unrolled.
func (ex *explorer) tableLoop(st *State, blk, prev *ssa.BasicBlock) bool {
	if len(st.frames) == 0 || st.top().fn != blk.Parent() {
		return false
	}
	n := len(blk.Instrs)
	if n < 3 {
		return false
	}
	iff, ok := blk.Instrs[n-1].(*ssa.If)
	if !ok {
		return false
	}
	cmp, ok := iff.Cond.(*ssa.BinOp)
	if !ok || cmp.Op != token.LSS || cmp.Block() != blk {
		return false
	}
	incr, ok := cmp.X.(*ssa.BinOp)
	if !ok || incr.Op != token.ADD || incr.Block() != blk {
		return false
	}
	phi, ok := incr.X.(*ssa.Phi)
	if !ok || phi.Block() != blk || phi.Comment != "rangeindex" {
		return false
	}
	lenCall, ok := cmp.Y.(*ssa.Call)
	if !ok {
		return false
	}
	if b, isB := lenCall.Call.Value.(*ssa.Builtin); !isB || b.Name() != "len" || len(lenCall.Call.Args) != 1 {
		return false
	}
	tbl, known := st.top().env[lenCall.Call.Args[0]]
	if !known {
		if _, isParam := lenCall.Call.Args[0].(*ssa.Parameter); !isParam {
			return false
		}
		tbl = ex.eval(st, lenCall.Call.Args[0])
	}
	k, whole := wholeArraySlice(tbl)
	if !whole || k < 1 || k > 20 {
		return false
	}
	at := tbl.Args[0].Typ.Underlying().(*types.Pointer).Elem().Underlying().(*types.Array)
	if _, isFn := at.Elem().Underlying().(*types.Signature); !isFn {
		return false
	}
	// the arriving index must be a constant (the loop is entered with -1 and every pass adds 1; after a cut point
	// inside the body it is a symbol, and the loop is an ordinary one again)
	pi := predIndex(blk, prev)
	if pi < 0 || pi >= len(phi.Edges) {
		return false
	}
	if _, isK := ex.eval(st, phi.Edges[pi]).IntConst(); !isK {
		return false
	}
	ex.unrollPasses++
	if ex.unrollPasses > 400 {
		return false
	}
	if ex.an.unrolled == nil {
		ex.an.unrolled = map[*ssa.BasicBlock]bool{}
	}
	ex.an.unrolled[blk] = true
	return true
}

// NewRootState prepares the root frame: parameters are "param" symbols unless
// given, free variables are bound to the given terms (or "free" symbols).
func NewRootState(fn *ssa.Function, params []*Term, bindings []*Term, mem *State) *State {
	st := NewState()
	if mem != nil {
		for k, v := range mem.mem {
			st.mem[k] = v
		}
		st.seq = mem.seq
		for k, v := range mem.facts {
			st.facts[k] = v
		}
		if mem.dyn != nil {
			st.dyn = mem.dyn
		}
	}
	f := &frame{fn: fn, env: map[ssa.Value]*Term{}, id: ""}
	for i, p := range fn.Params {
		if i < len(params) && params[i] != nil {
			f.env[p] = params[i]
		} else {
			f.env[p] = &Term{Op: "param", Aux: p.Name(), Typ: p.Type(), Src: p}
		}
	}
	for i, fv := range fn.FreeVars {
		if i < len(bindings) && bindings[i] != nil {
			f.env[fv] = bindings[i]
		} else {
			f.env[fv] = &Term{Op: "free", Aux: fv.Name(), Typ: fv.Type(), Src: fv}
		}
	}
	st.frames = []*frame{f}
	return st
}

// mergeAt merges the end state of path p into the start state of header h.
func mergeAt(h *ssa.BasicBlock, old *State, p *Path) (*State, bool) {
	end := p.End
	hdrTag := hdrTagOf(h, end.frames[0].fn)
	if old == nil {
		n := end.Clone()
		n.steps = nil
		for phi, v := range p.PhiOut {
			n.frames[len(n.frames)-1].env[phi] = v
		}
		return n, true
	}
	changed := false
	n := old.Clone()
	n.steps = nil
	if len(n.frames) != len(end.frames) {
		// different call chains reach the same loop head: keep the old start (sound: the callee is then
		// analysed for the first chain only; the other arrival is reported by the caller as a problem)
		return n, false
	}
	var joins []joinItem
	for fi := range n.frames {
		rf, ef := n.frames[fi], end.frames[fi]
		if rf.fn != ef.fn {
			return n, false
		}
		// registers
		for k, v := range rf.env {
			if phi, isPhi := k.(*ssa.Phi); isPhi && phi.Block() == h {
				continue
			}
			ev, ok := ef.env[k]
			if !ok {
				continue // not (re)defined on this path: keep the dominating definition
			}
			if !Same(ev, v) {
				joins = append(joins, joinItem{fi: fi, k: k, oldv: v, endv: ev})
			}
		}
		if len(rf.defers) != len(ef.defers) {
			rf.defers = ef.defers
		}
	}
	// registers that disagree between the arrivals become join symbols; registers that hold the same value on
	// every arrival (a callee parameter and the caller's argument register) share one symbol, so that the
	// equality survives the join
	sort.Slice(joins, func(i, j int) bool {
		if joins[i].fi != joins[j].fi {
			return joins[i].fi < joins[j].fi
		}
		return regLess(joins[i].k, joins[j].k)
	})
	for i := range joins {
		it := &joins[i]
		tag := hdrTag
		if it.fi > 0 && n.frames[it.fi].fn != n.frames[0].fn {
			tag = "@" + FuncName(n.frames[it.fi].fn) + "/" + strings.TrimPrefix(hdrTag, "@")
		}
		it.sym = &Term{Op: "phi", Aux: it.k.Name() + tag + ":join", Typ: it.k.Type(), Src: it.k}
		for j := 0; j < i; j++ {
			if Same(joins[j].oldv, it.oldv) && Same(joins[j].endv, it.endv) {
				it.sym = joins[j].sym
				break
			}
		}
		if !Same(it.oldv, it.sym) {
			n.frames[it.fi].env[it.k] = it.sym
			changed = true
		}
	}
	rf := n.frames[len(n.frames)-1]
	for _, in := range h.Instrs {
		phi, ok := in.(*ssa.Phi)
		if !ok {
			break
		}
		cur := rf.env[phi]
		inc := p.PhiOut[phi]
		if cur == nil || inc == nil || !Same(cur, inc) {
			sym := &Term{Op: "phi", Aux: phi.Name() + hdrTag + ":" + phi.Comment, Typ: phi.Type(), Src: phi}
			if cur == nil || !Same(cur, sym) {
				rf.env[phi] = sym
				changed = true
			}
		}
	}
	// memory
	keys := map[string]bool{}
	for k := range n.mem {
		keys[k] = true
	}
	for k := range end.mem {
		keys[k] = true
	}
	for k := range keys {
		a, aok := n.mem[k]
		b, bok := end.mem[k]
		var addr *Term
		if aok {
			addr = a.addr
		} else {
			addr = b.addr
		}
		sym := &Term{Op: "load", Aux: hdrTag, Args: []*Term{addr}}
		if aok && bok && Same(a.val, b.val) {
			continue
		}
		if aok && Same(a.val, sym) {
			continue
		}
		n.seq++
		n.mem[k] = &memEntry{addr: addr, val: sym, seq: n.seq}
		changed = true
	}
	// facts
	for k, v := range n.facts {
		if ev, ok := end.facts[k]; !ok || ev != v {
			delete(n.facts, k)
			changed = true
		}
	}
	// fresh allocations stay fresh only if fresh on both
	for k := range n.fresh {
		if !end.fresh[k] {
			delete(n.fresh, k)
		}
	}
	return n, changed
}

// RType is the canonical term of "the reflect.Type describing the static Go type t".
func RType(t types.Type) *Term {
	return &Term{Op: "rtype", Aux: typeKey(t), Typ: t}
}

// typeKey: the printed type; type parameters are qualified by their declaration position, so that parameters of
// different generic functions never coincide.
func typeKey(t types.Type) string {
	s := shortType(t)
	seen := map[*types.TypeParam]bool{}
	var tps []string
	var walk func(t types.Type, depth int)
	walk = func(t types.Type, depth int) {
		if depth > 6 {
			return
		}
		switch x := t.(type) {
		case *types.TypeParam:
			if !seen[x] {
				seen[x] = true
				tps = append(tps, fmt.Sprintf("%s#%d", x.Obj().Name(), x.Obj().Pos()))
			}
		case *types.Pointer:
			walk(x.Elem(), depth+1)
		case *types.Slice:
			walk(x.Elem(), depth+1)
		case *types.Array:
			walk(x.Elem(), depth+1)
		case *types.Chan:
			walk(x.Elem(), depth+1)
		case *types.Map:
			walk(x.Key(), depth+1)
			walk(x.Elem(), depth+1)
		case *types.Named:
			if ta := x.TypeArgs(); ta != nil {
				for i := 0; i < ta.Len(); i++ {
					walk(ta.At(i), depth+1)
				}
			}
		case *types.Signature:
			for i := 0; i < x.Params().Len(); i++ {
				walk(x.Params().At(i).Type(), depth+1)
			}
			for i := 0; i < x.Results().Len(); i++ {
				walk(x.Results().At(i).Type(), depth+1)
			}
		}
	}
	walk(t, 0)
	if len(tps) > 0 {
		sort.Strings(tps)
		s += "{" + strings.Join(tps, ",") + "}"
	}
	return s
}

// rtypeOf normalises the ways of naming a static type's descriptor:
//
//	reflect.TypeOf(v)      with v of a static non-interface, non-type-parameter type V  ->  rtype[V]
//	reflect.TypeFor[V]()                                                                   ->  rtype[V]
//	rtype[*V].Elem()                                                                       ->  rtype[V]
//
// (the descriptor of a value depends on its dynamic type only, which for such a V is V itself).
func rtypeOf(name string, c *ssa.CallCommon, args []*Term, f *frame) *Term {
	switch name {
	case "reflect.TypeOf":
		if len(c.Args) == 1 {
			if mi, ok := c.Args[0].(*ssa.MakeInterface); ok {
				vt := mi.X.Type()
				if _, isTP := vt.(*types.TypeParam); isTP {
					return nil
				}
				if _, isTP := types.Unalias(vt).(*types.TypeParam); isTP {
					return nil
				}
				if types.IsInterface(vt) {
					return nil
				}
				return RType(f.ty(vt))
			}
		}
	case "reflect.TypeFor":
		if sf := c.StaticCallee(); sf != nil && len(sf.TypeArgs()) == 1 {
			return RType(f.ty(sf.TypeArgs()[0]))
		}
	case "(reflect.Type).Elem":
		if len(args) == 1 && args[0].Op == "rtype" {
			if pt, ok := args[0].Typ.Underlying().(*types.Pointer); ok {
				return RType(pt.Elem())
			}
		}
	}
	return nil
}

type joinItem struct {
	fi         int
	k          ssa.Value
	oldv, endv *Term
	sym        *Term
}

func regLess(a, b ssa.Value) bool {
	an, bn := a.Name(), b.Name()
	if len(an) != len(bn) {
		return len(an) < len(bn)
	}
	if an != bn {
		return an < bn
	}
	return a.Pos() < b.Pos()
}

// hdrTagOf names a loop head inside symbols: block index, qualified by the function when the head belongs to
// an inlined callee (so that registers of different functions never collide).
func hdrTagOf(h *ssa.BasicBlock, root *ssa.Function) string {
	if h.Parent() == root {
		return fmt.Sprintf("@b%d", h.Index)
	}
	return fmt.Sprintf("@%s.b%d", FuncName(h.Parent()), h.Index)
}

func (ex *explorer) problem(format string, args ...any) {
	msg := fmt.Sprintf(format, args...)
	for _, p := range ex.an.Problems {
		if p == msg {
			return
		}
	}
	ex.an.Problems = append(ex.an.Problems, msg)
}

func (ex *explorer) instrID(in ssa.Instruction) string {
	if id, ok := ex.ids[in]; ok {
		return id
	}
	b := in.Block()
	idx := 0
	for i, x := range b.Instrs {
		if x == in {
			idx = i
		}
	}
	id := fmt.Sprintf("%s#b%d.%d", FuncName(in.Parent()), b.Index, idx)
	ex.ids[in] = id
	return id
}

func (ex *explorer) eval(st *State, v ssa.Value) *Term {
	switch v := v.(type) {
	case *ssa.Const:
		return constTerm(v)
	case *ssa.Global:
		return &Term{Op: "global", Aux: v.String(), Typ: v.Type(), Src: v}
	case *ssa.Function:
		return &Term{Op: "fn", Fn: v, Typ: v.Type(), Src: v}
	case *ssa.Builtin:
		return &Term{Op: "builtin", Aux: v.Name()}
	}
	f := st.top()
	if t, ok := f.env[v]; ok {
		return t
	}
	ex.problem("value %s (%T) in %s used without definition on path", v.Name(), v, FuncName(f.fn))
	return &Term{Op: "undef", Aux: v.Name()}
}

func constTerm(c *ssa.Const) *Term {
	if c.Value == nil {
		if _, isTP := c.Type().(*types.TypeParam); isTP {
			return &Term{Op: "const", Aux: "zero:" + shortType(c.Type()), Typ: c.Type()}
		}
		switch u := c.Type().Underlying().(type) {
		case *types.Pointer, *types.Chan, *types.Signature, *types.Interface, *types.Slice, *types.Map:
			_ = u
			return &Term{Op: "const", Aux: "nil", Typ: c.Type()}
		case *types.Basic:
			if u.Kind() == types.UntypedNil || u.Kind() == types.UnsafePointer {
				return &Term{Op: "const", Aux: "nil", Typ: c.Type()}
			}
		}
		return &Term{Op: "const", Aux: "zero:" + shortType(c.Type()), Typ: c.Type()}
	}
	s := c.Value.ExactString()
	if b, ok := c.Type().Underlying().(*types.Basic); ok && b.Info()&types.IsBoolean != 0 {
		return &Term{Op: "const", Aux: s, Typ: c.Type()}
	}
	if IsBoolEnum(c.Type()) {
		// a two-valued unexported enum is a bool under another name: its zero constant reads false, the other true,
		// so that `v == abort` is `!v` like `!ok` (a verdict / state flag re-represented as an enum)
		if s == "0" {
			return &Term{Op: "const", Aux: "false", Typ: c.Type()}
		}
		return &Term{Op: "const", Aux: "true", Typ: c.Type()}
	}
	return &Term{Op: "const", Aux: s, Typ: c.Type()}
}

var boolEnumCache sync.Map

// enumUsedAsNumber: named integer types whose values index something, are compared by order, take part in arithmetic or
// are converted - such a type is a number, not a bool under another name, whatever the count of its constants.
var enumUsedAsNumber sync.Map

// ScanEnumUses records the named integer types of the program that are used as numbers (see IsBoolEnum); called once
// after the program is built, before any analysis.
func ScanEnumUses(prog *ssa.Program) {
	deny := func(t types.Type) {
		if nt, ok := t.(*types.Named); ok {
			if b, isB := nt.Underlying().(*types.Basic); isB && b.Info()&types.IsInteger != 0 {
				enumUsedAsNumber.Store(nt.Origin(), true)
			}
		}
	}
	for _, fn := range progFuncs(prog) {
		for _, b := range fn.Blocks {
			for _, in := range b.Instrs {
				switch in := in.(type) {
				case *ssa.IndexAddr:
					deny(in.Index.Type())
				case *ssa.Index:
					deny(in.Index.Type())
				case *ssa.Lookup:
					deny(in.Index.Type())
				case *ssa.MapUpdate:
					deny(in.Key.Type())
				case *ssa.Convert:
					deny(in.X.Type())
					deny(in.Type())
				case *ssa.BinOp:
					if in.Op != token.EQL && in.Op != token.NEQ {
						deny(in.X.Type())
						deny(in.Y.Type())
					}
				case *ssa.UnOp:
					if in.Op == token.SUB || in.Op == token.XOR {
						deny(in.X.Type())
					}
				}
			}
		}
	}
}

// IsBoolEnum: t is an unexported named type with an integer underlying type for which its package declares
// exactly two constants, 0 and 1 - a bool written as an enum (`type recovery uint8; const (abort recovery = iota;
// resume)`).
func IsBoolEnum(t types.Type) bool {
	nt, ok := t.(*types.Named)
	if !ok || nt.Obj() == nil || nt.Obj().Pkg() == nil || nt.Obj().Exported() {
		return false
	}
	if _, denied := enumUsedAsNumber.Load(nt.Origin()); denied {
		return false
	}
	if v, hit := boolEnumCache.Load(nt); hit {
		return v.(bool)
	}
	res := false
	if b, isB := nt.Underlying().(*types.Basic); isB && b.Info()&types.IsInteger != 0 {
		vals := map[string]int{}
		sc := nt.Obj().Pkg().Scope()
		for _, name := range sc.Names() {
			if k, isK := sc.Lookup(name).(*types.Const); isK && types.Identical(k.Type(), nt) {
				vals[k.Val().ExactString()]++
			}
		}
		res = len(vals) == 2 && vals["0"] == 1 && vals["1"] == 1
	}
	boolEnumCache.Store(nt, res)
	return res
}

// zeroTerm: the zero value of type t - a proper constant for the basic kinds (so that comparisons with it fold),
// nil for the reference kinds, an opaque zero otherwise.
func zeroTerm(t types.Type) *Term {
	switch u := t.Underlying().(type) {
	case *types.Basic:
		switch {
		case u.Info()&types.IsInteger != 0 && IsBoolEnum(t):
			return &Term{Op: "const", Aux: "false", Typ: t}
		case u.Info()&types.IsInteger != 0:
			return &Term{Op: "const", Aux: "0", Typ: t}
		case u.Info()&types.IsBoolean != 0:
			return &Term{Op: "const", Aux: "false", Typ: t}
		case u.Info()&types.IsString != 0:
			return &Term{Op: "const", Aux: `""`, Typ: t}
		case u.Kind() == types.UnsafePointer:
			return &Term{Op: "const", Aux: "nil", Typ: t}
		}
	case *types.Pointer, *types.Chan, *types.Slice, *types.Map, *types.Signature, *types.Interface:
		return &Term{Op: "const", Aux: "nil", Typ: t}
	}
	return &Term{Op: "const", Aux: "zero:" + shortType(t), Typ: t}
}

func (ex *explorer) emit(st *State, s Step) *Step {
	f := st.top()
	s.Fn = f.fn
	s.Depth = len(st.frames) - 1
	s.Chain = FuncName(st.frames[0].fn) + f.id
	for _, fr := range st.frames {
		if fr.inDefer {
			s.InDefer = true
		}
	}
	st.steps = append(st.steps, s)
	return &st.steps[len(st.steps)-1]
}

func (ex *explorer) finish(st *State, p *Path) {
	p.From = ex.from
	p.Steps = st.steps
	p.End = st
	ex.out = append(ex.out, p)
}

// run interprets from (blk, idx). first marks the very first block of this
// exploration (a start header must not terminate the path immediately).
func (ex *explorer) run(st *State, blk *ssa.BasicBlock, idx int, prev *ssa.BasicBlock, first bool) {
	for {
		if ex.budget <= 0 {
			ex.problem("path budget exhausted in %s", FuncName(ex.an.Fn))
			return
		}
		// every interpreted instruction costs one unit of work: deep self-nesting with a branch per level must end in
		// a reported problem, not in an exhausted machine
		*ex.work--
		if *ex.work <= 0 {
			ex.budget = 0
			ex.problem("work budget exhausted in %s", FuncName(ex.an.Fn))
			return
		}
		f := st.top()
		if idx == 0 {
			if e := atomicSpinExit(blk); e != nil {
				prev, blk = blk, e // a compare-and-swap loop of a counter: stepped over
				continue
			}
			if ex.isHdr[blk] && !first && !ex.tableLoop(st, blk, prev) {
				// reached a cut point
				p := &Path{To: blk, PhiOut: map[*ssa.Phi]*Term{}}
				pi := predIndex(blk, prev)
				for _, in := range blk.Instrs {
					phi, ok := in.(*ssa.Phi)
					if !ok {
						break
					}
					p.PhiOut[phi] = ex.eval(st, phi.Edges[pi])
				}
				// flag loops (`for more := true; more; more = step()`): the head tests nothing but a loop-carried
				// boolean. The test is decided on the arriving path, where the value is still a term of this path: a
				// constant that leaves the loop is followed out; a symbolic value is split into its two cases, the
				// case that stays arrives with the flag known.
				// the same with a reference as the flag (`for out := next(); out != nil; out = next()`): an arriving nil /
				// freshly made value decides the test; a value known to leave is followed out
				if flag, exitWhenNil, outBlk, ok := nilFlagLoopHead(blk); ok && len(st.frames) > 0 && st.top().fn == blk.Parent() {
					if v := p.PhiOut[flag]; v != nil {
						if c := mkBin("==", v, Nil); c.IsConst() && (c.Aux == "true" || c.Aux == "false") && (c.Aux == "true") == exitWhenNil {
							f := st.top()
							for phi, t := range p.PhiOut {
								f.env[phi] = t
							}
							ex.run(st, outBlk, 0, blk, false)
							return
						}
					}
				}
				if flag, exitOn, outBlk, ok := flagLoopHead(blk); ok && len(st.frames) > 0 && st.top().fn == blk.Parent() {
					v := p.PhiOut[flag]
					leave := func(ns *State) {
						f := ns.top()
						for phi, t := range p.PhiOut {
							f.env[phi] = t
						}
						f.env[flag] = boolT(exitOn)
						ex.run(ns, outBlk, 0, blk, false)
					}
					if v != nil && v.IsConst() && (v.Aux == "true" || v.Aux == "false") {
						if (v.Aux == "true") == exitOn {
							leave(st)
							return
						}
					} else if v != nil && !(v.Op == "extract" && len(v.Args) == 1 && v.Args[0].Op == "recv") {
						// (the ok of a comma-ok receive stays a loop-carried flag: `for x, ok := <-in; ok; x, ok = <-in`
						// is the receive loop, recognised as such by the rules)
						atom, pol := Atom(v)
						if !atom.IsConst() {
							known, isKnown := st.facts[atom.Key()]
							for _, av := range []bool{true, false} {
								if isKnown && known != av {
									continue
								}
								val := av == pol // the flag's value in this case
								ns := st.Clone()
								ns.facts[atom.Key()] = av
								ex.emit(ns, Step{Kind: KBranch, Instr: blk.Instrs[len(blk.Instrs)-1], Atom: atom, Pol: av})
								if val == exitOn {
									leave(ns)
									continue
								}
								q := &Path{To: blk, PhiOut: map[*ssa.Phi]*Term{}}
								for phi, t := range p.PhiOut {
									q.PhiOut[phi] = t
								}
								q.PhiOut[flag] = boolT(val)
								ex.budget--
								ex.finish(ns, q)
							}
							return
						}
					}
				}
				ex.budget--
				ex.finish(st, p)
				return
			}
			// phis
			if !(first && ex.from != nil) {
				pi := predIndex(blk, prev)
				var vals []*Term
				var phis []*ssa.Phi
				for _, in := range blk.Instrs {
					phi, ok := in.(*ssa.Phi)
					if !ok {
						break
					}
					if pi < 0 {
						ex.problem("phi without predecessor in %s", FuncName(f.fn))
						vals = append(vals, &Term{Op: "undef", Aux: phi.Name()})
					} else {
						vals = append(vals, ex.eval(st, phi.Edges[pi]))
					}
					phis = append(phis, phi)
				}
				for i, phi := range phis {
					f.env[phi] = vals[i]
				}
			} else {
				// start header: phis preset by mergeAt (or symbols)
				for _, in := range blk.Instrs {
					phi, ok := in.(*ssa.Phi)
					if !ok {
						break
					}
					if _, ok := f.env[phi]; !ok {
						f.env[phi] = &Term{Op: "phi", Aux: phi.Name() + hdrTagOf(blk, st.frames[0].fn) + ":" + phi.Comment, Typ: phi.Type(), Src: phi}
					}
				}
			}
		}
		first = false
		if idx >= len(blk.Instrs) {
			ex.problem("fell off block in %s", FuncName(f.fn))
			return
		}
		in := blk.Instrs[idx]
		switch in := in.(type) {
		case *ssa.Phi, *ssa.DebugRef:
			idx++
			continue
		case *ssa.Jump:
			prev, blk, idx = blk, blk.Succs[0], 0
			continue
		case *ssa.If:
			c := ex.eval(st, in.Cond)
			atom, pol := Atom(c)
			if atom.IsConst() {
				av := atom.Aux == "true"
				ex.emit(st, Step{Kind: KBranch, Instr: in, Atom: atom, Pol: av})
				if av == pol {
					prev, blk, idx = blk, blk.Succs[0], 0
				} else {
					prev, blk, idx = blk, blk.Succs[1], 0
				}
				continue
			}
			if known, ok := st.facts[atom.Key()]; ok {
				taken := known == pol
				ex.emit(st, Step{Kind: KBranch, Instr: in, Atom: atom, Pol: known})
				if taken {
					prev, blk, idx = blk, blk.Succs[0], 0
				} else {
					prev, blk, idx = blk, blk.Succs[1], 0
				}
				continue
			}
			// fork: atom true / atom false
			for _, av := range []bool{true, false} {
				ns := st
				if av {
					ns = st.Clone()
				}
				ns.facts[atom.Key()] = av
				ex.emit(ns, Step{Kind: KBranch, Instr: in, Atom: atom, Pol: av})
				if av == pol {
					ex.run(ns, blk.Succs[0], 0, blk, false)
				} else {
					ex.run(ns, blk.Succs[1], 0, blk, false)
				}
			}
			return
		case *ssa.Return:
			var res []*Term
			for _, r := range in.Results {
				res = append(res, st.knownValue(ex.eval(st, r), r.Type()))
			}
			if len(st.frames) == 1 {
				ex.emit(st, Step{Kind: KReturn, Instr: in, A: res})
				ex.budget--
				ex.finish(st, &Path{Exit: ExitReturn, Results: res})
				return
			}
			// pop inlined frame
			ex.emit(st, Step{Kind: KLeave, Instr: in, A: res})
			fr := st.top()
			st.frames = st.frames[:len(st.frames)-1]
			if fr.retVal != nil {
				var rv *Term
				switch len(res) {
				case 0:
					rv = &Term{Op: "tuple"}
				case 1:
					rv = res[0]
				default:
					rv = &Term{Op: "tuple", Args: res}
				}
				st.top().env[fr.retVal] = rv
			}
			blk, idx = fr.retBlock, fr.retIdx
			prev = nil
			continue
		case *ssa.Panic:
			if len(st.frames) > 1 && isAssertionHelper(st.top().fn) {
				// the library's own assertion helper (`invariant(cond, msg)`): the asserted condition is taken as a
				// fact - the firing path is not explored, the site is recorded as an assumption of the analysis
				ex.an.noteAssumed(in)
				ex.budget--
				return
			}
			if len(st.frames) == 1 && rootNilArgument(st) {
				// argument validation written inline in the analysed function itself: `if f == nil { panic(...) }` on a
				// parameter (or the receiver) of function, interface, pointer, channel, map or slice type. Like the
				// assertion helpers it is an assumption of the analysis - the properties speak about non-nil arguments -
				// and the site is recorded
				ex.an.noteAssumed(in)
				ex.budget--
				return
			}
			ex.emit(st, Step{Kind: KPanic, Instr: in, A: []*Term{ex.eval(st, in.X)}})
			ex.budget--
			ex.finish(st, &Path{Exit: ExitPanic})
			return
		case *ssa.RunDefers:
			fr := st.top()
			if len(fr.defers) == 0 {
				idx++
				continue
			}
			d := fr.defers[len(fr.defers)-1]
			fr.defers = fr.defers[:len(fr.defers)-1]
			if ex.callDeferred(st, d, blk, idx) {
				// frame pushed; continue in callee
				nf := st.top()
				blk, idx, prev = nf.fn.Blocks[0], 0, nil
			}
			continue
		case *ssa.Select:
			ex.doSelect(st, in, blk, idx)
			return
		case *ssa.Call:
			if isCtxErrCall(&in.Call) {
				ex.doCtxErr(st, in, blk, idx)
				return
			}
			pushed := ex.doCall(st, in, &in.Call, in, blk, idx)
			if pushed {
				nf := st.top()
				blk, idx, prev = nf.fn.Blocks[0], 0, nil
			} else {
				idx++
			}
			continue
		default:
			ex.simple(st, in)
			idx++
			continue
		}
	}
}

// flagLoopHead: the loop head blk consists of phis followed by a branch on one of its own boolean phis (or its
// negation), with one successor inside the loop and one outside. Returns the phi, the flag value that leaves the
// loop and the block outside.
func flagLoopHead(blk *ssa.BasicBlock) (*ssa.Phi, bool, *ssa.BasicBlock, bool) {
	n := len(blk.Instrs)
	if n < 2 || len(blk.Succs) != 2 {
		return nil, false, nil, false
	}
	iff, ok := blk.Instrs[n-1].(*ssa.If)
	if !ok {
		return nil, false, nil, false
	}
	cond := iff.Cond
	neg := false
	rest := blk.Instrs[:n-1]
	if u, isU := cond.(*ssa.UnOp); isU && u.Op == token.NOT && u.Block() == blk {
		cond, neg = u.X, true
		// the negation must be the only non-phi instruction
		if len(rest) == 0 || rest[len(rest)-1] != ssa.Instruction(u) {
			return nil, false, nil, false
		}
		rest = rest[:len(rest)-1]
	}
	phi, isPhi := cond.(*ssa.Phi)
	if !isPhi || phi.Block() != blk {
		return nil, false, nil, false
	}
	for _, in := range rest {
		if _, isP := in.(*ssa.Phi); !isP {
			return nil, false, nil, false
		}
	}
	lb := LoopBlocks(blk)
	in0, in1 := lb[blk.Succs[0]], lb[blk.Succs[1]]
	if in0 == in1 {
		return nil, false, nil, false
	}
	// Succs[0] is taken when cond (after negation) is true
	takenTrueLeaves := !in0
	out := blk.Succs[1]
	if takenTrueLeaves {
		out = blk.Succs[0]
	}
	// flag value that leaves: cond' = flag XOR neg ; leaves when cond' == takenTrueLeaves
	exitOn := takenTrueLeaves != neg
	return phi, exitOn, out, true
}

// nilFlagLoopHead: the loop head consists of phis, one comparison of one of its own phis with nil, and the branch on
// it; one successor inside the loop, one outside. Returns the phi, whether a nil value leaves the loop, and the
// block outside.
func nilFlagLoopHead(blk *ssa.BasicBlock) (*ssa.Phi, bool, *ssa.BasicBlock, bool) {
	n := len(blk.Instrs)
	if n < 3 || len(blk.Succs) != 2 {
		return nil, false, nil, false
	}
	iff, ok := blk.Instrs[n-1].(*ssa.If)
	if !ok {
		return nil, false, nil, false
	}
	cmp, ok := iff.Cond.(*ssa.BinOp)
	if !ok || cmp.Block() != blk || blk.Instrs[n-2] != ssa.Instruction(cmp) || (cmp.Op != token.EQL && cmp.Op != token.NEQ) {
		return nil, false, nil, false
	}
	for _, in := range blk.Instrs[:n-2] {
		if _, isP := in.(*ssa.Phi); !isP {
			return nil, false, nil, false
		}
	}
	isNil := func(v ssa.Value) bool {
		k, isK := v.(*ssa.Const)
		return isK && k.Value == nil
	}
	var phi *ssa.Phi
	switch {
	case isNil(cmp.Y):
		phi, _ = cmp.X.(*ssa.Phi)
	case isNil(cmp.X):
		phi, _ = cmp.Y.(*ssa.Phi)
	}
	if phi == nil || phi.Block() != blk {
		return nil, false, nil, false
	}
	lb := LoopBlocks(blk)
	in0, in1 := lb[blk.Succs[0]], lb[blk.Succs[1]]
	if in0 == in1 {
		return nil, false, nil, false
	}
	takenTrueLeaves := !in0
	out := blk.Succs[1]
	if takenTrueLeaves {
		out = blk.Succs[0]
	}
	// cond true <=> (phi == nil) when EQL; leaves when cond == takenTrueLeaves
	exitWhenNil := takenTrueLeaves == (cmp.Op == token.EQL)
	return phi, exitWhenNil, out, true
}

func predIndex(b, prev *ssa.BasicBlock) int {
	for i, p := range b.Preds {
		if p == prev {
			return i
		}
	}
	return -1
}

func (ex *explorer) doSelect(st *State, in *ssa.Select, blk *ssa.BasicBlock, idx int) {
	id := ex.instrID(in) + st.top().id
	var arms []SelArm
	for _, s := range in.States {
		a := SelArm{Send: s.Dir == types.SendOnly, Chan: ex.eval(st, s.Chan)}
		if s.Send != nil {
			a.Val = ex.eval(st, s.Send)
		}
		arms = append(arms, a)
	}
	choices := []int{}
	for i, a := range arms {
		if a.Chan.IsNil() {
			continue // nil channel: arm never ready
		}
		choices = append(choices, i)
	}
	if !in.Blocking {
		choices = append(choices, -1)
	}
	if len(choices) == 0 {
		ex.emit(st, Step{Kind: KSelect, Instr: in, Arms: arms, Chosen: -2, Blocking: in.Blocking})
		ex.problem("select with no enabled arm at %s", id)
		return
	}
	for n, c := range choices {
		ns := st
		if n < len(choices)-1 {
			ns = st.Clone()
		}
		res := &Term{Op: "selres", Aux: fmt.Sprintf("%s/%d", id, c)}
		ns.top().env[in] = res
		ex.emit(ns, Step{Kind: KSelect, Instr: in, Arms: arms, Chosen: c, Blocking: in.Blocking, R: res})
		ex.run(ns, blk, idx+1, nil, false)
	}
}

// isCtxErrCall: ctx.Err() invoked on a context.Context.
func isCtxErrCall(c *ssa.CallCommon) bool {
	if !c.IsInvoke() || c.Method == nil || c.Method.Name() != "Err" || len(c.Args) != 0 {
		return false
	}
	nt, ok := c.Value.Type().(*types.Named)
	return ok && nt.Obj().Pkg() != nil && nt.Obj().Pkg().Path() == "context" && nt.Obj().Name() == "Context"
}

// doCtxErr: `ctx.Err()` is a poll of the context - the same observation as `select { case <-ctx.Done(): ...; default: }`.
// It is presented to the rules as exactly that: a non-blocking select on ctx.Done() whose Done arm was taken (the
// call answers a non-nil error) or whose default was taken (it answers nil), so that a stage polling with
// `if ctx.Err() != nil { return }` is judged like one polling with the select.
func (ex *explorer) doCtxErr(st *State, in *ssa.Call, blk *ssa.BasicBlock, idx int) {
	f := st.top()
	site := ex.instrID(in)
	ctxT := ex.eval(st, in.Call.Value)
	var doneM *types.Func
	if it, ok := in.Call.Value.Type().Underlying().(*types.Interface); ok {
		for i := 0; i < it.NumMethods(); i++ {
			if it.Method(i).Name() == "Done" {
				doneM = it.Method(i)
			}
		}
	}
	doneT := &Term{Op: "call", Aux: site + f.id + "!done", Args: []*Term{{Op: "method", Aux: "Done", Meth: doneM}, ctxT}}
	arms := []SelArm{{Send: false, Chan: doneT}}
	for n, c := range []int{0, -1} {
		ns := st
		if n == 0 {
			ns = st.Clone()
		}
		if c == 0 {
			ns.top().env[in] = &Term{Op: "ctxerr", Aux: site + f.id, Typ: in.Type()}
		} else {
			ns.top().env[in] = &Term{Op: "const", Aux: "nil", Typ: in.Type()}
		}
		res := &Term{Op: "selres", Aux: fmt.Sprintf("%s/%d", site+f.id, c)}
		ex.emit(ns, Step{Kind: KSelect, Instr: in, Arms: arms, Chosen: c, Blocking: false, R: res})
		ex.run(ns, blk, idx+1, nil, false)
	}
}

// calleeKey names a call target for the pure table and for reports.
func calleeKey(c *ssa.CallCommon) string {
	if c.IsInvoke() {
		return c.Method.FullName()
	}
	if f := c.StaticCallee(); f != nil {
		if f.Origin() != nil {
			f = f.Origin()
		}
		return f.String()
	}
	if b, ok := c.Value.(*ssa.Builtin); ok {
		return "builtin." + b.Name()
	}
	return ""
}

// concreteMethod: the function implementing interface method m for the concrete type t (nil when it cannot be
// resolved to a function with a body in the program).
func concreteMethod(prog *ssa.Program, t types.Type, m *types.Func) (res *ssa.Function) {
	if os.Getenv("VERIF_DBG_DEVIRT") != "" {
		defer func() { fmt.Fprintf(os.Stderr, "devirt %v . %v => %v\n", t, m, res) }()
	}
	if prog == nil || t == nil || m == nil {
		return nil
	}
	sel := prog.MethodSets.MethodSet(t).Lookup(m.Pkg(), m.Name())
	if sel == nil {
		return nil
	}
	if len(sel.Index()) != 1 {
		return nil // promoted through embedding: needs a wrapper; left as an invocation
	}
	obj, ok := sel.Obj().(*types.Func)
	if !ok {
		return nil
	}
	// value receiver called through a pointer (or the reverse) needs an adapter: only the direct case is resolved
	sig, _ := obj.Type().(*types.Signature)
	if sig == nil || sig.Recv() == nil {
		return nil
	}
	_, recvPtr := sig.Recv().Type().(*types.Pointer)
	_, tPtr := t.(*types.Pointer)
	if recvPtr != tPtr {
		return nil
	}
	if fn := prog.FuncValue(obj); fn != nil && len(fn.Blocks) > 0 {
		return fn
	}
	if fn := prog.FuncValue(obj.Origin()); fn != nil && len(fn.Blocks) > 0 {
		return fn
	}
	return nil
}

func resolveBody(f *ssa.Function) *ssa.Function {
	if f == nil {
		return nil
	}
	if len(f.Blocks) == 0 && f.Origin() != nil {
		return f.Origin()
	}
	if f.Synthetic != "" && f.Origin() != nil {
		return f.Origin()
	}
	return f
}

func (ex *explorer) canInline(st *State, fn *ssa.Function) bool {
	return ex.canInlineAt(st, fn, "")
}

func (ex *explorer) canInlineAt(st *State, fn *ssa.Function, site string) bool {
	if fn == nil || len(fn.Blocks) == 0 {
		return false
	}
	if len(st.frames) > ex.opt.MaxInline {
		return false
	}
	nest := 0
	for _, fr := range st.frames {
		if fr.fn == fn {
			nest++
		}
	}
	if nest > ex.opt.SelfNesting {
		return false
	}
	if ex.opt.Inline != nil && !ex.opt.Inline(fn) {
		return false
	}
	if HasLoop(fn) {
		// a callee with loops is inlined (its loop heads become cut points) at exactly one call site
		if site == "" || !ex.opt.LoopInline || callsItself(fn) {
			return false
		}
		key := site + st.top().id
		if owner, ok := ex.an.loopOwner[fn]; ok && owner != key {
			return false
		}
		// (defers inside such a callee stay on its frame, which the states at its loop heads keep)
		ex.an.loopOwner[fn] = key
		for _, h := range LoopHeaders(fn) {
			if !ex.isHdr[h] {
				ex.isHdr[h] = true
				ex.an.Headers = append(ex.an.Headers, h)
			}
		}
	}
	return true
}

func (ex *explorer) pushFrame(st *State, fn *ssa.Function, args []*Term, bindings []*Term, site string, retBlock *ssa.BasicBlock, retIdx int, retVal ssa.Value, inDefer bool, instr ssa.Instruction, inst *ssa.Function) {
	nf := &frame{fn: fn, env: map[ssa.Value]*Term{}, id: st.top().id + "/" + site, retBlock: retBlock, retIdx: retIdx, retVal: retVal, inDefer: inDefer}
	if inst != nil && inst.Origin() != nil && len(inst.TypeArgs()) > 0 {
		if tps := inst.Origin().TypeParams(); tps != nil && tps.Len() == len(inst.TypeArgs()) {
			nf.tsub = map[*types.TypeParam]types.Type{}
			for i := 0; i < tps.Len(); i++ {
				nf.tsub[tps.At(i)] = st.top().ty(inst.TypeArgs()[i])
			}
		}
	} else if fn.Parent() != nil {
		// a function literal shares the type parameters of the function it is written in
		for i := len(st.frames) - 1; i >= 0; i-- {
			for p := fn.Parent(); p != nil; p = p.Parent() {
				if st.frames[i].fn == p {
					nf.tsub = st.frames[i].tsub
					break
				}
			}
			if nf.tsub != nil {
				break
			}
		}
	}
	for i, p := range fn.Params {
		if i < len(args) {
			nf.env[p] = args[i]
		} else {
			nf.env[p] = &Term{Op: "undef", Aux: p.Name()}
		}
	}
	for i, fv := range fn.FreeVars {
		if i < len(bindings) {
			nf.env[fv] = bindings[i]
		} else {
			nf.env[fv] = &Term{Op: "free", Aux: fv.Name(), Src: fv}
		}
	}
	ex.emit(st, Step{Kind: KEnter, Instr: instr, Static: fn, A: args})
	st.frames = append(st.frames, nf)
}

func (ex *explorer) callDeferred(st *State, d *deferRec, blk *ssa.BasicBlock, idx int) bool {
	site := ex.instrID(d.instr)
	if d.builtin != "" {
		switch d.builtin {
		case "close":
			st.frames[len(st.frames)-1].inDefer = true
			ex.emit(st, Step{Kind: KClose, Instr: d.instr, A: d.args})
			st.frames[len(st.frames)-1].inDefer = false
		default:
			st.frames[len(st.frames)-1].inDefer = true
			ex.emit(st, Step{Kind: KCall, Instr: d.instr, Callee: &Term{Op: "builtin", Aux: d.builtin}, A: d.args})
			st.frames[len(st.frames)-1].inDefer = false
		}
		return false
	}
	var fn *ssa.Function
	var bindings []*Term
	if d.static != nil {
		fn = resolveBody(d.static)
		// a deferred sync/atomic operation (defer live.Add(-1)): no event, as in doCall
		of := d.static
		if of.Origin() != nil {
			of = of.Origin()
		}
		if nm := of.String(); strings.HasPrefix(nm, "sync/atomic.") || strings.HasPrefix(nm, "(*sync/atomic.") {
			return false
		}
	}
	if d.callee != nil && (d.callee.Op == "closure" || d.callee.Op == "fn") {
		fn = resolveBody(d.callee.Fn)
		bindings = d.callee.Args
	}
	if d.method == nil && ex.canInline(st, fn) {
		ex.pushFrame(st, fn, d.args, bindings, site, blk, idx, nil, true, d.instr, d.static)
		return true
	}
	top := st.top()
	top.inDefer = true
	s := Step{Kind: KCall, Instr: d.instr, Callee: d.callee, Static: d.static, Method: d.method, A: d.args}
	s.R = &Term{Op: "call", Aux: site + top.id + "!d"}
	ex.emit(st, s)
	top.inDefer = false
	ex.havocArgs(st, d.args, site)
	return false
}

func (ex *explorer) havocArgs(st *State, args []*Term, tag string) {
	for _, a := range args {
		if a.Op == "alloc" || a.Op == "faddr" || a.Op == "iaddr" {
			st.havoc(a, "c:"+tag)
		}
	}
}

// doCall handles Call; returns true when an inline frame was pushed.
func (ex *explorer) doCall(st *State, in ssa.Instruction, c *ssa.CallCommon, val ssa.Value, blk *ssa.BasicBlock, idx int) bool {
	site := ex.instrID(in)
	f := st.top()
	var args []*Term
	if c.IsInvoke() {
		args = append(args, ex.eval(st, c.Value))
	}
	for _, a := range c.Args {
		args = append(args, ex.eval(st, a))
	}
	name := calleeKey(c)
	bind := func(t *Term) {
		if val != nil {
			f.env[val] = t
		}
	}
	if b, ok := c.Value.(*ssa.Builtin); ok && !c.IsInvoke() {
		switch b.Name() {
		case "len", "cap":
			bind(simplifyLenCap(b.Name(), args[0]))
		case "append":
			bind(&Term{Op: "append", Args: args})
		case "close":
			ex.emit(st, Step{Kind: KClose, Instr: in, A: args})
		case "Add":
			// unsafe.Add(p, n) is unsafe.Pointer(uintptr(p) + uintptr(n)): one normal form for both spellings
			if len(args) == 2 {
				up := &Term{Op: "conv", Aux: "uintptr", Args: []*Term{args[0]}, Typ: types.Typ[types.Uintptr]}
				bind(&Term{Op: "conv", Aux: "unsafe.Pointer", Args: []*Term{mkBin("+", up, args[1])}, Typ: types.Typ[types.UnsafePointer]})
			} else {
				bind(&Term{Op: "pure", Aux: b.Name(), Args: args})
			}
		case "min", "max":
			bind(&Term{Op: "pure", Aux: b.Name(), Args: args})
		default:
			r := &Term{Op: "call", Aux: site + f.id}
			ex.emit(st, Step{Kind: KCall, Instr: in, Callee: &Term{Op: "builtin", Aux: b.Name()}, A: args, R: r})
			bind(r)
		}
		return false
	}
	// sync/atomic on a counter or gauge: no event of any protocol the rules speak about (no channel operation, no
	// call of user code, no store the terms can see); the value read is unknown
	if strings.HasPrefix(name, "sync/atomic.") || strings.HasPrefix(name, "(*sync/atomic.") {
		// an optional hook kept in an unexported package-level atomic.Pointer / atomic.Value that nothing in the
		// program ever stores to: Load answers nil
		if strings.HasSuffix(name, ").Load") && len(c.Args) == 1 {
			if g, isG := c.Args[0].(*ssa.Global); isG && atomicNeverStored(g) {
				bind(&Term{Op: "const", Aux: "nil", Typ: in.(ssa.Value).Type()})
				return false
			}
		}
		bind(&Term{Op: "atomic", Aux: site + f.id})
		return false
	}
	if ex.opt.PureCall != nil && name != "" && ex.opt.PureCall(name) {
		if t := rtypeOf(name, c, args, f); t != nil {
			bind(t)
			return false
		}
		bind(&Term{Op: "pure", Aux: name, Args: args})
		return false
	}
	var fn *ssa.Function
	var bindings []*Term
	var calleeT *Term
	var devirt *ssa.Function
	if c.IsInvoke() {
		// an invocation on a collaborator this very analysis converted to the interface: the method of its
		// concrete type (a locally built strategy / worker object behind a small internal interface)
		if st.dyn != nil {
			devirt = st.dynMethod(f.fn.Prog, args[0], c.Method)
			if devirt != nil && !ex.canInlineAt(st, resolveBody(devirt), site) {
				devirt = nil // not followed: the invocation stays the event the rules know
			}
		}
		if devirt == nil {
			r := &Term{Op: "call", Aux: site + f.id, Args: append([]*Term{{Op: "method", Aux: c.Method.Name(), Meth: c.Method}}, args...)}
			ex.emit(st, Step{Kind: KCall, Instr: in, Method: c.Method, A: args, R: r})
			bind(r)
			ex.havocArgs(st, args[1:], site)
			return false
		}
	}
	if devirt != nil {
		fn = resolveBody(devirt)
		calleeT = &Term{Op: "fn", Fn: fn}
	} else if sf := c.StaticCallee(); sf != nil {
		fn = resolveBody(sf)
		if mc, ok := c.Value.(*ssa.MakeClosure); ok {
			ct := ex.eval(st, mc)
			bindings = ct.Args
			calleeT = ct
		} else {
			calleeT = &Term{Op: "fn", Fn: fn}
		}
	} else {
		calleeT = ex.eval(st, c.Value)
		if calleeT.Op == "closure" || calleeT.Op == "fn" {
			fn = resolveBody(calleeT.Fn)
			bindings = calleeT.Args
		}
	}
	// a bound method value of an interface (v.M passed as a function) called later is an invocation of M on the
	// receiver bound at that time: same event as v.M(args) written directly
	if calleeT != nil && calleeT.Op == "closure" && calleeT.Fn != nil && len(calleeT.Args) == 1 && strings.HasPrefix(calleeT.Fn.Synthetic, "bound method wrapper") {
		if m, isM := calleeT.Fn.Object().(*types.Func); isM {
			if sig, isS := m.Type().(*types.Signature); isS && sig.Recv() != nil && types.IsInterface(sig.Recv().Type()) {
				iargs := append([]*Term{calleeT.Args[0]}, args...)
				r := &Term{Op: "call", Aux: site + f.id, Args: append([]*Term{{Op: "method", Aux: m.Name(), Meth: m}}, iargs...)}
				ex.emit(st, Step{Kind: KCall, Instr: in, Method: m, A: iargs, R: r})
				bind(r)
				ex.havocArgs(st, iargs[1:], site)
				return false
			}
			// a bound method value of a concrete type: the method itself, applied to the bound receiver
			mf := calleeT.Fn.Prog.FuncValue(m)
			if mf == nil {
				mf = calleeT.Fn.Prog.FuncValue(m.Origin())
			}
			if mf != nil {
				fn = resolveBody(mf)
				args = append([]*Term{calleeT.Args[0]}, args...)
				bindings = nil
				calleeT = &Term{Op: "fn", Fn: fn}
			}
		}
	}
	// a validation helper that loops over its arguments (`nonNil(n, a == nil, b == nil, ...)`): it either panics or
	// returns, and touches nothing; like the single-condition assertion helper it is taken as never firing
	if fn != nil && isAssertionHelper(fn) && HasLoop(fn) {
		ex.an.noteAssumed(in)
		bind(&Term{Op: "tuple"})
		return false
	}
	// a bookkeeping helper that loops (a compare-and-swap loop raising a high-water mark): nothing but sync/atomic
	// operations, message formatting and calls of a hook that is never installed - no event, and its loop is not a
	// loop of the protocol its caller implements
	if fn != nil && isBookkeepingHelper(fn, 0) {
		bind(&Term{Op: "tuple"})
		return false
	}
	if fn != nil && ex.canInlineAt(st, fn, site) {
		inst := c.StaticCallee()
		if devirt != nil {
			inst = devirt
		}
		ex.pushFrame(st, fn, args, bindings, site, blk, idx+1, val, false, in, inst)
		return true
	}
	r := &Term{Op: "call", Aux: site + f.id, Args: append([]*Term{calleeT}, args...)}
	var instArgs []types.Type
	{
		inst := c.StaticCallee()
		if inst == nil && calleeT != nil && (calleeT.Op == "fn" || calleeT.Op == "closure") {
			inst = calleeT.Fn
		}
		if inst != nil {
			for _, ta := range inst.TypeArgs() {
				instArgs = append(instArgs, f.ty(ta))
			}
		}
	}
	ex.emit(st, Step{Kind: KCall, Instr: in, Callee: calleeT, Static: fn, A: args, R: r, InstArgs: instArgs})
	bind(r)
	ex.havocArgs(st, args, site)
	// a function literal that is called but not followed (it recurses, or carries loops) may have assigned the
	// variables it captures
	if calleeT != nil && calleeT.Op == "closure" && calleeT.Fn != nil {
		for i := range writtenFreeVars(calleeT.Fn) {
			if i < len(calleeT.Args) && calleeT.Args[i] != nil && calleeT.Args[i].Op == "alloc" {
				st.havoc(calleeT.Args[i], "c:"+site)
			}
		}
	}
	return false
}

// wholeArraySlice: x is arr[:] / arr[0:] of a local array of known length (returns the length).
func wholeArraySlice(x *Term) (int64, bool) {
	if x == nil || x.Op != "slice" || len(x.Args) != 4 || x.Args[0].Op != "alloc" || x.Args[0].Typ == nil {
		return 0, false
	}
	pt, ok := x.Args[0].Typ.Underlying().(*types.Pointer)
	if !ok {
		return 0, false
	}
	at, ok := pt.Elem().Underlying().(*types.Array)
	if !ok {
		return 0, false
	}
	def := func(t *Term) bool { return t.IsConst() && t.Aux == "_" }
	lo := x.Args[1]
	if k, isK := lo.IntConst(); !(def(lo) || isK && k == 0) {
		return 0, false
	}
	if !def(x.Args[2]) || !def(x.Args[3]) {
		return 0, false
	}
	return at.Len(), true
}

func simplifyLenCap(op string, x *Term) *Term {
	if n, ok := wholeArraySlice(x); ok {
		return &Term{Op: "const", Aux: strconv.FormatInt(n, 10)}
	}
	if x.IsNil() {
		return &Term{Op: "const", Aux: "0"}
	}
	switch {
	case x.Op == "mkslice" && op == "len":
		return x.Args[0]
	case x.Op == "mkslice" && op == "cap":
		return x.Args[1]
	case x.Op == "mkchan" && op == "cap":
		return x.Args[0]
	case x.Op == "slice" && op == "len" && len(x.Args) == 4 && x.Args[2].Aux != "_":
		// len(x[:hi]) = hi, len(x[lo:hi]) = hi - lo
		if x.Args[1].Aux == "_" && x.Args[1].Op == "const" {
			return x.Args[2]
		}
		if lo, ok := x.Args[1].IntConst(); ok && lo == 0 {
			return x.Args[2]
		}
	}
	return &Term{Op: op, Args: []*Term{x}}
}

func (ex *explorer) simple(st *State, in ssa.Instruction) {
	f := st.top()
	switch in := in.(type) {
	case *ssa.Alloc:
		a := &Term{Op: "alloc", Aux: ex.instrID(in) + f.id + ":" + in.Comment, Typ: f.ty(in.Type()), Src: in, Owner: in.Parent()}
		f.env[in] = a
		st.fresh[a.Key()] = true
		et := f.ty(in.Type().Underlying().(*types.Pointer).Elem())
		st.store(a, zeroTerm(et))
	case *ssa.Store:
		addr, val := ex.eval(st, in.Addr), ex.eval(st, in.Val)
		local := false
		for r := addr; r != nil; r = addrParent(r) {
			if r.Op == "alloc" && st.fresh[r.Key()] {
				local = true
			}
		}
		st.store(addr, val)
		ex.emit(st, Step{Kind: KStore, Instr: in, A: []*Term{addr, val}, LocalStore: local})
	case *ssa.UnOp:
		x := ex.eval(st, in.X)
		switch in.Op {
		case token.MUL:
			v := st.load(x, "0")
			if v.Op == "load" && len(v.Args) == 1 && v.Args[0] == x {
				if c := loadConstGlobal(x, f.ty(in.Type()), ex.opt); c != nil {
					v = c
				}
			}
			f.env[in] = v
		case token.ARROW:
			r := &Term{Op: "recv", Aux: ex.instrID(in) + f.id, Args: []*Term{x}}
			ex.emit(st, Step{Kind: KRecv, Instr: in, A: []*Term{x}, R: r, CommaOk: in.CommaOk})
			f.env[in] = r
		case token.NOT:
			switch {
			case x.IsConst() && (x.Aux == "true" || x.Aux == "false"):
				f.env[in] = boolT(x.Aux == "false")
			case x.Op == "un" && x.Aux == "!" && len(x.Args) == 1:
				f.env[in] = x.Args[0] // double negation
			case x.Op == "bin" && x.Aux == "!=" && len(x.Args) == 2:
				f.env[in] = mkBin("==", x.Args[0], x.Args[1]) // !(a != b) is a == b
			default:
				f.env[in] = &Term{Op: "un", Aux: "!", Args: []*Term{x}}
			}
		default:
			f.env[in] = &Term{Op: "un", Aux: in.Op.String(), Args: []*Term{x}}
		}
	case *ssa.BinOp:
		// an interface made from a value of a concrete type is never the nil interface, whatever the value is: a nil
		// pointer inside an interface compares unequal to nil (conversions are otherwise transparent in terms)
		if (in.Op == token.EQL || in.Op == token.NEQ) && (concreteInIface(in.X) && isNilConst(in.Y) || concreteInIface(in.Y) && isNilConst(in.X)) {
			f.env[in] = boolT(in.Op == token.NEQ)
			break
		}
		f.env[in] = mkBin(in.Op.String(), ex.eval(st, in.X), ex.eval(st, in.Y))
	case *ssa.FieldAddr:
		x := ex.eval(st, in.X)
		name := fieldName(in.X.Type(), in.Field)
		f.env[in] = &Term{Op: "faddr", Aux: name, Args: []*Term{x}, Typ: in.Type()}
		// taking the address of a field of a nil pointer panics: past this point the pointer is not nil
		if !x.IsConst() && x.Op != "alloc" {
			if atom, pol := Atom(mkBin("==", x, Nil)); !atom.IsConst() {
				if _, known := st.facts[atom.Key()]; !known {
					st.facts[atom.Key()] = !pol
				}
			}
		}
	case *ssa.Field:
		x := ex.eval(st, in.X)
		name := fieldName(in.X.Type(), in.Field)
		f.env[in] = fieldOf(x, name)
	case *ssa.IndexAddr:
		x := ex.eval(st, in.X)
		// an element of arr[:] (arr a local array: a slice literal, a variadic argument list) is the array's element
		if n, ok := wholeArraySlice(x); ok && n >= 0 {
			x = x.Args[0]
		}
		f.env[in] = &Term{Op: "iaddr", Args: []*Term{x, ex.eval(st, in.Index)}, Typ: in.Type()}
	case *ssa.Index:
		f.env[in] = &Term{Op: "index", Args: []*Term{ex.eval(st, in.X), ex.eval(st, in.Index)}}
	case *ssa.Lookup:
		lk := &Term{Op: "lookup", Args: []*Term{ex.eval(st, in.X), ex.eval(st, in.Index)}}
		if in.CommaOk {
			// v, ok := m[k]: the value component is the plain lookup
			f.env[in] = &Term{Op: "tuple", Args: []*Term{lk, {Op: "lookupok", Args: lk.Args}}}
		} else {
			f.env[in] = lk
		}
	case *ssa.Slice:
		opt := func(v ssa.Value) *Term {
			if v == nil {
				return &Term{Op: "const", Aux: "_"}
			}
			return ex.eval(st, v)
		}
		base, lo, hi := ex.eval(st, in.X), opt(in.Low), opt(in.High)
		// x[a:len(x)] is x[a:] (the bound bound to a local first, `n := len(x); x[1:n]`)
		if hi.Op == "len" && len(hi.Args) == 1 && Same(hi.Args[0], base) && in.Max == nil {
			hi = &Term{Op: "const", Aux: "_"}
		}
		f.env[in] = &Term{Op: "slice", Args: []*Term{base, lo, hi, opt(in.Max)}, Typ: in.Type()}
	case *ssa.MakeSlice:
		f.env[in] = &Term{Op: "mkslice", Aux: ex.instrID(in) + f.id, Args: []*Term{ex.eval(st, in.Len), ex.eval(st, in.Cap)}, Typ: in.Type()}
	case *ssa.MakeChan:
		f.env[in] = &Term{Op: "mkchan", Aux: ex.instrID(in) + f.id, Args: []*Term{ex.eval(st, in.Size)}, Typ: in.Type(), Src: in}
	case *ssa.MakeMap:
		f.env[in] = &Term{Op: "mkmap", Aux: ex.instrID(in) + f.id, Typ: in.Type()}
	case *ssa.MakeClosure:
		var b []*Term
		for _, x := range in.Bindings {
			b = append(b, ex.eval(st, x))
		}
		f.env[in] = &Term{Op: "closure", Fn: in.Fn.(*ssa.Function), Args: b, Typ: in.Type(), Src: in}
	case *ssa.MakeInterface:
		x := ex.eval(st, in.X)
		f.env[in] = x
		if x.IsNil() && !types.IsInterface(in.X.Type()) {
			if _, isTP := in.X.Type().(*types.TypeParam); !isTP {
				// a nil pointer (map, func ...) converted to an interface: not the nil interface
				f.env[in] = &Term{Op: "typednil", Aux: shortType(f.ty(in.X.Type())), Typ: in.Type()}
			}
		}
		zeroStruct := false
		if x.IsConst() && strings.HasPrefix(x.Aux, "zero:") {
			// the zero value of a named struct type (a stateless strategy object): its term names the type
			if nt, ok := f.ty(in.X.Type()).(*types.Named); ok {
				_, zeroStruct = nt.Underlying().(*types.Struct)
			}
		}
		if st.dyn != nil && !types.IsInterface(in.X.Type()) && (!x.IsConst() || zeroStruct) {
			if _, isTP := in.X.Type().(*types.TypeParam); !isTP {
				st.recordDyn(x, f.ty(in.X.Type()))
			}
		}
	case *ssa.ChangeType:
		f.env[in] = ex.eval(st, in.X)
	case *ssa.ChangeInterface:
		f.env[in] = ex.eval(st, in.X)
	case *ssa.Convert:
		f.env[in] = &Term{Op: "conv", Aux: shortType(f.ty(in.Type())), Args: []*Term{ex.eval(st, in.X)}, Typ: f.ty(in.Type())}
	case *ssa.MultiConvert:
		f.env[in] = &Term{Op: "conv", Aux: shortType(f.ty(in.Type())), Args: []*Term{ex.eval(st, in.X)}, Typ: f.ty(in.Type())}
	case *ssa.SliceToArrayPointer:
		f.env[in] = &Term{Op: "conv", Aux: shortType(in.Type()), Args: []*Term{ex.eval(st, in.X)}}
	case *ssa.TypeAssert:
		f.env[in] = &Term{Op: "tassert", Aux: shortType(f.ty(in.AssertedType)), Args: []*Term{ex.eval(st, in.X)}, Typ: f.ty(in.AssertedType)}
		if in.CommaOk {
			f.env[in].Aux += ",ok"
		}
	case *ssa.Extract:
		t := ex.eval(st, in.Tuple)
		switch {
		case t.Op == "tuple" && in.Index < len(t.Args):
			f.env[in] = t.Args[in.Index]
		case t.Op == "selres":
			// #0 = chosen index, #1 = recvOk, #2+ = received values
			if in.Index == 0 {
				c := t.Aux[strings.LastIndex(t.Aux, "/")+1:]
				f.env[in] = &Term{Op: "const", Aux: c}
			} else {
				f.env[in] = &Term{Op: "extract", Aux: fmt.Sprint(in.Index), Args: []*Term{t}}
			}
		default:
			f.env[in] = &Term{Op: "extract", Aux: fmt.Sprint(in.Index), Args: []*Term{t}}
		}
	case *ssa.Send:
		ex.emit(st, Step{Kind: KSend, Instr: in, A: []*Term{ex.eval(st, in.Chan), ex.eval(st, in.X)}})
	case *ssa.MapUpdate:
		ex.emit(st, Step{Kind: KMapUpdate, Instr: in, A: []*Term{ex.eval(st, in.Map), ex.eval(st, in.Key), ex.eval(st, in.Value)}})
	case *ssa.Go:
		s := Step{Kind: KGo, Instr: in}
		ex.fillCall(st, &s, &in.Call)
		s.Snap = st.Clone()
		ex.emit(st, s)
	case *ssa.Defer:
		s := Step{Kind: KDefer, Instr: in}
		ex.fillCall(st, &s, &in.Call)
		d := &deferRec{instr: in, callee: s.Callee, static: s.Static, method: s.Method, args: s.A}
		if b, ok := in.Call.Value.(*ssa.Builtin); ok && !in.Call.IsInvoke() {
			d.builtin = b.Name()
		}
		f.defers = append(f.defers, d)
		ex.emit(st, s)
	case *ssa.Range, *ssa.Next:
		v := in.(ssa.Value)
		f.env[v] = &Term{Op: "iter", Aux: ex.instrID(in) + f.id}
		ex.problem("range over map/string in %s is not modelled", FuncName(f.fn))
	default:
		ex.problem("unsupported instruction %T in %s", in, FuncName(f.fn))
		if v, ok := in.(ssa.Value); ok {
			f.env[v] = &Term{Op: "undef", Aux: v.Name()}
		}
	}
}

func (ex *explorer) fillCall(st *State, s *Step, c *ssa.CallCommon) {
	if c.IsInvoke() {
		s.Method = c.Method
		s.A = append(s.A, ex.eval(st, c.Value))
	}
	for _, a := range c.Args {
		s.A = append(s.A, ex.eval(st, a))
	}
	if c.IsInvoke() {
		// go/defer of a method of a collaborator converted to the interface on this path: its concrete method
		if st.dyn != nil {
			if m := st.dynMethod(st.top().fn.Prog, s.A[0], c.Method); m != nil {
				s.Method = nil
				s.Static = resolveBody(m)
				s.Callee = &Term{Op: "fn", Fn: s.Static}
			}
		}
		return
	}
	if b, ok := c.Value.(*ssa.Builtin); ok {
		s.Callee = &Term{Op: "builtin", Aux: b.Name()}
		return
	}
	if sf := c.StaticCallee(); sf != nil {
		s.Static = resolveBody(sf)
		if mc, ok := c.Value.(*ssa.MakeClosure); ok {
			s.Callee = ex.eval(st, mc)
		} else {
			s.Callee = &Term{Op: "fn", Fn: s.Static}
		}
		return
	}
	s.Callee = ex.eval(st, c.Value)
	if s.Callee.Op == "closure" || s.Callee.Op == "fn" {
		s.Static = resolveBody(s.Callee.Fn)
	}
}

func fieldName(t types.Type, i int) string {
	if p, ok := t.Underlying().(*types.Pointer); ok {
		t = p.Elem()
	}
	if s, ok := t.Underlying().(*types.Struct); ok && i < s.NumFields() {
		return s.Field(i).Name()
	}
	return fmt.Sprintf("#%d", i)
}

// SpawnState builds the initial state for analysing the function started by
// a go step (or any closure term) with the memory of the snapshot.
func SpawnState(s *Step) (*ssa.Function, *State) {
	fn := s.Static
	if fn == nil {
		return nil, nil
	}
	var bindings []*Term
	if s.Callee != nil && s.Callee.Op == "closure" {
		bindings = s.Callee.Args
	}
	st := NewRootState(fn, s.A, bindings, s.Snap)
	// the goroutine is analysed once for all the paths that start it: what one spawning path happened to know about
	// the parameters (the path that skipped the worker loop knows par <= 0) must not prune the goroutine's own paths
	st.facts = map[string]bool{}
	return fn, st
}

func callsItself(fn *ssa.Function) bool {
	for _, b := range fn.Blocks {
		for _, in := range b.Instrs {
			if c, ok := in.(ssa.CallInstruction); ok {
				if sc := c.Common().StaticCallee(); sc != nil && resolveBody(sc) == fn {
					return true
				}
			}
		}
	}
	return false
}


// concreteInIface: v is the conversion of a value of a concrete (non-interface, non-type-parameter) type to an
// interface.
func concreteInIface(v ssa.Value) bool {
	for {
		if ci, ok := v.(*ssa.ChangeInterface); ok {
			v = ci.X
			continue
		}
		break
	}
	mi, ok := v.(*ssa.MakeInterface)
	if !ok || types.IsInterface(mi.X.Type()) {
		return false
	}
	_, isTP := mi.X.Type().(*types.TypeParam)
	return !isTP
}

func isNilConst(v ssa.Value) bool {
	k, ok := v.(*ssa.Const)
	return ok && k.IsNil()
}


// rootNilArgument: the path condition of st contains the fact that a parameter of the root function is nil.
func rootNilArgument(st *State) bool {
	f := st.frames[0]
	for _, p := range f.fn.Params {
		switch p.Type().Underlying().(type) {
		case *types.Signature, *types.Interface, *types.Pointer, *types.Chan, *types.Map, *types.Slice:
		default:
			continue
		}
		t := f.env[p]
		if t == nil || t.Op != "param" {
			continue
		}
		atom, pol := Atom(mkBin("==", t, Nil))
		if atom.IsConst() {
			continue
		}
		if v, ok := st.facts[atom.Key()]; ok && v == pol {
			return true
		}
	}
	return false
}


var bookkeepingCache sync.Map // *ssa.Function -> bool

// isBookkeepingHelper: an unexported function without results whose body only counts: sync/atomic operations,
// formatting (fmt, strconv, strings), len/cap, calls of functions of the same kind, and calls through a package-level
// hook variable that nothing ever assigns. No store outside its own frame, no channel operation, no goroutine, no
// defer, no panic.
func isBookkeepingHelper(fn *ssa.Function, depth int) bool {
	if fn == nil || depth > 2 || fn.Signature.Results().Len() != 0 || len(fn.Blocks) == 0 || len(fn.Blocks) > 30 {
		return false
	}
	if fn.Object() == nil || fn.Object().Exported() {
		return false
	}
	if v, hit := bookkeepingCache.Load(fn); hit {
		return v.(bool)
	}
	bookkeepingCache.Store(fn, false) // recursion guard
	res := func() bool {
		for _, b := range fn.Blocks {
			for _, in := range b.Instrs {
				switch in := in.(type) {
				case *ssa.Send, *ssa.Go, *ssa.Defer, *ssa.MapUpdate, *ssa.Select, *ssa.Panic, *ssa.RunDefers:
					return false
				case *ssa.Store:
					// spilling into its own frame only
					root := in.Addr
					for {
						switch x := root.(type) {
						case *ssa.IndexAddr:
							root = x.X
							continue
						case *ssa.FieldAddr:
							root = x.X
							continue
						}
						break
					}
					if _, ok := root.(*ssa.Alloc); !ok {
						return false
					}
				case *ssa.UnOp:
					if in.Op == token.ARROW {
						return false
					}
				case *ssa.Call:
					if bi, isB := in.Call.Value.(*ssa.Builtin); isB {
						if bi.Name() == "len" || bi.Name() == "cap" {
							continue
						}
						return false
					}
					if in.Call.IsInvoke() {
						return false
					}
					if callee := in.Call.StaticCallee(); callee != nil {
						if callee.Pkg != nil {
							switch callee.Pkg.Pkg.Path() {
							case "sync/atomic", "fmt", "strconv", "strings":
								continue
							}
						}
						o := callee
						if o.Origin() != nil {
							o = o.Origin()
						}
						if o.Pkg == fn.Pkg && isBookkeepingHelper(resolveBody(o), depth+1) {
							continue
						}
						return false
					}
					// a call through a hook variable that is never assigned
					if ld, isLd := in.Call.Value.(*ssa.UnOp); isLd && ld.Op == token.MUL {
						if g, isG := ld.X.(*ssa.Global); isG && immutableGlobal(g) && !globalEverStored(g) {
							continue
						}
					}
					return false
				}
			}
		}
		return true
	}()
	bookkeepingCache.Store(fn, res)
	return res
}


// InAtomicSpinLoop: b belongs to a compare-and-swap loop of a counter (see atomicSpinExit).
func InAtomicSpinLoop(b *ssa.BasicBlock) bool {
	if b == nil || b.Parent() == nil {
		return false
	}
	for _, h := range b.Parent().Blocks {
		if atomicSpinExit(h) != nil && LoopBlocks(h)[b] {
			return true
		}
	}
	return false
}


// storesIntoOwnAlloc: the store writes into memory the function allocated itself (an element or field of one of its
// own Allocs - the varargs array of a formatting call).
func storesIntoOwnAlloc(st *ssa.Store) bool {
	root := st.Addr
	for {
		switch x := root.(type) {
		case *ssa.IndexAddr:
			root = x.X
			continue
		case *ssa.FieldAddr:
			root = x.X
			continue
		}
		break
	}
	al, ok := root.(*ssa.Alloc)
	return ok && al.Parent() == st.Parent()
}
