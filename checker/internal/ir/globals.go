package ir

import (
	"go/token"
	"go/types"
	"strings"
	"sync"

	"golang.org/x/tools/go/ssa"
	"golang.org/x/tools/go/ssa/ssautil"
)

// Immutable package-level tables.
//
// An unexported package-level variable of value kind (numbers, booleans, strings, function values, and arrays /
// structs of those) that is written only by the package initializer and whose address is used for nothing but
// reading is a constant of the program: a load of it (with constant indices) yields what the initializer stored
// (`verdict[lt][gt]`, `capacity[mode](n)`). Everything is decided from the program text: the scan below looks at
// every use of the variable in every function of the program.

type globalInit struct{ st *State }

var (
	globalInitCache sync.Map // *ssa.Global -> *globalInit
	progFuncsCache  sync.Map // *ssa.Program -> []*ssa.Function
)

func valueKind(t types.Type, depth int) bool {
	if depth > 6 {
		return false
	}
	switch u := t.Underlying().(type) {
	case *types.Basic:
		return u.Kind() != types.UnsafePointer
	case *types.Signature:
		return true
	case *types.Array:
		return valueKind(u.Elem(), depth+1)
	case *types.Struct:
		for i := 0; i < u.NumFields(); i++ {
			if !valueKind(u.Field(i).Type(), depth+1) {
				return false
			}
		}
		return true
	}
	return false
}

func progFuncs(prog *ssa.Program) []*ssa.Function {
	if v, ok := progFuncsCache.Load(prog); ok {
		return v.([]*ssa.Function)
	}
	var out []*ssa.Function
	for fn := range ssautil.AllFunctions(prog) {
		if len(fn.Blocks) > 0 {
			out = append(out, fn)
		}
	}
	progFuncsCache.Store(prog, out)
	return out
}

func isPkgInitializer(fn *ssa.Function) bool {
	return fn != nil && fn.Synthetic == "package initializer"
}

// readOnlyUses: every use of the address value v (the global, or an element/field address derived from it) is a
// load, a further element/field address, or - inside the package initializer - a store through it.
func readOnlyUses(v ssa.Value, refs []ssa.Instruction, inInit bool, depth int) bool {
	if depth > 8 {
		return false
	}
	for _, r := range refs {
		switch r := r.(type) {
		case *ssa.UnOp:
			if r.Op != token.MUL {
				return false
			}
		case *ssa.IndexAddr:
			if r.X != v || r.Referrers() == nil || !readOnlyUses(r, *r.Referrers(), inInit, depth+1) {
				return false
			}
		case *ssa.FieldAddr:
			if r.X != v || r.Referrers() == nil || !readOnlyUses(r, *r.Referrers(), inInit, depth+1) {
				return false
			}
		case *ssa.Store:
			if !inInit || r.Addr != v || r.Val == v {
				return false
			}
		case *ssa.DebugRef:
		default:
			return false
		}
	}
	return true
}

func immutableGlobal(g *ssa.Global) bool {
	if g == nil || g.Pkg == nil || g.Object() == nil || g.Object().Exported() {
		return false
	}
	pt, ok := g.Type().(*types.Pointer)
	if !ok || !valueKind(pt.Elem(), 0) {
		return false
	}
	for _, fn := range progFuncs(g.Pkg.Prog) {
		inInit := isPkgInitializer(fn) && fn.Pkg == g.Pkg
		for _, b := range fn.Blocks {
			var uses []ssa.Instruction
			for _, in := range b.Instrs {
				for _, op := range in.Operands(nil) {
					if *op == ssa.Value(g) {
						uses = append(uses, in)
						break
					}
				}
			}
			if len(uses) > 0 && !readOnlyUses(g, uses, inInit, 0) {
				return false
			}
		}
	}
	return true
}

func rootOfAddr(a *Term) *Term {
	for a != nil && (a.Op == "faddr" || a.Op == "iaddr") {
		a = a.Args[0]
	}
	return a
}

func constIndices(a *Term) bool {
	for a != nil && (a.Op == "faddr" || a.Op == "iaddr") {
		if a.Op == "iaddr" {
			if _, ok := a.Args[1].IntConst(); !ok {
				return false
			}
		}
		a = a.Args[0]
	}
	return true
}

// constGlobalState: the memory at the end of the package initializer when g is an immutable table (nil otherwise).
func constGlobalState(g *ssa.Global, opt *Options) *State {
	if v, ok := globalInitCache.Load(g); ok {
		return v.(*globalInit).st
	}
	globalInitCache.Store(g, &globalInit{}) // a load met while the initializer itself is analysed stays symbolic
	var st *State
	if immutableGlobal(g) {
		// never written at all, not even by the initializer (`var trace func(string)`: a hook that is off in the program
		// as built): every load yields the zero value
		if !globalEverStored(g) {
			st = NewState()
			globalInitCache.Store(g, &globalInit{st: st})
			return st
		}
		if init := g.Pkg.Func("init"); init != nil && len(init.Blocks) > 0 && !HasLoop(init) {
			o := *opt
			inl := opt.Inline
			o.Inline = func(f *ssa.Function) bool {
				// other packages' initializers do not write this package's unexported variables
				return !isPkgInitializer(f) && (inl == nil || inl(f))
			}
			an := Analyze(init, NewRootState(init, nil, nil, nil), &o)
			if len(an.Problems) == 0 && len(an.Headers) == 0 {
				var chosen *Path
				n := 0
				for _, p := range an.AllPaths() {
					if p.Exit != ExitReturn || p.End == nil {
						continue
					}
					writes, symbolic := false, false
					for i := range p.Steps {
						s := &p.Steps[i]
						if s.Kind != KStore {
							continue
						}
						if r := rootOfAddr(s.A[0]); r != nil && r.Op == "global" && r.Src == ssa.Value(g) {
							writes = true
							if !constIndices(s.A[0]) {
								symbolic = true
							}
						}
					}
					if symbolic {
						n = 99
					}
					if writes {
						n++
						chosen = p
					}
				}
				if n == 1 {
					st = chosen.End
				}
			}
		}
	}
	globalInitCache.Store(g, &globalInit{st: st})
	return st
}

// loadConstGlobal resolves an otherwise symbolic load from an immutable table (nil when it is not one).
func loadConstGlobal(addr *Term, elem types.Type, opt *Options) *Term {
	r := rootOfAddr(addr)
	if r == nil || r.Op != "global" || !constIndices(addr) {
		return nil
	}
	g, ok := r.Src.(*ssa.Global)
	if !ok {
		return nil
	}
	is := constGlobalState(g, opt)
	if is == nil {
		return nil
	}
	v := is.load(addr, "0")
	if v.Op == "load" || v.Op == "index" || v.Op == "field" || (v.Op == "const" && strings.HasPrefix(v.Aux, "zero")) {
		// never written by the initializer: the zero value
		z := zeroTerm(elem)
		if z.IsConst() && (z.Aux == "nil" || z.Aux == "0" || z.Aux == "false" || z.Aux == `""`) {
			return z
		}
		return nil
	}
	return v
}

// ImmutableGlobal reports whether the unexported package-level variable g is written by its package
// initializer only and holds a value without reference semantics.
func ImmutableGlobal(g *ssa.Global) bool { return immutableGlobal(g) }


var atomicNeverStoredCache sync.Map // *ssa.Global -> bool

// atomicNeverStored: g is an unexported package-level atomic.Pointer[T] / atomic.Value every use of which, in every
// function of the program, is the receiver of a call of its Load method - nothing stores to it, nothing takes its
// address for another purpose. Load then answers nil (the hook is off) in the program as built.
func atomicNeverStored(g *ssa.Global) bool {
	if v, ok := atomicNeverStoredCache.Load(g); ok {
		return v.(bool)
	}
	res := false
	defer func() { atomicNeverStoredCache.Store(g, res) }()
	if g == nil || g.Pkg == nil || g.Object() == nil || g.Object().Exported() {
		return false
	}
	pt, ok := g.Type().(*types.Pointer)
	if !ok {
		return false
	}
	nt, ok := pt.Elem().(*types.Named)
	if !ok || nt.Obj().Pkg() == nil || nt.Obj().Pkg().Path() != "sync/atomic" || nt.Obj().Name() != "Pointer" && nt.Obj().Name() != "Value" {
		return false
	}
	for _, fn := range progFuncs(g.Pkg.Prog) {
		for _, b := range fn.Blocks {
			for _, in := range b.Instrs {
				uses := false
				for _, op := range in.Operands(nil) {
					if *op == ssa.Value(g) {
						uses = true
					}
				}
				if !uses {
					continue
				}
				if _, isDbg := in.(*ssa.DebugRef); isDbg {
					continue
				}
				call, isCall := in.(*ssa.Call)
				if !isCall || len(call.Call.Args) != 1 || call.Call.Args[0] != ssa.Value(g) {
					return false
				}
				sc := call.Call.StaticCallee()
				if sc == nil || sc.Name() != "Load" {
					return false
				}
			}
		}
	}
	res = true
	return true
}


// globalEverStored: some instruction of the program stores through g or through an address derived from it.
func globalEverStored(g *ssa.Global) bool {
	var derived func(v ssa.Value, depth int) bool
	derived = func(v ssa.Value, depth int) bool {
		if depth > 8 || v.Referrers() == nil {
			return depth > 8
		}
		for _, r := range *v.Referrers() {
			switch r := r.(type) {
			case *ssa.Store:
				if r.Addr == v {
					return true
				}
			case *ssa.IndexAddr:
				if derived(r, depth+1) {
					return true
				}
			case *ssa.FieldAddr:
				if derived(r, depth+1) {
					return true
				}
			}
		}
		return false
	}
	for _, fn := range progFuncs(g.Pkg.Prog) {
		for _, b := range fn.Blocks {
			for _, in := range b.Instrs {
				switch x := in.(type) {
				case *ssa.Store:
					if x.Addr == ssa.Value(g) {
						return true
					}
				case *ssa.IndexAddr:
					if x.X == ssa.Value(g) && derived(x, 0) {
						return true
					}
				case *ssa.FieldAddr:
					if x.X == ssa.Value(g) && derived(x, 0) {
						return true
					}
				}
			}
		}
	}
	return false
}
