// Package ir implements the two central engines of the checker:
//
//	T – the term normaliser (def-use trees of SSA values as canonical terms)
//	P – the cut-point path extractor (acyclic paths between entry, loop headers
//	    and exits, as ordered lists of events with branch polarities)
//
// Nothing here executes repository code: terms are symbolic, memory is a map
// from address terms to terms, unknown calls are opaque events.
package ir

import (
	"crypto/sha256"
	"encoding/hex"
	"go/types"
	"sort"
	"strconv"
	"strings"

	"golang.org/x/tools/go/ssa"
)

type Term struct {
	Op    string
	Aux   string
	Args  []*Term
	Fn    *ssa.Function // for "fn" and "closure"
	Typ   types.Type
	Src   ssa.Value     // provenance, informational
	Owner *ssa.Function // alloc: the function whose frame owns the cell
	Meth  *types.Func   // "method" marker of an interface call: the resolved interface method
	key   string
}

func (t *Term) Key() string {
	if t == nil {
		return "<nil>"
	}
	if t.key != "" {
		return t.key
	}
	var b strings.Builder
	b.WriteString(t.Op)
	if t.Aux != "" {
		b.WriteString("[")
		b.WriteString(t.Aux)
		b.WriteString("]")
	}
	if t.Fn != nil {
		b.WriteString("{")
		b.WriteString(FuncName(t.Fn))
		b.WriteString("}")
	}
	if len(t.Args) > 0 {
		b.WriteString("(")
		for i, a := range t.Args {
			if i > 0 {
				b.WriteString(", ")
			}
			b.WriteString(a.Key())
		}
		b.WriteString(")")
	}
	t.key = b.String()
	if len(t.key) > maxKeyLen {
		// terms are DAGs, their printed form a tree: composing closures over closures makes it exponential. A long
		// key is replaced by its digest (equality of keys stays equality of terms; the head stays readable)
		sum := sha256.Sum256([]byte(t.key))
		t.key = t.key[:120] + "…#" + hex.EncodeToString(sum[:12])
	}
	return t.key
}

const maxKeyLen = 6000

func (t *Term) String() string { return t.Key() }

func FuncName(f *ssa.Function) string {
	if f == nil {
		return "<nil>"
	}
	s := f.String()
	s = strings.ReplaceAll(s, "github.com/fogfish/golem/", "")
	return s
}

func Mk(op, aux string, args ...*Term) *Term { return &Term{Op: op, Aux: aux, Args: args} }

func Const(v string) *Term { return &Term{Op: "const", Aux: v} }

var (
	True  = Const("true")
	False = Const("false")
	Nil   = Const("nil")
)

func (t *Term) IsConst() bool { return t != nil && t.Op == "const" }
func (t *Term) IsNil() bool   { return t != nil && t.Op == "const" && t.Aux == "nil" }

// IntConst returns the integer value of an integer constant term.
func (t *Term) IntConst() (int64, bool) {
	if t == nil || t.Op != "const" {
		return 0, false
	}
	s := t.Aux
	if i := strings.Index(s, ":"); i >= 0 {
		s = s[:i]
	}
	var n int64
	neg := false
	if strings.HasPrefix(s, "-") {
		neg = true
		s = s[1:]
	}
	if s == "" {
		return 0, false
	}
	for _, c := range s {
		if c < '0' || c > '9' {
			return 0, false
		}
		n = n*10 + int64(c-'0')
	}
	if neg {
		n = -n
	}
	return n, true
}

// Contains reports whether sub (by key) occurs in t.
func (t *Term) Contains(sub *Term) bool {
	if t == nil || sub == nil {
		return false
	}
	k := sub.Key()
	var rec func(x *Term) bool
	rec = func(x *Term) bool {
		if x.Key() == k {
			return true
		}
		for _, a := range x.Args {
			if rec(a) {
				return true
			}
		}
		return false
	}
	return rec(t)
}

// Walk visits t and all sub-terms.
func (t *Term) Walk(f func(*Term)) {
	if t == nil {
		return
	}
	f(t)
	for _, a := range t.Args {
		a.Walk(f)
	}
}

// Same reports key equality.
func Same(a, b *Term) bool {
	if a == nil || b == nil {
		return a == b
	}
	return a.Key() == b.Key()
}

// mkBin builds a normalised binary operation.
func mkBin(op string, a, b *Term) *Term {
	// constant folding on integers / booleans
	if x, ok := a.IntConst(); ok {
		if y, ok2 := b.IntConst(); ok2 {
			switch op {
			case "-":
				return &Term{Op: "const", Aux: strconv.FormatInt(x-y, 10)}
			case "==":
				return boolT(x == y)
			case "!=":
				return boolT(x != y)
			case "<":
				return boolT(x < y)
			case "<=":
				return boolT(x <= y)
			case ">":
				return boolT(x > y)
			case ">=":
				return boolT(x >= y)
			}
		}
	}
	// a value compared with itself (`cap(ctl) != ops` right after `ctl := make(chan T, ops)`): decided for integers,
	// strings, booleans, pointers and channels - not for floats (NaN), interfaces (may hold one) or aggregates
	if a != nil && b != nil && a.Typ != nil && reflexiveType(a.Typ) && Same(a, b) {
		switch op {
		case "==", "<=", ">=":
			return True
		case "!=", "<", ">":
			return False
		}
	}
	// a quantity that cannot be negative compared with a constant: the index of a range loop is at least -1 before
	// its increment (1 + index >= 0), the counter of `for range n` and any length are at least 0
	if op == "<" || op == "<=" || op == ">" || op == ">=" {
		x, y, o := a, b, op
		if o == ">" {
			x, y, o = b, a, "<"
		} else if o == ">=" {
			x, y, o = b, a, "<="
		}
		if k, ok := y.IntConst(); ok && lowerBoundZero(x) {
			// x o k with x >= 0
			if o == "<" && k <= 0 || o == "<=" && k < 0 {
				return False
			}
		}
		if k, ok := x.IntConst(); ok && lowerBoundZero(y) {
			// k o y with y >= 0
			if o == "<" && k < 0 || o == "<=" && k <= 0 {
				return True
			}
		}
		// emptiness of a length written as an order comparison: len(x) < 1, len(x) <= 0 are len(x) == 0;
		// 0 < len(x), 1 <= len(x) are len(x) != 0 - one normal form for the emptiness test
		isLen := func(t *Term) bool { return t.Op == "len" || t.Op == "cap" }
		if k, ok := y.IntConst(); ok && isLen(x) && (o == "<" && k == 1 || o == "<=" && k == 0) {
			return mkBin("==", &Term{Op: "const", Aux: "0"}, x)
		}
		if k, ok := x.IntConst(); ok && isLen(y) && (o == "<" && k == 0 || o == "<=" && k == 1) {
			return mkBin("!=", &Term{Op: "const", Aux: "0"}, y)
		}
	}
	// freshly made objects are never nil: make(chan ..), make(map ..), make([]T ..), new / &T{}, function values
	if op == "==" || op == "!=" {
		nonNil := func(t *Term) bool {
			switch t.Op {
			case "mkchan", "mkmap", "mkslice", "alloc", "closure", "fn", "typednil", "ctxerr":
				return true
			}
			return false
		}
		if a.IsNil() && nonNil(b) || b.IsNil() && nonNil(a) {
			return boolT(op == "!=")
		}
	}
	if a.IsConst() && b.IsConst() && (op == "==" || op == "!=") {
		if a.Aux == "nil" || b.Aux == "nil" || a.Aux == "true" || a.Aux == "false" {
			eq := a.Aux == b.Aux
			if op == "!=" {
				eq = !eq
			}
			return boolT(eq)
		}
	}
	// x == true -> x ; x == false -> !x ; x != true -> !x ; x != false -> x
	if op == "==" || op == "!=" {
		for i := 0; i < 2; i++ {
			k, x := a, b
			if i == 1 {
				k, x = b, a
			}
			if k.IsConst() && (k.Aux == "true" || k.Aux == "false") && !x.IsConst() {
				pos := (k.Aux == "true") == (op == "==")
				if pos {
					return x
				}
				return &Term{Op: "un", Aux: "!", Args: []*Term{x}}
			}
		}
	}
	switch op {
	case "+", "*", "&", "|", "^":
		// flatten + sort commutative/associative chains
		var ops []*Term
		var flat func(x *Term)
		flat = func(x *Term) {
			if x.Op == "bin" && x.Aux == op {
				for _, y := range x.Args {
					flat(y)
				}
				return
			}
			ops = append(ops, x)
		}
		flat(a)
		flat(b)
		if op == "+" {
			// integer constants of a sum are added up (i = -1; i++ is 0)
			var sum int64
			nk := 0
			rest := ops[:0:0]
			for _, x := range ops {
				if k, ok := x.IntConst(); ok && !strings.Contains(x.Aux, ":") {
					sum += k
					nk++
				} else {
					rest = append(rest, x)
				}
			}
			if nk >= 2 || (nk == 1 && sum == 0 && len(rest) > 0) {
				if sum != 0 || len(rest) == 0 {
					rest = append(rest, &Term{Op: "const", Aux: strconv.FormatInt(sum, 10)})
				}
				ops = rest
				if len(ops) == 1 {
					return ops[0]
				}
			}
		}
		sort.SliceStable(ops, func(i, j int) bool { return ops[i].Key() < ops[j].Key() })
		return &Term{Op: "bin", Aux: op, Args: ops}
	case "==", "!=":
		if a.Key() > b.Key() {
			a, b = b, a
		}
	case ">":
		op, a, b = "<", b, a
	case ">=":
		op, a, b = "<=", b, a
	}
	// a <= n-1 is a < n on integers (the last index of a slice as a loop bound)
	if op == "<=" {
		if m := minusOne(b); m != nil {
			return mkBin("<", a, m)
		}
	}
	return &Term{Op: "bin", Aux: op, Args: []*Term{a, b}}
}

// minusOne: t is x + (-1) or x - 1 for an integer quantity x that cannot wrap (a length, or a sum with one): x.
func minusOne(t *Term) *Term {
	if t == nil || t.Op != "bin" {
		return nil
	}
	if t.Aux == "-" && len(t.Args) == 2 {
		if k, ok := t.Args[1].IntConst(); ok && k == 1 && (t.Args[0].Op == "len" || t.Args[0].Op == "cap") {
			return t.Args[0]
		}
		return nil
	}
	if t.Aux != "+" {
		return nil
	}
	var rest []*Term
	found, hasLen := false, false
	for _, x := range t.Args {
		if k, ok := x.IntConst(); ok && k == -1 && !found {
			found = true
			continue
		}
		if x.Op == "len" || x.Op == "cap" {
			hasLen = true
		}
		rest = append(rest, x)
	}
	if !found || !hasLen || len(rest) == 0 {
		return nil
	}
	if len(rest) == 1 {
		return rest[0]
	}
	return &Term{Op: "bin", Aux: "+", Args: rest}
}

// lowerBoundZero: t >= 0 by construction.
func lowerBoundZero(t *Term) bool {
	switch {
	case t == nil:
		return false
	case t.Op == "len" || t.Op == "cap":
		return true
	case t.Op == "phi" && strings.HasSuffix(t.Aux, ":rangeint.iter"):
		return true
	case t.Op == "bin" && t.Aux == "+":
		// 1 + rangeindex, or a sum of non-negative terms
		sum := int64(0)
		idx := 0
		for _, x := range t.Args {
			if k, ok := x.IntConst(); ok {
				sum += k
			} else if x.Op == "phi" && strings.HasSuffix(x.Aux, ":rangeindex") {
				idx++
			} else if !lowerBoundZero(x) {
				return false
			}
		}
		return idx <= 1 && sum-int64(idx) >= 0
	}
	if k, ok := t.IntConst(); ok {
		return k >= 0
	}
	return false
}

func boolT(b bool) *Term {
	if b {
		return True
	}
	return False
}

// Atom splits a boolean condition into a canonical atom and a polarity:
// x != y is (x == y, false); !c flips; a <= b is (b < a, false).
func Atom(c *Term) (*Term, bool) {
	pol := true
	for {
		switch {
		case c.Op == "un" && c.Aux == "!":
			pol = !pol
			c = c.Args[0]
			continue
		case c.Op == "bin" && c.Aux == "!=":
			return &Term{Op: "bin", Aux: "==", Args: c.Args}, !pol
		case c.Op == "bin" && c.Aux == "<=":
			return &Term{Op: "bin", Aux: "<", Args: []*Term{c.Args[1], c.Args[0]}}, !pol
		}
		return c, pol
	}
}

// MkBin builds the normalised binary term (exported for rule packs that evaluate an atom under an assumption).
func MkBin(op string, a, b *Term) *Term { return mkBin(op, a, b) }

// Rebuild re-normalises t bottom-up (after a substitution made some operands constant).
func Rebuild(t *Term) *Term {
	if t == nil || len(t.Args) == 0 {
		return t
	}
	args := make([]*Term, len(t.Args))
	for i, a := range t.Args {
		args[i] = Rebuild(a)
	}
	switch {
	case t.Op == "bin" && len(args) >= 2:
		r := mkBin(t.Aux, args[0], args[1])
		for _, x := range args[2:] {
			r = mkBin(t.Aux, r, x)
		}
		return r
	case t.Op == "un" && t.Aux == "!" && len(args) == 1 && args[0].IsConst() && (args[0].Aux == "true" || args[0].Aux == "false"):
		return boolT(args[0].Aux == "false")
	}
	return &Term{Op: t.Op, Aux: t.Aux, Args: args, Fn: t.Fn, Typ: t.Typ, Src: t.Src, Owner: t.Owner, Meth: t.Meth}
}

func reflexiveType(t types.Type) bool {
	switch u := t.Underlying().(type) {
	case *types.Basic:
		return u.Info()&(types.IsInteger|types.IsString|types.IsBoolean) != 0
	case *types.Pointer, *types.Chan:
		return true
	}
	return false
}
