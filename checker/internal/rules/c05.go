package rules

import (
	"fmt"
	"go/types"
	"strings"

	"golang.org/x/tools/go/ssa"

	"verif/checker/internal/core"
	"verif/checker/internal/ir"
)

func init() {
	register(&Pack{ID: "C05", Run: runC05, Meta: core.Meta{
		Level:       "other",
		Explanation: "For every sequential stage of package pipe the single goroutine it spawns is discovered (target of its go statement) and engine P extracts the acyclic paths from the loop head. Each path of one loop iteration is an ordered event list with branch polarities; the per-stage constraint is checked on every such path (Map: one Apply of the received element, then exactly one send of its result; Filter: send iff take and no error; TakeWhile: exit without send on the first failing element; Take: exactly one send then exactly one decrement of the budget, exit at zero, and by interval analysis the budget is >= 1 at every receive; Partition: exactly one send on the left output iff the predicate holds else on the right; Fold: accumulator from m.Empty(), one Combine(acc, x) per element, one deferred send of the accumulator then close; ForEach/Void: one/no visit; Seq/ToSeq: one send/append per element in index order). Single goroutine + channel FIFO + exactly-once-per-iteration gives the list image in input order for every capacity and interleaving (paper argument); schedules are not enumerated - they are irrelevant to the decided shape. The wrappers built by Lift/Pure/LiftF/Try/TryF are checked to apply the user's function exactly once per call and return its result unchanged (shared with C07); Pure's closure is analysed as re-entrant - what an earlier call left in its captured variables is unknown.",
		RuleText:    "one obligation per (stage, rule); iteration paths of each stage goroutine are enumerated exhaustively",
		Assumptions: []string{"Take's n is >= 0 (as the property states)", "the stage function value is not nil"},
		TrustedBase: []string{"go/ssa", "path engine P", "interval analysis D-iii", "Go channel FIFO semantics"},
	}})
}

// iteration facts of one path starting at the loop head
type iterFacts struct {
	p       *ir.Path
	recv    *ir.Step // receive from the input with ok == true (nil: not an element path)
	elem    *ir.Term
	applies []*ir.Step
	done    bool // a ctx.Done arm was taken
	closed  bool // input observed closed (ok == false)
}

func factsOf(p *ir.Path) *iterFacts {
	f := &iterFacts{p: p}
	for i := range p.Steps {
		st := &p.Steps[i]
		switch {
		case st.Kind == ir.KRecv && st.CommaOk && isInputChan(st.A[0]):
			// polarity of ok
			for j := i + 1; j < len(p.Steps); j++ {
				b := &p.Steps[j]
				if b.Kind == ir.KBranch && b.Atom.Op == "extract" && b.Atom.Aux == "1" && ir.Same(b.Atom.Args[0], st.R) {
					if b.Pol {
						f.recv = st
						f.elem = &ir.Term{Op: "extract", Aux: "0", Args: []*ir.Term{st.R}}
					} else {
						f.closed = true
					}
					break
				}
			}
		case isApplyRole(st):
			f.applies = append(f.applies, st)
		case st.Kind == ir.KSelect && st.Chosen >= 0 && st.Chosen == doneArm(st):
			f.done = true
		}
	}
	return f
}

// tri-valued truth of a branch atom on a path: +1 true, -1 false, 0 not tested
func polarity(p *ir.Path, atom *ir.Term) int {
	k := atom.Key()
	for i := range p.Steps {
		st := &p.Steps[i]
		if st.Kind == ir.KBranch && st.Atom.Key() == k {
			if st.Pol {
				return 1
			}
			return -1
		}
	}
	// `0 == len(x)` is also decided by any comparison of that length with a small constant: `len(x) < 1`,
	// `len(x) <= 0`, `!(len(x) > 0)`, `len(x) >= 1` ...
	if atom.Op == "bin" && atom.Aux == "==" && len(atom.Args) == 2 {
		var x *ir.Term
		for i := 0; i < 2; i++ {
			if z, isZ := atom.Args[i].IntConst(); isZ && z == 0 && nonNegTerm(atom.Args[1-i]) {
				x = atom.Args[1-i]
			}
		}
		if x != nil {
			for i := range p.Steps {
				st := &p.Steps[i]
				if st.Kind != ir.KBranch || st.Atom.Op != "bin" || len(st.Atom.Args) != 2 {
					continue
				}
				var kc int64
				var xLeft, found bool
				for j := 0; j < 2; j++ {
					if kk, isK := st.Atom.Args[1-j].IntConst(); isK && ir.Same(st.Atom.Args[j], x) && kk >= 0 && kk <= 8 {
						kc, xLeft, found = kk, j == 0, true
					}
				}
				if !found {
					continue
				}
				holds := func(v int64) (bool, bool) {
					a, b := v, kc
					if !xLeft {
						a, b = kc, v
					}
					var r bool
					switch st.Atom.Aux {
					case "<":
						r = a < b
					case "<=":
						r = a <= b
					case ">":
						r = a > b
					case ">=":
						r = a >= b
					case "==":
						r = a == b
					case "!=":
						r = a != b
					default:
						return false, false
					}
					return r == st.Pol, true
				}
				h0, known := holds(0)
				if !known {
					continue
				}
				if !h0 {
					return -1 // the branch taken is impossible for an empty x
				}
				onlyZero := true
				for v := int64(1); v <= kc+2; v++ {
					if hv, _ := holds(v); hv {
						onlyZero = false
					}
				}
				if onlyZero {
					return 1
				}
			}
		}
	}
	return 0
}

func errNilAtom(applyR *ir.Term, idx int) *ir.Term {
	e := &ir.Term{Op: "extract", Aux: fmt.Sprint(idx), Args: []*ir.Term{applyR}}
	at := &ir.Term{Op: "bin", Aux: "==", Args: []*ir.Term{ir.Nil, e}}
	if at.Args[0].Key() > at.Args[1].Key() {
		at.Args[0], at.Args[1] = at.Args[1], at.Args[0]
	}
	return at
}

func and3(a, b int) int {
	if a < 0 || b < 0 {
		return -1
	}
	if a > 0 && b > 0 {
		return 1
	}
	return 0
}

// allSends lists every send (plain or chosen arm) of a path with channel and value.
type sendEv struct {
	ch, val *ir.Term
	step    *ir.Step
}

func allSends(p *ir.Path) []sendEv {
	var out []sendEv
	for i := range p.Steps {
		st := &p.Steps[i]
		switch {
		case st.Kind == ir.KSend:
			out = append(out, sendEv{st.A[0], st.A[1], st})
		case st.Kind == ir.KSelect && st.Chosen >= 0 && st.Arms[st.Chosen].Send:
			out = append(out, sendEv{st.Arms[st.Chosen].Chan, st.Arms[st.Chosen].Val, st})
		}
	}
	return out
}

// theLoop returns the single goroutine of a sequential stage and its loop header.
func seqGoroutine(c *core.Ctx, s *Stage, rule string) (*Goroutine, *ssa.BasicBlock) {
	if len(s.Gos) != 1 || s.Gos[0].InLoop {
		c.Fail(rule, s.Name, s.Fn.Pos(), "a sequential stage must spawn exactly one goroutine, found %d", len(s.Gos))
		return nil, nil
	}
	g := s.Gos[0]
	if len(g.An.Headers) != 1 {
		c.Undecided(rule, s.Name, g.Fn.Pos(), "stage goroutine has %d loops, expected the single element loop", len(g.An.Headers))
		return nil, nil
	}
	return g, g.An.Headers[0]
}

func runC05(c *core.Ctx) {
	c.Doc("one-goroutine", 9, "each asynchronous sequential stage has exactly one go statement (Seq/ToSeq none)")
	c.Doc("iteration", 11, "per-iteration constraint of the stage on every path from the loop head")
	c.Doc("take-budget", 1, "Take: budget interval at every receive from the input is within [1,inf)")
	c.Doc("fold-accumulator", 1, "Fold: accumulator starts from m.Empty(), one Combine(acc,x) per element, one send of acc then close")
	c.Doc("stage-found", 11, "anchors (exported stage constructors) resolved")

	// the monoid a caller builds with the library's own constructors is the one Fold folds with: From(e, op).Empty() is e and
	// its Combine is op itself - not a method of the instance type that shadows the promoted one (shared with C10 / C17)
	c.Doc("monoid-literal", 2, "monoid.From/FromOp build {Semigroup: combine, empty: empty}")
	c.Doc("monoid-empty", 1, "Empty returns the stored element")
	c.Doc("monoid-combine-promoted", 1, "Combine resolves to the stored semigroup's Combine")
	monoidRules(c)

	type chk func(c *core.Ctx, s *Stage)
	table := []struct {
		name string
		f    chk
	}{
		{"Map", c05Map}, {"FMap", c05FMap}, {"Filter", c05Filter}, {"TakeWhile", c05TakeWhile}, {"Take", c05Take},
		{"Partition", c05Partition}, {"Fold", c05Fold}, {"ForEach", c05ForEach}, {"Void", c05Void}, {"Seq", c05Seq}, {"ToSeq", c05ToSeq},
	}
	for _, e := range table {
		fn := c.W.Func("pipe", e.name)
		if fn == nil {
			c.Undecided("stage-found", "pipe."+e.name, 0, "exported stage constructor not found")
			continue
		}
		s := buildStage(c, "pipe", fn)
		if len(s.Problems) > 0 {
			c.Undecided("stage-found", s.Name, fn.Pos(), "engine could not model the stage: %s", strings.Join(s.Problems, "; "))
			continue
		}
		c.Ok("stage-found", s.Name, fn.Pos(), "")
		if e.name != "Seq" && e.name != "ToSeq" {
			c.Check(len(s.Gos) == 1 && !s.Gos[0].InLoop, "one-goroutine", s.Name, fn.Pos(), "1 go statement, not in a loop", "stage spawns %d goroutines: elements would be processed concurrently / out of order", len(s.Gos))
		} else {
			c.Check(len(s.Gos) == 0, "one-goroutine", s.Name, fn.Pos(), "synchronous", "Seq/ToSeq spawn goroutines")
		}
		e.f(c, s)
		if e.name != "ToSeq" {
			stageLifecycleRules(c, s, lifecycleOpts{only: "closing", panics: true})
		}
		// "with functions that do not fail": the error hand-off is entered exactly when the function reported an
		// error - a test on anything else sends successful elements down the error path (shared with C07)
		if e.name == "Map" || e.name == "FMap" {
			if c.Rules["error-branch"] == nil {
				c.Doc("error-branch", 2, "the error hand-off is entered exactly when the function reported an error")
			}
			errIdx := 1
			if e.name == "FMap" {
				errIdx = -1
			}
			errorBranchRule(c, s, errIdx)
		}
	}
	// the images the stages deliver are the images of the user's function: the wrappers the constructors build apply
	// it exactly once per element and hand its result on unchanged (shared with C07)
	c.Doc("apply-term", 5, "wrapper Apply calls the wrapped function exactly once, arguments in order, results returned unchanged")
	c.Doc("pure-never-fails", 1, "Pure wraps f as (f(a), nil)")
	for _, ctor := range []string{"Lift", "Pure", "LiftF", "Try", "TryF"} {
		fn := c.W.Func("pipe", ctor)
		if fn == nil {
			c.Undecided("apply-term", "pipe."+ctor, 0, "constructor not found")
			continue
		}
		applyTerm(c, "pipe", "pipe."+ctor, constructedType(fn))
		if ctor != "Pure" {
			wrapsArgument(c, "pipe", ctor)
		}
	}
	pureNeverFails(c, "pipe")
}

// elementPaths: iteration paths of goroutine g (from its loop head), split into element / closed paths.
func elementPaths(g *Goroutine, h *ssa.BasicBlock) (elem []*iterFacts, other []*iterFacts) {
	for _, p := range g.An.Segs[h] {
		f := factsAt(g.An, h, p)
		if f.recv != nil {
			elem = append(elem, f)
		} else {
			other = append(other, f)
		}
	}
	return
}

// factsAt: factsOf for a segment that starts at loop head h, aware of the rotated receive form.
func factsAt(an *ir.Analysis, h *ssa.BasicBlock, p *ir.Path) *iterFacts {
	f := factsOf(p)
	if p.From != h || h == nil {
		return f
	}
	rot := rotatedReceive(an, h)
	if rot == nil {
		return f
	}
	// `for x, ok := <-in; ok; x, ok = <-in`: the element of this pass was received on the way to the head; a
	// receive at the end of the pass belongs to the next one
	switch polarity(p, rot.okSym) {
	case 1:
		f.recv, f.elem, f.closed = rot.recv, rot.xSym, false
	case -1:
		f.recv, f.elem, f.closed = nil, nil, true
	}
	return f
}

// rotatedReceive recognises the loop form in which the comma-ok receive from the input sits in the init and post
// statements: the head carries a pair of phis (x, ok) and every arrival assigns them the two results of one
// comma-ok receive from the stage's input made on that arriving path.
type rotRecv struct {
	x, ok       *ssa.Phi
	xSym, okSym *ir.Term
	recv        *ir.Step
}

func rotatedReceive(an *ir.Analysis, h *ssa.BasicBlock) *rotRecv {
	if an == nil || h == nil || an.Start[h] == nil {
		return nil
	}
	var phis []*ssa.Phi
	for _, in := range h.Instrs {
		phi, ok := in.(*ssa.Phi)
		if !ok {
			break
		}
		phis = append(phis, phi)
	}
	var arrivals []*ir.Path
	for _, ps := range an.Segs {
		for _, p := range ps {
			if p.To == h {
				arrivals = append(arrivals, p)
			}
		}
	}
	if len(arrivals) == 0 {
		return nil
	}
	for _, okPhi := range phis {
		if b, isB := okPhi.Type().Underlying().(*types.Basic); !isB || b.Kind() != types.Bool {
			continue
		}
		for _, xPhi := range phis {
			if xPhi == okPhi {
				continue
			}
			good := true
			var first *ir.Step
			for _, p := range arrivals {
				okV, xV := p.PhiOut[okPhi], p.PhiOut[xPhi]
				if okV == nil || xV == nil || okV.Op != "extract" || okV.Aux != "1" || xV.Op != "extract" || xV.Aux != "0" || !ir.Same(okV.Args[0], xV.Args[0]) {
					good = false
					break
				}
				var rs *ir.Step
				for i := range p.Steps {
					st := &p.Steps[i]
					if st.Kind == ir.KRecv && st.CommaOk && isInputChan(st.A[0]) && ir.Same(st.R, okV.Args[0]) {
						rs = st
					}
				}
				if rs == nil {
					good = false
					break
				}
				if first == nil {
					first = rs
				}
			}
			if good {
				return &rotRecv{x: xPhi, ok: okPhi, xSym: an.Start[h].Reg(xPhi), okSym: an.Start[h].Reg(okPhi), recv: first}
			}
		}
	}
	// the value may be discarded (`for _, ok := <-in; ok; _, ok = <-in`): only the ok flag is loop-carried
	for _, okPhi := range phis {
		if b, isB := okPhi.Type().Underlying().(*types.Basic); !isB || b.Kind() != types.Bool {
			continue
		}
		good := true
		var first *ir.Step
		for _, p := range arrivals {
			okV := p.PhiOut[okPhi]
			if okV == nil || okV.Op != "extract" || okV.Aux != "1" {
				good = false
				break
			}
			var rs *ir.Step
			for i := range p.Steps {
				st := &p.Steps[i]
				if st.Kind == ir.KRecv && st.CommaOk && isInputChan(st.A[0]) && ir.Same(st.R, okV.Args[0]) {
					rs = st
				}
			}
			if rs == nil {
				good = false
				break
			}
			if first == nil {
				first = rs
			}
		}
		if good {
			return &rotRecv{ok: okPhi, okSym: an.Start[h].Reg(okPhi), recv: first, xSym: &ir.Term{Op: "extract", Aux: "0", Args: []*ir.Term{{Op: "recv", Aux: "discarded"}}}}
		}
	}
	return nil
}

func outChan(s *Stage, i int) *ir.Term {
	if i < len(s.Returned) {
		return s.Returned[i]
	}
	return nil
}

// commonIteration checks what all element stages share: on a closed-input path nothing is sent/applied;
// every element path calls Apply exactly `nApply` times with the received element.
func commonIteration(c *core.Ctx, s *Stage, g *Goroutine, h *ssa.BasicBlock, nApply int, argIdx int) ([]*iterFacts, bool) {
	return commonIterationX(c, s, g, h, nApply, argIdx, false)
}

// commonIterationX: with otherExits the caller vets exits that follow neither a closed input nor a cancellation itself.
func commonIterationX(c *core.Ctx, s *Stage, g *Goroutine, h *ssa.BasicBlock, nApply int, argIdx int, otherExits bool) ([]*iterFacts, bool) {
	elem, other := elementPaths(g, h)
	if len(elem) == 0 {
		c.Fail("iteration", s.Name, g.Fn.Pos(), "no path receives an element from the input")
		return nil, false
	}
	ok := true
	for _, f := range other {
		if len(f.applies) != 0 || len(allSends(f.p)) != outputSendsAllowedOnClose(s) {
			// Fold sends its accumulator on close: handled by its own rule
			if len(f.applies) != 0 {
				ok = false
				c.Fail("iteration", s.Name, lastPos(f.p), "the user function is applied on a path that received no element")
			}
		}
		if !f.closed && !f.done && !otherExits && f.p.Exit == ir.ExitReturn {
			ok = false
			c.Fail("iteration", s.Name, lastPos(f.p), "loop exits without the input being closed or the context cancelled:\n%s", f.p)
		}
	}
	for _, f := range elem {
		// leaving on an observed cancellation before the element was applied (a poll ahead of the work) is allowed: the
		// element is dropped together with everything after it, what was delivered stays a prefix
		if len(f.applies) == 0 && f.done && f.p.To == nil && f.p.Exit == ir.ExitReturn && len(allSends(f.p)) == outputSendsAllowedOnClose(s) {
			continue
		}
		if len(f.applies) != nApply {
			ok = false
			c.Fail("iteration", s.Name, f.recv.Pos(), "the user function is applied %d times for one element (want %d):\n%s", len(f.applies), nApply, f.p)
			continue
		}
		for _, a := range f.applies {
			if argIdx >= len(a.A) {
				ok = false
				c.Fail("iteration", s.Name, a.Pos(), "Apply is called with %d arguments, expected the element just received at position %d", len(a.A), argIdx)
			} else if !ir.Same(a.A[argIdx], f.elem) {
				ok = false
				c.Fail("iteration", s.Name, a.Pos(), "Apply is called with %s, expected the element just received", short(a.A[argIdx]))
			}
		}
	}
	return elem, ok
}

func outputSendsAllowedOnClose(s *Stage) int { return 0 }

// sendsOnOutputs counts sends per output channel on a path; foreign = sends on anything else.
func sendsOnOutputs(s *Stage, p *ir.Path) (per map[string][]sendEv, foreign []sendEv) {
	per = map[string][]sendEv{}
	outs := map[string]bool{}
	for _, r := range s.Returned {
		outs[r.Key()] = true
	}
	for _, e := range allSends(p) {
		if outs[e.ch.Key()] {
			per[e.ch.Key()] = append(per[e.ch.Key()], e)
		} else {
			foreign = append(foreign, e)
		}
	}
	return
}

func c05Map(c *core.Ctx, s *Stage) {
	g, h := seqGoroutine(c, s, "iteration")
	if g == nil {
		return
	}
	iterMap(c, s, g, h)
}

// iterMap: the per-iteration constraint, for the sequential stage and for each fork worker alike.
func iterMap(c *core.Ctx, s *Stage, g *Goroutine, h *ssa.BasicBlock) {
	elem, ok := commonIteration(c, s, g, h, 1, 1)
	out := outChan(s, 0)
	for _, f := range elem {
		if len(f.applies) != 1 {
			continue
		}
		ap := f.applies[0]
		en := polarity(f.p, errNilAtom(ap.R, 1))
		per, foreign := sendsOnOutputs(s, f.p)
		sends := per[out.Key()]
		switch {
		case en == 0:
			ok = false
			c.Fail("iteration", s.Name, ap.Pos(), "the error result of Apply is not tested on a path")
		case en > 0 && !f.done:
			good := len(sends) == 1 && f.p.To == h && len(foreign) == 0 && len(per) == 1 &&
				ir.Same(sends[0].val, &ir.Term{Op: "extract", Aux: "0", Args: []*ir.Term{ap.R}})
			if !good {
				ok = false
				c.Fail("iteration", s.Name, ap.Pos(), "on success the stage must send exactly Apply's result once on its output and continue; found %d sends%s:\n%s", len(sends), valNote(sends), f.p)
			}
		case en > 0 && f.done:
			if len(sends) != 0 {
				ok = false
				c.Fail("iteration", s.Name, ap.Pos(), "send on the output on a path that observed cancellation")
			}
		case en < 0:
			if len(sends) != 0 {
				ok = false
				c.Fail("iteration", s.Name, ap.Pos(), "a failing element produces output:\n%s", f.p)
			}
		}
	}
	if ok {
		c.Ok("iteration", s.Name, g.Fn.Pos(), fmt.Sprintf("%d element paths: recv a -> Apply(a) -> err==nil => one send(out, result)", len(elem)))
	}
}

func valNote(s []sendEv) string {
	if len(s) == 0 {
		return ""
	}
	return " (value " + short(s[0].val) + ")"
}

func c05FMap(c *core.Ctx, s *Stage) {
	g, h := seqGoroutine(c, s, "iteration")
	if g == nil {
		return
	}
	iterFMap(c, s, g, h)
}

// iterFMap: the per-iteration constraint, for the sequential stage and for each fork worker alike.
func iterFMap(c *core.Ctx, s *Stage, g *Goroutine, h *ssa.BasicBlock) {
	elem, ok := commonIteration(c, s, g, h, 1, 2)
	out := outChan(s, 0)
	for _, f := range elem {
		if len(f.applies) != 1 {
			continue
		}
		ap := f.applies[0]
		if len(ap.A) != 4 || !ir.Same(ap.A[3], out) || !(ap.A[1].Op == "param" && isContextType(ap.A[1].Typ)) {
			ok = false
			c.Fail("iteration", s.Name, ap.Pos(), "Apply must receive (ctx, element, the stage's own output channel); got (%s, %s, %s)", short(ap.A[1]), short(ap.A[2]), short(ap.A[3]))
		}
		per, _ := sendsOnOutputs(s, f.p)
		if len(per[out.Key()]) != 0 {
			ok = false
			c.Fail("iteration", s.Name, ap.Pos(), "the stage itself sends on the output besides the user function")
		}
		en := polarity(f.p, errNilAtom(ap.R, -1))
		_ = en
		if !f.done && f.p.To != h && f.p.Exit == ir.ExitReturn {
			// exits are allowed only through catch == false or cancellation
			viaCatch := false
			for i := range f.p.Steps {
				if isCatchRole(&f.p.Steps[i]) {
					viaCatch = true
				}
			}
			if !viaCatch {
				ok = false
				c.Fail("iteration", s.Name, ap.Pos(), "the stage stops after an element without failure or cancellation:\n%s", f.p)
			}
		}
	}
	if ok {
		c.Ok("iteration", s.Name, g.Fn.Pos(), fmt.Sprintf("%d element paths: recv a -> Apply(ctx, a, out)", len(elem)))
	}
}

// predicate stages: cond = take && err == nil
func predCond(f *iterFacts) int {
	ap := f.applies[0]
	take := polarity(f.p, &ir.Term{Op: "extract", Aux: "0", Args: []*ir.Term{ap.R}})
	en := polarity(f.p, errNilAtom(ap.R, 1))
	return and3(take, en)
}

func c05Filter(c *core.Ctx, s *Stage) {
	g, h := seqGoroutine(c, s, "iteration")
	if g == nil {
		return
	}
	iterFilter(c, s, g, h)
}

// iterFilter: the per-iteration constraint, for the sequential stage and for each fork worker alike.
func iterFilter(c *core.Ctx, s *Stage, g *Goroutine, h *ssa.BasicBlock) {
	elem, ok := commonIteration(c, s, g, h, 1, 1)
	out := outChan(s, 0)
	for _, f := range elem {
		if len(f.applies) != 1 {
			continue
		}
		cond := predCond(f)
		per, foreign := sendsOnOutputs(s, f.p)
		sends := per[out.Key()]
		switch {
		case cond == 0:
			ok = false
			c.Fail("iteration", s.Name, f.recv.Pos(), "a path decides neither (take && err == nil) nor its negation:\n%s", f.p)
		case cond > 0 && !f.done:
			if !(len(sends) == 1 && ir.Same(sends[0].val, f.elem) && f.p.To == h && len(foreign) == 0) {
				ok = false
				c.Fail("iteration", s.Name, f.recv.Pos(), "an element satisfying the predicate must be sent exactly once, unchanged, and the loop continue; found %d sends%s:\n%s", len(sends), valNote(sends), f.p)
			}
		case cond < 0:
			if len(sends) != 0 || f.p.To != h {
				ok = false
				c.Fail("iteration", s.Name, f.recv.Pos(), "an element failing the predicate must produce no output and the loop must continue (found %d sends, continues=%v):\n%s", len(sends), f.p.To == h, f.p)
			}
		}
	}
	if ok {
		c.Ok("iteration", s.Name, g.Fn.Pos(), fmt.Sprintf("%d element paths: send(out, a) iff take && err == nil", len(elem)))
	}
}

func c05TakeWhile(c *core.Ctx, s *Stage) {
	g, h := seqGoroutine(c, s, "iteration")
	if g == nil {
		return
	}
	iterTakeWhile(c, s, g, h)
}

// iterTakeWhile: the per-iteration constraint, for the sequential stage and for each fork worker alike.
func iterTakeWhile(c *core.Ctx, s *Stage, g *Goroutine, h *ssa.BasicBlock) {
	elem, ok := commonIteration(c, s, g, h, 1, 1)
	out := outChan(s, 0)
	for _, f := range elem {
		if len(f.applies) != 1 {
			continue
		}
		cond := predCond(f)
		per, foreign := sendsOnOutputs(s, f.p)
		sends := per[out.Key()]
		switch {
		case cond == 0:
			ok = false
			c.Fail("iteration", s.Name, f.recv.Pos(), "a path decides neither (take && err == nil) nor its negation:\n%s", f.p)
		case cond > 0 && !f.done:
			if !(len(sends) == 1 && ir.Same(sends[0].val, f.elem) && f.p.To == h && len(foreign) == 0) {
				ok = false
				c.Fail("iteration", s.Name, f.recv.Pos(), "an element of the prefix must be sent exactly once, unchanged, and the loop continue; found %d sends%s:\n%s", len(sends), valNote(sends), f.p)
			}
		case cond < 0:
			if len(sends) != 0 || f.p.Exit != ir.ExitReturn {
				ok = false
				c.Fail("iteration", s.Name, f.recv.Pos(), "the first element failing the predicate must end the stage without being emitted (found %d sends, exits=%v):\n%s", len(sends), f.p.Exit == ir.ExitReturn, f.p)
			}
		}
	}
	if ok {
		c.Ok("iteration", s.Name, g.Fn.Pos(), fmt.Sprintf("%d element paths: cond false => exit without send; cond true => one send(out, a)", len(elem)))
	}
}

func c05Take(c *core.Ctx, s *Stage) {
	g, h := seqGoroutine(c, s, "iteration")
	if g == nil {
		return
	}
	iterTake(c, s, g, h)
}

// iterTake: the per-iteration constraint, for the sequential stage and for each fork worker alike.
func iterTake(c *core.Ctx, s *Stage, g *Goroutine, h *ssa.BasicBlock) {
	elem, ok := commonIterationX(c, s, g, h, 0, 0, true)
	out := outChan(s, 0)
	// the budget: the loop-carried integer (register or cell) that enters the loop with the value of the
	// stage's int parameter
	ints := paramNamedType(s.Fn, "int")
	if len(ints) != 1 {
		c.Undecided("iteration", s.Name, s.Fn.Pos(), "the stage has %d int parameters, expected the element budget alone", len(ints))
		return
	}
	nT := &ir.Term{Op: "param", Aux: ints[0].Name()}
	q, qname, found := loopQuantity(g.An, h, nT)
	if !found {
		// the other representation: a counter of the elements sent, from 0 up to n; the budget is n - counter
		if cq, _, foundC := loopQuantity(g.An, h, ir.Const("0")); foundC {
			q, found = RemainingQuantity(cq, nT), true
		}
	}
	if !found {
		c.Undecided("iteration", s.Name, s.Fn.Pos(), "no single loop-carried budget initialised from parameter %s found (%s)", ints[0].Name(), qname)
		return
	}
	_ = qname
	for _, f := range elem {
		per, foreign := sendsOnOutputs(s, f.p)
		sends := per[out.Key()]
		if f.done {
			if len(sends) != 0 {
				ok = false
				c.Fail("iteration", s.Name, f.recv.Pos(), "send on a cancelled path")
			}
			continue
		}
		if !(len(sends) == 1 && ir.Same(sends[0].val, f.elem) && len(foreign) == 0) {
			ok = false
			c.Fail("iteration", s.Name, f.recv.Pos(), "each received element must be sent exactly once, unchanged; found %d sends%s:\n%s", len(sends), valNote(sends), f.p)
			continue
		}
		// exactly one decrement by one on every path that goes on to the next element
		if f.p.To != h {
			continue
		}
		k, isK := plusConst(q.ValueAt(f.p, len(f.p.Steps)), q.StartSym(f.p))
		if !isK || k != -1 {
			ok = false
			c.Fail("iteration", s.Name, f.recv.Pos(), "the budget must decrease by exactly 1 per emitted element; found change %d (known=%v):\n%s", k, isK, f.p)
			continue
		}
	}
	// paths without an element must not touch the budget or send
	_, other := elementPaths(g, h)
	for _, f := range other {
		if k, isK := plusConst(q.ValueAt(f.p, len(f.p.Steps)), q.StartSym(f.p)); !isK || k != 0 || len(allSends(f.p)) != 0 {
			ok = false
			c.Fail("iteration", s.Name, lastPos(f.p), "a path that received no element changes the budget or sends")
		}
	}
	if ok {
		c.Ok("iteration", s.Name, g.Fn.Pos(), fmt.Sprintf("%d element paths: one send(out, a) and budget-1 each", len(elem)))
	}
	// budget rule [D-iii]: budget >= 1 at every receive; an exit that follows neither a closed input nor a
	// cancellation happens only with budget == 0
	isRecv := func(st *ir.Step) bool { return st.Kind == ir.KRecv && isInputChan(st.A[0]) }
	// what the stage function established about n before it started the goroutine (a shortcut `if n <= 0 { close(out);
	// return out }` ahead of the go statement) is known at the goroutine's entry
	entry := Itv{0, PosInf}
	if spawnGuardsNonZero(s, &proc{name: g.Name, fn: g.Fn, an: g.An, g: g}, &ir.Term{Op: "param", Aux: ints[0].Name(), Src: ints[0]}) {
		entry = Itv{1, PosInf}
	}
	res := runIntervals(g.An, entry, q, func(st *ir.Step) bool { return isRecv(st) || st.Kind == ir.KReturn })
	okB := false
	for _, p := range g.An.AllPaths() {
		f := factsOf(p)
		for i := range p.Steps {
			st := &p.Steps[i]
			iv, seen := res.AtStep[st]
			if !seen {
				continue
			}
			if isRecv(st) {
				okB = true
				if iv.Lo < 1 {
					okB = false
					c.Fail("take-budget", s.Name, st.Pos(), "with n in [0,+inf) at entry the budget at this receive from the input is in %s: an element can be consumed without budget (Take(ctx, in, 0) delivers everything / one element too many is read)", iv)
					return
				}
			}
		}
		if p.Exit == ir.ExitReturn && !f.closed && !f.done {
			// exit because the budget is exhausted: what the path established about the budget at its start,
			// minus the element it emitted, must be <= 0
			iv := Itv{0, PosInf}
			if p.From != nil {
				iv = res.AtHeader[p.From]
			}
			sym := q.StartSym(p)
			match := func(t *ir.Term) (int64, bool) { return plusConst(t, sym) }
			for i := range p.Steps {
				if p.Steps[i].Kind == ir.KBranch {
					at := p.Steps[i].Atom
					if q.Atom != nil {
						at = q.Atom(p, at)
					}
					iv = refineItv(iv, at, p.Steps[i].Pol, match)
				}
			}
			emitted := int64(0)
			for _, e := range allSends(p) {
				if ir.Same(e.ch, out) {
					emitted++
				}
			}
			left := iv.Add(-emitted)
			if !iv.Empty() && left.Hi > 0 {
				okB = false
				c.Fail("take-budget", s.Name, lastPos(p), "the stage stops with budget in %s left although the input is open and the context live: fewer than n elements are delivered", left)
				return
			}
		}
	}
	if okB {
		c.Ok("take-budget", s.Name, g.Fn.Pos(), "budget >= 1 at every receive; early exit only with budget == 0")
	} else {
		c.Fail("take-budget", s.Name, g.Fn.Pos(), "no receive from the input found")
	}
}

// pathInterval: interval of the quantity just before step i of path p, from the converged header intervals.
func pathInterval(an *ir.Analysis, res *IntervalResult, q Quantity, p *ir.Path, i int) Itv {
	iv := Itv{0, PosInf}
	if p.From != nil {
		iv = res.AtHeader[p.From]
	}
	sym := q.StartSym(p)
	match := func(t *ir.Term) (int64, bool) { return plusConst(t, sym) }
	for j := 0; j < i; j++ {
		st := &p.Steps[j]
		if st.Kind == ir.KBranch {
			iv = refineItv(iv, st.Atom, st.Pol, match)
			if iv.Empty() {
				return iv
			}
		}
	}
	if k, ok := plusConst(q.ValueAt(p, i), sym); ok {
		return iv.Add(k)
	}
	return Itv{NegInf, PosInf}
}

func sorted2(a, b *ir.Term) []*ir.Term {
	if a.Key() > b.Key() {
		return []*ir.Term{b, a}
	}
	return []*ir.Term{a, b}
}

func c05Partition(c *core.Ctx, s *Stage) {
	g, h := seqGoroutine(c, s, "iteration")
	if g == nil {
		return
	}
	iterPartition(c, s, g, h)
}

// iterPartition: the per-iteration constraint, for the sequential stage and for each fork worker alike.
func iterPartition(c *core.Ctx, s *Stage, g *Goroutine, h *ssa.BasicBlock) {
	elem, ok := commonIteration(c, s, g, h, 1, 1)
	lout, rout := outChan(s, 0), outChan(s, 1)
	if lout == nil || rout == nil || ir.Same(lout, rout) {
		c.Fail("iteration", s.Name, s.Fn.Pos(), "Partition must return two distinct channels")
		return
	}
	for _, f := range elem {
		if len(f.applies) == 1 && f.done {
			// cancelled while offering the element: it must have been offered on the output its predicate selects
			cond := predCond(f)
			want := rout
			if cond > 0 {
				want = lout
			}
			for _, st := range f.p.Events(ir.KSelect) {
				d := doneArm(st)
				if d < 0 || st.Chosen != d || !st.Blocking {
					continue
				}
				offered := false
				for ai, a := range st.Arms {
					if ai != d && a.Send && cond != 0 && ir.Same(a.Chan, want) && ir.Same(a.Val, f.elem) {
						offered = true
					}
				}
				if !offered {
					ok = false
					c.Fail("iteration", s.Name, st.Pos(), "an element is offered on no output (or on the wrong one) while the stage waits for cancellation (cond=%d): it is never delivered", cond)
				}
			}
			continue
		}
		if len(f.applies) != 1 || f.done {
			continue
		}
		cond := predCond(f)
		per, foreign := sendsOnOutputs(s, f.p)
		nl, nr := per[lout.Key()], per[rout.Key()]
		good := len(foreign) == 0 && f.p.To == h
		switch {
		case cond > 0:
			good = good && len(nl) == 1 && len(nr) == 0 && ir.Same(nl[0].val, f.elem)
		case cond < 0:
			good = good && len(nr) == 1 && len(nl) == 0 && ir.Same(nr[0].val, f.elem)
		default:
			good = false
		}
		if !good {
			ok = false
			c.Fail("iteration", s.Name, f.recv.Pos(), "each element must be sent exactly once, unchanged: on the first result channel iff (x && err == nil), else on the second (cond=%d, left=%d, right=%d):\n%s", cond, len(nl), len(nr), f.p)
		}
	}
	if ok {
		c.Ok("iteration", s.Name, g.Fn.Pos(), fmt.Sprintf("%d element paths: exactly one send, left iff predicate", len(elem)))
	}
}

// foldShape checks accumulator discipline of a folding goroutine; shared with fork (C10).
// Returns the accumulator cell.
func foldShape(c *core.Ctx, rule, name string, g *Goroutine, h *ssa.BasicBlock, resultCh *ir.Term, closeAfterSend bool) bool {
	return foldShapeX(c, rule, name, g, h, resultCh, closeAfterSend, false)
}

// foldShapeX: with commutative set, Combine(x, acc) is as good as Combine(acc, x) - fork.Fold is specified for
// commutative monoids only (C10), the sequential fold is not.
func foldShapeX(c *core.Ctx, rule, name string, g *Goroutine, h *ssa.BasicBlock, resultCh *ir.Term, closeAfterSend bool, commutative bool) bool {
	ok := true
	// the accumulator cell: the cell whose value is sent on resultCh on exit
	var acc *ir.Term
	for _, p := range g.An.AllPaths() {
		if p.Exit != ir.ExitReturn {
			continue
		}
		for _, e := range allSends(p) {
			if ir.Same(e.ch, resultCh) {
				// value must be the current content of a cell
				for k, v := range map[string]*ir.Term{} {
					_, _ = k, v
				}
				if a := cellHolding(p, e.val, g.An); a != nil {
					acc = a
				}
			}
		}
	}
	isEmpty := func(t *ir.Term) bool {
		m, _, args, isC := callParts(t)
		return isC && m == "Empty" && len(args) == 1 && args[0].Op == "param"
	}
	// the accumulator may also be a register carried round the element loop (no closure captures it: the result is
	// sent by explicit statements on every exit instead of by a deferred function)
	var accPhi *ssa.Phi
	if acc == nil && h != nil {
		for _, in := range h.Instrs {
			phi, isPhi := in.(*ssa.Phi)
			if !isPhi {
				break
			}
			for _, p := range g.An.Segs[nil] {
				if p.To == h && isEmpty(p.PhiOut[phi]) {
					accPhi = phi
				}
			}
		}
	}
	if acc == nil && accPhi == nil {
		c.Fail(rule, name, g.Fn.Pos(), "no exit path sends the content of an accumulator cell on the result channel")
		return false
	}
	// entry: acc := m.Empty()
	for _, p := range g.An.Segs[nil] {
		var v *ir.Term
		if accPhi != nil {
			if p.To != h {
				continue
			}
			v = p.PhiOut[accPhi]
		} else {
			v = p.End.MemAt(acc)
		}
		if !isEmpty(v) {
			ok = false
			c.Fail(rule, name, g.Fn.Pos(), "the accumulator is initialised with %s, expected the monoid's Empty()", short(v))
			continue
		}
		// the Empty() call must be made by this goroutine itself: a value computed once outside and shared by
		// several goroutines aliases one accumulator for reference-typed monoids
		own := false
		for _, st := range p.Events(ir.KCall) {
			if ir.Same(st.R, v) {
				own = true
			}
		}
		if !own {
			ok = false
			c.Fail(rule, name, g.Fn.Pos(), "the accumulator starts from an Empty() value computed outside this goroutine (shared between workers), expected a fresh m.Empty() per goroutine")
		}
	}
	// iteration: acc' = Combine(acc, x) exactly once per element; unchanged otherwise
	var q Quantity
	if accPhi == nil {
		q = CellQuantity(g.An, acc)
	}
	for _, p := range g.An.Segs[h] {
		f := factsAt(g.An, h, p)
		nComb := 0
		var lastComb *ir.Term
		for _, st := range p.Events(ir.KCall) {
			if st.Method != nil && st.Method.Name() == "Combine" {
				nComb++
				lastComb = st.R
			}
		}
		var startV, endV *ir.Term
		if accPhi != nil {
			startV = g.An.Start[h].Reg(accPhi)
			switch {
			case p.To == h:
				endV = p.PhiOut[accPhi]
			case lastComb != nil:
				endV = lastComb // leaves after having combined: the register holds that result
			default:
				endV = startV
			}
		} else {
			startV = q.StartSym(p)
			endV = q.ValueAt(p, len(p.Steps))
		}
		if f.recv != nil {
			m, _, args, isC := callParts(endV)
			good := isC && m == "Combine" && len(args) == 3 && args[0].Op == "param" && ir.Same(args[1], startV) && ir.Same(args[2], f.elem) && nComb == 1
			if !good && commutative {
				good = isC && m == "Combine" && len(args) == 3 && args[0].Op == "param" && ir.Same(args[2], startV) && ir.Same(args[1], f.elem) && nComb == 1
			}
			if !good {
				ok = false
				c.Fail(rule, name, f.recv.Pos(), "per element the accumulator must become Combine(acc, x) exactly once with the accumulator first; found acc' = %s (%d Combine calls)", short(endV), nComb)
			}
		} else if !ir.Same(startV, endV) || nComb != 0 {
			ok = false
			c.Fail(rule, name, lastPos(p), "the accumulator changes on a path that received no element")
		}
		// exit paths: exactly one send of acc on resultCh
		if p.Exit == ir.ExitReturn {
			n := 0
			var sendIdx, closeIdx = -1, -1
			for i := range p.Steps {
				st := &p.Steps[i]
				if st.Kind == ir.KSend && ir.Same(st.A[0], resultCh) {
					n++
					sendIdx = i
					if !ir.Same(st.A[1], endV) {
						ok = false
						c.Fail(rule, name, st.Pos(), "the value sent on the result channel is %s, expected the accumulator %s", short(st.A[1]), short(endV))
					}
				}
				if st.Kind == ir.KClose && ir.Same(st.A[0], resultCh) {
					closeIdx = i
				}
			}
			if n != 1 || (closeAfterSend && closeIdx < sendIdx) {
				ok = false
				c.Fail(rule, name, lastPos(p), "an exit path sends the accumulator %d times (want exactly once, before the close)", n)
			}
		}
	}
	return ok
}

// cellHolding returns the address of the cell whose content at the end of p is v (a load symbol or a stored value).
func cellHolding(p *ir.Path, v *ir.Term, an *ir.Analysis) *ir.Term {
	if v.Op == "load" && len(v.Args) == 1 {
		return v.Args[0]
	}
	// search stores of that value
	var found *ir.Term
	for _, q := range an.AllPaths() {
		for _, st := range q.Events(ir.KStore) {
			if ir.Same(st.A[1], v) && st.A[0].Op == "alloc" {
				found = st.A[0]
			}
		}
	}
	return found
}

func c05Fold(c *core.Ctx, s *Stage) {
	g, h := seqGoroutine(c, s, "iteration")
	if g == nil {
		return
	}
	elem, ok := commonIteration(c, s, g, h, 0, 0)
	done := outChan(s, 0)
	if ok {
		c.Ok("iteration", s.Name, g.Fn.Pos(), fmt.Sprintf("%d element paths", len(elem)))
	}
	if foldShape(c, "fold-accumulator", s.Name, g, h, done, true) {
		c.Ok("fold-accumulator", s.Name, g.Fn.Pos(), "acc := Empty(); acc = Combine(acc, x) per element; one send(done, acc); close")
	}
	capOK := false
	if k, isK := chanCap(done).IntConst(); isK && k >= 1 {
		capOK = true
	}
	c.Check(capOK, "fold-accumulator", s.Name+"/capacity", s.Fn.Pos(), "result channel capacity >= 1", "result channel has capacity %s: the deferred send would block", short(chanCap(done)))
}

func c05ForEach(c *core.Ctx, s *Stage) {
	g, h := seqGoroutine(c, s, "iteration")
	if g == nil {
		return
	}
	iterForEach(c, s, g, h)
}

// iterForEach: the per-iteration constraint, for the sequential stage and for each fork worker alike.
func iterForEach(c *core.Ctx, s *Stage, g *Goroutine, h *ssa.BasicBlock) {
	elem, ok := commonIteration(c, s, g, h, 1, 1)
	for _, f := range elem {
		if !f.done && f.p.To != h {
			ok = false
			c.Fail("iteration", s.Name, f.recv.Pos(), "the stage stops after an element without cancellation:\n%s", f.p)
		}
		if len(allSends(f.p)) != 0 {
			ok = false
			c.Fail("iteration", s.Name, f.recv.Pos(), "ForEach must not send anything")
		}
	}
	if ok {
		c.Ok("iteration", s.Name, g.Fn.Pos(), fmt.Sprintf("%d element paths: exactly one Apply(x)", len(elem)))
	}
}

func c05Void(c *core.Ctx, s *Stage) {
	g, h := seqGoroutine(c, s, "iteration")
	if g == nil {
		return
	}
	iterVoid(c, s, g, h)
}

// iterVoid: the per-iteration constraint, for the sequential stage and for each fork worker alike.
func iterVoid(c *core.Ctx, s *Stage, g *Goroutine, h *ssa.BasicBlock) {
	elem, ok := commonIteration(c, s, g, h, 0, 0)
	for _, f := range elem {
		if !f.done && f.p.To != h {
			ok = false
			c.Fail("iteration", s.Name, f.recv.Pos(), "the stage stops after an element without cancellation:\n%s", f.p)
		}
		if len(allSends(f.p)) != 0 || len(calls(f.p)) > 1 {
			// only ctx.Done() may be called
		}
	}
	if ok {
		c.Ok("iteration", s.Name, g.Fn.Pos(), fmt.Sprintf("%d element paths: drain only", len(elem)))
	}
}

func c05Seq(c *core.Ctx, s *Stage) {
	an := s.Outer
	if len(an.Headers) != 1 {
		c.Undecided("iteration", s.Name, s.Fn.Pos(), "expected one loop over the arguments")
		return
	}
	h := an.Headers[0]
	l := countedLoop(an, h)
	ok := l != nil && l.RangeOver != nil && l.RangeOver.Op == "param"
	if !ok {
		c.Fail("iteration", s.Name, s.Fn.Pos(), "the loop is not an ascending range over the argument slice")
		return
	}
	out := outChan(s, 0)
	for _, p := range an.Segs[h] {
		sends := allSends(p)
		if p.To == h {
			good := len(sends) == 1 && ir.Same(sends[0].ch, out) && l.IsElem(an, sends[0].val)
			if !good {
				ok = false
				c.Fail("iteration", s.Name, lastPos(p), "each iteration must send xs[i] exactly once on the output:\n%s", p)
			}
		} else if len(sends) != 0 {
			ok = false
			c.Fail("iteration", s.Name, lastPos(p), "send outside the element loop")
		}
	}
	if capT := chanCap(out); capT == nil || !ir.Same(capT, l.Trip) {
		ok = false
		c.Fail("iteration", s.Name, s.Fn.Pos(), "output capacity %s differs from the number of elements %s: the synchronous sends would block", short(chanCap(out)), short(l.Trip))
	}
	if ok {
		c.Ok("iteration", s.Name, s.Fn.Pos(), "range xs: send(out, xs[i]); cap(out) = len(xs)")
	}
}

func c05ToSeq(c *core.Ctx, s *Stage) {
	an := s.Outer
	if len(an.Headers) != 1 {
		c.Undecided("iteration", s.Name, s.Fn.Pos(), "expected one loop over the channel")
		return
	}
	h := an.Headers[0]
	// the loop-carried slice: a register of the loop head, or a cell (a captured variable, the local of an inlined
	// iterator adapter) written in the loop
	ok := true
	var cands []Quantity
	for _, in := range h.Instrs {
		phi, isPhi := in.(*ssa.Phi)
		if !isPhi {
			break
		}
		if _, isSlice := phi.Type().Underlying().(*types.Slice); isSlice {
			cands = append(cands, PhiQuantity(an, h, phi, nil))
		}
	}
	for _, p := range an.Segs[nil] {
		if p.To != h || p.End == nil {
			continue
		}
		p.End.EachMem(func(addr, val *ir.Term) {
			if !cellAddr(addr) {
				return
			}
			for _, q := range an.Segs[h] {
				for _, st := range q.Events(ir.KStore) {
					if ir.Same(st.A[0], addr) && st.A[1].Op == "append" {
						cands = append(cands, CellQuantity(an, addr))
						return
					}
				}
			}
		})
		break
	}
	if len(cands) != 1 {
		c.Undecided("iteration", s.Name, s.Fn.Pos(), "no loop-carried slice (%d candidates)", len(cands))
		return
	}
	acc := cands[0]
	n := 0
	for _, p := range an.Segs[h] {
		f := factsAt(an, h, p)
		sym := acc.StartSym(p)
		if f.recv != nil {
			n++
			v := acc.ValueAt(p, len(p.Steps))
			good := p.To == h && v != nil && sym != nil && v.Op == "append" && len(v.Args) == 2 && ir.Same(v.Args[0], sym) && appendsOne(p, v.Args[1], f.elem)
			if !good {
				ok = false
				c.Fail("iteration", s.Name, f.recv.Pos(), "each received element must be appended exactly once to the result; found seq' = %s", short(v))
			}
		} else {
			if p.Exit != ir.ExitReturn || len(p.Results) != 1 || sym == nil || !ir.Same(p.Results[0], sym) {
				ok = false
				c.Fail("iteration", s.Name, lastPos(p), "when the channel closes the collected slice must be returned; found %v", p.Results)
			}
		}
	}
	for _, p := range an.Segs[nil] {
		v := acc.ValueAt(p, len(p.Steps))
		empty := false
		if v != nil && v.Op == "mkslice" {
			if k, isK := v.Args[0].IntConst(); isK && k == 0 {
				empty = true
			}
		}
		if v != nil && v.Op == "slice" && v.Args[0].Op == "alloc" {
			if k, isK := v.Args[2].IntConst(); isK && k == 0 {
				empty = true
			}
			if n, _, isArr := freshArrayLen(v); isArr && n == 0 {
				empty = true
			}
		}
		if !empty {
			ok = false
			c.Fail("iteration", s.Name, s.Fn.Pos(), "the result does not start from a fresh empty slice: %s", short(v))
		}
	}
	if ok && n > 0 {
		c.Ok("iteration", s.Name, s.Fn.Pos(), "range ch: seq = append(seq, x); return seq")
	}
}

// appendsOne: the variadic operand of append is a fresh one-element array holding exactly x.
func appendsOne(p *ir.Path, v, x *ir.Term) bool {
	if v.Op != "slice" || v.Args[0].Op != "alloc" {
		return false
	}
	arr := v.Args[0]
	n := 0
	good := false
	for _, st := range p.Events(ir.KStore) {
		if st.A[0].Op == "iaddr" && ir.Same(st.A[0].Args[0], arr) {
			n++
			if k, isK := st.A[0].Args[1].IntConst(); isK && k == 0 && ir.Same(st.A[1], x) {
				good = true
			}
		}
	}
	return n == 1 && good
}
