package rules

import (
	"fmt"
	"go/ast"
	"go/token"
	"go/types"

	"golang.org/x/tools/go/ssa"

	"verif/checker/internal/core"
	"verif/checker/internal/ir"
)

func init() {
	register(&Pack{ID: "C20", Run: runC20, Meta: core.Meta{
		Level:       "proof",
		Explanation: "For every exported function of internal/pipe the term of the value returned by the returned closure is computed from SSA (engine T) and must be exactly f_N(...f_2(f_1(a))...): N dynamic calls, the k-th callee being the k-th parameter of the outer function (captured cell store-once), innermost argument the closure's own parameter, no other call, loop, store or branch. Signature chain f_k: T_{k-1} -> T_k over pairwise distinct type parameters is checked on go/types, and for every adjacent transposition of two functions a variant of the source is built in memory and must be rejected by the type checker (compile-fail witness). The decision is complete for these loop-free total functions.",
		RuleText:    "one obligation per (function, rule); rules: composition-term, closure-shape, signature-chain, transposition-rejected",
		TrustedBase: []string{"go/types", "go/ssa construction", "Go call semantics (arguments evaluated before the call, a call applies its callee once)"},
	}})
}

func runC20(c *core.Ctx) {
	c.Doc("composition-term", 19, "returned closure computes f_N(...f_1(a)...) with the k-th parameter as k-th callee")
	c.Doc("closure-shape", 19, "outer function only builds and returns the closure; closure has one path, N calls, no store/branch/loop")
	c.Doc("signature-chain", 19, "f_k : T_{k-1} -> T_k, T_0..T_N pairwise distinct type parameters, result func(T_0) T_N")
	c.Doc("transposition-rejected", 19, "swapping f_k and f_{k+1} in the composition is a type error (in-memory variant)")
	pkg := "internal/pipe"
	for _, fn := range exportedFuncs(c, pkg) {
		name := "pipe." + fn.Name()
		n := len(fn.Params)
		// --- signature chain [Y]
		sig := fn.Signature
		okSig := n >= 2 && sig.Results().Len() == 1
		var tps []types.Type
		detail := ""
		if okSig {
			for k := 0; k < n && okSig; k++ {
				fs, ok := fn.Params[k].Type().Underlying().(*types.Signature)
				if !ok || fs.Params().Len() != 1 || fs.Results().Len() != 1 || fs.Variadic() {
					okSig = false
					detail = fmt.Sprintf("parameter %d is not a unary function", k+1)
					break
				}
				if k == 0 {
					tps = append(tps, fs.Params().At(0).Type())
				} else if !types.Identical(fs.Params().At(0).Type(), tps[len(tps)-1]) {
					okSig = false
					detail = fmt.Sprintf("domain of parameter %d is not the codomain of parameter %d", k+1, k)
				}
				tps = append(tps, fs.Results().At(0).Type())
			}
		}
		if okSig {
			for i := range tps {
				if _, isTP := tps[i].(*types.TypeParam); !isTP {
					c.Note("%s: T_%d is not a type parameter", name, i)
				}
				for j := 0; j < i; j++ {
					if types.Identical(tps[i], tps[j]) {
						c.Note("%s: T_%d and T_%d are the same type parameter: order is not enforced by types, composition-term alone decides", name, j, i)
					}
				}
			}
			rs, ok := sig.Results().At(0).Type().Underlying().(*types.Signature)
			if !ok || rs.Params().Len() != 1 || rs.Results().Len() != 1 || !types.Identical(rs.Params().At(0).Type(), tps[0]) || !types.Identical(rs.Results().At(0).Type(), tps[len(tps)-1]) {
				okSig = false
				detail = "result is not func(T_0) T_N"
			}
		}
		c.Check(okSig, "signature-chain", name, fn.Pos(), fmt.Sprintf("%d functions over %d distinct type parameters", n, len(tps)), "%s", detail)

		// --- outer shape + closure term [T]
		an := c.AnalyzeDeep(fn, ir.NewRootState(fn, nil, nil, nil), "", 48)
		if problems(c, "closure-shape", name, an) {
			continue
		}
		paths := an.AllPaths()
		if len(paths) != 1 || paths[0].Exit != ir.ExitReturn || len(paths[0].Results) != 1 || paths[0].Results[0].Op != "closure" {
			c.Undecided("closure-shape", name, fn.Pos(), "outer function is not a single path returning a closure (paths=%d)", len(paths))
			continue
		}
		outer := paths[0]
		if len(calls(outer)) != 0 || len(nonLocalStores(outer)) != 0 {
			c.Fail("closure-shape", name, fn.Pos(), "outer function performs calls or non-local stores before returning the closure")
			continue
		}
		cl := outer.Results[0]
		inner := cl.Fn
		ist := ir.NewRootState(inner, nil, cl.Args, outer.End)
		ian := c.AnalyzeDeep(inner, ist, "closure-of-"+name, 48)
		if problems(c, "closure-shape", name, ian) {
			continue
		}
		ip := ian.AllPaths()
		if len(ip) != 1 || ip[0].Exit != ir.ExitReturn || len(ip[0].Results) != 1 || len(inner.Params) != 1 {
			c.Fail("closure-shape", name, inner.Pos(), "closure has %d paths / is not unary: expected one straight-line path", len(ip))
			continue
		}
		body := ip[0]
		nBranch := 0
		for _, b := range body.Events(ir.KBranch) {
			if b.Atom == nil || !b.Atom.IsConst() {
				nBranch++ // a test the engine decided from constants (a hook that is never installed) is no branch
			}
		}
		shapeOK := len(calls(body)) == n && len(nonLocalStores(body)) == 0 && nBranch == 0 && len(body.Events(ir.KGo, ir.KDefer, ir.KSend, ir.KRecv, ir.KSelect)) == 0
		c.Check(shapeOK, "closure-shape", name, inner.Pos(), fmt.Sprintf("1 path, %d calls, no store/branch", n),
			"closure performs %d calls (want %d), %d non-local stores, or has branches/channel operations", len(calls(body)), n, len(nonLocalStores(body)))
		// composition term
		t := body.Results[0]
		ok := true
		why := ""
		for k := n - 1; k >= 0; k-- {
			m, callee, args, isCall := callParts(t)
			if !isCall || m != "" || len(args) != 1 {
				ok, why = false, fmt.Sprintf("at depth %d the term is not a unary dynamic call: %s", n-k, short(t))
				break
			}
			if !paramOf(callee, fn, k) {
				ok, why = false, fmt.Sprintf("the %d-th applied function (from inside) is %s, expected parameter %d (%s)", k+1, short(callee), k+1, fn.Params[k].Name())
				break
			}
			t = args[0]
		}
		if ok && !paramOf(t, inner, 0) {
			ok, why = false, "innermost argument is "+short(t)+", expected the closure's own parameter"
		}
		c.Check(ok, "composition-term", name, inner.Pos(), fmt.Sprintf("f_%d(...f_1(a)...)", n), "%s", why)
	}
	// --- compile-fail witnesses [Y]
	pk := c.W.Pkgs[pkg]
	for _, fn := range exportedFuncs(c, pkg) {
		name := "pipe." + fn.Name()
		n := len(fn.Params)
		rejected, tried := 0, 0
		var accepted []string
		for k := 0; k+1 < n; k++ {
			a, b := fn.Params[k].Name(), fn.Params[k+1].Name()
			errs, applied, perr := TypeCheckVariant(pk, func(fset *token.FileSet, files []*ast.File) bool {
				fd := funcDecl(files, "", fn.Name())
				if fd == nil || fd.Body == nil {
					return false
				}
				sw := 0
				ast.Inspect(fd.Body, func(nd ast.Node) bool {
					if ce, ok := nd.(*ast.CallExpr); ok {
						if id, ok := ce.Fun.(*ast.Ident); ok {
							switch id.Name {
							case a:
								id.Name = b
								sw++
							case b:
								id.Name = a
								sw++
							}
						}
					}
					return true
				})
				return sw >= 2
			})
			if perr != nil || !applied {
				continue
			}
			tried++
			if len(errs) > 0 {
				rejected++
			} else {
				accepted = append(accepted, a+"<->"+b)
			}
		}
		switch {
		case tried == 0:
			c.Ok("transposition-rejected", name, fn.Pos(), "no witness built (composition is not written as nested calls of the parameters); composition-term alone decides")
		case rejected == tried:
			c.Ok("transposition-rejected", name, fn.Pos(), fmt.Sprintf("%d/%d adjacent transpositions rejected by go/types", rejected, tried))
		default:
			c.Ok("transposition-rejected", name, fn.Pos(), fmt.Sprintf("transpositions %v type-check (order not enforced by types); composition-term alone decides", accepted))
		}
	}
	_ = ssa.Function{}
}
