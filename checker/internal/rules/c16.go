package rules

import (
	"fmt"
	"sort"
	"go/types"
	"strings"

	"golang.org/x/tools/go/ssa"

	"verif/checker/internal/core"
	"verif/checker/internal/ir"
)

func init() {
	register(&Pack{ID: "C16", Run: runC16, Meta: core.Meta{
		Level:       "other",
		Explanation: "bracket: every path of every Apply of the AST node kinds is OnEnter_K(depth, node), children, OnLeave_K(depth, node) with the same kind K, the method's own depth and the same node, error paths being prefixes of it. error-stops: every call returning an error is followed at once by the test of that error; non-nil returns that very error with no event in between (deferred calls included), nil continues. children: AstSeq.Apply ranges ascending over n.Seq and applies each child with depth+1 and the same visitor, between enter and leave. root-pairing: Root selects the Morphism callbacks, non-Root the Seq callbacks, for enter and leave alike (both test the same never-modified field of the receiver copy). type-names: constructors store TypeOf[X]() of exactly the Go type parameters of the step (F[X,Y] -> TypeA: X, TypeB: Y; T[X] -> Type: X) and the carried value (f.f / p.v). combinator-op: From builds a fresh open root and appends AstFrom; Join/Yield append their node to the morphism's own code; LiftF appends AstMap into a fresh open non-root sequence and appends that; WrapF appends a fresh open non-root sequence; Unit calls unit(); each result wraps the same code. append-discipline: a closed sequence refuses without mutation; an open last child *AstSeq is tried first and a local append happens only if it refused; every accepting path performs exactly one append of the given node. unit-discipline: refuses iff closed; delegates to an open last child and stops if that closed something; otherwise closes itself, the root never closes. The tree shape for all programs follows on paper from the two disciplines (recursion over run-time trees is not decided). type-name-pure: TypeOf depends on the type alone - what it reaches touches package state only read-only, as a lock, or as a memo obeying the memo discipline.",
		RuleText:    "one obligation per (rule, method / constructor)",
		TrustedBase: []string{"go/types", "go/ssa", "path engine P"},
	}})
}

func isErrorType(t types.Type) bool {
	return types.Identical(t, types.Universe.Lookup("error").Type())
}

// callbackKind splits OnEnterX / OnLeaveX.
func callbackKind(name string) (phase, kind string) {
	switch {
	case strings.HasPrefix(name, "OnEnter"):
		return "enter", strings.TrimPrefix(name, "OnEnter")
	case strings.HasPrefix(name, "OnLeave"):
		return "leave", strings.TrimPrefix(name, "OnLeave")
	}
	return "", ""
}

func runC16(c *core.Ctx) {
	c.Doc("bracket", 5, "Apply = enter_K(depth,node); children; leave_K(depth,node)")
	c.Doc("error-stops", 4, "an error from any callback or child is returned at once, unchanged")
	c.Doc("children", 1, "AstSeq.Apply visits n.Seq ascending with depth+1")
	c.Doc("root-pairing", 1, "Root <=> Morphism callbacks, for enter and leave alike")
	c.Doc("type-names", 4, "nodes record TypeOf of the step's own type parameters and the carried value")
	c.Doc("combinator-op", 6, "each combinator appends the right node to the morphism's own code and returns the same code")
	c.Doc("append-discipline", 1, "append: refuse when closed; innermost open child first; exactly one append")
	c.Doc("unit-discipline", 1, "unit: refuse when closed; innermost open child first; root never closes")

	// ---- Apply methods of all types implementing the AST interface
	pk := c.W.Pkgs["duct"]
	if pk == nil {
		c.Undecided("bracket", "duct", 0, "package not loaded")
		return
	}
	astI, _ := pk.Types.Scope().Lookup("Ast").(*types.TypeName)
	if astI == nil {
		c.Undecided("bracket", "duct.Ast", 0, "interface Ast not found")
		return
	}
	iface := astI.Type().Underlying().(*types.Interface)
	var seqFn *ssa.Function
	applyFns := map[*ssa.Function]bool{}
	for _, n := range pk.Types.Scope().Names() {
		tn, ok := pk.Types.Scope().Lookup(n).(*types.TypeName)
		if !ok || tn == astI {
			continue
		}
		nt, ok := tn.Type().(*types.Named)
		if !ok || !(types.Implements(nt, iface) || types.Implements(types.NewPointer(nt), iface)) {
			continue
		}
		fn := iterMethod(c, nt, "Apply")
		if fn == nil {
			continue
		}
		name := "duct." + n + ".Apply"
		applyFns[fn] = true
		an := c.AnalyzeLoops(fn)
		if problems(c, "bracket", name, an) {
			continue
		}
		errorStops(c, name, fn, an)
		if len(an.Headers) == 0 {
			leafBracket(c, name, fn, an)
		} else {
			seqFn = fn
			seqBracket(c, name, fn, an)
		}
	}
	if seqFn == nil {
		c.Fail("children", "duct.AstSeq.Apply", 0, "no AST node visits children")
	}
	// Morphism.Apply starts at depth 0 on its own code
	if fn := c.W.Method("duct", "Morphism", "Apply"); fn != nil {
		// the node visitors stay opaque here (they are checked above); a loop-free sequence visitor would
		// otherwise be inlined into the morphism's own Apply
		man := c.AnalyzeKeeping(fn, "apply-opaque", func(f *ssa.Function) bool { return applyFns[f] })
		var p *ir.Path
		if !problems(c, "bracket", "duct.Morphism.Apply", man) {
			if ps := man.AllPaths(); len(ps) == 1 && ps[0].Exit == ir.ExitReturn {
				p = ps[0]
			} else {
				c.Fail("bracket", "duct.Morphism.Apply", fn.Pos(), "expected one straight-line returning path, found %d paths", len(ps))
			}
		}
		if p != nil {
			cs := calls(p)
			ok := len(cs) == 1 && cs[0].Static == seqFn || len(cs) == 1 && cs[0].Static != nil && cs[0].Static.Name() == "Apply"
			if ok {
				d, isK := cs[0].A[1].IntConst()
				ok = isK && d == 0 && paramOf(cs[0].A[2], fn, 1) && ir.Same(p.Results[0], cs[0].R)
			}
			c.Check(ok, "bracket", "duct.Morphism.Apply", fn.Pos(), "code.Apply(0, v)", "the visit must start with code.Apply(0, v) and return its result:\n%s", p)
		}
	}

	typeNames(c)
	typeOfPure(c)
	combinatorOps(c)
	appendDiscipline(c)
	unitDiscipline(c)
}

// errorStops: generic over all paths.
func errorStops(c *core.Ctx, name string, fn *ssa.Function, an *ir.Analysis) {
	ok := true
	n := 0
	for _, p := range an.AllPaths() {
		for i := range p.Steps {
			st := &p.Steps[i]
			if st.Kind != ir.KCall {
				continue
			}
			var res *types.Tuple
			switch {
			case st.Method != nil:
				res = st.Method.Type().(*types.Signature).Results()
			case st.Static != nil:
				res = st.Static.Signature.Results()
			}
			if res == nil || res.Len() != 1 || !isErrorType(res.At(0).Type()) {
				continue
			}
			n++
			if st.InDefer {
				ok = false
				c.Fail("error-stops", name, st.Pos(), "a callback runs from a deferred call: it still fires after an earlier failure")
				continue
			}
			pol := polarity(p, &ir.Term{Op: "bin", Aux: "==", Args: sorted2(ir.Nil, st.R)})
			switch {
			case pol == 0:
				// allowed only when the result is returned directly as the last action
				if !(p.Exit == ir.ExitReturn && ir.Same(p.Results[0], st.R) && noCallsAfter(p, i)) {
					ok = false
					c.Fail("error-stops", name, st.Pos(), "the error of %s is not tested before the visit goes on", st.CalleeName())
				}
			case pol < 0:
				if !(p.Exit == ir.ExitReturn && len(p.Results) == 1 && ir.Same(p.Results[0], st.R) && noCallsAfter(p, i)) {
					ok = false
					c.Fail("error-stops", name, st.Pos(), "after %s failed the visit does not stop at once returning that error (further callbacks or another result follow):\n%s", st.CalleeName(), p)
				}
			}
		}
		if p.Exit == ir.ExitReturn && len(p.Results) == 1 && !p.Results[0].IsNil() && p.Results[0].Op != "call" {
			ok = false
			c.Fail("error-stops", name, lastPos(p), "Apply returns %s, which is neither nil nor the error of a callback", short(p.Results[0]))
		}
	}
	if ok && n > 0 {
		c.Ok("error-stops", name, fn.Pos(), fmt.Sprintf("%d error-returning call occurrences on the paths", n))
	}
}

func noCallsAfter(p *ir.Path, i int) bool {
	for j := i + 1; j < len(p.Steps); j++ {
		if p.Steps[j].Kind == ir.KCall || p.Steps[j].Kind == ir.KStore && !p.Steps[j].LocalStore {
			return false
		}
	}
	return true
}

// callbacks lists visitor callbacks of a path in order.
func callbacksOf(p *ir.Path) []*ir.Step {
	var out []*ir.Step
	for i := range p.Steps {
		st := &p.Steps[i]
		if st.Kind == ir.KCall && st.Method != nil {
			if ph, _ := callbackKind(st.Method.Name()); ph != "" {
				out = append(out, st)
			}
		}
	}
	return out
}

func leafBracket(c *core.Ctx, name string, fn *ssa.Function, an *ir.Analysis) {
	ok := true
	full := 0
	for _, p := range an.AllPaths() {
		cbs := callbacksOf(p)
		if len(calls(p)) != len(cbs) {
			ok = false
			c.Fail("bracket", name, lastPos(p), "a leaf node's Apply calls something besides its two callbacks")
		}
		if len(cbs) == 0 || len(cbs) > 2 {
			ok = false
			c.Fail("bracket", name, lastPos(p), "a path has %d callbacks (want enter, then leave)", len(cbs))
			continue
		}
		ph0, k0 := callbackKind(cbs[0].Method.Name())
		good := ph0 == "enter" && paramOf(cbs[0].A[0], fn, 2) && paramOf(cbs[0].A[1], fn, 1) && paramOf(cbs[0].A[2], fn, 0)
		if len(cbs) == 2 {
			ph1, k1 := callbackKind(cbs[1].Method.Name())
			good = good && ph1 == "leave" && k1 == k0 && paramOf(cbs[1].A[0], fn, 2) && paramOf(cbs[1].A[1], fn, 1) && paramOf(cbs[1].A[2], fn, 0)
			if p.Exit == ir.ExitReturn && (p.Results[0].IsNil() || ir.Same(p.Results[0], cbs[1].R)) {
				full++
			}
		} else if p.Exit == ir.ExitReturn && p.Results[0].IsNil() {
			good = false // success without leave
		}
		if !good {
			ok = false
			c.Fail("bracket", name, lastPos(p), "callbacks are not enter_K(depth, node) then leave_K(depth, node) of one kind on the visitor argument:\n%s", p)
		}
	}
	if ok && full > 0 {
		c.Ok("bracket", name, fn.Pos(), "enter; leave")
	} else if ok {
		c.Fail("bracket", name, fn.Pos(), "no complete enter/leave path")
	}
}

func seqBracket(c *core.Ctx, name string, fn *ssa.Function, an *ir.Analysis) {
	if len(an.Headers) != 1 {
		c.Undecided("children", name, fn.Pos(), "expected one loop over the children")
		return
	}
	h := an.Headers[0]
	rootAtom := &ir.Term{Op: "field", Aux: "Root", Args: []*ir.Term{{Op: "param", Aux: fn.Params[0].Name()}}}
	okB, okR, okC := true, true, true
	kindFor := map[int]string{} // Root polarity -> kind, must agree between enter and leave
	// the callback of one phase: enter_K / leave_K (depth, node) on the visitor argument, K chosen by the Root flag
	check := func(p *ir.Path, cb *ir.Step, wantPhase string) {
		ph, k := callbackKind(cb.Method.Name())
		if ph != wantPhase || !paramOf(cb.A[0], fn, 2) || !paramOf(cb.A[1], fn, 1) || !paramOf(cb.A[2], fn, 0) {
			okB = false
			c.Fail("bracket", name, cb.Pos(), "expected %s_K(depth, node) on the visitor argument, found %s", wantPhase, cb.String())
		}
		pol := polarity(p, rootAtom)
		if pol == 0 {
			okR = false
			c.Fail("root-pairing", name, cb.Pos(), "the callback kind is chosen without testing the node's Root flag")
			return
		}
		if prev, seen := kindFor[pol]; seen && prev != k {
			okR = false
			c.Fail("root-pairing", name, cb.Pos(), "enter and leave use different callback kinds (%s / %s) for the same Root value: the visit is not well-bracketed", prev, k)
		}
		kindFor[pol] = k
	}
	l := countedLoop(an, h)
	if l == nil || !l.Rotated() && (l.RangeOver == nil || !(l.RangeOver.Op == "field" && l.RangeOver.Aux == "Seq" && paramOf(l.RangeOver.Args[0], fn, 0))) {
		okC = false
		c.Fail("children", name, fn.Pos(), "the children loop is not an ascending range over the node's own Seq")
	}
	if l != nil && l.Rotated() {
		// `for i := range len(n.Seq)`: bottom-tested, counted 0 .. len(n.Seq)-1
		seqLen := &ir.Term{Op: "len", Args: []*ir.Term{{Op: "field", Aux: "Seq", Args: []*ir.Term{{Op: "param", Aux: fn.Params[0].Name()}}}}}
		if !(l.Step == 1 && l.Bound != nil && ir.Same(l.Bound, seqLen)) {
			okC = false
			c.Fail("children", name, fn.Pos(), "the children loop is not an ascending count over the node's own Seq")
		}
	}
	// every segment is a word of the phase automaton  start -enter-> children -child*-> children -leave-> done ;
	// a segment from the entry begins in start, one from the loop header in children. The number of children visited on
	// a segment is the number of times it runs the loop body: one where the loop continues (or, bottom-tested, on every
	// segment from the header), none elsewhere.
	run := func(p *ir.Path, state int, wantChildren int) {
		nChild := 0
		for i := range p.Steps {
			st := &p.Steps[i]
			if st.Kind != ir.KCall {
				continue
			}
			ph := ""
			if st.Method != nil {
				ph, _ = callbackKind(st.Method.Name())
			}
			switch {
			case ph == "enter" && state == 0:
				check(p, st, "enter")
				state = 1
			case ph == "leave" && state == 1:
				check(p, st, "leave")
				state = 2
			case ph != "":
				okB = false
				c.Fail("bracket", name, st.Pos(), "the %s callback comes out of turn (the visit is enter_K; children; leave_K):\n%s", ph, p)
				return
			default:
				nChild++
				good := state == 1 && st.Method != nil && st.Method.Name() == "Apply" && l != nil && isChildElem(an, l, fn, st.A[0]) && paramOf(st.A[2], fn, 2)
				if good {
					d, isK := plusConst(st.A[1], &ir.Term{Op: "param", Aux: fn.Params[1].Name()})
					good = isK && d == 1
				}
				if !good {
					okC = false
					c.Fail("children", name, st.Pos(), "each child must be visited exactly once, between enter and leave, as child.Apply(depth+1, v):\n%s", p)
					return
				}
			}
		}
		failed := p.Exit == ir.ExitReturn && len(p.Results) == 1 && !p.Results[0].IsNil()
		switch {
		case failed: // an error is handed back at once (error-stops decides which)
		case p.To == h && state != 1:
			okB = false
			c.Fail("bracket", name, lastPos(p), "the children loop is entered without the enter callback (or after leave):\n%s", p)
		case p.To == nil && state != 2:
			okB = false
			c.Fail("bracket", name, lastPos(p), "the visit ends without the leave callback and without an error:\n%s", p)
		}
		if !failed && nChild != wantChildren || failed && nChild > wantChildren {
			okC = false
			c.Fail("children", name, lastPos(p), "this segment visits %d children, expected %d (each child exactly once):\n%s", nChild, wantChildren, p)
		}
	}
	for _, p := range an.Segs[nil] {
		run(p, 0, 0)
	}
	for _, p := range an.Segs[h] {
		want := 0
		if l != nil && (l.Rotated() || polarity(p, l.ContinueAtom(an)) > 0) {
			want = 1
		}
		run(p, 1, want)
	}
	if mk, sk := kindFor[1], kindFor[-1]; okR && !(mk == "Morphism" && sk == "Seq") {
		okR = false
		c.Fail("root-pairing", name, fn.Pos(), "Root selects %q and non-Root %q callbacks, expected Morphism / Seq", mk, sk)
	}
	// the Root flag is never modified inside Apply
	for _, p := range an.AllPaths() {
		for _, st := range nonLocalStores(p) {
			okR = false
			c.Fail("root-pairing", name, st.Pos(), "Apply modifies state (%s)", short(st.A[0]))
		}
	}
	if okB {
		c.Ok("bracket", name, fn.Pos(), "enter_K; children; leave_K")
	}
	if okR {
		c.Ok("root-pairing", name, fn.Pos(), "Root => Morphism, else Seq, enter and leave alike")
	}
	if okC {
		c.Ok("children", name, fn.Pos(), "range n.Seq: child.Apply(depth+1, v)")
	}
}

// ---------------------------------------------------------------------------

// isChildElem: t is the element of the node's Seq the children loop is at.
func isChildElem(an *ir.Analysis, l *Loop, fn *ssa.Function, t *ir.Term) bool {
	if l.RangeOver != nil && l.IsElem(an, t) {
		return true
	}
	seq := &ir.Term{Op: "field", Aux: "Seq", Args: []*ir.Term{{Op: "param", Aux: fn.Params[0].Name()}}}
	idx := l.Index(an)
	for _, cand := range []*ir.Term{
		{Op: "index", Args: []*ir.Term{seq, idx}},
		{Op: "load", Aux: "0", Args: []*ir.Term{{Op: "iaddr", Args: []*ir.Term{seq, idx}}}},
	} {
		if ir.Same(t, cand) {
			return true
		}
	}
	return false
}

func isDuctNamed(t types.Type, name string) (*types.Named, bool) {
	nt, ok := t.(*types.Named)
	if !ok || nt.Origin().Obj().Name() != name || nt.Obj().Pkg() == nil || !strings.HasSuffix(nt.Obj().Pkg().Path(), "/duct") {
		return nil, false
	}
	return nt, true
}

// typeNames [Y]: in every constructor, a node literal's Type* fields hold TypeOf[X]() of the matching type argument.
func typeNames(c *core.Ctx) {
	typeOf := c.W.Func("duct", "TypeOf")
	for _, name := range []string{"From", "Join", "LiftF", "Yield"} {
		fn := c.W.Func("duct", name)
		cname := "duct." + name
		if fn == nil {
			c.Undecided("type-names", cname, 0, "anchor not found")
			continue
		}
		// expectations from the parameter types
		want := map[string]types.Type{} // field name -> type argument
		carried := map[string]bool{}
		for _, p := range fn.Params {
			if nt, ok := isDuctNamed(p.Type(), "F"); ok {
				want["TypeA"], want["TypeB"] = nt.TypeArgs().At(0), nt.TypeArgs().At(1)
				carried["F"] = true
			}
			if nt, ok := isDuctNamed(p.Type(), "T"); ok {
				want["Type"] = nt.TypeArgs().At(0)
				carried["Source"], carried["Target"] = true, true
			}
		}
		ok := len(want) > 0
		why := "constructor has no F[...] or T[...] parameter"
		got := map[string]types.Type{}
		gotCarried := false
		conflict := ""
		// a value handed down to a helper as an argument (`from[A](TypeOf[A](), source.v)`): the helper's parameter
		// stands for the argument, read with the type substitution of the frame that computed it
		type bound struct {
			v     ssa.Value
			subst map[*types.TypeParam]types.Type
		}
		pvals := map[*ssa.Parameter]bound{}
		var scan func(f *ssa.Function, subst map[*types.TypeParam]types.Type, depth int)
		resolve := func(t types.Type, subst map[*types.TypeParam]types.Type) types.Type {
			if tp, isTP := t.(*types.TypeParam); isTP {
				if r, okR := subst[tp]; okR {
					return r
				}
			}
			return t
		}
		scan = func(f *ssa.Function, subst map[*types.TypeParam]types.Type, depth int) {
			if depth > 3 {
				return
			}
			for _, b := range f.Blocks {
				for _, in := range b.Instrs {
					switch x := in.(type) {
					case *ssa.Store:
						fa, isFA := x.Addr.(*ssa.FieldAddr)
						if !isFA {
							continue
						}
						fname := fieldNameOf(fa)
						v := x.Val
						if mi, isMI := v.(*ssa.MakeInterface); isMI {
							v = mi.X
						}
						vsubst := subst
						for k := 0; k < 4; k++ {
							pp, isP := v.(*ssa.Parameter)
							if !isP {
								break
							}
							b, has := pvals[pp]
							if !has {
								break
							}
							v, vsubst = b.v, b.subst
							if mi, isMI := v.(*ssa.MakeInterface); isMI {
								v = mi.X
							}
						}
						if call, isCall := v.(*ssa.Call); isCall {
							callee := call.Call.StaticCallee()
							if callee != nil && callee.Origin() == typeOf && len(callee.TypeArgs()) == 1 {
								t := resolve(callee.TypeArgs()[0], vsubst)
								if old, seen := got[fname]; seen && !types.Identical(old, t) {
									conflict = fname
								}
								got[fname] = t
							}
						}
						if carried[fname] {
							// the payload: a field read of a parameter (f.f / p.v), possibly through a spill cell
							switch y := v.(type) {
							case *ssa.Field:
								gotCarried = true
							case *ssa.UnOp:
								if _, isFA2 := y.X.(*ssa.FieldAddr); isFA2 {
									gotCarried = true
								}
							case *ssa.Parameter:
								gotCarried = true // handed down to a helper as a parameter
							}
						}
					case *ssa.Call:
						callee := x.Call.StaticCallee()
						if callee == nil || callee.Origin() == typeOf {
							continue
						}
						body := callee
						if callee.Origin() != nil {
							body = callee.Origin()
						}
						if body.Pkg == nil || body.Pkg != fn.Pkg || len(body.Blocks) == 0 {
							continue
						}
						ns := map[*types.TypeParam]types.Type{}
						if tps := body.TypeParams(); tps != nil {
							ta := callee.TypeArgs()
							for i := 0; i < tps.Len() && i < len(ta); i++ {
								ns[tps.At(i)] = resolve(ta[i], subst)
							}
						}
						for i, bp := range body.Params {
							if i < len(x.Call.Args) {
								pvals[bp] = bound{x.Call.Args[i], subst}
							}
						}
						scan(body, ns, depth+1)
					}
				}
			}
		}
		scan(fn, map[*types.TypeParam]types.Type{}, 0)
		if conflict != "" {
			ok, why = false, "field "+conflict+" is set from different type parameters"
		}
		for f, w := range want {
			g, has := got[f]
			switch {
			case !ok:
			case !has:
				ok, why = false, "field "+f+" is not set from TypeOf"
			case !types.Identical(g, w):
				ok, why = false, fmt.Sprintf("field %s records TypeOf[%v], expected the step's own type parameter %v", f, g, w)
			}
		}
		for f := range got {
			if _, expected := want[f]; !expected && ok {
				ok, why = false, "TypeOf is stored in unexpected field "+f
			}
		}
		if ok && !gotCarried {
			ok, why = false, "the node does not carry the step's payload (f.f / p.v)"
		}
		c.Check(ok, "type-names", cname, fn.Pos(), "Type fields = TypeOf of the step's type parameters; payload carried", "%s", why)
	}
}

// seqMethods: the unexported methods of AstSeq by role: attach (Ast) bool, close () bool.
func seqMethods(c *core.Ctx) (appendFn, unitFn *ssa.Function) {
	pk := c.W.Pkgs["duct"]
	tn, _ := pk.Types.Scope().Lookup("AstSeq").(*types.TypeName)
	if tn == nil {
		return nil, nil
	}
	nt := tn.Type().(*types.Named)
	for i := 0; i < nt.NumMethods(); i++ {
		m := nt.Method(i)
		if m.Exported() {
			continue
		}
		sig := m.Type().(*types.Signature)
		if sig.Results().Len() != 1 || sig.Results().At(0).Type().String() != "bool" {
			continue
		}
		switch sig.Params().Len() {
		case 0:
			unitFn = c.W.Prog.FuncValue(m)
		case 1:
			appendFn = c.W.Prog.FuncValue(m)
		}
	}
	// the same two roles written as plain unexported functions of the package: (*AstSeq) bool, (*AstSeq, Ast) bool
	isSeqPtr := func(t types.Type) bool {
		pt, ok := t.(*types.Pointer)
		return ok && types.Identical(pt.Elem(), nt)
	}
	scope := pk.Types.Scope()
	for _, n := range scope.Names() {
		f, ok := scope.Lookup(n).(*types.Func)
		if !ok || f.Exported() {
			continue
		}
		sig := f.Type().(*types.Signature)
		if sig.TypeParams().Len() != 0 || sig.Results().Len() != 1 || sig.Results().At(0).Type().String() != "bool" ||
			sig.Params().Len() == 0 || !isSeqPtr(sig.Params().At(0).Type()) {
			continue
		}
		switch {
		case sig.Params().Len() == 1 && unitFn == nil:
			unitFn = c.W.Prog.FuncValue(f)
		case sig.Params().Len() == 2 && appendFn == nil && sig.Params().At(1).Type().String() == pk.Types.Path()+".Ast":
			appendFn = c.W.Prog.FuncValue(f)
		}
	}
	return
}

// codeField: the field of Morphism that holds the *AstSeq.
func codeField(c *core.Ctx) string {
	pk := c.W.Pkgs["duct"]
	tn, _ := pk.Types.Scope().Lookup("Morphism").(*types.TypeName)
	if tn == nil {
		return ""
	}
	st, ok := tn.Type().Underlying().(*types.Struct)
	if !ok {
		return ""
	}
	for i := 0; i < st.NumFields(); i++ {
		if _, isP := st.Field(i).Type().(*types.Pointer); isP {
			return st.Field(i).Name()
		}
	}
	return ""
}

// combinatorOps: what each combinator does to the code.
func combinatorOps(c *core.Ctx) {
	appendFn, unitFn := seqMethods(c)
	fCode := codeField(c)
	type expect struct {
		name      string
		freshRoot bool
		nodes     []string // node type names appended, in order, "AstSeq" for a fresh nested sequence
		unit      bool
	}
	for _, e := range []expect{
		{"From", true, []string{"AstFrom"}, false},
		{"Join", false, []string{"AstMap"}, false},
		{"LiftF", false, []string{"AstMap", "AstSeq"}, false},
		{"WrapF", false, []string{"AstSeq"}, false},
		{"Unit", false, nil, true},
		{"Yield", false, []string{"AstYield"}, false},
	} {
		fn := c.W.Func("duct", e.name)
		cname := "duct." + e.name
		if fn == nil {
			c.Undecided("combinator-op", cname, 0, "anchor not found")
			continue
		}
		// path level (helpers are inlined): entered / called append and unit at the constructor's own level
		ok := true
		why := ""
		an := c.Analyze(fn)
		if problems(c, "combinator-op", cname, an) {
			continue
		}
		isCodeOfM := func(t *ir.Term) bool {
			return t.Op == "field" && t.Aux == fCode && paramOf(t.Args[0], fn, len(fn.Params)-1)
		}
		var appended []string
		nUnit := 0
		var freshSeqs []*ssa.Alloc
		for _, b := range fn.Blocks {
			for _, in := range b.Instrs {
				if al, isAl := in.(*ssa.Alloc); isAl {
					if nt, isN := al.Type().(*types.Pointer).Elem().(*types.Named); isN && nt.Obj().Name() == "AstSeq" {
						freshSeqs = append(freshSeqs, al)
					}
				}
			}
		}
		paths := an.AllPaths()
		if len(paths) == 0 {
			ok, why = false, "no path"
		}
		for pi, p := range paths {
			var appHere []string
			unitsHere := 0
			for i := range p.Steps {
				st := &p.Steps[i]
				// the constructor's own appends / units, made directly or through a helper (`then(code, step)`); the
				// recursive descent inside append / unit themselves does not count
				if (st.Kind != ir.KEnter && st.Kind != ir.KCall) || st.Fn == appendFn || st.Fn == unitFn {
					continue
				}
				if st.Depth != 0 && insideSeqMethod(p, i, appendFn, unitFn) {
					continue
				}
				switch st.Static {
				case appendFn:
					recv, arg := st.A[0], st.A[1]
					tn := ""
					if pt, isP := arg.Typ.(*types.Pointer); isP && arg.Op == "alloc" {
						if nt, isN := pt.Elem().(*types.Named); isN {
							tn = nt.Obj().Name()
						}
					}
					appHere = append(appHere, tn)
					recvFresh := recv.Op == "alloc"
					switch {
					case e.freshRoot:
						if !recvFresh {
							ok, why = false, "From must append to its own fresh root"
						}
					case e.name == "LiftF" && tn == "AstMap":
						if !recvFresh {
							ok, why = false, "LiftF must append the transformer into the fresh nested sequence"
						}
					default:
						if !isCodeOfM(recv) {
							ok, why = false, "the node is appended to "+short(recv)+", expected the code of the morphism argument"
						}
					}
				case unitFn:
					unitsHere++
					if !isCodeOfM(st.A[0]) {
						ok, why = false, "unit is applied to "+short(st.A[0])+", expected the code of the morphism argument"
					}
				}
			}
			if pi == 0 {
				appended, nUnit = appHere, unitsHere
			} else if strings.Join(appHere, ",") != strings.Join(appended, ",") || unitsHere != nUnit {
				ok, why = false, "paths of the constructor differ in what they append"
			}
		}
		if ok && strings.Join(appended, ",") != strings.Join(e.nodes, ",") {
			// LiftF's two appends go to different sequences (the transformer into the fresh one, the fresh one into
			// the morphism's code - each receiver is checked above): hanging the fresh sequence in first and filling
			// it afterwards builds the same tree
			sa, sb := append([]string{}, appended...), append([]string{}, e.nodes...)
			sort.Strings(sa)
			sort.Strings(sb)
			if !(e.name == "LiftF" && strings.Join(sa, ",") == strings.Join(sb, ",")) {
				ok, why = false, fmt.Sprintf("appends %v, expected %v", appended, e.nodes)
			}
		}
		if ok && (nUnit == 1) != e.unit {
			ok, why = false, fmt.Sprintf("%d unit() calls", nUnit)
		}
		// fresh sequences (wherever they are allocated: here or in a helper): Root flag and Deferred, read from the
		// literal in memory at the end of the path
		if ok {
			for _, p := range paths {
				// fresh sequences of this path and the flags stored into them (a later opaque call may havoc the cell,
				// so the stores themselves are read)
				type flags struct {
					root, deferred string
					nonEmpty       string // a non-empty initial child list (what it was initialised with)
					seqInit        bool
				}
				fresh := map[string]*flags{}
				// a local that receives a copy of an existing sequence (the spilled value receiver of a helper method such
				// as a debug `kind()`) is not a sequence the combinator creates
				copies := map[string]bool{}
				for _, st := range p.Events(ir.KStore) {
					isOverlay := st.A[1].Op == "lit" && len(st.A[1].Args) > 0 && st.A[1].Args[0].Op == "base" // an existing value with fields updated since
					if st.A[0].Op == "alloc" && (st.A[1].Op != "lit" || isOverlay) && !(st.A[1].Op == "const" && strings.HasPrefix(st.A[1].Aux, "zero")) {
						copies[st.A[0].Key()] = true
					}
				}
				for _, st := range p.Events(ir.KStore) {
					a := st.A[0]
					base := a
					if a.Op == "faddr" {
						base = a.Args[0]
					}
					if base.Op != "alloc" || !st.LocalStore || copies[base.Key()] || isParamSpill(base) {
						continue
					}
					pt, isP := base.Typ.(*types.Pointer)
					if !isP {
						continue
					}
					if nt, isN := pt.Elem().(*types.Named); !isN || nt.Obj().Name() != "AstSeq" {
						continue
					}
					fl := fresh[base.Key()]
					if fl == nil {
						fl = &flags{root: "false", deferred: "false"}
						fresh[base.Key()] = fl
					}
					if a.Op == "faddr" && st.A[1].IsConst() {
						switch a.Aux {
						case "Root":
							fl.root = st.A[1].Aux
						case "Deferred":
							fl.deferred = st.A[1].Aux
						}
					}
					// the child list of a fresh sequence starts empty: nil, make(.., 0), or an empty literal
					if a.Op == "faddr" && a.Aux == "Seq" && !fl.seqInit {
						fl.seqInit = true // the first store is the initialisation; later ones are the appends
						v := st.A[1]
						if v.Op == "slice" && len(v.Args) == 4 && v.Args[0].Op == "alloc" {
							// make([]T, 0) with constant bounds: a fresh array resliced to length 0
							if hi, isK := v.Args[2].IntConst(); isK && hi == 0 {
								continue
							}
						}
						empty := v.IsNil() || v.Op == "const" && strings.HasPrefix(v.Aux, "zero")
						if v.Op == "mkslice" && len(v.Args) > 0 {
							if k, isK := v.Args[0].IntConst(); isK && k == 0 {
								empty = true
							}
						}
						if k, _, isArr := freshArrayLen(v); isArr && k == 0 {
							empty = true
						}
						if !empty {
							fl.nonEmpty = short(v)
						}
					}
				}
				nFresh := len(fresh)
				for _, fl := range fresh {
					wantRoot := "false"
					if e.freshRoot {
						wantRoot = "true"
					}
					if fl.root != wantRoot || fl.deferred != "true" {
						ok, why = false, fmt.Sprintf("a fresh sequence is created with Root=%s Deferred=%s, expected Root=%s Deferred=true (open)", fl.root, fl.deferred, wantRoot)
					}
					if fl.nonEmpty != "" {
						ok, why = false, "a fresh sequence does not start with an empty child list: "+fl.nonEmpty
					}
				}
				wantFresh := 0
				if e.freshRoot || e.name == "LiftF" || e.name == "WrapF" {
					wantFresh = 1
				}
				if ok && nFresh != wantFresh {
					ok, why = false, fmt.Sprintf("%d fresh sequences created, expected %d", nFresh, wantFresh)
				}
			}
		}
		// the result wraps the same code
		if ok {
			p := pathsReturning(c, fn)
			for _, r := range p {
				lit := r
				good := false
				if lit.Op == "lit" && len(lit.Args) == 1 {
					v := lit.Args[0].Args[0]
					if e.freshRoot {
						good = v.Op == "alloc"
					} else {
						good = v.Op == "field" && v.Aux == fCode && paramOf(v.Args[0], fn, len(fn.Params)-1)
					}
				}
				// the morphism itself retyped by a conversion (only the phantom type parameter differs): same code
				if !e.freshRoot && paramOf(r, fn, len(fn.Params)-1) {
					good = true
				}
				if !good {
					ok, why = false, "the result does not wrap the same code: "+short(r)
				}
			}
		}
		c.Check(ok, "combinator-op", cname, fn.Pos(), fmt.Sprintf("append %v unit=%v", e.nodes, e.unit), "%s", why)
	}
}

func pathsReturning(c *core.Ctx, fn *ssa.Function) []*ir.Term {
	an := c.Analyze(fn)
	var out []*ir.Term
	for _, p := range an.AllPaths() {
		if p.Exit == ir.ExitReturn && len(p.Results) == 1 {
			out = append(out, p.Results[0])
		}
	}
	return out
}

// lastChildAssert: the term `f.Seq[len(f.Seq)-1].(*AstSeq)` of the receiver.
func isLastChildAssert(t *ir.Term, fn *ssa.Function) bool {
	if t.Op != "extract" || t.Aux != "0" || t.Args[0].Op != "tassert" {
		return false
	}
	x := t.Args[0].Args[0]
	if !(x.Op == "load" && x.Args[0].Op == "iaddr") {
		return false
	}
	base, idx := x.Args[0].Args[0], x.Args[0].Args[1]
	if !isRecvField(base, fn, "Seq") {
		return false
	}
	return idx.Op == "bin" && idx.Aux == "-" && idx.Args[0].Op == "len" && ir.Same(idx.Args[0].Args[0], base) && idx.Args[1].Aux == "1"
}

// emptyKnown: the path has established that the receiver's child list is empty - some branch atom that mentions
// len(f.Seq) evaluates, for length 0, to the polarity the path took, and for length 1 to the opposite one.
func emptyKnown(p *ir.Path, fn *ssa.Function) bool {
	recv := &ir.Term{Op: "param", Aux: fn.Params[0].Name()}
	l := &ir.Term{Op: "len", Args: []*ir.Term{{Op: "load", Aux: "0", Args: []*ir.Term{{Op: "faddr", Aux: "Seq", Args: []*ir.Term{recv}}}}}}
	for _, s := range p.Events(ir.KBranch) {
		if !mentions(s.Atom, l) {
			continue
		}
		at0 := ir.Rebuild(substTerm(s.Atom, l, ir.Const("0")))
		at1 := ir.Rebuild(substTerm(s.Atom, l, ir.Const("1")))
		isB := func(t *ir.Term) (bool, bool) {
			if t.IsConst() && (t.Aux == "true" || t.Aux == "false") {
				return t.Aux == "true", true
			}
			return false, false
		}
		v0, ok0 := isB(at0)
		v1, ok1 := isB(at1)
		if ok0 && ok1 && v0 == s.Pol && v1 != s.Pol {
			return true
		}
	}
	return false
}

// lastChildWithoutGuard: the path reads f.Seq[len(f.Seq)-1] (the last child) although it has not excluded the empty
// child list - with no children the index is -1 and the process panics. Returns the offending step.
func lastChildWithoutGuard(p *ir.Path, fn *ssa.Function) *ir.Step {
	recv := &ir.Term{Op: "param", Aux: fn.Params[0].Name()}
	seq := &ir.Term{Op: "load", Aux: "0", Args: []*ir.Term{{Op: "faddr", Aux: "Seq", Args: []*ir.Term{recv}}}}
	l := &ir.Term{Op: "len", Args: []*ir.Term{seq}}
	excluded := false
	for i := range p.Steps {
		st := &p.Steps[i]
		if st.Kind == ir.KBranch && mentions(st.Atom, l) {
			at0 := ir.Rebuild(substTerm(st.Atom, l, ir.Const("0")))
			if at0.IsConst() && (at0.Aux == "true" || at0.Aux == "false") && (at0.Aux == "true") != st.Pol {
				excluded = true
			}
		}
		if excluded {
			continue
		}
		reads := false
		visit := func(t *ir.Term) {
			if t == nil {
				return
			}
			t.Walk(func(x *ir.Term) {
				if x.Op == "iaddr" && len(x.Args) == 2 && ir.Same(x.Args[0], seq) {
					if k, ok := linOffset(x.Args[1], l); ok && k < 0 {
						reads = true
					}
				}
			})
		}
		for _, a := range st.A {
			visit(a)
		}
		visit(st.R)
		visit(st.Atom)
		if reads {
			return st
		}
	}
	return nil
}

func deferredAtom(fn *ssa.Function) *ir.Term {
	return &ir.Term{Op: "load", Aux: "0", Args: []*ir.Term{{Op: "faddr", Aux: "Deferred", Args: []*ir.Term{{Op: "param", Aux: fn.Params[0].Name()}}}}}
}

// recursiveCore resolves the recursive walker behind fn: fn itself when it calls itself; otherwise, when fn is one
// forwarding call `return recv.g(args...)` to a self-recursive method g on the same receiver, g analysed with its
// parameters bound to the actual arguments (terms over fn's parameters - a collaborator object built by fn is then
// followed into its methods). extra = the arguments after the receiver, which every delegation must pass on.
func recursiveCore(c *core.Ctx, fn *ssa.Function) (*ssa.Function, *ir.Analysis, []*ir.Term) {
	if selfRecursive(fn) {
		var extra []*ir.Term
		for _, p := range fn.Params[1:] {
			extra = append(extra, &ir.Term{Op: "param", Aux: p.Name(), Typ: p.Type(), Src: p})
		}
		return fn, c.Analyze(fn), extra
	}
	an := c.AnalyzeKeeping(fn, "recursive-core", selfRecursive)
	ps := an.AllPaths()
	if len(an.Problems) > 0 || len(ps) != 1 || ps[0].Exit != ir.ExitReturn || len(ps[0].Results) != 1 {
		return nil, nil, nil
	}
	cs := calls(ps[0])
	if len(cs) != 1 || cs[0].Static == nil || !selfRecursive(cs[0].Static) || len(cs[0].A) == 0 || !paramOf(cs[0].A[0], fn, 0) ||
		!ir.Same(ps[0].Results[0], cs[0].R) || len(nonLocalStores(ps[0])) != 0 {
		return nil, nil, nil
	}
	g := cs[0].Static
	gan := c.AnalyzeFrom(g, ir.NewRootState(g, cs[0].A, nil, ps[0].End), "core-of:"+ir.FuncName(fn))
	return g, gan, cs[0].A[1:]
}

func appendDiscipline(c *core.Ctx) {
	fn, _ := seqMethods(c)
	name := "duct.AstSeq.append"
	if fn == nil {
		c.Undecided("append-discipline", name, 0, "anchor not found")
		return
	}
	coreFn, an, extra := recursiveCore(c, fn)
	if coreFn == nil {
		if handled, why := lookupDiscipline(c, fn, "append"); handled {
			c.Check(why == "", "append-discipline", name, fn.Pos(), "lookup of the innermost open context (closed => nil; open last child first), then exactly one append there", "%s", why)
			return
		}
		why := iterativeDiscipline(c, fn, "append")
		c.Check(why == "", "append-discipline", name, fn.Pos(), "closed => false; descend while the last child is an open nested sequence; exactly one append there", "%s", why)
		return
	}
	if problems(c, "append-discipline", name, an) {
		return
	}
	sameExtra := func(st *ir.Step) bool {
		if len(st.A) != len(extra)+1 {
			return false
		}
		for i, e := range extra {
			if !ir.Same(st.A[i+1], e) {
				return false
			}
		}
		return true
	}
	ok := true
	sawRefuse, sawLocal, sawDelegate := false, false, false
	for _, p := range an.AllPaths() {
		rv, isRet := retBool(p)
		if !isRet {
			ok = false
			c.Fail("append-discipline", name, lastPos(p), "a path does not return a constant")
			continue
		}
		open := polarity(p, deferredAtom(fn))
		stores := nonLocalStores(p)
		var rec []*ir.Step
		for _, st := range p.Events(ir.KCall) {
			if st.Static == coreFn {
				rec = append(rec, st)
			}
		}
		// local append: f.Seq = append(f.Seq, n)
		nLocal := 0
		for _, st := range stores {
			good := st.Kind == ir.KStore && st.A[0].Op == "faddr" && st.A[0].Aux == "Seq" && paramOf(st.A[0].Args[0], fn, 0) && st.A[1].Op == "append" && isRecvField(st.A[1].Args[0], fn, "Seq")
			if good {
				// the appended element is the argument
				arr := st.A[1].Args[1]
				good = arr.Op == "slice" && arr.Args[0].Op == "alloc"
				found := false
				for _, s2 := range p.Events(ir.KStore) {
					if s2.A[0].Op == "iaddr" && good && ir.Same(s2.A[0].Args[0], arr.Args[0]) && paramOf(s2.A[1], fn, 1) {
						found = true
					}
				}
				good = good && found
			}
			if !good {
				ok = false
				c.Fail("append-discipline", name, st.Pos(), "append mutates %s: the only allowed mutation is f.Seq = append(f.Seq, n) on the receiver itself (a child is filled through its own append)", short(st.A[0]))
			} else {
				nLocal++
			}
		}
		switch {
		case open == 0:
			ok = false
			c.Fail("append-discipline", name, lastPos(p), "a path does not test whether the sequence is still open")
		case open < 0:
			sawRefuse = true
			if rv || len(stores) != 0 || len(rec) != 0 {
				ok = false
				c.Fail("append-discipline", name, lastPos(p), "a closed sequence must refuse (false) without mutation")
			}
		default:
			if !rv {
				ok = false
				c.Fail("append-discipline", name, lastPos(p), "an open sequence refuses the node")
				continue
			}
			if len(rec) > 1 {
				ok = false
				c.Fail("append-discipline", name, lastPos(p), "more than one delegation")
				continue
			}
			delegated := false
			if len(rec) == 1 {
				if !isLastChildAssert(rec[0].A[0], fn) || !sameExtra(rec[0]) {
					ok = false
					c.Fail("append-discipline", name, rec[0].Pos(), "the delegation must go to the last child, asserted to be a nested sequence, with the same node; found %s", short(rec[0].A[0]))
				}
				delegated = polarity(p, rec[0].R) > 0
				if polarity(p, rec[0].R) == 0 {
					ok = false
					c.Fail("append-discipline", name, rec[0].Pos(), "the child's answer is ignored")
				}
			}
			// when the last child is a nested sequence the delegation must have been tried
			lastIsSeq := 0
			for _, s := range p.Events(ir.KBranch) {
				if s.Atom.Op == "extract" && s.Atom.Aux == "1" && s.Atom.Args[0].Op == "tassert" {
					lastIsSeq = polInt(s.Pol)
				}
			}
			if lastIsSeq > 0 && len(rec) == 0 {
				ok = false
				c.Fail("append-discipline", name, lastPos(p), "the last child is a nested sequence but it is not offered the node first (the node would land one level too shallow)")
			}
			if st := lastChildWithoutGuard(p, fn); st != nil {
				ok = false
				c.Fail("append-discipline", name, st.Pos(), "the last child is read although the child list may be empty (index -1): appending to a fresh context panics")
			}
			if lastIsSeq == 0 && len(rec) == 0 && !emptyKnown(p, fn) {
				ok = false
				c.Fail("append-discipline", name, lastPos(p), "the node is appended at this level without having looked at the last child (neither found the child list empty nor found the last child not to be a nested sequence): with an open nested context it lands one level too shallow")
			}
			if delegated {
				sawDelegate = true
				if nLocal != 0 {
					ok = false
					c.Fail("append-discipline", name, lastPos(p), "the node is appended twice (by the child and locally)")
				}
			} else {
				sawLocal = true
				if nLocal != 1 {
					ok = false
					c.Fail("append-discipline", name, lastPos(p), "an accepting path performs %d local appends (want exactly 1)", nLocal)
				}
			}
		}
	}
	c.Check(ok && sawRefuse && sawLocal && sawDelegate, "append-discipline", name, fn.Pos(), "closed => false; open last child first; else exactly one local append", "not all cases of the discipline are present (refuse=%v local=%v delegate=%v)", sawRefuse, sawLocal, sawDelegate)
}

func unitDiscipline(c *core.Ctx) {
	_, fn := seqMethods(c)
	name := "duct.AstSeq.unit"
	if fn == nil {
		c.Undecided("unit-discipline", name, 0, "anchor not found")
		return
	}
	coreFn, an, extra := recursiveCore(c, fn)
	if coreFn == nil {
		if handled, why := lookupDiscipline(c, fn, "unit"); handled {
			c.Check(why == "", "unit-discipline", name, fn.Pos(), "lookup of the innermost open context (closed => nil; open last child first), closed unless it is the root", "%s", why)
			return
		}
		why := iterativeDiscipline(c, fn, "unit")
		c.Check(why == "", "unit-discipline", name, fn.Pos(), "closed => false; descend while the last child is an open nested sequence; close it unless it is the root", "%s", why)
		return
	}
	if problems(c, "unit-discipline", name, an) {
		return
	}
	sameExtra := func(st *ir.Step) bool {
		if len(st.A) != len(extra)+1 {
			return false
		}
		for i, e := range extra {
			if !ir.Same(st.A[i+1], e) {
				return false
			}
		}
		return true
	}
	ok := true
	sawRefuse, sawClose, sawRootKeep, sawDelegate := false, false, false, false
	rootAtom := &ir.Term{Op: "load", Aux: "0", Args: []*ir.Term{{Op: "faddr", Aux: "Root", Args: []*ir.Term{{Op: "param", Aux: fn.Params[0].Name()}}}}}
	for _, p := range an.AllPaths() {
		rv, isRet := retBool(p)
		if !isRet {
			ok = false
			continue
		}
		open := polarity(p, deferredAtom(fn))
		stores := nonLocalStores(p)
		var rec []*ir.Step
		for _, st := range p.Events(ir.KCall) {
			if st.Static == coreFn {
				rec = append(rec, st)
			}
		}
		closes := 0
		for _, st := range stores {
			if st.Kind == ir.KStore && st.A[0].Op == "faddr" && st.A[0].Aux == "Deferred" && paramOf(st.A[0].Args[0], fn, 0) && st.A[1].IsConst() && st.A[1].Aux == "false" {
				closes++
			} else {
				ok = false
				c.Fail("unit-discipline", name, st.Pos(), "unit mutates %s: the only allowed mutation is closing the receiver (Deferred = false)", short(st.A[0]))
			}
		}
		switch {
		case open == 0:
			ok = false
			c.Fail("unit-discipline", name, lastPos(p), "a path does not test whether the sequence is still open")
		case open < 0:
			sawRefuse = true
			if rv || len(stores) != 0 || len(rec) != 0 {
				ok = false
				c.Fail("unit-discipline", name, lastPos(p), "a closed sequence must refuse (false) without mutation")
			}
		default:
			if !rv {
				ok = false
				c.Fail("unit-discipline", name, lastPos(p), "an open sequence answers false: the innermost open context would not be closed (an enclosing one is closed instead, or none)")
				continue
			}
			delegated := false
			if len(rec) == 1 {
				if !isLastChildAssert(rec[0].A[0], fn) || !sameExtra(rec[0]) {
					ok = false
					c.Fail("unit-discipline", name, rec[0].Pos(), "the delegation must go to the last child asserted to be a nested sequence")
				}
				delegated = polarity(p, rec[0].R) > 0
			} else if len(rec) > 1 {
				ok = false
			}
			lastIsSeq := 0
			for _, s := range p.Events(ir.KBranch) {
				if s.Atom.Op == "extract" && s.Atom.Aux == "1" && s.Atom.Args[0].Op == "tassert" {
					lastIsSeq = polInt(s.Pol)
				}
			}
			if lastIsSeq > 0 && len(rec) == 0 {
				ok = false
				c.Fail("unit-discipline", name, lastPos(p), "the last child is a nested sequence but it is not asked to close first")
			}
			if st := lastChildWithoutGuard(p, fn); st != nil {
				ok = false
				c.Fail("unit-discipline", name, st.Pos(), "the last child is read although the child list may be empty (index -1): closing a fresh context panics")
			}
			if lastIsSeq == 0 && len(rec) == 0 && !emptyKnown(p, fn) {
				ok = false
				c.Fail("unit-discipline", name, lastPos(p), "this level is closed without having looked at the last child (neither found the child list empty nor found the last child not to be a nested sequence): an open inner context stays open and the enclosing one is closed instead")
			}
			if delegated {
				sawDelegate = true
				if closes != 0 {
					ok = false
					c.Fail("unit-discipline", name, lastPos(p), "a context is closed although an inner one was just closed (two levels close at once)")
				}
				continue
			}
			root := polarity(p, rootAtom)
			switch {
			case root == 0:
				ok = false
				c.Fail("unit-discipline", name, lastPos(p), "the sequence closes (or not) without testing whether it is the root")
			case root > 0:
				sawRootKeep = true
				if closes != 0 {
					ok = false
					c.Fail("unit-discipline", name, lastPos(p), "the root morphism is closed")
				}
			default:
				sawClose = true
				if closes != 1 {
					ok = false
					c.Fail("unit-discipline", name, lastPos(p), "an open non-root context with no open child must close itself exactly once (found %d)", closes)
				}
			}
		}
	}
	c.Check(ok && sawRefuse && sawClose && sawRootKeep && sawDelegate, "unit-discipline", name, fn.Pos(), "closed => false; open last child first; else close self unless root", "not all cases of the discipline are present (refuse=%v close=%v root=%v delegate=%v)", sawRefuse, sawClose, sawRootKeep, sawDelegate)
}

func selfRecursive(fn *ssa.Function) bool {
	for _, b := range fn.Blocks {
		for _, in := range b.Instrs {
			if call, ok := in.(ssa.CallInstruction); ok {
				if sc := call.Common().StaticCallee(); sc != nil && (sc == fn || sc.Origin() == fn) {
					return true
				}
			}
		}
	}
	return false
}

// iterativeDiscipline recognises the loop form of the append / unit disciplines: a cursor starts at the receiver
// and steps into the last child while that child is a nested sequence that is still open; the effect (one append,
// or closing unless root) is then applied to the cursor. Returns "" when the method has exactly this shape.
func iterativeDiscipline(c *core.Ctx, fn *ssa.Function, effect string) string {
	an := c.AnalyzeLoops(fn)
	if len(an.Problems) > 0 {
		return "could not be modelled: " + strings.Join(an.Problems, "; ")
	}
	if len(an.Headers) != 1 {
		return fmt.Sprintf("neither the recursive form nor a single descent loop (%d loops)", len(an.Headers))
	}
	h := an.Headers[0]
	var cursor *ssa.Phi
	for _, in := range h.Instrs {
		if phi, ok := in.(*ssa.Phi); ok {
			if _, isP := phi.Type().(*types.Pointer); isP {
				cursor = phi
			}
		}
	}
	if cursor == nil {
		return "no cursor in the descent loop"
	}
	at := an.Start[h].Reg(cursor)
	fld := func(base *ir.Term, f string) *ir.Term {
		return &ir.Term{Op: "load", Aux: "0", Args: []*ir.Term{{Op: "faddr", Aux: f, Args: []*ir.Term{base}}}}
	}
	// entry: closed => false without mutation; otherwise the cursor starts at the receiver
	sawRefuse := false
	for _, p := range an.Segs[nil] {
		open := polarity(p, fld(&ir.Term{Op: "param", Aux: fn.Params[0].Name()}, "Deferred"))
		switch {
		case open == 0:
			return "the method does not first test whether the receiver is still open"
		case open < 0:
			sawRefuse = true
			rv, isRet := retBool(p)
			if !isRet || rv || len(nonLocalStores(p)) != 0 {
				return "a closed sequence must refuse (false) without mutation"
			}
		default:
			if p.To != h || !paramOf(p.PhiOut[cursor], fn, 0) || len(nonLocalStores(p)) != 0 {
				return "the descent does not start at the receiver"
			}
		}
	}
	if !sawRefuse {
		return "no refusing path for a closed sequence"
	}
	seqOf := fld(at, "Seq")
	last := &ir.Term{Op: "load", Aux: "0", Args: []*ir.Term{{Op: "iaddr", Args: []*ir.Term{seqOf, {Op: "bin", Aux: "-", Args: []*ir.Term{{Op: "len", Args: []*ir.Term{seqOf}}, ir.Const("1")}}}}}}
	childOf := func(p *ir.Path) (*ir.Term, int, int, int) {
		// polarity of: non-empty, last child is a nested sequence, that child is open
		nonEmpty := 0
		for _, st := range p.Events(ir.KBranch) {
			a := st.Atom
			if a.Op == "bin" && a.Aux == "<" && a.Args[1].Op == "len" && ir.Same(a.Args[1].Args[0], seqOf) {
				if z, isZ := a.Args[0].IntConst(); isZ && z == 0 {
					nonEmpty = polInt(st.Pol)
				}
			}
			if a.Op == "bin" && a.Aux == "==" {
				for i := 0; i < 2; i++ {
					if z, isZ := a.Args[i].IntConst(); isZ && z == 0 && a.Args[1-i].Op == "len" && ir.Same(a.Args[1-i].Args[0], seqOf) {
						nonEmpty = -polInt(st.Pol)
					}
				}
			}
		}
		var child *ir.Term
		isSeq, isOpen := 0, 0
		for _, st := range p.Events(ir.KBranch) {
			a := st.Atom
			if a.Op == "extract" && a.Aux == "1" && a.Args[0].Op == "tassert" && ir.Same(a.Args[0].Args[0], last) {
				isSeq = polInt(st.Pol)
				child = &ir.Term{Op: "extract", Aux: "0", Args: []*ir.Term{a.Args[0]}}
			}
		}
		if child != nil {
			isOpen = polarity(p, fld(child, "Deferred"))
		}
		return child, nonEmpty, isSeq, isOpen
	}
	sawStep, sawStop := false, false
	for _, p := range an.Segs[h] {
		child, nonEmpty, isSeq, isOpen := childOf(p)
		if p.To == h {
			// one step down: all three conditions hold, cursor := child, nothing else happens
			if !(nonEmpty > 0 && isSeq > 0 && isOpen > 0 && child != nil && ir.Same(p.PhiOut[cursor], child) && len(nonLocalStores(p)) == 0 && len(calls(p)) == 0) {
				return "a descent step must move the cursor to the last child exactly when that child is a nested sequence that is still open"
			}
			sawStep = true
			continue
		}
		// the descent stops here: at least one condition fails
		if nonEmpty > 0 && isSeq > 0 && isOpen > 0 {
			return "the descent stops although the last child is an open nested sequence (the node would land one level too shallow / the wrong context is closed)"
		}
		if nonEmpty == 0 || (nonEmpty > 0 && isSeq == 0) || (isSeq > 0 && isOpen == 0) {
			return "the descent stops without having decided emptiness / kind / openness of the last child"
		}
		sawStop = true
		rv, isRet := retBool(p)
		if !isRet || !rv {
			return "an open sequence must accept (true)"
		}
		stores := nonLocalStores(p)
		switch effect {
		case "append":
			good := len(stores) == 1 && stores[0].Kind == ir.KStore && stores[0].A[0].Op == "faddr" && stores[0].A[0].Aux == "Seq" && ir.Same(stores[0].A[0].Args[0], at) &&
				stores[0].A[1].Op == "append" && ir.Same(stores[0].A[1].Args[0], seqOf)
			if good {
				arr := stores[0].A[1].Args[1]
				good = false
				for _, s2 := range p.Events(ir.KStore) {
					if s2.A[0].Op == "iaddr" && arr.Op == "slice" && ir.Same(s2.A[0].Args[0], arr.Args[0]) && paramOf(s2.A[1], fn, 1) {
						good = true
					}
				}
			}
			if !good {
				return fmt.Sprintf("at the innermost open sequence exactly one append of the given node must happen (found %d stores)", len(stores))
			}
		case "unit":
			root := polarity(p, fld(at, "Root"))
			closes := 0
			for _, st := range stores {
				if st.Kind == ir.KStore && st.A[0].Op == "faddr" && st.A[0].Aux == "Deferred" && ir.Same(st.A[0].Args[0], at) && st.A[1].IsConst() && st.A[1].Aux == "false" {
					closes++
				} else {
					return "unit mutates something other than the innermost open sequence's Deferred flag"
				}
			}
			switch {
			case root == 0:
				return "the innermost open sequence is closed (or not) without testing whether it is the root"
			case root > 0 && closes != 0:
				return "the root morphism is closed"
			case root < 0 && closes != 1:
				return "the innermost open non-root sequence must be closed exactly once"
			}
		}
	}
	if !sawStep || !sawStop {
		return "the descent loop never steps or never stops"
	}
	return ""
}

// insideSeqMethod: step i of p is executed (at any depth) inside a frame of append / unit.
func insideSeqMethod(p *ir.Path, i int, fns ...*ssa.Function) bool {
	d := p.Steps[i].Depth
	for j := i - 1; j >= 0 && d > 0; j-- {
		st := &p.Steps[j]
		if st.Kind == ir.KEnter && st.Depth < d {
			for _, f := range fns {
				if st.Static == f {
					return true
				}
			}
			d = st.Depth
		}
	}
	return false
}


// isParamSpill: the alloc term is the frame slot a parameter (a value receiver) of its function is spilled into.
func isParamSpill(t *ir.Term) bool {
	al, ok := t.Src.(*ssa.Alloc)
	if !ok || al.Referrers() == nil {
		return false
	}
	for _, r := range *al.Referrers() {
		if st, isSt := r.(*ssa.Store); isSt && st.Addr == ssa.Value(al) {
			if _, isP := st.Val.(*ssa.Parameter); isP {
				return true
			}
		}
	}
	return false
}
