package rules

import (
	"fmt"
	"go/types"
	"strings"

	"golang.org/x/tools/go/ssa"

	"verif/checker/internal/core"
	"verif/checker/internal/ir"
)

func init() {
	register(&Pack{ID: "C11", Run: runC11, Meta: core.Meta{
		Level:       "other",
		Explanation: "Unfold: on every path of the stage goroutine from the loop head the value offered on the output is the current seed, the send precedes the single application of the step function, the argument of that application is the value just sent, and on success its first result becomes the next seed (so the delivered sequence is seed, f(seed), f(f(seed)), ... without gap, repeat or reordering; the seed itself is delivered first because the entry path reaches the loop with the seed parameter unchanged). Emit: the index starts at constant 0 and is incremented by exactly 1 on every path back to the loop head (also after a Try-mode failure), the value sent is the first result of Apply(i) of the same iteration, and every path from one application to the next passes exactly once through time.Sleep(frequency) with the stage's own parameter (structural half of 'at most one call per tick'). Cancel/close: the C06 closing rules on both stages. The wall-clock statements (k-th value never before k ticks, one value per tick for a consumer that keeps up) follow on paper from the pacing shape; they are not measured. The closed-world catch implementations give up on cancellation (shared with C06), so a Try function that keeps failing cannot hold Emit/Unfold after cancel.",
		RuleText:    "one obligation per (stage, rule)",
		Assumptions: []string{"time.Sleep(d) returns no earlier than d"},
		TrustedBase: []string{"go/ssa", "path engine P"},
	}})
	register(&Pack{ID: "C12", Run: runC12, Meta: core.Meta{
		Level:       "other",
		Explanation: "Join: the go statement inside the range over the inputs passes the range element of the same iteration, wg.Add's argument is len of the same slice and precedes the loop; each copier ranges over its own input and performs per received element exactly one cancellable send of that element on the shared output and nothing else (sequential per input => per-input order; each element once); the output has exactly one closer, which closes only after wg.Wait, every copier calls wg.Done exactly once on every exit after its last send; zero inputs leave the closer alone (Wait returns at once). Arrival orders are not decided - the merge is an interleaving by construction.",
		RuleText:    "one obligation per rule on pipe.Join",
		TrustedBase: []string{"go/ssa", "path engine P", "counted-loop recognition D-iv"},
	}})
	register(&Pack{ID: "C13", Run: runC13, Meta: core.Meta{
		Level:       "other",
		Explanation: "Throttling - structure of the token scheme only: the control channel is made with capacity = parameter ops; the pacer's inner counted loop has trip count exactly ops and each iteration performs one cancellable send of a token; every cycle of the pacer's outer loop passes exactly once through a receive from time.After(interval) with the stage's own parameter; the data goroutine takes exactly one token, then performs exactly one cancellable send of the received element, per element, in that order (content, order, exactly-once); the output closes when the input closes (C06 closing rules; the pacer may live until cancel). THE RATE BOUND ITSELF AND EVERY TIMING STATEMENT OF THE PROPERTY ARE NOT DECIDED: they quantify over a clock; static analysis decides only that the token scheme has the stated shape, from which <= ops buffered + ops refilled + 1 in hand + c in the output buffer per window follows on paper.",
		RuleText:    "one obligation per rule on pipe.Throttling",
		Assumptions: []string{"time.After(d) fires no earlier than d"},
		TrustedBase: []string{"go/ssa", "path engine P", "counted-loop recognition D-iv"},
	}})
}

func stageOf(c *core.Ctx, rule, pkg, name string) *Stage {
	fn := c.W.Func(pkg, name)
	cname := pkgShort(pkg) + "." + name
	if fn == nil {
		c.Undecided(rule, cname, 0, "anchor not found")
		return nil
	}
	s := buildStage(c, pkg, fn)
	if len(s.Problems) > 0 {
		c.Undecided(rule, cname, fn.Pos(), "engine could not model the stage: %s", strings.Join(s.Problems, "; "))
		return nil
	}
	return s
}

func paramNamedType(fn *ssa.Function, typ string) []*ssa.Parameter {
	var out []*ssa.Parameter
	for _, p := range fn.Params {
		if p.Type().String() == typ {
			out = append(out, p)
		}
	}
	return out
}

func isParamTerm(t *ir.Term, p *ssa.Parameter) bool {
	return t != nil && t.Op == "param" && t.Src == ssa.Value(p)
}

// ---------------------------------------------------------------------------

func runC11(c *core.Ctx) {
	c.Doc("unfold-step", 1, "send(out, seed) precedes the single Apply(seed); the result becomes the next seed")
	c.Doc("emit-index", 1, "index from 0, +1 on every path back to the loop head; value sent is Apply(i)'s first result")
	c.Doc("emit-paced", 1, "every iteration passes exactly once through time.Sleep(frequency) before Apply")
	c.Doc("error-branch", 2, "the error hand-off is entered exactly when the step function reported an error (shared with C07)")
	if s := stageOf(c, "unfold-step", "pipe", "Unfold"); s != nil {
		unfoldStep(c, s)
		stageLifecycleRules(c, s, lifecycleOpts{})
		errorBranchRule(c, s, 1)
	}
	if s := stageOf(c, "emit-index", "pipe", "Emit"); s != nil {
		emitRules(c, s)
		stageLifecycleRules(c, s, lifecycleOpts{})
		errorBranchRule(c, s, 1)
	}
	// "both stop and close their channels after cancel" goes through the error hand-off too: a Try function that keeps
	// failing keeps the stage in catch; the closed-world catch implementations must give up on cancellation
	catchImplBlocking(c, "pipe")
	// "skipping indices that fail under Try": Try / TryF build the kind that continues, Lift / Pure / LiftF the kind
	// that stops
	ctorKinds(c, "pipe")
}

func unfoldStep(c *core.Ctx, s *Stage) {
	name := s.Name
	if len(s.Gos) != 1 || s.Gos[0].InLoop || len(s.Gos[0].An.Headers) != 1 {
		c.Fail("unfold-step", name, s.Fn.Pos(), "expected one goroutine with one loop")
		return
	}
	g := s.Gos[0]
	h := g.An.Headers[0]
	out := outChan(s, 0)
	// the seed: the loop-carried value (register or cell) that enters the loop with the value of the seed parameter
	seedParam := &ir.Term{Op: "param", Aux: s.Fn.Params[2].Name()}
	q, qname, found := loopQuantity(g.An, h, seedParam)
	if !found {
		c.Undecided("unfold-step", name, s.Fn.Pos(), "no single loop-carried seed initialised from parameter %s found (%s)", s.Fn.Params[2].Name(), qname)
		return
	}
	ok := true
	for _, p := range g.An.Segs[nil] {
		if p.To != h {
			continue
		}
		for _, st := range p.Events(ir.KCall) {
			// obtaining the cancellation signal ahead of the loop (done := ctx.Done()) applies nothing
			if isApplyRole(st) || !(st.Method != nil && st.Method.Name() == "Done" && len(st.A) > 0 && isContextType(st.A[0].Typ)) {
				ok = false
				c.Fail("unfold-step", name, g.Fn.Pos(), "the step function is applied before the seed is delivered")
				break
			}
		}
	}
	for _, p := range g.An.Segs[h] {
		cur := q.StartSym(p)
		sendIdx, applyIdx := -1, -1
		nApply, nSend := 0, 0
		done := false
		for i := range p.Steps {
			st := &p.Steps[i]
			if st.Kind == ir.KSelect && st.Chosen >= 0 {
				if st.Chosen == doneArm(st) {
					done = true
				} else if st.Arms[st.Chosen].Send && ir.Same(st.Arms[st.Chosen].Chan, out) {
					nSend++
					sendIdx = i
					if !ir.Same(st.Arms[st.Chosen].Val, cur) {
						ok = false
						c.Fail("unfold-step", name, st.Pos(), "the value offered on the output is %s, expected the current seed %s", short(st.Arms[st.Chosen].Val), short(cur))
					}
				}
			}
			if st.Kind == ir.KSend && ir.Same(st.A[0], out) {
				nSend++
				sendIdx = i
			}
			if isApplyRole(st) {
				nApply++
				applyIdx = i
				if !ir.Same(st.A[1], cur) {
					ok = false
					c.Fail("unfold-step", name, st.Pos(), "the step function is applied to %s, expected the seed just delivered %s", short(st.A[1]), short(cur))
				}
			}
		}
		if done {
			if nApply != 0 {
				ok = false
				c.Fail("unfold-step", name, lastPos(p), "the step function is applied on a cancelled path")
			}
			continue
		}
		if nSend != 1 || nApply != 1 || sendIdx > applyIdx {
			ok = false
			c.Fail("unfold-step", name, lastPos(p), "each iteration must deliver the seed exactly once and then apply the step function exactly once (sends=%d, applications=%d, send-before-apply=%v):\n%s", nSend, nApply, sendIdx < applyIdx, p)
			continue
		}
		ap := &p.Steps[applyIdx]
		if en := polarity(p, errNilAtom(ap.R, 1)); en > 0 {
			next := q.ValueAt(p, len(p.Steps))
			want := &ir.Term{Op: "extract", Aux: "0", Args: []*ir.Term{ap.R}}
			if p.To != h || !ir.Same(next, want) {
				ok = false
				c.Fail("unfold-step", name, ap.Pos(), "after a successful step the next seed must be the step's result and the loop continue; next seed = %s", short(next))
			}
		}
	}
	if ok {
		c.Ok("unfold-step", name, g.Fn.Pos(), "send(out, seed); seed = Apply(seed)")
	}
}

func emitRules(c *core.Ctx, s *Stage) {
	name := s.Name
	if len(s.Gos) != 1 || s.Gos[0].InLoop || len(s.Gos[0].An.Headers) != 1 {
		c.Fail("emit-index", name, s.Fn.Pos(), "expected one goroutine with one loop")
		return
	}
	g := s.Gos[0]
	h := g.An.Headers[0]
	out := outChan(s, 0)
	freq := paramNamedType(s.Fn, "time.Duration")
	if len(freq) != 1 {
		c.Undecided("emit-paced", name, s.Fn.Pos(), "frequency parameter not found")
		return
	}
	// "for every buffer capacity": the value channel is made with the capacity the caller asked for (the int
	// parameter), not with another quantity that happens to be an integer
	if capT := chanCap(out); capT == nil || !(capT.Op == "param" && capT.Typ != nil && capT.Typ.String() == "int") {
		c.Fail("emit-index", name, s.Fn.Pos(), "the value channel is made with capacity %s, expected the capacity parameter", short(capT))
		return
	}
	// the index: the integer loop-carried value passed to Apply - a register of the loop head, or a cell (a captured
	// variable, a field of the generator's state object)
	var q Quantity
	haveQ := false
	for _, in := range h.Instrs {
		if phi, ok := in.(*ssa.Phi); ok && phi.Type().String() == "int" {
			q, haveQ = PhiQuantity(g.An, h, phi, nil), true
		}
	}
	if !haveQ {
		for _, p := range g.An.Segs[h] {
			for i := range p.Steps {
				st := &p.Steps[i]
				if isApplyRole(st) && len(st.A) > 1 && st.A[1].Op == "load" && len(st.A[1].Args) == 1 && cellAddr(st.A[1].Args[0]) {
					q, haveQ = CellQuantity(g.An, st.A[1].Args[0]), true
				}
			}
		}
	}
	if !haveQ {
		c.Fail("emit-index", name, g.Fn.Pos(), "no integer loop-carried index")
		return
	}
	okI, okP := true, true
	for _, p := range g.An.Segs[nil] {
		v0 := q.ValueAt(p, len(p.Steps))
		if v, isK := v0.IntConst(); !isK || v != 0 {
			okI = false
			c.Fail("emit-index", name, g.Fn.Pos(), "the index starts at %s, expected 0", short(v0))
		}
	}
	for _, p := range g.An.Segs[h] {
		sym := q.StartSym(p)
		var ap *ir.Step
		nApply, nSleep := 0, 0
		sleepBefore := false
		for i := range p.Steps {
			st := &p.Steps[i]
			if isSleep(st) {
				nSleep++
				if !isParamTerm(st.A[0], freq[0]) {
					okP = false
					c.Fail("emit-paced", name, st.Pos(), "time.Sleep is called with %s, expected the stage's frequency parameter", short(st.A[0]))
				}
				if nApply == 0 {
					sleepBefore = true
				}
			}
			if isApplyRole(st) {
				nApply++
				ap = st
				if !ir.Same(st.A[1], q.ValueAt(p, i)) {
					okI = false
					c.Fail("emit-index", name, st.Pos(), "Apply is called with %s, expected the loop index", short(st.A[1]))
				}
			}
		}
		// leaving on an observed cancellation before the application is always allowed
		if nApply == 0 && p.To != h && factsOf(p).done {
			continue
		}
		// a pause that cannot last (frequency <= 0 established on the path) may be skipped: time.Sleep returns at
		// once for such a duration
		if nApply == 1 && nSleep == 0 {
			fq := &ir.Term{Op: "param", Aux: freq[0].Name(), Src: freq[0]}
			if polarity(p, &ir.Term{Op: "bin", Aux: "<", Args: []*ir.Term{ir.Const("0"), fq}}) < 0 || polarity(p, &ir.Term{Op: "bin", Aux: "<=", Args: []*ir.Term{fq, ir.Const("0")}}) > 0 {
				nSleep, sleepBefore = 1, true
			}
		}
		if nApply != 1 || nSleep != 1 || !sleepBefore {
			okP = false
			c.Fail("emit-paced", name, lastPos(p), "every iteration must sleep exactly once before its single application (sleeps=%d, applications=%d):\n%s", nSleep, nApply, p)
			continue
		}
		if p.To == h {
			next := q.ValueAt(p, len(p.Steps))
			if d, isK := plusConst(next, sym); !isK || d != 1 {
				okI = false
				c.Fail("emit-index", name, lastPos(p), "on a path back to the loop head the index becomes %s, expected index+1 (an index would be repeated or skipped)", short(next))
			}
		}
		if en := polarity(p, errNilAtom(ap.R, 1)); en > 0 {
			sends := allSends(p)
			done := factsOf(p).done
			if !done {
				if !(len(sends) == 1 && ir.Same(sends[0].ch, out) && ir.Same(sends[0].val, &ir.Term{Op: "extract", Aux: "0", Args: []*ir.Term{ap.R}}) && p.To == h) {
					okI = false
					c.Fail("emit-index", name, ap.Pos(), "a successful application must be followed by exactly one send of its result and the loop continue:\n%s", p)
				}
			}
		}
	}
	if okI {
		c.Ok("emit-index", name, g.Fn.Pos(), "i from 0, i+1 on every back edge, send(out, Apply(i))")
	}
	if okP {
		c.Ok("emit-paced", name, g.Fn.Pos(), "one time.Sleep(frequency) before each application")
	}
}

// ---------------------------------------------------------------------------

func runC12(c *core.Ctx) {
	c.Doc("copier-per-input", 1, "go copier(range element); wg.Add(len(inputs)) over the same slice")
	// the parallel package's Join is this Join: it forwards its arguments in order and adds nothing (shared with C09)
	c.Doc("delegation", 1, "fork.Join forwards to pipe.Join, arguments in order")
	if c.W.Func("pipe/fork", "Join") != nil {
		delegation(c, "Join")
	} else {
		c.Ok("delegation", "fork.Join", 0, "package fork has no Join: nothing wraps pipe.Join")
	}
	c.Doc("copier-iteration", 1, "copier: range its input; per element exactly one cancellable send of that element; nothing else")
	s := stageOf(c, "copier-per-input", "pipe", "Join")
	if s == nil {
		return
	}
	name := s.Name
	w, closers := poolWorker(s)
	if w == nil || len(closers) != 1 {
		c.Fail("copier-per-input", name, s.Fn.Pos(), "expected one copier closure spawned in the loop over the inputs and one closer goroutine")
		return
	}
	// spawn loop ranges over the variadic parameter
	l := countedLoop(s.Outer, innermostHeader(w.Spawn.Instr.Block()))
	in := s.Fn.Params[len(s.Fn.Params)-1]
	ok := l != nil && l.RangeOver != nil && isParamTerm(l.RangeOver, in)
	// the order in which the copiers are started does not matter: a loop that counts len(in)-1 .. 0 visits every input
	// once as well
	descending := false
	if !ok && l != nil && l.Descending && l.Trip != nil && l.Trip.Op == "len" && len(l.Trip.Args) == 1 && isParamTerm(l.Trip.Args[0], in) {
		ok, descending = true, true
	}
	isElem := func(x *ir.Term) bool {
		if !descending {
			return l.IsElem(s.Outer, x)
		}
		idx := s.Outer.Start[l.Header].Reg(l.Phi)
		return ir.Same(x, &ir.Term{Op: "load", Aux: "0", Args: []*ir.Term{{Op: "iaddr", Args: []*ir.Term{l.Trip.Args[0], idx}}}}) ||
			ir.Same(x, &ir.Term{Op: "index", Args: []*ir.Term{l.Trip.Args[0], idx}})
	}
	why := "the spawn loop is not a range over the inputs"
	if ok {
		// exactly one argument of the go statement is the input channel of this iteration
		a := w.Spawn.A
		nElem := 0
		for _, x := range a {
			if isElem(x) {
				nElem++
			} else if isChanType(x.Typ) && isInputChan(x) {
				nElem += 100 // another input channel (e.g. a fixed in[0]) handed to the copier
			}
		}
		ok = nElem == 1
		why = "the copier is not started with (exactly) the input channel of the same iteration"
	}
	if ok {
		// the WaitGroup is incremented once per copier (Add(len(in)) ahead of the loop, or Add(1) per iteration)
		var wg *ir.Term
		for _, p := range closers[0].An.AllPaths() {
			for i := range p.Steps {
				if isWgWait(&p.Steps[i]) {
					wg = p.Steps[i].A[0]
				}
			}
		}
		if wg == nil {
			ok, why = false, "the closer does not wait for the copiers"
		} else if _, w2 := addAccounts(s.Outer, wg, w, l.Trip); w2 != "" {
			ok, why = false, w2
		}
	}
	c.Check(ok, "copier-per-input", name, w.Spawn.Pos(), "for _, c := range in { go copy(c) }; wg.Add(len(in))", "%s", why)

	// copier iteration
	if len(w.An.Headers) != 1 {
		c.Fail("copier-iteration", name, w.Fn.Pos(), "copier has %d loops", len(w.An.Headers))
	} else {
		h := w.An.Headers[0]
		out := outChan(s, 0)
		elem, other := elementPaths(w, h)
		okI := len(elem) > 0
		for _, f := range elem {
			// the channel ranged over must be the copier's own argument
			if !(f.recv.A[0].Op == "load" || f.recv.A[0].Op == "index") && !isInputChan(f.recv.A[0]) {
				okI = false
			}
			sends := allSends(f.p)
			if f.done {
				if len(sends) != 0 {
					okI = false
					c.Fail("copier-iteration", name, f.recv.Pos(), "send on a cancelled path")
				}
				continue
			}
			if !(len(sends) == 1 && ir.Same(sends[0].ch, out) && ir.Same(sends[0].val, f.elem) && f.p.To == h && len(calls(f.p)) <= 1) {
				okI = false
				c.Fail("copier-iteration", name, f.recv.Pos(), "each received element must be forwarded exactly once, unchanged, and the copier continue:\n%s", f.p)
			}
		}
		for _, f := range other {
			if f.p.Exit == ir.ExitReturn && !f.closed {
				okI = false
				c.Fail("copier-iteration", name, lastPos(f.p), "the copier stops although its input is still open")
			}
			if len(allSends(f.p)) != 0 {
				okI = false
			}
		}
		// all receive sites read the same channel: the argument
		if okI {
			c.Ok("copier-iteration", name, w.Fn.Pos(), fmt.Sprintf("%d element paths: one cancellable send(out, x)", len(elem)))
		}
	}
	c.Doc("worker-local-state", 1, "the copier closure, started once per input, stores to no variable shared between copiers")
	workerLocalState(c, name, s, w)
	stageLifecycleRules(c, s, lifecycleOpts{})
}

// ---------------------------------------------------------------------------

func runC13(c *core.Ctx) {
	c.Doc("token-cap", 1, "control channel capacity = ops")
	c.Doc("tokens-per-cycle", 1, "pacer inner loop: trip count ops, one cancellable token send per iteration")
	c.Doc("one-wait-per-cycle", 1, "each pacer cycle waits exactly once on time.After(interval)")
	c.Doc("token-per-element", 1, "data goroutine: one token, then one cancellable send(out, a), per element")
	// the parallel package's Throttling is this Throttling: it forwards its arguments in order and adds nothing (shared with C09)
	c.Doc("delegation", 1, "fork.Throttling forwards to pipe.Throttling, arguments in order")
	if c.W.Func("pipe/fork", "Throttling") != nil {
		delegation(c, "Throttling")
	} else {
		c.Ok("delegation", "fork.Throttling", 0, "package fork has no Throttling: nothing wraps pipe.Throttling")
	}
	s := stageOf(c, "token-cap", "pipe", "Throttling")
	if s == nil {
		return
	}
	name := s.Name
	ints := paramNamedType(s.Fn, "int")
	durs := paramNamedType(s.Fn, "time.Duration")
	if len(ints) != 1 || len(durs) != 1 || len(s.Gos) != 2 {
		c.Fail("token-cap", name, s.Fn.Pos(), "expected parameters (ops int, interval time.Duration) and two goroutines (found %d)", len(s.Gos))
		return
	}
	ops, interval := ints[0], durs[0]
	var pacer, data *Goroutine
	for _, g := range s.Gos {
		recvIn := false
		for _, p := range g.An.AllPaths() {
			for _, st := range p.Events(ir.KRecv) {
				if isInputChan(st.A[0]) {
					recvIn = true
				}
			}
		}
		if recvIn {
			data = g
		} else {
			pacer = g
		}
	}
	if pacer == nil || data == nil {
		c.Fail("token-cap", name, s.Fn.Pos(), "cannot tell the pacer from the data goroutine")
		return
	}
	out := outChan(s, 0)
	// the control channel: the made channel the pacer sends on
	var ctl *ir.Term
	for _, p := range pacer.An.AllPaths() {
		for _, e := range allSends(p) {
			ctl = e.ch
		}
	}
	if ctl == nil || !isMadeChan(ctl) || ir.Same(ctl, out) {
		c.Fail("token-cap", name, pacer.Fn.Pos(), "the pacer does not send tokens on a control channel of its own")
		return
	}
	c.Check(isParamTerm(chanCap(ctl), ops), "token-cap", name, s.Fn.Pos(), "make(chan, ops)", "control channel capacity is %s, expected the ops parameter", short(chanCap(ctl)))
	c.Doc("out-capacity", 1, "the output channel has exactly the input's capacity (the bound 2*ops+1+c counts it)")
	oc := chanCap(out)
	c.Check(oc != nil && oc.Op == "cap" && isInputChan(oc.Args[0]), "out-capacity", name, s.Fn.Pos(), "cap(out) = cap(in)", "the output channel's capacity is %s, expected cap(in): a larger buffer lets more than 2*ops+1+c deliveries through in one window after a consumer pause", short(oc))

	// pacer: a counter automaton. The counter is the loop-carried integer that is 0 whenever a cycle starts;
	// a token is sent only under counter < ops and bumps the counter by one; the interval wait happens only
	// under !(counter < ops) and the next cycle starts again from 0. Hence exactly ops tokens per wait.
	okT, okW := true, true
	whyT, whyW := "", ""
	opsT := &ir.Term{Op: "param", Aux: ops.Name()}
	type cnt struct {
		h   *ssa.BasicBlock
		phi *ssa.Phi
		sym *ir.Term
	}
	var counters []cnt
	for _, h := range pacer.An.Headers {
		for _, in := range h.Instrs {
			phi, isPhi := in.(*ssa.Phi)
			if !isPhi {
				break
			}
			if bt, isB := phi.Type().Underlying().(*types.Basic); isB && bt.Info()&types.IsInteger != 0 {
				counters = append(counters, cnt{h, phi, pacer.An.Start[h].Reg(phi)})
			}
		}
	}
	if len(counters) != 1 {
		okT, whyT = false, fmt.Sprintf("the pacer has %d loop-carried integer counters, expected the token counter alone", len(counters))
	}
	nTok, nWait := 0, 0
	if okT {
		k := counters[0]
		// direction: the counter counts the tokens handed out (0 .. ops, the form described above) or the tokens
		// left in the cycle (ops .. 0: token only under counter >= 1, counter-1 each, cycles start at ops). Read
		// off the value the counter has when a cycle starts.
		down := false
		for _, ps := range pacer.An.Segs {
			for _, q := range ps {
				if q.To == k.h && q.From != k.h {
					if v := q.PhiOut[k.phi]; v != nil && ir.Same(v, opsT) {
						down = true
					}
				}
			}
		}
		sgn := int64(1)
		if down {
			sgn = -1
		}
		// guardAt: what path p knows in steps [from, to) about "a further token may be handed out" once d tokens
		// were sent since base (the counter at the head; nil = d is the counter's constant value itself):
		// +1 allowed, -1 the cycle is full, 0 unknown. Counting up that is the branch (base+d < ops); counting
		// down it is !(base-d < 1) or (0 < base-d).
		guardAt := func(p *ir.Path, base *ir.Term, d int64, from, to int) int {
			for i := from; i < to && i < len(p.Steps); i++ {
				st := &p.Steps[i]
				if st.Kind != ir.KBranch {
					continue
				}
				at := st.Atom
				if at.Op != "bin" || at.Aux != "<" && at.Aux != "==" {
					continue
				}
				isCnt := func(x *ir.Term) bool {
					if base == nil {
						if down {
							dd, isK := plusConst(x, opsT)
							return isK && dd == sgn*d
						}
						v, isK := x.IntConst()
						return isK && v == d
					}
					dd, isK := plusConst(x, base)
					return isK && dd == sgn*d
				}
				if at.Aux == "==" {
					// `counter != ops` (counting up from 0 in steps of one: the counter never passes ops, which the
					// capacity of the control channel requires to be non-negative) and `counter != 0` (counting down from
					// ops) say the same as the order tests
					if len(at.Args) != 2 {
						continue
					}
					for j := 0; j < 2; j++ {
						a, b := at.Args[j], at.Args[1-j]
						if !isCnt(a) {
							continue
						}
						if !down && ir.Same(b, opsT) {
							return -polInt(st.Pol)
						}
						if zero, isK := b.IntConst(); down && isK && zero == 0 {
							return -polInt(st.Pol)
						}
					}
					continue
				}
				if !down && ir.Same(at.Args[1], opsT) && isCnt(at.Args[0]) {
					return polInt(st.Pol)
				}
				if down {
					if one, isK := at.Args[1].IntConst(); isK && one == 1 && isCnt(at.Args[0]) {
						return -polInt(st.Pol)
					}
					if zero, isK := at.Args[0].IntConst(); isK && zero == 0 && isCnt(at.Args[1]) {
						return polInt(st.Pol)
					}
				}
			}
			return 0
		}
		// arrival guard: every way into the counter's loop established (incoming counter < ops)
		arrivalGuard := true
		for _, ps := range pacer.An.Segs {
			for _, q := range ps {
				if q.To != k.h {
					continue
				}
				v := q.PhiOut[k.phi]
				g := 0
				if cv, isK := v.IntConst(); isK && !down {
					g = guardAt(q, nil, cv, 0, len(q.Steps))
				} else if down && ir.Same(v, opsT) {
					g = guardAt(q, nil, 0, 0, len(q.Steps))
				} else if q.From == k.h {
					if d, isK := plusConst(v, k.sym); isK {
						g = guardAt(q, k.sym, d, 0, len(q.Steps))
					}
				}
				if g <= 0 {
					arrivalGuard = false
				}
			}
		}
		for _, h := range pacer.An.Headers {
			for _, p := range pacer.An.Segs[h] {
				// events of the segment: token sends and interval waits, with their positions
				var sendIdx []int
				waitIdx, afterIdx := -1, -1
				var afterCh *ir.Term
				for i := range p.Steps {
					st := &p.Steps[i]
					if st.Kind == ir.KSend {
						okT, whyT = false, "a token is sent with a plain (uncancellable) send"
					}
					if st.Kind == ir.KSelect && st.Chosen >= 0 {
						arm := st.Arms[st.Chosen]
						if arm.Send {
							if !ir.Same(arm.Chan, ctl) {
								okT, whyT = false, "the pacer sends on something other than the control channel"
							}
							sendIdx = append(sendIdx, i)
						} else if tc := timerCall(arm.Chan); tc != nil {
							if waitIdx >= 0 {
								okW, whyW = false, "more than one interval wait on a path"
							}
							waitIdx, afterCh = i, tc
							_, _, args, _ := callParts(tc)
							if len(args) != 1 || !isParamTerm(args[0], interval) {
								okW, whyW = false, "time.After is called with "+short(args[0])+", expected the interval parameter"
							}
						}
					}
				}
				if afterCh != nil {
					for i := range p.Steps {
						if p.Steps[i].Kind == ir.KCall && p.Steps[i].R != nil && ir.Same(p.Steps[i].R, afterCh) {
							afterIdx = i
						}
					}
				}
				t := int64(len(sendIdx))
				var base *ir.Term
				if h == k.h {
					base = k.sym
				}
				if t > 1 {
					okT, whyT = false, "more than one token is sent between two tests of the counter"
				}
				if t == 1 {
					nTok++
					if h != k.h {
						okT, whyT = false, "a token is sent outside the loop that counts tokens"
					} else if g := guardAt(p, k.sym, 0, 0, sendIdx[0]); g <= 0 && !arrivalGuard {
						okT, whyT = false, "a token is sent without having established counter < ops"
					}
				}
				if waitIdx >= 0 {
					nWait++
					from := 0
					if t == 1 {
						from = sendIdx[0]
					}
					if g := guardAt(p, base, t, from, waitIdx); g >= 0 {
						okW, whyW = false, "the interval wait is reachable before the counter reached ops (fewer than ops tokens per interval)"
					}
					if t == 1 && waitIdx < sendIdx[0] {
						okW, whyW = false, "a token is sent after the interval wait on the same path"
					}
					// the timer is armed after this cycle's tokens, in the same pass
					if afterIdx < 0 || (t == 1 && afterIdx < sendIdx[0]) {
						okW, whyW = false, "the interval timer is not armed after the cycle's tokens were handed out (an idle period would let a further full round through at once)"
					}
				}
				// counter update on returning to its loop
				if p.To == k.h {
					v := p.PhiOut[k.phi]
					fresh := func(v *ir.Term) bool {
						if down {
							return ir.Same(v, opsT)
						}
						cv, isK := v.IntConst()
						return isK && cv == 0
					}
					if waitIdx >= 0 {
						if !fresh(v) {
							okW, whyW = false, "after the interval wait the token counter restarts from "+short(v)+", expected a fresh cycle (0 counting up, ops counting down)"
						}
					} else if h == k.h {
						if d, isK := plusConst(v, k.sym); !isK || d != sgn*t {
							okT, whyT = false, fmt.Sprintf("a pass that sent %d token(s) changes the counter by %d", t, d)
						}
					} else if !fresh(v) {
						okT, whyT = false, "a cycle starts with the token counter at "+short(v)+", expected a fresh cycle (0 counting up, ops counting down)"
					}
				}
			}
		}
		// the timer must not be armed anywhere else (e.g. at the top of the round)
		for _, h := range append([]*ssa.BasicBlock{nil}, pacer.An.Headers...) {
			for _, p := range pacer.An.Segs[h] {
				for i := range p.Steps {
					st := &p.Steps[i]
					if st.Kind == ir.KCall && st.R != nil && isTimeAfter(st.R) {
						used := false
						for j := i + 1; j < len(p.Steps); j++ {
							if p.Steps[j].Kind == ir.KSelect {
								for _, a := range p.Steps[j].Arms {
									if !a.Send && ir.Same(timerCall(a.Chan), st.R) {
										used = true
									}
								}
								if !used || len(allSendsBetween(p, i, j)) > 0 {
									okW, whyW = false, "the interval timer is armed before tokens are handed out or is not waited on at once"
								}
								break
							}
						}
						if !used {
							okW, whyW = false, "an interval timer is armed but not waited on in the same pass"
						}
					}
				}
			}
		}
		if nTok == 0 {
			okT, whyT = false, "the pacer never sends a token"
		}
		if nWait == 0 {
			okW, whyW = false, "the pacer never waits for the interval"
		}
	}
	c.Check(okT, "tokens-per-cycle", name, pacer.Fn.Pos(), "token only under counter < ops, counter+1 each; cycles start at 0", "%s", whyT)
	c.Check(okW && okT, "one-wait-per-cycle", name, pacer.Fn.Pos(), "interval wait only under !(counter < ops), then the counter restarts at 0", "%s %s", whyW, whyT)

	// data goroutine
	if len(data.An.Headers) != 1 {
		c.Fail("token-per-element", name, data.Fn.Pos(), "data goroutine has %d loops", len(data.An.Headers))
	} else {
		h := data.An.Headers[0]
		elem, other := elementPaths(data, h)
		okD := len(elem) > 0
		for _, f := range elem {
			if f.done {
				if len(allSends(f.p)) != 0 {
					okD = false
					c.Fail("token-per-element", name, f.recv.Pos(), "send on a cancelled path")
				}
				continue
			}
			tokIdx, sendIdx, nTok := -1, -1, 0
			for i := range f.p.Steps {
				st := &f.p.Steps[i]
				if st.Kind == ir.KSelect && st.Chosen >= 0 && !st.Arms[st.Chosen].Send && ir.Same(st.Arms[st.Chosen].Chan, ctl) {
					nTok++
					tokIdx = i
				}
				if st.Kind == ir.KRecv && ir.Same(st.A[0], ctl) {
					nTok++
					tokIdx = i
				}
			}
			sends := allSends(f.p)
			if len(sends) == 1 {
				sendIdx = stepIndex(f.p, sends[0].step)
			}
			if !(nTok == 1 && len(sends) == 1 && ir.Same(sends[0].ch, out) && ir.Same(sends[0].val, f.elem) && tokIdx < sendIdx && f.p.To == h) {
				okD = false
				c.Fail("token-per-element", name, f.recv.Pos(), "each element must take exactly one token and then be sent exactly once, unchanged (tokens=%d, sends=%d):\n%s", nTok, len(sends), f.p)
			}
		}
		for _, f := range other {
			if f.p.Exit == ir.ExitReturn && !f.closed {
				okD = false
				c.Fail("token-per-element", name, lastPos(f.p), "the data goroutine stops although its input is still open")
			}
		}
		if okD {
			c.Ok("token-per-element", name, data.Fn.Pos(), fmt.Sprintf("%d element paths: <-ctl then send(out, a)", len(elem)))
		}
	}
	stageLifecycleRules(c, s, lifecycleOpts{})
}

// allSendsBetween: sends (plain or chosen select arms) of path p strictly between steps i and j.
func allSendsBetween(p *ir.Path, i, j int) []int {
	var out []int
	for x := i + 1; x < j && x < len(p.Steps); x++ {
		st := &p.Steps[x]
		if st.Kind == ir.KSend || st.Kind == ir.KSelect && st.Chosen >= 0 && st.Arms[st.Chosen].Send {
			out = append(out, x)
		}
	}
	return out
}
