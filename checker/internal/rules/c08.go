package rules

import (
	"fmt"
	"go/token"
	"go/types"
	"sort"
	"strings"

	"golang.org/x/tools/go/ssa"

	"verif/checker/internal/core"
	"verif/checker/internal/ir"
	"verif/checker/internal/load"
)

func init() {
	register(&Pack{ID: "C08", Run: runC08, Meta: core.Meta{
		Level:       "other",
		Explanation: "Rules on the single pump goroutine of the unbounded-channel constructor and on its four queue helpers (discovered structurally: the functions of the package taking the queue type). pump-select: every iteration of the pump's main loop performs exactly one blocking operation, a select whose arms are <-ctx.Done(), a receive from the send-side channel itself (never a possibly-nil alias) and a send of head(queue) on emit(receive-side, queue); the helpers are channel-free - so a sender only ever waits for the pump, never for the receiver. enq-once / deq-once: on the receive arm with ok exactly one enq of the received value held in a cell that is fresh on that path (no aliasing between iterations), no send and no deq; on the send arm the value is head(queue) and exactly one deq follows, no enq; the flush loops send head then deq once per iteration while head != nil. emit-summary: emit returns nil iff queue.head == nil, else its channel argument (the send arm is disabled exactly when the queue is empty). queue-discipline: conditional-store summaries of enq (next := nil; linked after tail when tail != nil; tail := node; head := node when head == nil) and deq (head := head.next; tail := nil when the removed node was the tail; returns the removed node's value). close-typestate: no path closes a channel on which a receive observed ok == false. sender-close-flushes: the !ok path drains the queue to the receive side before closing it. cancel-drains-input: on the ctx.Done path the values already accepted into the send-side buffer are moved to the queue before the flush. close-on-every-exit: the receive side is closed exactly once on every exit. The pump is the only goroutine touching the queue; FIFO list + enq-once/deq-once => FIFO, lossless, duplicate-free (paper). Interleavings as such and memory growth are not decided.",
		RuleText:    "one obligation per rule on pipe.New's pump and per queue helper",
		Assumptions: []string{"sync.Pool.Get/Put do not block and hand out nodes nobody else references"},
		TrustedBase: []string{"go/types", "go/ssa", "path engine P"},
	}})
}

type queueHelpers struct {
	qType                *types.Named
	enq, deq, head, emit *ssa.Function
	// qi[f]: index of the queue parameter of helper f (functions take it last, methods first); xi[f]: index of its
	// other parameter (-1 when it has none)
	qi, xi map[*ssa.Function]int
	// field roles, discovered from types and from emit's nil test (never from names)
	fHead, fTail, fValue, fNext string
	nodeFields                  []string
}

func findQueueHelpers(c *core.Ctx, mqType types.Type) *queueHelpers {
	pt, ok := mqType.(*types.Pointer)
	if !ok {
		return nil
	}
	nt, ok := pt.Elem().(*types.Named)
	if !ok {
		return nil
	}
	qst, ok := nt.Underlying().(*types.Struct)
	if !ok {
		return nil
	}
	q := &queueHelpers{qType: nt.Origin()}
	// node type: the struct type two fields of the queue point to
	var nodeFields []string
	var nodeT *types.Named
	for i := 0; i < qst.NumFields(); i++ {
		if fp, isP := qst.Field(i).Type().(*types.Pointer); isP {
			if fn, isN := fp.Elem().(*types.Named); isN {
				if _, isS := fn.Underlying().(*types.Struct); isS {
					nodeFields = append(nodeFields, qst.Field(i).Name())
					nodeT = fn
				}
			}
		}
	}
	if len(nodeFields) != 2 || nodeT == nil {
		return nil
	}
	nst := nodeT.Underlying().(*types.Struct)
	for i := 0; i < nst.NumFields(); i++ {
		fp, isP := nst.Field(i).Type().(*types.Pointer)
		if !isP {
			continue
		}
		if fn, isN := fp.Elem().(*types.Named); isN && fn.Origin() == nodeT.Origin() {
			q.fNext = nst.Field(i).Name()
		} else {
			q.fValue = nst.Field(i).Name()
		}
	}
	q.qi, q.xi = map[*ssa.Function]int{}, map[*ssa.Function]int{}
	// candidates: package-level functions and methods of the queue type (helpers may be either)
	var cands []*ssa.Function
	sp := c.W.SSA["pipe"]
	var mnames []string
	for n := range sp.Members {
		mnames = append(mnames, n)
	}
	sort.Strings(mnames)
	for _, n := range mnames {
		if fn, ok := sp.Members[n].(*ssa.Function); ok {
			cands = append(cands, fn)
		}
	}
	for i := 0; i < q.qType.NumMethods(); i++ {
		if f := c.W.Prog.FuncValue(q.qType.Method(i)); f != nil {
			cands = append(cands, f)
		}
	}
	isQueuePtr := func(t types.Type) bool {
		lp, ok := t.(*types.Pointer)
		if !ok {
			return false
		}
		ln, ok := lp.Elem().(*types.Named)
		return ok && ln.Origin() == q.qType
	}
	for _, fn := range cands {
		qIdx, xIdx, nq := -1, -1, 0
		for i, prm := range fn.Params {
			if isQueuePtr(prm.Type()) {
				qIdx = i
				nq++
			} else {
				xIdx = i
			}
		}
		if nq != 1 || len(fn.Params) > 2 {
			continue
		}
		res := fn.Signature.Results()
		set := func(slot **ssa.Function) {
			// several functions of one shape (a helper split into phases: enq = link(alloc(x)), deq = unlink + release):
			// the role is played by the one that calls the others
			if *slot != nil && reachesStatically(*slot, fn, 3) {
				return
			}
			*slot = fn
			q.qi[fn], q.xi[fn] = qIdx, xIdx
		}
		switch {
		case len(fn.Params) == 2 && res.Len() == 0:
			if _, isPtr := fn.Params[xIdx].Type().(*types.Pointer); isPtr {
				set(&q.enq)
			}
		case len(fn.Params) == 2 && res.Len() == 1:
			_, inChan := fn.Params[xIdx].Type().Underlying().(*types.Chan)
			_, outChan := res.At(0).Type().Underlying().(*types.Chan)
			if inChan && outChan {
				set(&q.emit)
			}
		case len(fn.Params) == 1 && res.Len() == 0:
			// removing the first node without handing anything back (nobody used the result)
			set(&q.deq)
		case len(fn.Params) == 1 && res.Len() == 1:
			if _, isPtr := res.At(0).Type().(*types.Pointer); isPtr {
				set(&q.deq)
			} else if _, isCh := res.At(0).Type().Underlying().(*types.Chan); !isCh {
				if _, isB := res.At(0).Type().Underlying().(*types.Basic); !isB {
					set(&q.head)
				}
			}
		}
	}
	if q.enq == nil || q.deq == nil || q.fNext == "" || q.fValue == "" {
		return nil
	}
	q.nodeFields = nodeFields
	// head = the field emit tests for nil; without an emit helper (the nil-channel idiom written inline in the pump)
	// it is the field the pump tests for nil - resolved by resolveHead once the pump is known
	if q.emit != nil {
		an := c.Analyze(q.emit)
		for _, p := range an.AllPaths() {
			q.headFromBranches(p)
		}
		if q.fHead == "" {
			return nil
		}
	}
	return q
}

// reachesStatically: from calls to (directly or through at most depth further static calls).
func reachesStatically(from, to *ssa.Function, depth int) bool {
	if from == nil || depth < 0 {
		return false
	}
	for _, b := range from.Blocks {
		for _, in := range b.Instrs {
			ci, ok := in.(ssa.CallInstruction)
			if !ok {
				continue
			}
			callee := ci.Common().StaticCallee()
			if callee == nil {
				continue
			}
			if o := callee.Origin(); o != nil {
				callee = o
			}
			if callee == to || reachesStatically(callee, to, depth-1) {
				return true
			}
		}
	}
	return false
}

// headFromBranches: the node field that a nil test of path p speaks about becomes the head role.
func (q *queueHelpers) headFromBranches(p *ir.Path) {
	for _, st := range p.Events(ir.KBranch) {
		at := st.Atom
		if at.Op != "bin" || at.Aux != "==" || len(at.Args) != 2 {
			continue
		}
		for i := 0; i < 2; i++ {
			if !at.Args[i].IsNil() {
				continue
			}
			o := at.Args[1-i]
			if o.Op == "load" && len(o.Args) == 1 && o.Args[0].Op == "faddr" && (o.Args[0].Aux == q.nodeFields[0] || o.Args[0].Aux == q.nodeFields[1]) {
				q.fHead = o.Args[0].Aux
			}
		}
	}
	if q.fHead != "" {
		q.fTail = q.nodeFields[0]
		if q.fTail == q.fHead {
			q.fTail = q.nodeFields[1]
		}
	}
}

func runC08(c *core.Ctx) {
	c.Doc("pump-select", 1, "one blocking select per pump iteration with arms {Done, recv send-side, send head on emit(...)}")
	c.Doc("enq-once", 1, "receive arm: exactly one enq of the received value in a fresh cell; no send, no deq")
	c.Doc("deq-once", 1, "send arm: value is head(queue); exactly one deq; no enq")
	c.Doc("flush", 1, "flush loops: send head, deq once, while head != nil")
	c.Doc("emit-summary", 1, "emit returns nil iff the queue is empty")
	c.Doc("queue-discipline", 2, "enq / deq / head pointer maintenance")
	c.Doc("close-typestate", 1, "no close of a channel already observed closed")
	c.Doc("sender-close-flushes", 1, "sender's close delivers the backlog before the receive side closes")
	c.Doc("cancel-drains-input", 1, "cancel moves buffered sends into the queue before the flush")
	c.Doc("close-on-every-exit", 1, "receive side closed exactly once on every exit")

	var ctor *ssa.Function
	for _, fn := range stageFuncs(c, "pipe") {
		if isUnboundCtor(fn) {
			ctor = fn
		}
	}
	if ctor == nil {
		c.Undecided("pump-select", "pipe.New", 0, "no constructor returning (<-chan T, chan<- T) found")
		return
	}
	name := "pipe." + ctor.Name()
	s := buildStage(c, "pipe", ctor)
	if len(s.Problems) > 0 || len(s.Gos) != 1 || len(s.Returned) != 2 {
		c.Undecided("pump-select", name, ctor.Pos(), "cannot model the constructor (goroutines=%d): %s", len(s.Gos), strings.Join(s.Problems, "; "))
		return
	}
	eg, in := s.Returned[0], s.Returned[1]
	g := s.Gos[0]
	// queue: the only non-channel heap object the pump works on
	var mq *ir.Term
	var qh *queueHelpers
	for _, p := range g.An.AllPaths() {
		for i := range p.Steps {
			st := &p.Steps[i]
			if st.Kind == ir.KEnter && mq == nil {
				for _, a := range st.A {
					if a.Op == "alloc" && a.Typ != nil {
						if h := findQueueHelpers(c, a.Typ); h != nil {
							mq, qh = a, h
						}
					}
				}
			}
		}
	}
	if mq != nil && qh.fHead == "" {
		for _, p := range g.An.AllPaths() {
			qh.headFromBranches(p)
		}
	}
	if mq == nil || qh.fHead == "" {
		c.Undecided("pump-select", name, g.Fn.Pos(), "the queue and its helper functions could not be discovered")
		return
	}
	queueSummaries(c, qh)
	// structural readers of the queue (used where the pump spells head / emit out instead of calling helpers)
	isHeadNode := func(t *ir.Term) bool {
		return t != nil && t.Op == "load" && len(t.Args) == 1 && t.Args[0].Op == "faddr" && t.Args[0].Aux == qh.fHead && ir.Same(t.Args[0].Args[0], mq)
	}
	isHeadValue := func(t *ir.Term) bool {
		if t == nil || t.Op != "load" || len(t.Args) != 1 {
			return false
		}
		x := t.Args[0]
		return x.Op == "load" && len(x.Args) == 1 && x.Args[0].Op == "faddr" && x.Args[0].Aux == qh.fValue && isHeadNode(x.Args[0].Args[0])
	}
	// emptyBefore: what the path knows about head == nil before step index upto (+1 empty, -1 non-empty, 0 unknown);
	// a queue mutation after the test voids it
	emptyBefore := func(p *ir.Path, upto int) int {
		r := 0
		for i := 0; i < upto && i < len(p.Steps); i++ {
			st := &p.Steps[i]
			if st.Kind == ir.KBranch && st.Atom.Op == "bin" && st.Atom.Aux == "==" && len(st.Atom.Args) == 2 {
				for k := 0; k < 2; k++ {
					if st.Atom.Args[k].IsNil() && isHeadNode(st.Atom.Args[1-k]) {
						r = polInt(st.Pol)
					}
				}
			}
			if st.Kind == ir.KStore && st.A[0].Op == "faddr" && st.A[0].Aux == qh.fHead && ir.Same(st.A[0].Args[0], mq) {
				r = 0
			}
		}
		return r
	}

	isHelper := func(st *ir.Step, fn *ssa.Function) bool { return st.Kind == ir.KEnter && st.Static == fn }
	headNil := &ir.Term{Op: "bin", Aux: "==", Args: sorted2(ir.Nil, &ir.Term{Op: "load", Args: []*ir.Term{{Op: "faddr", Aux: qh.fHead, Args: []*ir.Term{mq}}}})}
	_ = headNil

	// the main loop: the header whose segments contain the select with the Done arm
	var mainH *ssa.BasicBlock
	for _, h := range g.An.Headers {
		for _, p := range g.An.Segs[h] {
			for _, st := range p.Events(ir.KSelect) {
				if st.Blocking && doneArm(st) >= 0 {
					mainH = h
				}
			}
		}
	}
	if mainH == nil {
		c.Fail("pump-select", name, g.Fn.Pos(), "the pump has no loop around a blocking select with a ctx.Done arm")
		return
	}

	okSel, okEnq, okDeq, okFlush := true, true, true, true
	inlineArm := false
	okTS, okSCF, okCDI := true, true, true
	nRecv, nSend, nDone := 0, 0, 0
	// helper: check a flush continuation starting at step index i of path p or in following loop segments
	flushSeen := func(p *ir.Path) bool {
		// a flush is: p reaches a header whose iteration segments are {send(eg, head); deq} guarded by head != nil, or p itself exits with head == nil established
		if p.To == nil {
			return false
		}
		h := p.To
		good := false
		for _, q := range g.An.Segs[h] {
			if q.To == h {
				sends := allSends(q)
				nd := 0
				for i := range q.Steps {
					if isHelper(&q.Steps[i], qh.deq) {
						nd++
					}
				}
				if len(sends) == 1 && ir.Same(sends[0].ch, eg) && nd == 1 {
					good = true
				} else {
					return false
				}
			}
		}
		return good
	}
	for _, p := range g.An.Segs[mainH] {
		var sel *ir.Step
		selIdx := -1
		nBlock := 0
		for i := range p.Steps {
			st := &p.Steps[i]
			if bk := blockingKind(st); bk != "" {
				nBlock++
				if st.Kind == ir.KSelect && sel == nil {
					sel, selIdx = st, i
				}
			}
		}
		if sel == nil {
			okSel = false
			c.Fail("pump-select", name, lastPos(p), "an iteration of the pump has no select")
			continue
		}
		// arms
		d := doneArm(sel)
		rArm, sArm := -1, -1
		for j, a := range sel.Arms {
			if !a.Send && ir.Same(a.Chan, in) {
				rArm = j
			}
			if a.Send {
				sArm = j
			}
		}
		if d < 0 || rArm < 0 || len(sel.Arms) > 3 {
			okSel = false
			c.Fail("pump-select", name, sel.Pos(), "the pump's select must have the arms {<-ctx.Done(), receive from the send-side channel itself, send of the queue head}; found %s", sel.String())
			continue
		}
		// the send arm's channel comes from emit(eg, mq) and its value from head(mq)
		var emitRes, headRes *ir.Term
		for i := 0; i < selIdx; i++ {
			st := &p.Steps[i]
			if isHelper(st, qh.emit) && ir.Same(st.A[qh.xi[qh.emit]], eg) && ir.Same(st.A[qh.qi[qh.emit]], mq) {
				emitRes = leaveResult(p, i)
			}
			if isHelper(st, qh.head) && ir.Same(st.A[qh.qi[qh.head]], mq) {
				headRes = leaveResult(p, i)
			}
		}
		if qh.emit == nil || qh.head == nil {
			// the nil-channel idiom spelled out in the pump: the arm is armed with the receive side and the head's
			// value exactly on the paths that established head != nil
			empty := emptyBefore(p, selIdx)
			switch {
			case sArm >= 0 && !sel.Arms[sArm].Chan.IsNil():
				a := sel.Arms[sArm]
				if empty >= 0 || !ir.Same(a.Chan, eg) || !isHeadValue(a.Val) {
					okSel = false
					c.Fail("pump-select", name, sel.Pos(), "the send arm must send the head's value on the receive side and be armed only when the queue is non-empty (head == nil known: %d); found %s <- %s", empty, short(a.Chan), short(a.Val))
				}
			case empty <= 0:
				okSel = false
				c.Fail("pump-select", name, sel.Pos(), "the select has no send arm although the queue may hold values")
			}
			inlineArm = true
		} else if sArm >= 0 {
			a := sel.Arms[sArm]
			if emitRes == nil || headRes == nil || !ir.Same(a.Chan, emitRes) || !ir.Same(a.Val, headRes) {
				okSel = false
				c.Fail("pump-select", name, sel.Pos(), "the send arm must send head(queue) on emit(receive-side, queue) (disabled exactly when the queue is empty); found %s <- %s", short(a.Chan), short(a.Val))
			}
		} else if emitRes == nil || !emitRes.IsNil() {
			// arm absent on this path only because emit returned nil
			okSel = false
			c.Fail("pump-select", name, sel.Pos(), "the select has no send arm although the queue may hold values")
		}
		// what follows the select
		after := p.Steps[selIdx+1:]
		countAfter := func(fn *ssa.Function) int {
			n := 0
			for i := range after {
				if isHelper(&after[i], fn) {
					n++
				}
			}
			return n
		}
		var sendsAfter []sendEv
		for i := range after {
			st := &after[i]
			if st.Kind == ir.KSend {
				sendsAfter = append(sendsAfter, sendEv{st.A[0], st.A[1], st})
			}
			if st.Kind == ir.KSelect && st.Chosen >= 0 && st.Arms[st.Chosen].Send {
				sendsAfter = append(sendsAfter, sendEv{st.Arms[st.Chosen].Chan, st.Arms[st.Chosen].Val, st})
			}
		}
		switch sel.Chosen {
		case rArm:
			okPol := polarity(p, &ir.Term{Op: "extract", Aux: "1", Args: []*ir.Term{sel.R}})
			switch {
			case okPol > 0:
				nRecv++
				if nBlock != 1 {
					okSel = false
					c.Fail("pump-select", name, sel.Pos(), "after accepting a value the pump blocks again (%d blocking operations in one iteration): a sender can be made to wait for the receiver", nBlock)
				}
				// exactly one enq(&x, mq), x fresh on this path and holding the received value
				var enq *ir.Step
				for i := range after {
					if isHelper(&after[i], qh.enq) {
						enq = &after[i]
					}
				}
				recvd := &ir.Term{Op: "extract", Aux: fmt.Sprint(2 + recvIndex(sel, rArm)), Args: []*ir.Term{sel.R}}
				good := countAfter(qh.enq) == 1 && countAfter(qh.deq) == 0 && len(sendsAfter) == 0 && p.To == mainH && ir.Same(enq.A[qh.qi[qh.enq]], mq)
				if good {
					cell := enq.A[qh.xi[qh.enq]]
					good = cell.Op == "alloc" && freshOnPath(p, cell) && holdsAtEnter(p, cell, recvd, enq)
				}
				if !good {
					okEnq = false
					c.Fail("enq-once", name, sel.Pos(), "a received value must be enqueued exactly once, from a cell that is fresh in this iteration and holds that value, with no send or deq on the way (enq=%d deq=%d sends=%d):\n%s", countAfter(qh.enq), countAfter(qh.deq), len(sendsAfter), p)
				}
			case okPol < 0:
				// the sender closed the send side
				for i := range after {
					if after[i].Kind == ir.KClose && ir.Same(after[i].A[0], in) {
						okTS = false
						c.Fail("close-typestate", name, after[i].Pos(), "the send-side channel was observed closed (ok == false) and is closed again on the same path: close(snd) by the sender crashes the process with 'close of closed channel'")
					}
				}
				if !pathFlushes(p, g.An, flushSeen) {
					okSCF = false
					c.Fail("sender-close-flushes", name, sel.Pos(), "when the sender closes the send side the pump returns without delivering the queued backlog to the receive side")
				}
			default:
				okSel = false
				c.Fail("pump-select", name, sel.Pos(), "the receive arm does not test ok")
			}
		case sArm:
			nSend++
			if !(countAfter(qh.deq) == 1 && countAfter(qh.enq) == 0 && len(sendsAfter) == 0 && nBlock == 1 && p.To == mainH) {
				okDeq = false
				c.Fail("deq-once", name, sel.Pos(), "after handing the head to the receiver exactly one deq must follow and nothing else (deq=%d enq=%d further sends=%d blocking=%d)", countAfter(qh.deq), countAfter(qh.enq), len(sendsAfter), nBlock)
			}
		case d:
			nDone++
			// buffered values of the send side must be moved to the queue before the flush
			drains := false
			for i := range after {
				st := &after[i]
				if (st.Kind == ir.KRecv || st.Kind == ir.KSelect) && mentionsChan(st, in) {
					drains = true
				}
			}
			if !drains {
				// maybe in the next loop segments before the flush
				drains = laterDrain(g.An, p, in, qh)
			}
			if !drains {
				okCDI = false
				c.Fail("cancel-drains-input", name, sel.Pos(), "on cancellation the values whose send already completed into the send-side buffer (capacity > 0) are never moved to the queue: they are lost although their send completed")
			}
			if emptyBefore(p, selIdx) > 0 && p.To == nil {
				// cancelled while the queue is known to be empty: there is nothing to flush
			} else if !pathFlushes(p, g.An, flushSeen) {
				okFlush = false
				c.Fail("flush", name, sel.Pos(), "on cancellation the queued backlog is not flushed to the receive side")
			}
			// after cancellation the pump leaves: no way back into the main loop (it would spin on the closed Done
			// channel and never close the receive side)
			{
				seen := map[*ssa.BasicBlock]bool{}
				var back func(q *ir.Path) bool
				back = func(q *ir.Path) bool {
					if q.To == nil {
						return false
					}
					if q.To == mainH {
						return true
					}
					if seen[q.To] {
						return false
					}
					seen[q.To] = true
					for _, r := range g.An.Segs[q.To] {
						if r.To != q.To && back(r) {
							return true
						}
					}
					return false
				}
				if back(p) {
					okSel = false
					c.Fail("pump-select", name, sel.Pos(), "after <-ctx.Done() the pump returns to its main loop instead of leaving: it spins on the cancelled context and never closes the receive side")
				}
			}
		}
	}
	if nRecv == 0 || nSend == 0 || nDone == 0 {
		okSel = false
		c.Fail("pump-select", name, g.Fn.Pos(), "not all three arms are taken on some path (recv=%d send=%d done=%d)", nRecv, nSend, nDone)
	}
	// a flush loop is left only with the queue empty: every segment that leaves a loop with flush iterations
	// carries the fact head == nil (a timer / default arm that gives up drops the backlog)
	for _, h := range g.An.Headers {
		if h == mainH {
			continue
		}
		flushes := false
		for _, p := range g.An.Segs[h] {
			if p.To == h && len(allSends(p)) > 0 {
				flushes = true
			}
		}
		if !flushes {
			continue
		}
		lb := ir.LoopBlocks(h)
		for _, p := range g.An.Segs[h] {
			if p.To != nil && lb[p.To] {
				continue
			}
			empty := false
			// the head as it stands when the loop is left (a deq on the way out has already advanced it)
			var headNow *ir.Term
			if p.End != nil && mq != nil {
				headNow = p.End.MemAt(&ir.Term{Op: "faddr", Aux: qh.fHead, Args: []*ir.Term{mq}})
			}
			for _, b := range p.Events(ir.KBranch) {
				at := b.Atom
				if b.Pol && at.Op == "bin" && at.Aux == "==" && len(at.Args) == 2 {
					for i := 0; i < 2; i++ {
						o := at.Args[1-i]
						if at.Args[i].IsNil() && o.Op == "load" && len(o.Args) == 1 && o.Args[0].Op == "faddr" && o.Args[0].Aux == qh.fHead && ir.Same(o.Args[0].Args[0], mq) {
							empty = true
						}
						if at.Args[i].IsNil() && headNow != nil && ir.Same(o, headNow) {
							empty = true
						}
					}
				}
			}
			if !empty {
				okFlush = false
				c.Fail("flush", name, lastPos(p), "the flush loop is left while the queue may still hold values (no head == nil on this exit): the backlog is dropped")
			}
		}
	}
	// flush loop iterations: send head (plain), one deq, guarded by head != nil
	for _, h := range g.An.Headers {
		if h == mainH {
			continue
		}
		for _, p := range g.An.Segs[h] {
			if p.To != h {
				continue
			}
			sends := allSends(p)
			nd, ne := 0, 0
			var headRes *ir.Term
			for i := range p.Steps {
				if isHelper(&p.Steps[i], qh.deq) {
					nd++
				}
				if isHelper(&p.Steps[i], qh.enq) {
					ne++
				}
				if isHelper(&p.Steps[i], qh.head) {
					headRes = leaveResult(p, i)
				}
			}
			isFlush := len(sends) > 0
			if isFlush && headRes == nil && qh.head == nil && len(sends) == 1 && isHeadValue(sends[0].val) {
				headRes = sends[0].val
			}
			// the head's value carried into the iteration by a loop register (`for out, val = q.offer(ch); out != nil;
			// out, val = q.offer(ch)`): every arrival at the loop head brings the value of the head as it stands then,
			// and the send comes before the queue is touched
			if isFlush && headRes == nil && len(sends) == 1 && sends[0].val.Op == "phi" && mq != nil {
				if phi, isPhi := sends[0].val.Src.(*ssa.Phi); isPhi && phi.Block() == h {
					carried, arrivals := true, 0
					for _, q := range g.An.AllPaths() {
						if q.To != h || q.End == nil {
							continue
						}
						arrivals++
						v := q.PhiOut[phi]
						headNow := q.End.MemAt(&ir.Term{Op: "faddr", Aux: qh.fHead, Args: []*ir.Term{mq}})
						good := v != nil && headNow != nil && v.Op == "load" && len(v.Args) == 1 && v.Args[0].Op == "load" && len(v.Args[0].Args) == 1 &&
							v.Args[0].Args[0].Op == "faddr" && v.Args[0].Args[0].Aux == qh.fValue && ir.Same(v.Args[0].Args[0].Args[0], headNow)
						if !good {
							carried = false
						}
					}
					sendAt, firstTouch := -1, len(p.Steps)
					for i := range p.Steps {
						st := &p.Steps[i]
						if st == sends[0].step {
							sendAt = i
						}
						if (isHelper(st, qh.deq) || isHelper(st, qh.enq) || st.Kind == ir.KStore && st.A[0].Op == "faddr" && ir.Same(st.A[0].Args[0], mq)) && i < firstTouch {
							firstTouch = i
						}
					}
					if carried && arrivals > 0 && sendAt >= 0 && sendAt < firstTouch {
						headRes = sends[0].val
					}
				}
			}
			if isFlush && !(len(sends) == 1 && ir.Same(sends[0].ch, eg) && headRes != nil && ir.Same(sends[0].val, headRes) && nd == 1 && ne == 0) {
				okFlush = false
				c.Fail("flush", name, lastPos(p), "a flush iteration must send head(queue) once and deq once (sends=%d deq=%d enq=%d)", len(sends), nd, ne)
			} else if isFlush {
				// deliver, then remove: the value sent is the head as it stands before the queue is touched in this pass
				sendAt, deqAt := -1, -1
				for i := range p.Steps {
					if &p.Steps[i] == sends[0].step {
						sendAt = i
					}
					if isHelper(&p.Steps[i], qh.deq) && deqAt < 0 {
						deqAt = i
					}
				}
				if sendAt < 0 || deqAt < 0 || deqAt < sendAt {
					okFlush = false
					c.Fail("flush", name, lastPos(p), "a flush iteration removes the head before delivering it: the value sent is the next one (the head is lost, the last send reads an empty queue)")
				}
			}
			if !isFlush && !(ne == 1 && nd == 0) {
				okFlush = false
				c.Fail("flush", name, lastPos(p), "a drain iteration must enqueue exactly one value (enq=%d deq=%d)", ne, nd)
			}
		}
	}
	if okSel {
		c.Ok("pump-select", name, g.Fn.Pos(), fmt.Sprintf("recv/send/done arms on %d/%d/%d paths, one blocking operation per iteration", nRecv, nSend, nDone))
	}
	if inlineArm && okSel {
		c.Ok("emit-summary", name+"#send-arm", g.Fn.Pos(), "send arm armed iff head != nil (nil-channel idiom written inline)")
	}
	if okEnq {
		c.Ok("enq-once", name, g.Fn.Pos(), "")
	}
	if okDeq {
		c.Ok("deq-once", name, g.Fn.Pos(), "")
	}
	if okFlush {
		c.Ok("flush", name, g.Fn.Pos(), "")
	}
	if okTS {
		c.Ok("close-typestate", name, g.Fn.Pos(), "")
	}
	if okSCF {
		c.Ok("sender-close-flushes", name, g.Fn.Pos(), "")
	}
	if okCDI {
		c.Ok("cancel-drains-input", name, g.Fn.Pos(), "")
	}
	// receive side closed exactly once on every exit
	okClose := true
	for _, p := range g.An.AllPaths() {
		if p.Exit == ir.ExitReturn {
			cl := closesOn(p, eg.Key())
			if len(cl) != 1 {
				okClose = false
				c.Fail("close-on-every-exit", name, lastPos(p), "an exit path closes the receive side %d times (want 1)", len(cl))
			} else {
				for _, e := range sendsOn(p, eg.Key()) {
					if e.idx > cl[0].idx {
						okClose = false
						c.Fail("close-on-every-exit", name, e.step.Pos(), "send on the receive side after its close")
					}
				}
			}
		} else if p.Exit == ir.ExitNone && len(closesOn(p, eg.Key())) > 0 {
			okClose = false
			c.Fail("close-on-every-exit", name, lastPos(p), "the receive side is closed on a path that continues")
		}
		if p.Exit == ir.ExitPanic {
			okClose = false
			c.Fail("close-on-every-exit", name, lastPos(p), "explicit panic in the pump")
		}
	}
	if okClose {
		c.Ok("close-on-every-exit", name, g.Fn.Pos(), "")
	}
}

// leaveResult: the value returned by the inlined callee entered at step i.
func leaveResult(p *ir.Path, i int) *ir.Term {
	depth := p.Steps[i].Depth
	for j := i + 1; j < len(p.Steps); j++ {
		if p.Steps[j].Kind == ir.KLeave && p.Steps[j].Depth == depth+1 {
			if len(p.Steps[j].A) == 1 {
				return p.Steps[j].A[0]
			}
			return &ir.Term{Op: "tuple", Args: p.Steps[j].A}
		}
	}
	return nil
}

func recvIndex(sel *ir.Step, arm int) int {
	n := 0
	for j := 0; j < arm; j++ {
		if !sel.Arms[j].Send {
			n++
		}
	}
	return n
}

// freshOnPath: the cell was allocated on this very path (a new variable per iteration).
func freshOnPath(p *ir.Path, cell *ir.Term) bool {
	for _, st := range p.Events(ir.KStore) {
		if ir.Same(st.A[0], cell) && st.LocalStore {
			return true
		}
	}
	return false
}

func holdsAtEnter(p *ir.Path, cell, val *ir.Term, enter *ir.Step) bool {
	var last *ir.Term
	for i := range p.Steps {
		st := &p.Steps[i]
		if st == enter {
			break
		}
		if st.Kind == ir.KStore && ir.Same(st.A[0], cell) {
			last = st.A[1]
		}
	}
	return last != nil && ir.Same(last, val)
}

func mentionsChan(st *ir.Step, ch *ir.Term) bool {
	if st.Kind == ir.KRecv {
		return ir.Same(st.A[0], ch)
	}
	for _, a := range st.Arms {
		if !a.Send && ir.Same(a.Chan, ch) {
			return true
		}
	}
	return false
}

// pathFlushes: after p, the queue is drained to the receive side before exit: p leads into a flush loop
// (possibly through a drain loop first).
func pathFlushes(p *ir.Path, an *ir.Analysis, flushSeen func(*ir.Path) bool) bool {
	seen := map[*ssa.BasicBlock]bool{}
	var rec func(q *ir.Path) bool
	rec = func(q *ir.Path) bool {
		if flushSeen(q) {
			return true
		}
		if q.To == nil || seen[q.To] {
			return false
		}
		seen[q.To] = true
		// every way out of the loop at q.To must lead to a flush
		any := false
		for _, r := range an.Segs[q.To] {
			if r.To == q.To {
				continue
			}
			any = true
			if !rec(r) {
				return false
			}
		}
		return any
	}
	return rec(p)
}

// laterDrain: after p (the Done path) a loop receives from ch and enqueues, before the flush.
func laterDrain(an *ir.Analysis, p *ir.Path, ch *ir.Term, qh *queueHelpers) bool {
	if p.To == nil {
		return false
	}
	for _, q := range an.Segs[p.To] {
		if q.To != p.To {
			continue
		}
		recv, enq := false, false
		for i := range q.Steps {
			st := &q.Steps[i]
			if (st.Kind == ir.KRecv || st.Kind == ir.KSelect) && mentionsChan(st, ch) {
				recv = true
			}
			if st.Kind == ir.KEnter && st.Static == qh.enq {
				enq = true
			}
		}
		if recv && enq {
			return true
		}
	}
	return false
}

// queueSummaries: enq / deq / head / emit as conditional-store summaries.
func queueSummaries(c *core.Ctx, q *queueHelpers) {
	fld := func(base *ir.Term, f string) *ir.Term {
		return &ir.Term{Op: "load", Aux: "0", Args: []*ir.Term{{Op: "faddr", Aux: f, Args: []*ir.Term{base}}}}
	}
	isNilAtom := func(t *ir.Term) *ir.Term { return &ir.Term{Op: "bin", Aux: "==", Args: sorted2(ir.Nil, t)} }

	// ---- emit
	if q.emit != nil {
		fn := q.emit
		an := c.Analyze(fn)
		ok := len(an.Problems) == 0
		qp := &ir.Term{Op: "param", Aux: fn.Params[q.qi[fn]].Name()}
		for _, p := range an.AllPaths() {
			empty := polarity(p, isNilAtom(fld(qp, q.fHead)))
			r := p.Results[0]
			if !(empty > 0 && r.IsNil() || empty < 0 && paramOf(r, fn, q.xi[fn])) || len(nonLocalStores(p)) != 0 || len(p.Events(ir.KSend, ir.KRecv, ir.KSelect)) != 0 {
				ok = false
			}
		}
		c.Check(ok && an.NPaths == 2, "emit-summary", "pipe."+fn.Name(), fn.Pos(), "nil iff head == nil, else the channel", "emit must return nil exactly when queue.head == nil and its channel argument otherwise (otherwise the select sends zero values from an empty queue or never delivers)")
	}
	// ---- head
	if q.head != nil {
		fn := q.head
		an := c.Analyze(fn)
		ok := len(an.Problems) == 0
		qp := &ir.Term{Op: "param", Aux: fn.Params[q.qi[fn]].Name()}
		for _, p := range an.AllPaths() {
			empty := polarity(p, isNilAtom(fld(qp, q.fHead)))
			r := p.Results[0]
			want := &ir.Term{Op: "load", Aux: "0", Args: []*ir.Term{fld(fld(qp, q.fHead), q.fValue)}}
			if empty < 0 && !ir.Same(r, want) || empty == 0 || len(nonLocalStores(p)) != 0 {
				ok = false
			}
		}
		c.Check(ok, "queue-discipline", "pipe."+fn.Name(), fn.Pos(), "*queue.head.value when non-empty", "head must return the value of the first node without modifying the queue")
	}
	// ---- enq
	{
		fn := q.enq
		an := c.Analyze(fn)
		ok := len(an.Problems) == 0 && len(an.Headers) == 0
		why := "could not be modelled"
		qp := &ir.Term{Op: "param", Aux: fn.Params[q.qi[fn]].Name()}
		for _, p := range an.AllPaths() {
			if !ok {
				break
			}
			// the node: the value whose .value is set to param x
			var node *ir.Term
			for _, st := range expandLitStores(nonLocalStores(p)) {
				if st.A[0].Op == "faddr" && st.A[0].Aux == q.fValue && paramOf(st.A[1], fn, q.xi[fn]) {
					node = st.A[0].Args[0]
				}
			}
			if node == nil {
				ok, why = false, "no node receives the value"
				break
			}
			tailNil := polarity(p, isNilAtom(fld(qp, q.fTail)))
			headNil := polarity(p, isNilAtom(fld(qp, q.fHead)))
			var setNextNil, linkAfterTail, setTail, setHead bool
			for _, st := range expandLitStores(nonLocalStores(p)) {
				a, v := st.A[0], st.A[1]
				switch {
				case a.Op == "faddr" && a.Aux == q.fNext && ir.Same(a.Args[0], node) && v.IsNil():
					setNextNil = true
				case a.Op == "faddr" && a.Aux == q.fNext && ir.Same(a.Args[0], fld(qp, q.fTail)) && ir.Same(v, node):
					linkAfterTail = true
				case a.Op == "faddr" && a.Aux == q.fTail && ir.Same(a.Args[0], qp) && ir.Same(v, node):
					setTail = true
				case a.Op == "faddr" && a.Aux == q.fHead && ir.Same(a.Args[0], qp) && ir.Same(v, node):
					setHead = true
				case a.Op == "faddr" && a.Aux == q.fValue:
				case isTallyStore(c, fn, a, v, qp):
					// a statistic kept in the queue (its depth, a high-water mark): written, never consulted
				default:
					ok, why = false, "unexpected store "+short(a)
				}
			}
			for _, st := range p.Events(ir.KCall) {
				if isMethodCall(st, "(*sync.Pool).Put") {
					ok, why = false, "enq hands a node back to the pool while linking it into the queue"
				}
			}
			if !ok {
				break
			}
			if !setNextNil || !setTail || linkAfterTail != (tailNil < 0) || setHead != (headNil > 0) || tailNil == 0 || headNil == 0 {
				ok, why = false, fmt.Sprintf("expected next:=nil, tail.next:=node iff tail != nil, tail:=node, head:=node iff head == nil (found next:=nil %v, link %v with tail==nil %d, tail %v, head %v with head==nil %d)", setNextNil, linkAfterTail, tailNil, setTail, setHead, headNil)
			}
		}
		c.Check(ok, "queue-discipline", "pipe."+fn.Name(), fn.Pos(), "append at tail", "%s", why)
	}
	// ---- deq
	{
		fn := q.deq
		an := c.Analyze(fn)
		ok := len(an.Problems) == 0 && len(an.Headers) == 0
		why := "could not be modelled"
		qp := &ir.Term{Op: "param", Aux: fn.Params[q.qi[fn]].Name()}
		oldHead := fld(qp, q.fHead)
		for _, p := range an.AllPaths() {
			if !ok {
				break
			}
			wasTail := polarity(p, &ir.Term{Op: "bin", Aux: "==", Args: sorted2(oldHead, fld(qp, q.fTail))})
			var advHead, clrTail bool
			for _, st := range nonLocalStores(p) {
				a, v := st.A[0], st.A[1]
				switch {
				case a.Op == "faddr" && a.Aux == q.fHead && ir.Same(a.Args[0], qp) && ir.Same(v, fld(oldHead, q.fNext)):
					advHead = true
				case a.Op == "faddr" && a.Aux == q.fTail && ir.Same(a.Args[0], qp) && v.IsNil():
					clrTail = true
				case isTallyStore(c, fn, a, v, qp):
				default:
					ok, why = false, "unexpected store "+short(a)+" := "+short(v)
				}
			}
			// a node goes back to the pool at most once, and only the node just removed: a node the pool hands out twice
			// would be linked into the queue twice
			nPut := 0
			for _, st := range p.Events(ir.KCall) {
				if isMethodCall(st, "(*sync.Pool).Put") {
					nPut++
					if len(st.A) < 2 || !ir.Same(st.A[1], oldHead) {
						ok, why = false, "a node other than the one just removed is handed back to the pool: "+short(st.A[len(st.A)-1])
					}
				}
			}
			if nPut > 1 {
				ok, why = false, fmt.Sprintf("the removed node is handed back to the pool %d times: the pool would hand it out twice and two queue positions would share one node", nPut)
			}
			// the result, when deq has one, is the removed node's value
			resOK, rs := true, "none"
			if len(p.Results) > 0 {
				r := p.Results[0]
				rs = short(r)
				resOK = r.Op == "load" && r.Args[0].Op == "faddr" && r.Args[0].Aux == q.fValue && ir.Same(r.Args[0].Args[0], oldHead)
			}
			if ok && (!advHead || clrTail != (wasTail > 0) || wasTail == 0 || !resOK) {
				ok, why = false, fmt.Sprintf("expected head := head.next, tail := nil iff the removed node was the tail, result the removed node's value (advance %v, clear-tail %v with was-tail %d, result %s)", advHead, clrTail, wasTail, rs)
			}
		}
		c.Check(ok, "queue-discipline", "pipe."+fn.Name(), fn.Pos(), "remove at head", "%s", why)
	}
}


// isTallyStore: the store updates an integer field of the queue object by a constant (size++ / size--), and that field
// is a statistic: in the whole package every read of it feeds such an update of the same field, a comparison that
// feeds another statistic of the same kind, or sits in a String / GoString method. It is never consulted by the queue
// operations or the pump.
func isTallyStore(c *core.Ctx, fn *ssa.Function, a, v, qp *ir.Term) bool {
	if a.Op != "faddr" || len(a.Args) != 1 || !ir.Same(a.Args[0], qp) {
		return false
	}
	if b, isB := fieldTypeOf(fn, a.Aux); !isB || b.Info()&types.IsInteger == 0 {
		return false
	}
	// every read of the field in the package
	for _, f := range c.W.SourceFuncs(load.Logical(fn.Pkg.Pkg.Path())) {
		if n := f.Name(); n == "String" || n == "GoString" {
			continue
		}
		for _, b := range f.Blocks {
			for _, in := range b.Instrs {
				fa, ok := in.(*ssa.FieldAddr)
				if !ok || fieldNameOf(fa) != a.Aux || !sameStruct(fa.X.Type(), fn, a.Aux) {
					continue
				}
				for _, r := range *fa.Referrers() {
					ld, isLd := r.(*ssa.UnOp)
					if !isLd {
						continue // stores
					}
					if !tallyUses(ld, a.Aux, 0) {
						return false
					}
				}
			}
		}
	}
	return true
}

// fieldTypeOf: the basic type of the field named name in the struct some parameter of fn points to.
func fieldTypeOf(fn *ssa.Function, name string) (*types.Basic, bool) {
	for _, p := range fn.Params {
		pt, ok := p.Type().Underlying().(*types.Pointer)
		if !ok {
			continue
		}
		st, ok := pt.Elem().Underlying().(*types.Struct)
		if !ok {
			continue
		}
		for i := 0; i < st.NumFields(); i++ {
			if st.Field(i).Name() == name {
				b, isB := st.Field(i).Type().Underlying().(*types.Basic)
				return b, isB
			}
		}
	}
	return nil, false
}

func sameStruct(t types.Type, fn *ssa.Function, field string) bool {
	pt, ok := t.Underlying().(*types.Pointer)
	if !ok {
		return false
	}
	st, ok := pt.Elem().Underlying().(*types.Struct)
	if !ok {
		return false
	}
	for _, p := range fn.Params {
		if pp, isP := p.Type().Underlying().(*types.Pointer); isP {
			if types.Identical(pp.Elem().Underlying(), st) {
				return true
			}
		}
	}
	return false
}


// tallyUses: every use of v (a read of the tally field, or a value computed from it) is bookkeeping: an addition or
// subtraction stored back into the field, a conversion used that way, an argument of a sync/atomic function, or a
// comparison with a value read from a sync/atomic gauge (raising a high-water mark) - inside the gauge's
// compare-and-swap loop or in a plain `if n > peak.Load() { peak.Store(n) }`.
func tallyUses(v ssa.Value, field string, depth int) bool {
	if depth > 4 || v.Referrers() == nil {
		return depth <= 4
	}
	fromAtomic := func(x ssa.Value) bool {
		for {
			switch y := x.(type) {
			case *ssa.Convert:
				x = y.X
				continue
			case *ssa.ChangeType:
				x = y.X
				continue
			case *ssa.Call:
				sc := y.Call.StaticCallee()
				return sc != nil && sc.Pkg != nil && sc.Pkg.Pkg.Path() == "sync/atomic"
			}
			return false
		}
	}
	for _, u := range *v.Referrers() {
		switch x := u.(type) {
		case *ssa.DebugRef:
		case *ssa.Convert:
			if !tallyUses(x, field, depth+1) {
				return false
			}
		case *ssa.ChangeType:
			if !tallyUses(x, field, depth+1) {
				return false
			}
		case *ssa.Call:
			if sc := x.Call.StaticCallee(); sc == nil || sc.Pkg == nil || sc.Pkg.Pkg.Path() != "sync/atomic" {
				return false
			}
		case *ssa.BinOp:
			if ir.InAtomicSpinLoop(x.Block()) {
				continue
			}
			switch x.Op {
			case token.ADD, token.SUB:
				for _, u2 := range *x.Referrers() {
					st, isSt := u2.(*ssa.Store)
					if !isSt {
						return false
					}
					fa2, isFA := st.Addr.(*ssa.FieldAddr)
					if !isFA || fieldNameOf(fa2) != field {
						return false
					}
				}
			case token.LSS, token.LEQ, token.GTR, token.GEQ, token.EQL, token.NEQ:
				other := x.Y
				if other == v {
					other = x.X
				}
				if !fromAtomic(other) {
					return false
				}
			default:
				return false
			}
		default:
			return false
		}
	}
	return true
}

// expandLitStores: a store of a whole struct value built by a composite literal (`*n = node{value: x, next: nil}`) is
// the stores of its fields - the explicit ones, and nil for the omitted pointer-like ones (no base value: a plain
// literal). Other stores pass through.
func expandLitStores(stores []*ir.Step) []*ir.Step {
	var out []*ir.Step
	for _, st := range stores {
		if st.Kind != ir.KStore || len(st.A) < 2 || st.A[1] == nil || st.A[1].Op != "lit" || ir.LitBase(st.A[1]) != nil {
			out = append(out, st)
			continue
		}
		seen := map[string]bool{}
		for _, kv := range ir.LitFields(st.A[1]) {
			seen[kv.Aux] = true
			cp := *st
			cp.A = []*ir.Term{{Op: "faddr", Aux: kv.Aux, Args: []*ir.Term{st.A[0]}}, kv.Args[0]}
			out = append(out, &cp)
		}
		if stt, isS := typeOfTerm(st.A[1]); isS {
			for i := 0; i < stt.NumFields(); i++ {
				f := stt.Field(i)
				if seen[f.Name()] {
					continue
				}
				switch f.Type().Underlying().(type) {
				case *types.Pointer, *types.Slice, *types.Map, *types.Chan, *types.Interface, *types.Signature:
					cp := *st
					cp.A = []*ir.Term{{Op: "faddr", Aux: f.Name(), Args: []*ir.Term{st.A[0]}}, ir.Nil}
					out = append(out, &cp)
				}
			}
		}
	}
	return out
}

func typeOfTerm(t *ir.Term) (*types.Struct, bool) {
	if t == nil || t.Typ == nil {
		return nil, false
	}
	st, ok := t.Typ.Underlying().(*types.Struct)
	return st, ok
}
