package rules

import (
	"fmt"
	"go/types"
	"strings"

	"golang.org/x/tools/go/ssa"

	"verif/checker/internal/core"
	"verif/checker/internal/ir"
	"verif/checker/internal/load"
)

func init() {
	register(&Pack{ID: "C02", Run: runC02, Meta: core.Meta{
		Level:       "other",
		Explanation: "construct-census: values of the concrete lens type are constructed only in NewLens and NewReflector (who-may-construct over all loaded packages). guard-dominates: on every path of these constructors that returns, the type guard was taken on its true edge; every other path ends in panic (no fall-through return). guard-strength: the guard compares ft = t.StructField.Type of the hseq.Type argument with fv = reflect.TypeOf(new(A)).Elem() for the focus type parameter A and is type identity (ft == fv) or at least String()-equality AND AssignableTo (an ||, a Kind()/Name() comparison, a missing conjunct or another provenance is a violation); identity itself is required by the property and the weaker conjunction is reported (finding D3b unless repaired). container-kind: the construction is dominated by a check that the container type parameter is a struct (finding D2 unless repaired). ptr-taint: in the unfolding function a reflect.Type obtained by stripping a pointer (.Elem()) must not reach the type argument of the offset-accumulating recursive call (finding D1). names-arity: at every attr[0:N] the interval of len(attr) must be within [N,inf) - a reslice up to capacity does not panic (finding D3). lookup-loud: ForName/ForType return only the current range element under the match condition and otherwise panic; ForNameMaybe returns (element,true) or (zero,false). reflector-dyn: in Putt/Gett the unsafe dereference is dominated by the ok edge of the assertion of the argument to *S, the failing edge panics without any store. Panic messages and reflect's own behaviour are not decided. 'Reads and writes stay inside that field' is decided through the rules shared with C01: the address term / effects of the four accessor methods and the offset-accumulation rules of the unfolding function. construct-census also counts conversions whose target is the lens type and whose source is not the identical instantiation (an optic re-typed without passing the guard); unfold-pure as in C01.",
		RuleText:    "one obligation per (rule, constructor / call site / lookup function)",
		TrustedBase: []string{"go/types", "go/ssa", "path engine P", "interval analysis D-iii", "reflect.Type identity semantics"},
	}})
}

func runC02(c *core.Ctx) {
	c.Doc("construct-census", 1, "lens values are constructed only by NewLens / NewReflector")
	c.Doc("guard-dominates", 2, "every returning path of a constructor passed the type guard; all others panic")
	c.Doc("guard-strength-A", 2, "guard = String()-equality && AssignableTo (or identity) between the entry's field type and the focus type")
	c.Doc("guard-strength-B", 2, "guard is type identity ft == fv")
	c.Doc("container-kind", 2, "construction dominated by Kind() == Struct of the container type parameter")
	c.Doc("ptr-taint", 1, "a pointer-stripped type does not reach the offset-accumulating recursion")
	c.Doc("names-arity", 16, "len(attr) >= N at every attr[0:N]")
	c.Doc("lookup-loud", 3, "ForName/ForType panic when nothing matches; ForNameMaybe reports absence")
	c.Doc("reflector-dyn", 2, "Putt/Gett dereference only under a successful s.(*S); failure panics without a store")
	// "reads and writes stay inside that field": the address mechanism, shared with C01
	c.Doc("addr-term", 4, "every unsafe dereference is base + L.Offset + L.RootOffs typed *A")
	c.Doc("addr-agree", 1, "the four accessor methods use the same address term")
	c.Doc("put-effect", 2, "Put/Putt: exactly one store, of a, through that pointer; container returned unchanged")
	c.Doc("get-effect", 2, "Get/Gett: no store; returns the loaded value")
	c.Doc("offs-writers", 1, "RootOffs / StructField are written only by the unfolding function's literals")
	c.Doc("offs-term", 3, "RootOffs := offset parameter; StructField := cat.Field(i); recursion passes offset + cat.Field(i).Offset; root call passes 0")
	if lensAccessorRules(c) != nil {
		offsRules(c)
	}
	// "an unknown name, a type no field has ... is never silently accepted": the derivations hand the names / the
	// focus types on positionally (no names => by type, names => by name, never a mix), and the lookups answer only
	// on an exact match (both shared with C01 / C03)
	c.Doc("pairing", 36, "ForProductN / ForSpectrumN / NewN / FMapN positional consistency")
	pairingRules(c)
	c.Doc("first-match", 3, "lookups return the first element matching exactly")
	firstMatchRules(c)
	// "... or panics": a panic raised during derivation reaches the caller
	c.Doc("panic-propagates", 1, "no function of hseq / optics swallows a panic: where recover() answers non-nil, every path panics again")
	panicPropagates(c, "panic-propagates", "hseq", "optics")

	nt := constructCensus(c)
	if nt == nil {
		return
	}

	guardRules(c)

	ptrTaint(c)
	namesArity(c)
	lookupLoud(c)
	reflectorDyn(c, nt)
}

// constructCensus: values of the concrete lens type are constructed only in NewLens / NewReflector, and no optic is
// re-typed by a conversion (who-may-construct over all loaded packages). Shared by C01 and C02.
func constructCensus(c *core.Ctx) *types.Named {
	nt := lensType(c)
	if nt == nil {
		c.Undecided("construct-census", "optics.lens", 0, "cannot discover the concrete lens type from NewLens")
		return nil
	}
	ctors := map[*ssa.Function]bool{}
	for _, n := range []string{"NewLens", "NewReflector"} {
		if f := c.W.Func("optics", n); f != nil {
			ctors[f] = true
		}
	}
	// ---- construct-census
	nCons, stray := 0, 0
	constructs := func(fn *ssa.Function) bool {
		for _, b := range fn.Blocks {
			for _, in := range b.Instrs {
				if al, ok := in.(*ssa.Alloc); ok {
					if n, ok := al.Type().(*types.Pointer).Elem().(*types.Named); ok && n.Origin() == nt {
						return true
					}
				}
			}
		}
		return false
	}
	// a constructing helper used only by plain calls from the guarded constructors is analysed as part of them
	for _, h := range coveredHelpers(c, ctors, constructs) {
		ctors[h] = true
	}
	for _, pkg := range c.W.AllLogical() {
		for _, fn := range c.W.SourceFuncs(pkg) {
			for _, b := range fn.Blocks {
				for _, in := range b.Instrs {
					// a conversion that re-types an existing lens (same layout, other type arguments) hands out an
					// optic whose focus type was never shown to the guard
					var from, to types.Type
					switch cv := in.(type) {
					case *ssa.ChangeType:
						from, to = cv.X.Type(), cv.Type()
					case *ssa.Convert:
						from, to = cv.X.Type(), cv.Type()
					}
					if to != nil {
						if tn := namedBehindPtr(to); tn != nil && tn.Origin() == nt {
							if fnm := namedBehindPtr(from); fnm == nil || !types.Identical(fnm, tn) {
								stray++
								c.Fail("construct-census", ir.FuncName(fn), in.Pos(), "a value of type %s is converted to %s: the optic is re-typed without passing the type guard of NewLens/NewReflector, its unsafe load/store then runs with a focus type the field was never compared with", from, to)
							}
						}
						continue
					}
					al, ok := in.(*ssa.Alloc)
					if !ok {
						continue
					}
					et := al.Type().(*types.Pointer).Elem()
					if n, ok := et.(*types.Named); ok && n.Origin() == nt {
						if ctors[fn] {
							nCons++
						} else {
							stray++
							c.Fail("construct-census", ir.FuncName(fn), al.Pos(), "a %s value is constructed outside NewLens/NewReflector: it bypasses the type guard", nt.Obj().Name())
						}
					}
				}
			}
		}
	}
	if stray == 0 {
		c.Check(nCons >= 1, "construct-census", "optics."+nt.Obj().Name(), nt.Obj().Pos(), fmt.Sprintf("%d construction sites, all in the guarded constructors", nCons), "only %d construction sites found", nCons)
	}

	return nt
}

// ptrTaint: D1.
func ptrTaint(c *core.Ctx) {
	ui := unfoldInfoOf(c)
	if ui == nil {
		c.Undecided("ptr-taint", "hseq.unfold#recursive-call", 0, "unfolding function not found")
		return
	}
	uf := ui.fn
	an := unfoldAnalysis(c, ui)
	if problems(c, "ptr-taint", "hseq.unfold#recursive-call", an) {
		return
	}
	tainted, n := false, 0
	var pos = uf.Pos()
	for _, p := range an.AllPaths() {
		for _, st := range p.Events(ir.KCall) {
			if st.Static != uf {
				continue
			}
			n++
			ty := st.A[ui.catP]
			off := st.A[ui.offP]
			accumulates := off.Op == "bin" && off.Aux == "+"
			if ty.Op == "pure" && strings.HasSuffix(ty.Aux, ".Elem") && accumulates {
				tainted = true
				pos = st.Pos()
			}
		}
	}
	// is there a mark on the entries that NewLens could test? (a field of hseq.Type set differently on the pointer path)
	switch {
	case n == 0:
		c.Undecided("ptr-taint", "hseq.unfold#recursive-call", uf.Pos(), "no recursive descent found")
	case tainted:
		c.Fail("ptr-taint", "hseq.unfold#recursive-call", pos, "the unfolding descends through an embedded *struct (type obtained by .Elem()) and keeps adding offsets as if the struct were inline; hseq.Type carries no mark, so NewLens accepts the entry and the lens reads/writes the outer struct's neighbouring memory instead of the pointed-to field")
	default:
		c.Ok("ptr-taint", "hseq.unfold#recursive-call", uf.Pos(), "pointer-stripped types do not reach the offset-accumulating recursion")
	}
}

// namesArity: D3.
func namesArity(c *core.Ctx) {
	for _, prefix := range []string{"ForProduct", "ForSpectrum"} {
		for _, fn := range familyFuncs(c, "optics", prefix) {
			name := "optics." + fn.Name()
			an := c.Analyze(fn)
			if len(an.Problems) > 0 {
				continue
			}
			attr := &ir.Term{Op: "param", Aux: fn.Params[0].Name()}
			lenT := &ir.Term{Op: "len", Args: []*ir.Term{attr}}
			q := ConstQuantity(lenT)
			for _, p := range an.AllPaths() {
				iv := Itv{0, PosInf}
				match := func(t *ir.Term) (int64, bool) { return plusConst(t, lenT) }
				_ = q
				for i := range p.Steps {
					st := &p.Steps[i]
					if st.Kind == ir.KBranch {
						iv = refineItv(iv, st.Atom, st.Pol, match)
					}
					// a call whose argument is attr[0:N]
					for _, a := range st.A {
						if a.Op == "slice" && ir.Same(a.Args[0], attr) {
							hi, isK := a.Args[2].IntConst()
							if !isK {
								continue
							}
							site := fmt.Sprintf("%s#attr[0:%d]", name, hi)
							if iv.Lo >= hi {
								c.Ok("names-arity", site, st.Pos(), fmt.Sprintf("len(attr) in %s", iv))
							} else {
								c.Fail("names-arity", site, st.Pos(), "len(attr) is only known to be in %s here: with fewer than %d names and spare capacity in the caller's slice the reslice does not panic and lenses are derived from stale names", iv, hi)
							}
						}
					}
				}
			}
		}
	}
}

func lookupLoud(c *core.Ctx) {
	for _, x := range []struct {
		name  string
		maybe bool
	}{{"ForName", false}, {"ForType", false}, {"ForNameMaybe", true}} {
		fn := c.W.Func("hseq", x.name)
		name := "hseq." + x.name
		if fn == nil {
			c.Undecided("lookup-loud", name, 0, "anchor not found")
			continue
		}
		an := c.AnalyzeLoops(fn)
		if problems(c, "lookup-loud", name, an) {
			continue
		}
		ok := true
		nRet, nPanic := 0, 0
		for _, p := range an.AllPaths() {
			switch p.Exit {
			case ir.ExitPanic:
				nPanic++
				if x.maybe {
					ok = false
					c.Fail("lookup-loud", name, lastPos(p), "ForNameMaybe panics instead of reporting absence")
				}
			case ir.ExitReturn:
				nRet++
				r := p.Results[0]
				inLoop := p.From != nil
				isElem := r.Op == "load" && r.Args[0].Op == "iaddr" || r.Op == "index"
				if inLoop && isElem {
					if x.maybe && !(len(p.Results) == 2 && p.Results[1].IsConst() && p.Results[1].Aux == "true") {
						ok = false
						c.Fail("lookup-loud", name, lastPos(p), "a found element is not reported with ok == true")
					}
					continue
				}
				if x.maybe && !inLoop || x.maybe && p.To == nil {
					// not found: (zero, false)
					if len(p.Results) == 2 && p.Results[1].IsConst() && p.Results[1].Aux == "false" && (strings.HasPrefix(r.Aux, "zero") || r.Op == "lit" || r.Op == "const") {
						continue
					}
				}
				ok = false
				c.Fail("lookup-loud", name, lastPos(p), "a path returns %s which is not the element under inspection: an unknown name / type must not be silently answered", short(r))
			}
		}
		if !x.maybe && nPanic == 0 {
			ok = false
			c.Fail("lookup-loud", name, fn.Pos(), "no panicking path: a lookup that matches nothing must fail loudly")
		}
		if !x.maybe {
			// the panic value is the package's error type (not a recoverable sentinel string)
			for _, p := range an.AllPaths() {
				if p.Exit == ir.ExitPanic {
					for _, st := range p.Events(ir.KPanic) {
						_ = st
					}
				}
			}
		}
		if ok {
			c.Ok("lookup-loud", name, fn.Pos(), fmt.Sprintf("%d returning, %d panicking paths", nRet, nPanic))
		}
	}
}

func reflectorDyn(c *core.Ctx, nt *types.Named) {
	ms := methodsOf(c, nt)
	for _, mn := range []string{"Putt", "Gett"} {
		fn := ms[mn]
		name := "optics." + nt.Obj().Name() + "." + mn
		if fn == nil {
			c.Undecided("reflector-dyn", name, 0, "method not found")
			continue
		}
		an := c.Analyze(fn)
		if problems(c, "reflector-dyn", name, an) {
			continue
		}
		ok := true
		nOK, nPanic := 0, 0
		for _, p := range an.AllPaths() {
			// the assertion of parameter s to *S
			var ta *ir.Term
			for _, s := range p.Events(ir.KBranch) {
				if s.Atom.Op == "extract" && s.Atom.Aux == "1" && s.Atom.Args[0].Op == "tassert" && paramOf(s.Atom.Args[0].Args[0], fn, 1) {
					ta = s.Atom.Args[0]
					if pt, isP := ta.Typ.(*types.Pointer); !isP {
						ok = false
						c.Fail("reflector-dyn", name, fn.Pos(), "the argument is asserted to %s, expected a pointer to the container type", ta.Aux)
					} else if _, isTP := pt.Elem().(*types.TypeParam); !isTP {
						ok = false
						c.Fail("reflector-dyn", name, fn.Pos(), "the argument is asserted to %s, expected *S", ta.Aux)
					}
					if s.Pol {
						if p.Exit == ir.ExitPanic && len(nonLocalStores(p)) == 0 && len(unsafeDerefs(p)) == 0 {
							// a further refusal after the assertion (a nil *S): panics without touching memory
							nPanic++
							continue
						}
						nOK++
						if p.Exit != ir.ExitReturn {
							ok = false
							c.Fail("reflector-dyn", name, lastPos(p), "after a successful assertion the method neither returns nor panics cleanly")
						}
					} else {
						nPanic++
						if p.Exit != ir.ExitPanic || len(nonLocalStores(p)) != 0 || len(unsafeDerefs(p)) != 0 {
							ok = false
							c.Fail("reflector-dyn", name, lastPos(p), "when the argument is not a *S the method must panic without touching memory (exit=%v, stores=%d)", p.Exit, len(nonLocalStores(p)))
						}
					}
				}
			}
			if ta == nil {
				if len(unsafeDerefs(p)) > 0 || p.Exit == ir.ExitReturn {
					ok = false
					c.Fail("reflector-dyn", name, fn.Pos(), "a path dereferences or returns without a type assertion of the argument to *S (e.g. an added case for S values)")
				}
			}
		}
		if ok && nOK > 0 && nPanic > 0 {
			c.Ok("reflector-dyn", name, fn.Pos(), "s.(*S) ok => dereference; otherwise panic, no store")
		} else if ok {
			c.Fail("reflector-dyn", name, fn.Pos(), "expected both a successful-assertion path and a panicking path (found %d / %d)", nOK, nPanic)
		}
	}
	_ = load.Logical
}

// guardRules: dominance and strength of the type guard of NewLens / NewReflector (shared by C01 and C02).
func guardRules(c *core.Ctx) {
	// ---- guards
	for _, n := range []string{"NewLens", "NewReflector"} {
		fn := c.W.Func("optics", n)
		name := "optics." + n
		if fn == nil {
			c.Undecided("guard-dominates", name, 0, "anchor not found")
			continue
		}
		an := c.Analyze(fn)
		if problems(c, "guard-dominates", name, an) {
			continue
		}
		tps := typeParamsOf(fn)
		if len(tps) != 2 {
			c.Undecided("guard-dominates", name, fn.Pos(), "expected type parameters [S, A]")
			continue
		}
		// terms of ft and fv
		isFT := func(t *ir.Term) bool {
			return t.Op == "field" && t.Aux == "Type" && t.Args[0].Op == "field" && t.Args[0].Aux == "StructField" && paramOf(t.Args[0].Args[0], fn, 0)
		}
		typeOfNew := func(t *ir.Term, tp *types.TypeParam) bool {
			// the descriptor of the type parameter itself: reflect.TypeOf(new(X)).Elem(), reflect.TypeFor[X](), ...
			return t.Op == "rtype" && t.Typ != nil && types.Identical(t.Typ, tp)
		}
		isFV := func(t *ir.Term) bool { return typeOfNew(t, tps[1]) }
		okDom, okA, okB, okKind := true, true, true, true
		nRet := 0
		for _, p := range an.AllPaths() {
			if p.Exit != ir.ExitReturn {
				continue
			}
			nRet++
			var strEq, assignable, ident, kindStruct bool
			for _, s := range p.Events(ir.KBranch) {
				at := s.Atom
				switch {
				case at.Op == "bin" && at.Aux == "==" && len(at.Args) == 2:
					a, b := at.Args[0], at.Args[1]
					isStr := func(t *ir.Term, pred func(*ir.Term) bool) bool {
						return t.Op == "pure" && strings.HasSuffix(t.Aux, ".String") && len(t.Args) == 1 && pred(t.Args[0])
					}
					if s.Pol && (isStr(a, isFT) && isStr(b, isFV) || isStr(a, isFV) && isStr(b, isFT)) {
						strEq = true
					}
					if s.Pol && (isFT(a) && isFV(b) || isFV(a) && isFT(b)) {
						ident = true
					}
					// Kind() == reflect.Struct of the container type
					isKindS := func(t *ir.Term) bool {
						return t.Op == "pure" && strings.HasSuffix(t.Aux, ".Kind") && len(t.Args) == 1 && typeOfNew(t.Args[0], tps[0])
					}
					if k, isK := a.IntConst(); isK && k == 25 && isKindS(b) && s.Pol {
						kindStruct = true
					}
					if k, isK := b.IntConst(); isK && k == 25 && isKindS(a) && s.Pol {
						kindStruct = true
					}
				case at.Op == "pure" && strings.HasSuffix(at.Aux, ".AssignableTo") && len(at.Args) == 2:
					if s.Pol && isFT(at.Args[0]) && isFV(at.Args[1]) {
						assignable = true
					}
				}
			}
			// the returned value is the fresh literal holding exactly the hseq.Type argument
			res := p.Results[0]
			lit := p.End.MemAt(res)
			holds := false
			if res.Op == "alloc" && lit != nil && lit.Op == "lit" && len(lit.Args) >= 1 {
				// exactly one field is the descriptor argument itself; anything else the lens caches is computed from
				// that argument alone
				nDesc := 0
				derived := true
				for _, kv := range lit.Args {
					if kv.Op != "kv" || len(kv.Args) != 1 {
						derived = false
						continue
					}
					if paramOf(kv.Args[0], fn, 0) {
						nDesc++
					} else if v := kv.Args[0]; v.Op == "pure" && (strings.HasPrefix(v.Aux, "fmt.Sprint") || strings.HasPrefix(v.Aux, "strconv.")) {
						// a formatted string (a debug name): holds no reference, decides no address
					} else if !pureOverParam(kv.Args[0], fn, 0) {
						derived = false
					}
				}
				holds = nDesc == 1 && derived
			}
			if !holds {
				okDom = false
				c.Fail("guard-dominates", name, fn.Pos(), "the constructor returns %s, expected a fresh lens holding its hseq.Type argument", short(res))
			}
			if !(ident || (strEq && assignable)) {
				okA = false
				c.Fail("guard-strength-A", name, fn.Pos(), "a returning path constructs the lens without having established that the entry's field type equals the focus type (String()-equality=%v, AssignableTo=%v, identity=%v): a mismatching focus type is silently accepted", strEq, assignable, ident)
			}
			if !ident {
				okB = false
			}
			if !kindStruct {
				okKind = false
			}
		}
		if nRet == 0 {
			c.Fail("guard-dominates", name, fn.Pos(), "constructor never returns")
			continue
		}
		if okDom {
			c.Ok("guard-dominates", name, fn.Pos(), fmt.Sprintf("%d returning paths, each behind the guard; %d panicking paths", nRet, an.NPaths-nRet))
		}
		if okA {
			c.Ok("guard-strength-A", name, fn.Pos(), "ft.String() == fv.String() && ft.AssignableTo(fv), or ft == fv")
		}
		if okB {
			c.Ok("guard-strength-B", name, fn.Pos(), "ft == fv")
		} else if okA {
			c.Fail("guard-strength-B", name, fn.Pos(), "the guard is String()-equality plus AssignableTo, not type identity: two distinct types that print alike and are assignable (a/foo.T struct field vs b/foo.T interface it implements) are accepted, and the typed store then writes a value of another size")
		}
		if okKind {
			c.Ok("container-kind", name, fn.Pos(), "reflect.TypeOf(new(S)).Elem().Kind() == reflect.Struct")
		} else {
			c.Fail("container-kind", name, fn.Pos(), "no check that the container type parameter S is a struct dominates the construction: ForProduct1[*P, int](...) returns a lens whose Put writes through a **P")
		}
	}

}

// pureOverParam: t is an arithmetic / projection expression whose only non-constant leaf is parameter i of fn.
func pureOverParam(t *ir.Term, fn *ssa.Function, i int) bool {
	ok, found := true, false
	t.Walk(func(x *ir.Term) {
		switch x.Op {
		case "const":
		case "param":
			if paramOf(x, fn, i) {
				found = true
			} else {
				ok = false
			}
		case "bin", "field", "conv", "un", "pure", "rtype", "method", "len":
			// pure: the modelled side-effect free library functions (fmt.Sprintf for a debug name, reflect's
			// accessors); rtype: the reflect.Type of a type parameter - a constant of the instantiation
		default:
			ok = false
		}
	})
	return ok && found
}

// namedBehindPtr: the named type t is, or points to (unsafe.Pointer excluded).
func namedBehindPtr(t types.Type) *types.Named {
	if p, ok := t.(*types.Pointer); ok {
		t = p.Elem()
	}
	n, _ := t.(*types.Named)
	return n
}


// panicPropagates: derivation "panics at derivation time" - for the caller. A deferred function that calls recover()
// and returns normally on some path where the recovered value is not nil turns that panic into a normal return of the
// deriving function (with zero results: nil optics). Every function of the given packages that calls recover() must,
// on every path that returns, have found the recovered value nil.
func panicPropagates(c *core.Ctx, rule string, pkgs ...string) {
	n := 0
	for _, pkg := range pkgs {
		for _, fn := range c.W.SourceFuncs(pkg) {
			has := false
			for _, b := range fn.Blocks {
				for _, in := range b.Instrs {
					if call, ok := in.(*ssa.Call); ok {
						if bi, isB := call.Call.Value.(*ssa.Builtin); isB && bi.Name() == "recover" {
							has = true
						}
					}
				}
			}
			if !has {
				continue
			}
			n++
			name := pkgShort(pkg) + "." + fnLabel(fn)
			an := c.AnalyzeLoops(fn)
			if problems(c, rule, name, an) {
				continue
			}
			ok := true
			for _, p := range an.AllPaths() {
				if p.Exit != ir.ExitReturn {
					continue
				}
				for _, st := range p.Events(ir.KCall) {
					if st.Callee == nil || st.Callee.Op != "builtin" || st.Callee.Aux != "recover" || st.R == nil {
						continue
					}
					if polarity(p, &ir.Term{Op: "bin", Aux: "==", Args: sorted2(ir.Nil, st.R)}) <= 0 {
						ok = false
						c.Fail(rule, name, lastPos(p), "the function recovers a panic and returns normally on a path that has not found the recovered value nil: a panic raised during derivation (reflect's own panics are plain strings, not errors) is swallowed and the deriving function returns zero optics instead of panicking")
					}
				}
				if !ok {
					break
				}
			}
			if ok {
				c.Ok(rule, name, fn.Pos(), "every returning path found recover() == nil")
			}
		}
	}
	if n == 0 {
		c.Ok(rule, "hseq+optics", 0, "no function calls recover()")
	}
}
