package rules

import (
	"fmt"
	"go/types"
	"sort"

	"golang.org/x/tools/go/ssa"

	"verif/checker/internal/core"
	"verif/checker/internal/ir"
)

// catchImpl summarises one closed-world implementation of the error hand-off
// roles (catch / errch) of pipe.F / pipe.FF / fork.F / fork.FF.
type catchImpl struct {
	TypeName string
	Named    *types.Named
	Catch    *ssa.Function
	Errch    *ssa.Function
	// catch summary
	Kind        string // "fail-fast" | "try" | "?"
	Why         string
	PlainSends  int  // max plain sends of err on exx over all paths
	AlwaysFalse bool // returns constant false on every path
	// errch summary
	CapConst int64 // >0: make(chan error, k) with constant k
	CapParam bool  // make(chan error, cap) of its parameter
}

// catchImpls enumerates the implementations in a package (interfaces with
// unexported methods are closed worlds: only the declaring package implements them).
func catchImpls(c *core.Ctx, pkg string) []*catchImpl {
	sp := c.W.SSA[pkg]
	if sp == nil {
		return nil
	}
	var out []*catchImpl
	var names []string
	for n := range sp.Members {
		names = append(names, n)
	}
	sort.Strings(names)
	// the closed-world interfaces that carry the hand-off role: a type is an implementation only when it has every
	// method such an interface asks for (a helper type that merely offers catch/errch-shaped methods to the
	// implementations - a shared failure policy - is reached through them, by inlining, and is not one itself)
	var roleIfaces [][]string
	var roleTypes []*types.Interface
	for _, n := range names {
		t, ok := sp.Members[n].(*ssa.Type)
		if !ok {
			continue
		}
		it, ok := t.Type().Underlying().(*types.Interface)
		if !ok {
			continue
		}
		has := false
		var ms []string
		for i := 0; i < it.NumMethods(); i++ {
			m := it.Method(i)
			ms = append(ms, m.Name())
			if sig, ok := m.Type().(*types.Signature); ok && sigIsCatch(sig) {
				has = true
			}
		}
		if has {
			roleIfaces = append(roleIfaces, ms)
			roleTypes = append(roleTypes, it)
		}
	}
	// an interface that is only a part of another role interface (`recovery` embedded in F and FF: every method of
	// it is a method of the other with the identical signature) does not define the closed world
	{
		var maximal [][]string
		for i, a := range roleTypes {
			part := false
			for j, b := range roleTypes {
				if i == j || b.NumMethods() <= a.NumMethods() {
					continue
				}
				all := true
				for k := 0; k < a.NumMethods(); k++ {
					am := a.Method(k)
					found := false
					for l := 0; l < b.NumMethods(); l++ {
						if bm := b.Method(l); bm.Name() == am.Name() && types.Identical(bm.Type(), am.Type()) {
							found = true
						}
					}
					if !found {
						all = false
					}
				}
				if all {
					part = true
				}
			}
			if !part {
				maximal = append(maximal, roleIfaces[i])
			}
		}
		roleIfaces = maximal
	}
	implements := func(named *types.Named) bool {
		if len(roleIfaces) == 0 {
			return true
		}
		have := map[string]bool{}
		for i := 0; i < named.NumMethods(); i++ {
			have[named.Method(i).Name()] = true
		}
		if st, ok := named.Underlying().(*types.Struct); ok {
			for i := 0; i < st.NumFields(); i++ {
				if st.Field(i).Embedded() {
					ms := types.NewMethodSet(types.NewPointer(st.Field(i).Type()))
					for j := 0; j < ms.Len(); j++ {
						have[ms.At(j).Obj().Name()] = true
					}
				}
			}
		}
	next:
		for _, ms := range roleIfaces {
			for _, m := range ms {
				if !have[m] {
					continue next
				}
			}
			return true
		}
		return false
	}
	for _, n := range names {
		t, ok := sp.Members[n].(*ssa.Type)
		if !ok {
			continue
		}
		named, ok := t.Type().(*types.Named)
		if !ok {
			continue
		}
		if _, isIface := named.Underlying().(*types.Interface); isIface || !implements(named) {
			continue
		}
		ci := &catchImpl{TypeName: pkgShort(pkg) + "." + n, Named: named}
		// own methods and the ones promoted from an embedded strategy value (resolved to the declaring method)
		mset := types.NewMethodSet(types.NewPointer(named))
		for i := 0; i < mset.Len(); i++ {
			m, ok := mset.At(i).Obj().(*types.Func)
			if !ok {
				continue
			}
			sig := m.Type().(*types.Signature)
			if !sigIsCatch(sig) && !sigIsErrch(sig) {
				continue
			}
			fv := c.W.Prog.FuncValue(m)
			if fv == nil || len(fv.Blocks) == 0 {
				fv = c.W.Prog.FuncValue(m.Origin())
			}
			if fv == nil {
				continue
			}
			if sigIsCatch(sig) {
				ci.Catch = fv
			} else {
				ci.Errch = fv
			}
		}
		if ci.Catch == nil && ci.Errch == nil {
			continue
		}
		summariseCatch(c, ci)
		out = append(out, ci)
	}
	return out
}

func summariseCatch(c *core.Ctx, ci *catchImpl) {
	ci.Kind = "?"
	if ci.Catch != nil {
		fn := ci.Catch
		an := c.Analyze(fn)
		if len(an.Problems) > 0 || len(an.Headers) > 0 {
			ci.Why = "catch has loops or could not be modelled"
		} else {
			np := len(fn.Params)
			ctxP, errP, exxP := np-3, np-2, np-1
			ci.AlwaysFalse = true
			failFast, try := true, true
			for _, p := range an.AllPaths() {
				if p.Exit != ir.ExitReturn || len(p.Results) != 1 {
					ci.Why = "catch can panic"
					failFast, try, ci.AlwaysFalse = false, false, false
					continue
				}
				ret := p.Results[0]
				if !(ret.IsConst() && ret.Aux == "false") {
					ci.AlwaysFalse = false
				}
				plain, sel, sentBySelect := 0, 0, false
				for i := range p.Steps {
					st := &p.Steps[i]
					switch st.Kind {
					case ir.KSend:
						if paramOf(st.A[0], fn, exxP) && paramOf(st.A[1], fn, errP) {
							plain++
						} else {
							ci.Why = "catch sends something other than (exx <- err)"
							failFast, try = false, false
						}
					case ir.KSelect:
						sel++
						sendArm, dArm := -1, -1
						for j, a := range st.Arms {
							if a.Send && paramOf(a.Chan, fn, exxP) && paramOf(a.Val, fn, errP) {
								sendArm = j
							}
							if !a.Send {
								if m, _, args, ok := callParts(a.Chan); ok && m == "Done" && len(args) == 1 && paramOf(args[0], fn, ctxP) {
									dArm = j
								}
							}
						}
						if len(st.Arms) != 2 || !st.Blocking || sendArm < 0 || dArm < 0 {
							failFast, try = false, false
							ci.Why = "select of catch is not {exx <- err | <-ctx.Done()}"
							continue
						}
						sentBySelect = st.Chosen == sendArm
						want := "false"
						if sentBySelect {
							want = "true"
						}
						if !(ret.IsConst() && ret.Aux == want) {
							try = false
							if ci.Why == "" {
								ci.Why = fmt.Sprintf("catch returns %s when arm %d of its select is taken (the try form returns %s)", short(ret), st.Chosen, want)
							}
						}
					case ir.KRecv, ir.KGo, ir.KClose, ir.KDefer:
						failFast, try = false, false
						ci.Why = "catch performs unexpected channel/goroutine operations"
					}
				}
				if plain > ci.PlainSends {
					ci.PlainSends = plain
				}
				// one hand-off attempt per path
				if plain+sel != 1 {
					failFast, try = false, false
					if ci.Why == "" {
						ci.Why = fmt.Sprintf("a path of catch makes %d hand-off attempts (want exactly 1)", plain+sel)
					}
				}
				if plain != 0 {
					try = false
				}
			}
			if !ci.AlwaysFalse {
				failFast = false
				if ci.Why == "" {
					ci.Why = "catch does not return false on every path"
				}
			}
			switch {
			case failFast:
				ci.Kind = "fail-fast"
			case try:
				ci.Kind = "try"
			}
		}
	}
	if ci.Errch != nil {
		fn := ci.Errch
		an := c.Analyze(fn)
		if len(an.Problems) == 0 {
			ps := an.AllPaths()
			if len(ps) == 1 && ps[0].Exit == ir.ExitReturn && len(ps[0].Results) == 1 && ps[0].Results[0].Op == "mkchan" {
				capT := ps[0].Results[0].Args[0]
				if k, ok := capT.IntConst(); ok {
					ci.CapConst = k
				} else if paramOf(capT, fn, len(fn.Params)-1) {
					ci.CapParam = true
				}
			}
		}
	}
}

func allPathsSendOnce(an *ir.Analysis, fn *ssa.Function) bool {
	for _, p := range an.AllPaths() {
		n := 0
		for i := range p.Steps {
			if p.Steps[i].Kind == ir.KSend {
				n++
			}
		}
		if n != 1 {
			return false
		}
	}
	return true
}
