package rules

import (
	"fmt"
	"go/types"
	"sort"

	"golang.org/x/tools/go/ssa"

	"verif/checker/internal/core"
	"verif/checker/internal/ir"
)

// catchImpl summarises one closed-world implementation of the error hand-off
// roles (catch / errch) of pipe.F / pipe.FF / fork.F / fork.FF.
type catchImpl struct {
	TypeName string
	Named    *types.Named
	Catch    *ssa.Function
	Errch    *ssa.Function
	// catch summary
	Kind        string // "fail-fast" | "try" | "?"
	Why         string
	PlainSends  int  // max plain sends of err on exx over all paths
	AlwaysFalse bool // returns constant false on every path
	// errch summary
	CapConst int64 // >0: make(chan error, k) with constant k
	CapParam bool  // make(chan error, cap) of its parameter
}

// catchImpls enumerates the implementations in a package (interfaces with
// unexported methods are closed worlds: only the declaring package implements them).
func catchImpls(c *core.Ctx, pkg string) []*catchImpl {
	sp := c.W.SSA[pkg]
	if sp == nil {
		return nil
	}
	var out []*catchImpl
	var names []string
	for n := range sp.Members {
		names = append(names, n)
	}
	sort.Strings(names)
	// the closed-world interfaces that carry the hand-off role: a type is an implementation only when it has every
	// method such an interface asks for (a helper type that merely offers catch/errch-shaped methods to the
	// implementations - a shared failure policy - is reached through them, by inlining, and is not one itself)
	var roleIfaces [][]string
	var roleTypes []*types.Interface
	for _, n := range names {
		t, ok := sp.Members[n].(*ssa.Type)
		if !ok {
			continue
		}
		it, ok := t.Type().Underlying().(*types.Interface)
		if !ok {
			continue
		}
		has := false
		var ms []string
		for i := 0; i < it.NumMethods(); i++ {
			m := it.Method(i)
			ms = append(ms, m.Name())
			if sig, ok := m.Type().(*types.Signature); ok && sigIsCatch(sig) {
				has = true
			}
		}
		if has {
			roleIfaces = append(roleIfaces, ms)
			roleTypes = append(roleTypes, it)
		}
	}
	// an interface that is only a part of another role interface (`recovery` embedded in F and FF: every method of
	// it is a method of the other with the identical signature) does not define the closed world
	{
		var maximal [][]string
		for i, a := range roleTypes {
			part := false
			for j, b := range roleTypes {
				if i == j || b.NumMethods() <= a.NumMethods() {
					continue
				}
				all := true
				for k := 0; k < a.NumMethods(); k++ {
					am := a.Method(k)
					found := false
					for l := 0; l < b.NumMethods(); l++ {
						if bm := b.Method(l); bm.Name() == am.Name() && types.Identical(bm.Type(), am.Type()) {
							found = true
						}
					}
					if !found {
						all = false
					}
				}
				if all {
					part = true
				}
			}
			if !part {
				maximal = append(maximal, roleIfaces[i])
			}
		}
		roleIfaces = maximal
	}
	implements := func(named *types.Named) bool {
		if len(roleIfaces) == 0 {
			return true
		}
		have := map[string]bool{}
		for i := 0; i < named.NumMethods(); i++ {
			have[named.Method(i).Name()] = true
		}
		if st, ok := named.Underlying().(*types.Struct); ok {
			for i := 0; i < st.NumFields(); i++ {
				if st.Field(i).Embedded() {
					ms := types.NewMethodSet(types.NewPointer(st.Field(i).Type()))
					for j := 0; j < ms.Len(); j++ {
						have[ms.At(j).Obj().Name()] = true
					}
				}
			}
		}
	next:
		for _, ms := range roleIfaces {
			for _, m := range ms {
				if !have[m] {
					continue next
				}
			}
			return true
		}
		return false
	}
	for _, n := range names {
		t, ok := sp.Members[n].(*ssa.Type)
		if !ok {
			continue
		}
		named, ok := t.Type().(*types.Named)
		if !ok {
			continue
		}
		if _, isIface := named.Underlying().(*types.Interface); isIface || !implements(named) {
			continue
		}
		ci := &catchImpl{TypeName: pkgShort(pkg) + "." + n, Named: named}
		// own methods and the ones promoted from an embedded strategy value (resolved to the declaring method)
		mset := types.NewMethodSet(types.NewPointer(named))
		for i := 0; i < mset.Len(); i++ {
			m, ok := mset.At(i).Obj().(*types.Func)
			if !ok {
				continue
			}
			sig := m.Type().(*types.Signature)
			if !sigIsCatch(sig) && !sigIsErrch(sig) {
				continue
			}
			fv := c.W.Prog.FuncValue(m)
			if fv == nil || len(fv.Blocks) == 0 {
				fv = c.W.Prog.FuncValue(m.Origin())
			}
			if fv == nil {
				continue
			}
			if sigIsCatch(sig) {
				ci.Catch = fv
			} else {
				ci.Errch = fv
			}
		}
		if ci.Catch == nil && ci.Errch == nil {
			continue
		}
		summariseCatch(c, ci)
		out = append(out, ci)
	}
	return out
}

func summariseCatch(c *core.Ctx, ci *catchImpl) {
	ci.Kind = "?"
	if ci.Catch != nil {
		fn := ci.Catch
		an := c.Analyze(fn)
		if len(an.Problems) > 0 || len(an.Headers) > 0 {
			ci.Why = "catch has loops or could not be modelled"
		} else {
			np := len(fn.Params)
			ctxP, errP, exxP := np-3, np-2, np-1
			ci.AlwaysFalse = true
			failFast, try := true, true
			bad := func(why string) {
				failFast, try = false, false
				if ci.Why == "" {
					ci.Why = why
				}
			}
			// Every path of catch is read as a sequence of hand-off attempts: a plain send of the error, or a select
			// whose arms are the send of the error on exx and / or <-ctx.Done(), with or without a default. What the
			// two forms have to guarantee, whatever the sequence looks like: the error is handed over at most once and
			// nothing is attempted after that; a path that ends without having handed it over has seen the context
			// done (never just given up); try answers true exactly when it was handed over, fail-fast answers false
			// always. A path on which the error or the channel was found nil cannot be taken by any caller.
			for _, p := range an.AllPaths() {
				nilArg := false
				for _, b := range p.Events(ir.KBranch) {
					at := b.Atom
					if at.Op == "bin" && at.Aux == "==" && len(at.Args) == 2 && b.Pol {
						for j := 0; j < 2; j++ {
							if at.Args[j].IsNil() && (paramOf(at.Args[1-j], fn, errP) || paramOf(at.Args[1-j], fn, exxP)) {
								nilArg = true
							}
						}
					}
				}
				if nilArg {
					continue
				}
				plain, sent, cancelled, gaveUp, sentBlind := 0, 0, false, false, false
				afterSent := false
				for i := range p.Steps {
					st := &p.Steps[i]
					switch st.Kind {
					case ir.KSend:
						if paramOf(st.A[0], fn, exxP) && paramOf(st.A[1], fn, errP) {
							if sent > 0 {
								afterSent = true
							}
							plain++
							sent++
							gaveUp = false
						} else {
							bad("catch sends something other than (exx <- err)")
						}
					case ir.KSelect:
						sendArm, dArm, other := -1, -1, false
						for j, a := range st.Arms {
							switch {
							case a.Send && paramOf(a.Chan, fn, exxP) && paramOf(a.Val, fn, errP):
								sendArm = j
							case !a.Send && func() bool {
								m, _, args, ok := callParts(a.Chan)
								return ok && m == "Done" && len(args) == 1 && paramOf(args[0], fn, ctxP)
							}():
								dArm = j
							default:
								other = true
							}
						}
						if other || sendArm < 0 && dArm < 0 {
							bad("select of catch is not {exx <- err | <-ctx.Done()}")
							continue
						}
						if st.Blocking && dArm < 0 {
							bad("a blocking select of catch has no <-ctx.Done() arm")
							continue
						}
						if sent > 0 {
							afterSent = true
						}
						switch {
						case st.Chosen >= 0 && st.Chosen == sendArm:
							sent++
							gaveUp = false
							if dArm < 0 {
								sentBlind = true // handed over by a non-blocking attempt that never looks at the context
							}
						case st.Chosen >= 0 && st.Chosen == dArm:
							cancelled = true
						default:
							gaveUp = true // default arm: this attempt found no room
						}
					case ir.KRecv, ir.KGo, ir.KClose, ir.KDefer:
						bad("catch performs unexpected channel/goroutine operations")
					}
				}
				if plain > ci.PlainSends {
					ci.PlainSends = plain
				}
				if p.Exit == ir.ExitPanic {
					// `select { case exx <- err: default: panic("no room") }` in the fail-fast form: the claim that the
					// channel has room is the capacity claim errch-capacity / accounted-send check; any other panic is one
					if sent == 0 && gaveUp && plain == 0 {
						try = false
						continue
					}
					ci.AlwaysFalse = false
					bad("catch can panic")
					continue
				}
				if p.Exit != ir.ExitReturn || len(p.Results) != 1 {
					ci.AlwaysFalse = false
					bad("catch can panic")
					continue
				}
				ret := p.Results[0]
				if !(ret.IsConst() && ret.Aux == "false") {
					ci.AlwaysFalse = false
				}
				if sent > 1 || afterSent {
					bad(fmt.Sprintf("a path of catch hands the error over %d times / goes on after having handed it over (want exactly 1 hand-off)", sent))
				}
				if sent == 0 && !cancelled && gaveUp && ret.IsConst() && ret.Aux == "false" {
					// `select { case exx <- err: default: }` in the fail-fast form: whether the channel always has room is
					// the very capacity claim a plain send needs (constant capacity >= 1, one send per stage because every
					// caller leaves on false; per-stage accounting in fork) - the attempt is accounted as a plain send, so
					// that claim is checked (errch-capacity, catch-impl-blocking, exx-capacity). Not the try form.
					try = false
					if ci.PlainSends < 1 {
						ci.PlainSends = 1
					}
					continue
				}
				if sent == 0 && !cancelled {
					bad("a path of catch makes 0 hand-off attempts (want exactly 1)")
					if gaveUp {
						ci.Why = "a path of catch gives up without having handed the error over and without the context being done: the error is lost"
					}
				}
				if plain != 0 {
					try = false
				}
				if sent == 1 && sentBlind && !(ret.IsConst() && ret.Aux == "false") {
					// the try form is a stage's only look at the context on its failure path (`if !catch {return}; continue`
					// skips the stage's own select): a hand-over that succeeds without a <-ctx.Done() arm beside it - a
					// non-blocking fast path in front of the real select - lets a stage whose function keeps failing run on
					// after cancellation for as long as the error channel has room or a reader
					try = false
					if ci.Why == "" {
						ci.Why = "a path of catch hands the error over and reports 'go on' without a <-ctx.Done() arm beside the send (non-blocking fast path): on the failure path the stage never observes cancellation while the error channel has room"
					}
				}
				want := "false"
				if sent == 1 {
					want = "true"
				}
				if !(ret.IsConst() && ret.Aux == want) {
					try = false
					if ci.Why == "" {
						ci.Why = fmt.Sprintf("catch returns %s on a path that %s (the try form returns %s)", short(ret), map[bool]string{true: "handed the error over", false: "saw the context done"}[sent == 1], want)
					}
				}
			}
			if !ci.AlwaysFalse {
				failFast = false
				if ci.Why == "" {
					ci.Why = "catch does not return false on every path"
				}
			}
			switch {
			case failFast:
				ci.Kind = "fail-fast"
			case try:
				ci.Kind = "try"
			}
		}
	}
	if ci.Errch != nil {
		fn := ci.Errch
		an := c.Analyze(fn)
		if len(an.Problems) == 0 {
			ps := an.AllPaths()
			if len(ps) == 1 && ps[0].Exit == ir.ExitReturn && len(ps[0].Results) == 1 && ps[0].Results[0].Op == "mkchan" {
				capT := ps[0].Results[0].Args[0]
				if k, ok := capT.IntConst(); ok {
					ci.CapConst = k
				} else if paramOf(capT, fn, len(fn.Params)-1) {
					ci.CapParam = true
				} else if d, isD := plusConst(capT, &ir.Term{Op: "param", Aux: fn.Params[len(fn.Params)-1].Name(), Src: fn.Params[len(fn.Params)-1]}); isD && d >= 0 {
					ci.CapParam = true // the requested capacity and some more
				}
			} else if len(ps) > 1 {
				// the requested capacity, clamped from below: every path returns a channel of the requested capacity (or
				// more), or of a constant capacity >= 0 on a path that found the request smaller than a constant
				capP := fn.Params[len(fn.Params)-1]
				all, anyParam := true, false
				for _, p := range ps {
					if p.Exit != ir.ExitReturn || len(p.Results) != 1 || p.Results[0].Op != "mkchan" {
						all = false
						break
					}
					capT := p.Results[0].Args[0]
					if paramOf(capT, fn, len(fn.Params)-1) {
						anyParam = true
						continue
					}
					if d, isD := plusConst(capT, &ir.Term{Op: "param", Aux: capP.Name(), Src: capP}); isD && d >= 0 {
						anyParam = true
						continue
					}
					k, isK := capT.IntConst()
					clamped := false
					for _, b := range p.Events(ir.KBranch) {
						if b.Atom.Op == "bin" && (b.Atom.Aux == "<" || b.Atom.Aux == "<=") && len(b.Atom.Args) == 2 && b.Pol && paramOf(b.Atom.Args[0], fn, len(fn.Params)-1) {
							if c0, isC := b.Atom.Args[1].IntConst(); isC && c0 <= k+1 {
								clamped = true
							}
						}
					}
					if !(isK && k >= 0 && clamped) {
						all = false
					}
				}
				if all && anyParam {
					ci.CapParam = true
				}
			}
		}
	}
}

func allPathsSendOnce(an *ir.Analysis, fn *ssa.Function) bool {
	for _, p := range an.AllPaths() {
		n := 0
		for i := range p.Steps {
			if p.Steps[i].Kind == ir.KSend {
				n++
			}
		}
		if n != 1 {
			return false
		}
	}
	return true
}
