package rules

import (
	"fmt"
	"go/constant"
	"go/token"
	"go/types"

	"golang.org/x/tools/go/ssa"

	"verif/checker/internal/core"
	"verif/checker/internal/ir"
)

// Traversal rule of the skip list (C18), independent of how the loops are written.
//
// A traversal keeps a cursor N (a node), possibly a cached copy NX of N's finger slice, and a level counter L.
// The function is cut at its loop heads (helpers are inlined together with their loops); every segment between two
// cut points is classified by the *candidate test* it contains - the inspection of cand = N.fingers[idx]:
//
//	transit   no test                       cursor and level variable unchanged, no store
//	less      cand != nil, key(cand) < key  cursor := cand (and NX := cand.fingers), level unchanged, no store
//	stop      cand == nil or not less       cursor unchanged, level := level-1 at the level loop's head;
//	                                        the path-recording traversal stores path[idx] := N exactly once
//
// with idx = L + c for one constant c (0 for `for l := n-1; l >= 0; l--`, -1 for `for l := n; l > 0; { l--; ...`).
// The level loop's head lets a pass begin iff idx >= 0 and leaves iff idx < 0 (decided by evaluating the branch
// atoms over a window of integers), the entry starts at the head node, the result is the level-0 successor of the
// final cursor. NX is related to N by the invariant NX = N.fingers, assumed at the start of a segment and proved at
// its end. A segment of any other shape is undecided.
type travModel struct {
	c    *core.Ctx
	name string
	fn   *ssa.Function
	an   *ir.Analysis
	lp   *ssa.Phi // the level counter
	hL   *ssa.BasicBlock
	node map[*ssa.BasicBlock]*ssa.Phi
	nx   map[*ssa.BasicBlock]*ssa.Phi
	// cc: a cached candidate - a second node register of a loop head that holds the cursor's successor on the current
	// level (succ := node.fingers[level] bound before the inner loop and refreshed after every advance); related to the
	// cursor by the invariant cc = N.fingers[L + ccOff], assumed at the start of a segment and proved at every arrival
	cc    map[*ssa.BasicBlock]*ssa.Phi
	ccOff map[*ssa.BasicBlock]int64
	// ghost: the head carries no node register at all - the cursor is the (unnamed) node whose finger slice the
	// head's slice register holds; it is named by a ghost symbol and recovered at arrivals from slice = N'.fingers
	ghost map[*ssa.BasicBlock]bool
	LT    int64
	GT    int64
	// results
	okCmp, okLvl, okEff bool
	lvFields            map[string]bool
	startChecked        bool
	nTests              int
	probe               bool // first pass: only collect the index offset, report nothing
	cIdx                *int64
}

// cursorAt: the term naming the cursor at head h in state st (its register, or the ghost symbol).
func (m *travModel) cursorAt(h *ssa.BasicBlock, st *ir.State) *ir.Term {
	if m.node[h] != nil && !m.ghost[h] {
		return st.Reg(m.node[h])
	}
	return &ir.Term{Op: "sym", Aux: fmt.Sprintf("cursor@b%d", h.Index)}
}

// nodeOfFingers: t = N.fingers for some node term N.
func nodeOfFingers(t *ir.Term) *ir.Term {
	if t != nil && t.Op == "load" && len(t.Args) == 1 && t.Args[0].Op == "faddr" && t.Args[0].Aux == fFingers && len(t.Args[0].Args) == 1 {
		return t.Args[0].Args[0]
	}
	return nil
}

func fingersOf(n *ir.Term) *ir.Term {
	return &ir.Term{Op: "load", Aux: "0", Args: []*ir.Term{{Op: "faddr", Aux: fFingers, Args: []*ir.Term{n}}}}
}

// isFingerAt: t = load(iaddr(fingers(n), idx)) for the given n; returns idx.
func isFingerAt(t, n *ir.Term) (*ir.Term, bool) {
	if t == nil || t.Op != "load" || len(t.Args) != 1 || t.Args[0].Op != "iaddr" || len(t.Args[0].Args) != 2 {
		return nil, false
	}
	base := t.Args[0].Args[0]
	if base.Op == "load" && len(base.Args) == 1 && base.Args[0].Op == "faddr" && base.Args[0].Aux == fFingers && ir.Same(base.Args[0].Args[0], n) {
		return t.Args[0].Args[1], true
	}
	return nil, false
}

// substTerm replaces every occurrence of from (by key) with to.
func substTerm(t, from, to *ir.Term) *ir.Term {
	if t == nil || from == nil {
		return t
	}
	if ir.Same(t, from) {
		return to
	}
	if len(t.Args) == 0 {
		return t
	}
	changed := false
	args := make([]*ir.Term, len(t.Args))
	for i, a := range t.Args {
		args[i] = substTerm(a, from, to)
		if args[i] != a {
			changed = true
		}
	}
	if !changed {
		return t
	}
	return &ir.Term{Op: t.Op, Aux: t.Aux, Args: args, Fn: t.Fn, Typ: t.Typ, Src: t.Src, Owner: t.Owner, Meth: t.Meth}
}

// linOffset: t = sym + k for an integer constant k (sums and differences of constants around one occurrence of sym).
func linOffset(t, sym *ir.Term) (int64, bool) {
	if t == nil || sym == nil {
		return 0, false
	}
	if ir.Same(t, sym) {
		return 0, true
	}
	if t.Op != "bin" {
		return 0, false
	}
	switch t.Aux {
	case "+":
		var k int64
		found := false
		for _, a := range t.Args {
			if v, isK := a.IntConst(); isK {
				k += v
				continue
			}
			d, ok := linOffset(a, sym)
			if !ok || found {
				return 0, false
			}
			found = true
			k += d
		}
		return k, found
	case "-":
		if len(t.Args) != 2 {
			return 0, false
		}
		if v, isK := t.Args[1].IntConst(); isK {
			d, ok := linOffset(t.Args[0], sym)
			return d - v, ok
		}
	}
	return 0, false
}

// evalLin evaluates t for sym := v; ok=false when t mentions anything but sym and integer constants.
func evalLin(t, sym *ir.Term, v int64) (int64, bool) {
	if k, isK := t.IntConst(); isK {
		return k, true
	}
	if ir.Same(t, sym) {
		return v, true
	}
	if t.Op == "bin" && (t.Aux == "+" || t.Aux == "-") {
		var acc int64
		for i, a := range t.Args {
			x, ok := evalLin(a, sym, v)
			if !ok {
				return 0, false
			}
			if t.Aux == "-" && i > 0 {
				acc -= x
			} else {
				acc += x
			}
		}
		return acc, true
	}
	return 0, false
}

// levelFacts: the set of values v in [-8,8] of the level symbol that are consistent with every branch of p that
// speaks about the level symbol and constants only. any=false when no branch does.
func levelFacts(p *ir.Path, sym *ir.Term) (set map[int64]bool, any bool) {
	set = map[int64]bool{}
	for v := int64(-8); v <= 8; v++ {
		set[v] = true
	}
	for _, b := range p.Events(ir.KBranch) {
		at := b.Atom
		if at.Op != "bin" || len(at.Args) != 2 || (at.Aux != "<" && at.Aux != "==") || !mentions(at, sym) {
			continue
		}
		if _, ok := evalLin(at.Args[0], sym, 0); !ok {
			continue
		}
		if _, ok := evalLin(at.Args[1], sym, 0); !ok {
			continue
		}
		any = true
		for v := int64(-8); v <= 8; v++ {
			x, _ := evalLin(at.Args[0], sym, v)
			y, _ := evalLin(at.Args[1], sym, v)
			truth := x < y
			if at.Aux == "==" {
				truth = x == y
			}
			if truth != b.Pol {
				delete(set, v)
			}
		}
	}
	return
}

func isNodePtrType(t types.Type) bool {
	pt, ok := t.(*types.Pointer)
	if !ok {
		return false
	}
	n, ok := pt.Elem().(*types.Named)
	if !ok {
		return false
	}
	_, isS := n.Underlying().(*types.Struct)
	return isS
}

func isNodeSliceType(t types.Type) bool {
	sl, ok := t.Underlying().(*types.Slice)
	return ok && isNodePtrType(sl.Elem())
}

// lvlOff: t = (the level counter's value during the current pass of the level loop) + k.
// The counter is re-bound only at the level loop's head, so its symbol at any loop head inside the pass, and a join
// symbol of a register computed from it in the pass (level-1 evaluated before an inner loop), denote that value
// plus a constant.
func (m *travModel) lvlOff(t *ir.Term) (int64, bool) {
	if t == nil {
		return 0, false
	}
	if t.Op == "phi" && t.Src != nil {
		return m.ssaLvlOff(t.Src, 0)
	}
	if t.Op != "bin" {
		return 0, false
	}
	switch t.Aux {
	case "+":
		var k int64
		found := false
		for _, a := range t.Args {
			if v, isK := a.IntConst(); isK {
				k += v
				continue
			}
			d, ok := m.lvlOff(a)
			if !ok || found {
				return 0, false
			}
			found = true
			k += d
		}
		return k, found
	case "-":
		if len(t.Args) == 2 {
			if v, isK := t.Args[1].IntConst(); isK {
				d, ok := m.lvlOff(t.Args[0])
				return d - v, ok
			}
		}
	}
	return 0, false
}

func (m *travModel) sameLevel(a, b *ir.Term) bool {
	if ir.Same(a, b) {
		return true
	}
	x, ok1 := m.lvlOff(a)
	y, ok2 := m.lvlOff(b)
	return ok1 && ok2 && x == y
}

func (m *travModel) ssaLvlOff(v ssa.Value, depth int) (int64, bool) {
	if v == ssa.Value(m.lp) {
		return 0, true
	}
	if depth > 4 {
		return 0, false
	}
	if b, ok := v.(*ssa.BinOp); ok && (b.Op == token.ADD || b.Op == token.SUB) {
		if k, isK := b.Y.(*ssa.Const); isK && k.Value != nil {
			if kv, exact := constInt64(k); exact {
				d, ok := m.ssaLvlOff(b.X, depth+1)
				if b.Op == token.SUB {
					kv = -kv
				}
				return d + kv, ok
			}
		}
		if k, isK := b.X.(*ssa.Const); isK && k.Value != nil && b.Op == token.ADD {
			if kv, exact := constInt64(k); exact {
				d, ok := m.ssaLvlOff(b.Y, depth+1)
				return d + kv, ok
			}
		}
	}
	return 0, false
}

func constInt64(k *ssa.Const) (int64, bool) {
	if k.Value == nil || k.Value.Kind() != constant.Int {
		return 0, false
	}
	return constant.Int64Val(k.Value)
}

func (m *travModel) failCmp(pos tokenPosT, format string, a ...any) {
	if m.probe {
		return
	}
	m.okCmp = false
	m.c.Fail("compare-normal-form", m.name, pos, format, a...)
}
func (m *travModel) failLvl(pos tokenPosT, format string, a ...any) {
	if m.probe {
		return
	}
	m.okLvl = false
	m.c.Fail("level-loops", m.name, pos, format, a...)
}
func (m *travModel) failEff(pos tokenPosT, format string, a ...any) {
	if m.probe {
		return
	}
	m.okEff = false
	m.c.Fail("traversal-effects", m.name, pos, format, a...)
}

// traversalRule decides the three traversal obligations for fn; returns the normal form of the advance condition.
func traversalRule(c *core.Ctx, name string, fn *ssa.Function, LT, GT int64, lvFields map[string]bool) string {
	an := c.AnalyzeLoops(fn)
	if problems(c, "compare-normal-form", name, an) {
		return ""
	}
	m := &travModel{c: c, name: name, fn: fn, an: an, node: map[*ssa.BasicBlock]*ssa.Phi{}, nx: map[*ssa.BasicBlock]*ssa.Phi{}, cc: map[*ssa.BasicBlock]*ssa.Phi{}, ccOff: map[*ssa.BasicBlock]int64{}, ghost: map[*ssa.BasicBlock]bool{}, LT: LT, GT: GT, lvFields: lvFields, okCmp: true, okLvl: true, okEff: true}
	second := map[*ssa.BasicBlock]*ssa.Phi{}
	if len(an.Headers) == 0 {
		c.Undecided("level-loops", name, fn.Pos(), "the traversal has no loop")
		return ""
	}
	for _, h := range an.Headers {
		for _, in := range h.Instrs {
			phi, ok := in.(*ssa.Phi)
			if !ok {
				break
			}
			switch {
			case isNodePtrType(phi.Type()):
				if m.node[h] != nil {
					if second[h] != nil {
						c.Undecided("traversal-effects", name, phi.Pos(), "a loop head carries three node registers")
						return ""
					}
					second[h] = phi
					continue
				}
				m.node[h] = phi
			case isNodeSliceType(phi.Type()):
				if m.nx[h] != nil {
					c.Undecided("traversal-effects", name, phi.Pos(), "a loop head carries two finger-slice cursors")
					return ""
				}
				m.nx[h] = phi
			default:
				if b, isB := phi.Type().Underlying().(*types.Basic); isB && b.Info()&types.IsInteger != 0 {
					if tallyOnly(phi, map[ssa.Value]bool{}) {
						continue // a statistic (hops followed): only ever incremented and handed to sync/atomic
					}
					if m.lp != nil && m.lp != phi {
						c.Undecided("level-loops", name, phi.Pos(), "more than one loop-carried integer: the level counter is ambiguous")
						return ""
					}
					m.lp, m.hL = phi, h
				}
			}
		}
	}
	if m.lp == nil {
		c.Fail("level-loops", name, fn.Pos(), "no level counter found")
		return ""
	}
	// two node registers at one head: one is the cursor, the other a cached successor of it - decided from the arrivals
	for h, b := range second {
		a := m.node[h]
		role := func(cur, cache *ssa.Phi) (int64, bool) {
			var d int64
			n := 0
			for _, ps := range an.Segs {
				for _, q := range ps {
					if q.To != h {
						continue
					}
					cv, nv := q.PhiOut[cache], q.PhiOut[cur]
					// the finger slice cached at the head the path starts from stands for its node's fingers
					if q.From != nil && m.nx[q.From] != nil && m.node[q.From] != nil && an.Start[q.From] != nil {
						nxSym, ndSym := an.Start[q.From].Reg(m.nx[q.From]), an.Start[q.From].Reg(m.node[q.From])
						cv, nv = substTerm(cv, nxSym, fingersOf(ndSym)), substTerm(nv, nxSym, fingersOf(ndSym))
					}
					idx, ok := isFingerAt(cv, nv)
					if !ok {
						return 0, false
					}
					var lq *ir.Term
					if h == m.hL {
						lq = q.PhiOut[m.lp]
					} else if q.End != nil {
						lq = q.End.Reg(m.lp)
					}
					k, ok := linOffset(idx, lq)
					if !ok || (n > 0 && k != d) {
						return 0, false
					}
					d = k
					n++
				}
			}
			return d, n > 0
		}
		if d, ok := role(a, b); ok {
			m.cc[h], m.ccOff[h] = b, d
		} else if d, ok := role(b, a); ok {
			m.node[h], m.cc[h], m.ccOff[h] = b, a, d
		} else {
			c.Undecided("traversal-effects", name, b.Pos(), "a loop head carries two node registers and neither is the other's successor on the current level at every arrival")
			return ""
		}
	}
	// heads without a node register but with a finger-slice register: the cursor is a ghost
	for _, h := range an.Headers {
		if m.node[h] == nil && m.nx[h] != nil {
			m.ghost[h] = true
		}
	}
	// heads with one node register and a finger-slice register: the node register is the cursor (slice = node.fingers
	// at every arrival) or the cached successor of a ghost cursor (node = N'.fingers[level+d] with slice = N'.fingers)
	for _, h := range an.Headers {
		P := m.node[h]
		if P == nil || m.nx[h] == nil || second[h] != nil {
			continue
		}
		arrive := func(asGhost bool) (xs, ps, ls []*ir.Term) {
			for _, ps2 := range an.Segs {
				for _, q := range ps2 {
					if q.To != h {
						continue
					}
					xv, pv := q.PhiOut[m.nx[h]], q.PhiOut[P]
					if q.From != nil && m.nx[q.From] != nil && an.Start[q.From] != nil {
						var src *ir.Term
						if q.From == h && asGhost || m.ghost[q.From] {
							src = &ir.Term{Op: "sym", Aux: fmt.Sprintf("cursor@b%d", q.From.Index)}
						} else if m.node[q.From] != nil {
							src = an.Start[q.From].Reg(m.node[q.From])
						}
						if src != nil {
							nxSym := an.Start[q.From].Reg(m.nx[q.From])
							xv, pv = substTerm(xv, nxSym, fingersOf(src)), substTerm(pv, nxSym, fingersOf(src))
						}
					}
					var lq *ir.Term
					if h == m.hL {
						lq = q.PhiOut[m.lp]
					} else if q.End != nil {
						lq = q.End.Reg(m.lp)
					}
					xs, ps, ls = append(xs, xv), append(ps, pv), append(ls, lq)
				}
			}
			return
		}
		isCursor := true
		xs, pv, _ := arrive(false)
		for i := range xs {
			if !ir.Same(xs[i], fingersOf(pv[i])) {
				isCursor = false
			}
		}
		if isCursor && len(xs) > 0 {
			continue
		}
		xs, pv, ls := arrive(true)
		okCand, n, d := len(xs) > 0, 0, int64(0)
		for i := range xs {
			nd := nodeOfFingers(xs[i])
			if nd == nil {
				okCand = false
				break
			}
			idx, isF := isFingerAt(pv[i], nd)
			if !isF {
				okCand = false
				break
			}
			k, isK := linOffset(idx, ls[i])
			if !isK || (n > 0 && k != d) {
				okCand = false
				break
			}
			d = k
			n++
		}
		if okCand {
			m.ghost[h], m.cc[h], m.ccOff[h] = true, P, d
		}
	}
	for _, h := range an.Headers {
		if m.node[h] == nil && !m.ghost[h] {
			c.Undecided("traversal-effects", name, fn.Pos(), "a loop of the traversal carries neither a node cursor nor a finger-slice cursor")
			return ""
		}
	}
	list := &ir.Term{Op: "param", Aux: fn.Params[0].Name()}
	head := &ir.Term{Op: "load", Aux: "0", Args: []*ir.Term{{Op: "faddr", Aux: fHead, Args: []*ir.Term{list}}}}
	pathT := &ir.Term{Op: "load", Aux: "0", Args: []*ir.Term{{Op: "faddr", Aux: fPath, Args: []*ir.Term{list}}}}
	recordsPath := fn.Signature.Results().Len() == 2

	var segs []*ir.Path
	// the insertion-path buffer of the list is made by the constructor: a test `path == nil` (a shared traversal that
	// records only when it is given a buffer, called with list.path) is decided - the nil side is not a behaviour
	pathNil := &ir.Term{Op: "bin", Aux: "==", Args: sorted2(ir.Nil, pathT)}
	keep := func(p *ir.Path) bool { return polarity(p, pathNil) <= 0 }
	for _, p := range an.Segs[nil] {
		if keep(p) {
			segs = append(segs, p)
		}
	}
	for _, h := range an.Headers {
		for _, p := range an.Segs[h] {
			if keep(p) {
				segs = append(segs, p)
			}
		}
	}
	// first pass: the index offset c (index = counter + c) from the segments that inspect a successor;
	// second pass: the checks proper (the level loop's head needs c)
	m.probe = true
	for _, p := range segs {
		m.segment(p, list, head, pathT, recordsPath)
	}
	m.probe = false
	m.okCmp, m.okLvl, m.okEff, m.nTests = true, true, true, 0
	for _, p := range segs {
		m.segment(p, list, head, pathT, recordsPath)
	}
	if m.nTests == 0 {
		m.failCmp(fn.Pos(), "the traversal never compares keys")
	}
	form := ""
	if m.okCmp {
		form = "node key < key"
		c.Ok("compare-normal-form", name, fn.Pos(), "advance iff the level's successor is non-nil and its key < the search key")
	}
	if m.okLvl && !m.startChecked {
		m.okLvl = false
		c.Undecided("level-loops", name, fn.Pos(), "no entry segment reaches the level loop: the starting level cannot be judged")
	}
	if m.okLvl {
		off := int64(0)
		if m.cIdx != nil {
			off = *m.cIdx
		}
		c.Ok("level-loops", name, fn.Pos(), fmt.Sprintf("first index = levels-1; index = counter%+d; a pass begins iff index >= 0; stop => counter-1; less => counter unchanged", off))
	}
	if m.okEff {
		c.Ok("traversal-effects", name, fn.Pos(), "less: cursor := successor; stop: cursor kept (path[index] := cursor when recording); result = level-0 successor of the final cursor")
	}
	return form
}

func (m *travModel) segment(p *ir.Path, list, head, pathT *ir.Term, recordsPath bool) {
	an := m.an
	from, to := p.From, p.To
	// start values
	var n, x, l *ir.Term
	if from != nil {
		st := an.Start[from]
		n = m.cursorAt(from, st)
		if m.nx[from] != nil {
			x = st.Reg(m.nx[from])
		}
		l = st.Reg(m.lp)
	} else {
		n = head
	}
	fingerAt := func(node, lvl *ir.Term, d int64) *ir.Term {
		idx := lvl
		if d != 0 {
			idx = ir.MkBin("+", lvl, ir.Const(fmt.Sprint(d)))
		}
		return &ir.Term{Op: "load", Aux: "0", Args: []*ir.Term{{Op: "iaddr", Args: []*ir.Term{fingersOf(node), idx}}}}
	}
	var cv *ir.Term
	if from != nil && m.cc[from] != nil && l != nil {
		cv = an.Start[from].Reg(m.cc[from])
	}
	sigma := func(t *ir.Term) *ir.Term {
		if t == nil {
			return t
		}
		if cv != nil {
			t = substTerm(t, cv, fingerAt(n, l, m.ccOff[from]))
		}
		if x != nil {
			return substTerm(t, x, fingersOf(n))
		}
		return t
	}
	// arrival values
	var n2, x2, l2 *ir.Term
	if to != nil {
		if m.nx[to] != nil {
			x2 = sigma(p.PhiOut[m.nx[to]])
		}
		if m.ghost[to] {
			// the arriving cursor is the node whose fingers the slice register receives
			n2 = nodeOfFingers(x2)
			if n2 == nil {
				if !m.probe {
					m.c.Undecided("traversal-effects", m.name, lastPos(p), "the finger-slice cursor arrives as %s, which is not some node's finger slice", short(x2))
				}
				m.okEff = false
				return
			}
		} else {
			n2 = sigma(p.PhiOut[m.node[to]])
		}
		if to == m.hL {
			l2 = p.PhiOut[m.lp]
		} else if p.End != nil {
			l2 = p.End.Reg(m.lp)
		}
	}
	stores := nonLocalStores(p)
	// the cached successor at the arrival is the successor of the arriving cursor on the arriving level
	if to != nil && m.cc[to] != nil && l2 != nil {
		cc2 := sigma(p.PhiOut[m.cc[to]])
		if want := fingerAt(n2, l2, m.ccOff[to]); !ir.Same(cc2, want) {
			m.failEff(lastPos(p), "the cached successor arrives as %s, expected the arriving cursor's successor on the level (%s)", short(cc2), short(want))
		}
	}

	// ---- the candidate test of this segment
	var cand, idx *ir.Term
	nCand := 0
	note := func(t *ir.Term) bool {
		t = sigma(t)
		i, ok := isFingerAt(t, n)
		if !ok {
			return false
		}
		if cand == nil {
			cand, idx = t, i
			nCand = 1
		} else if !ir.Same(cand, t) {
			nCand++
		}
		return true
	}
	isNil := 0
	for _, b := range p.Events(ir.KBranch) {
		at := b.Atom
		if at.Op == "bin" && at.Aux == "==" && len(at.Args) == 2 {
			for i := 0; i < 2; i++ {
				if at.Args[i].IsNil() {
					if note(at.Args[1-i]) {
						isNil = polInt(b.Pol)
					}
				}
			}
		}
	}
	var cmp *ir.Step
	for _, st := range p.Events(ir.KCall) {
		if st.Method == nil || st.Method.Name() != "Compare" || len(st.A) != 3 {
			continue
		}
		if cmp != nil {
			if !m.probe {
				m.c.Undecided("compare-normal-form", m.name, st.Pos(), "two comparisons between consecutive loop heads: the rule inspects one successor per segment")
			}
			m.okCmp = false
			return
		}
		cmp = st
	}
	less := 0
	if cmp != nil {
		m.nTests++
		keyFirst := paramOf(cmp.A[1], m.fn, 1)
		keySecond := paramOf(cmp.A[2], m.fn, 1)
		if keyFirst == keySecond {
			m.failCmp(cmp.Pos(), "Compare is not applied to (node key, search key)")
			return
		}
		nodeKey := sigma(cmp.A[1])
		if keyFirst {
			nodeKey = sigma(cmp.A[2])
		}
		if !(nodeKey.Op == "load" && len(nodeKey.Args) == 1 && nodeKey.Args[0].Op == "faddr" && nodeKey.Args[0].Aux == fKey) {
			m.failCmp(cmp.Pos(), "the compared value %s is not a node's key", short(nodeKey))
			return
		}
		if !note(nodeKey.Args[0].Args[0]) {
			m.failCmp(cmp.Pos(), "the compared key belongs to %s, which is not the successor of the cursor on the current level (cursor.fingers[level])", short(nodeKey.Args[0].Args[0]))
			return
		}
		if isNil >= 0 {
			m.failEff(cmp.Pos(), "the next node's key is compared without having established that the successor is not nil")
		}
		found := false
		for _, b := range p.Events(ir.KBranch) {
			at := b.Atom
			if at.Op == "bin" && at.Aux == "==" && len(at.Args) == 2 && (ir.Same(at.Args[0], cmp.R) || ir.Same(at.Args[1], cmp.R)) {
				k := at.Args[0]
				if ir.Same(k, cmp.R) {
					k = at.Args[1]
				}
				kv, isK := k.IntConst()
				if !isK {
					continue
				}
				found = true
				isLess := !keyFirst && kv == m.LT || keyFirst && kv == m.GT
				if !isLess {
					m.failCmp(b.Pos(), "the traversal tests Compare(...) == %d: the advance condition must be 'node key < search key' (LT=%d with the node key first, GT=%d with the search key first)", kv, m.LT, m.GT)
					return
				}
				less = polInt(b.Pol)
			}
		}
		if !found {
			m.failCmp(cmp.Pos(), "the result of Compare is not tested against a constant ordering")
			return
		}
	}
	if nCand > 1 {
		if !m.probe {
			m.c.Undecided("traversal-effects", m.name, lastPos(p), "a segment inspects two different successors")
		}
		m.okEff = false
		return
	}
	// ---- level index and the level loop's head
	if cand != nil {
		if from == nil {
			if !m.probe {
				m.c.Undecided("level-loops", m.name, lastPos(p), "a successor is inspected before the level loop is entered")
			}
			m.okLvl = false
			return
		}
		d, ok := m.lvlOff(idx)
		if !ok {
			m.failLvl(lastPos(p), "the successor is read at index %s, which is not the level counter plus a constant", short(idx))
			return
		}
		if m.cIdx == nil {
			m.cIdx = &d
		} else if *m.cIdx != d {
			m.failLvl(lastPos(p), "the successor is read at counter%+d here and at counter%+d elsewhere", d, *m.cIdx)
			return
		}
	}
	kind := "transit"
	switch {
	case cand != nil && less > 0:
		kind = "less"
	case cand != nil && (isNil > 0 || less < 0):
		kind = "stop"
	case cand != nil:
		m.failEff(lastPos(p), "a segment inspects the successor but decides neither nil / not-less nor less")
		return
	}
	// ---- effects by kind
	switch kind {
	case "transit":
		if len(stores) != 0 {
			m.failEff(stores[0].Pos(), "a store on a segment that inspects no successor")
		}
		if from == nil {
			// entry: the cursor starts at the head node
			if to != nil {
				if !ir.Same(n2, head) {
					m.failEff(lastPos(p), "the traversal starts at %s, expected the head node", short(n2))
				}
				if x2 != nil && !ir.Same(x2, fingersOf(head)) {
					m.failEff(lastPos(p), "the cached finger slice starts as %s, expected head.fingers", short(x2))
				}
				// the traversal starts on the top level: first index = (number of levels) - 1, the number of levels being
				// what the constructor made the length of head.fingers and of the insertion path (kept in a field of the
				// list). Starting lower leaves the upper entries of the path stale (Put of a tall node splices at the
				// predecessors of an earlier key, Remove leaves the node linked up there); starting higher indexes
				// head.fingers out of range.
				if !m.probe && m.cIdx != nil {
					m.startChecked = true
					ok := false
					if L, k := splitLin(l2); L != nil && k+*m.cIdx == -1 && m.isLevelCount(L, list, head, pathT) {
						ok = true
					}
					if !ok {
						m.failLvl(lastPos(p), "the traversal starts at index %s%+d, expected the top level (number of levels - 1, the number of levels being len(head.fingers) = len(path) as the constructor makes them): levels above the start are never traversed and their path entries stay stale", short(l2), *m.cIdx)
					}
				}
			}
		} else if to != nil {
			if !ir.Same(n2, n) {
				m.failEff(lastPos(p), "a segment that inspects no successor moves the cursor to %s", short(n2))
			}
			if x2 != nil && !ir.Same(x2, fingersOf(n)) {
				m.failEff(lastPos(p), "a segment that inspects no successor changes the cached finger slice to %s", short(x2))
			}
			if to == m.hL {
				m.failLvl(lastPos(p), "a pass of the level loop ends without having inspected the level's successor")
			} else if d, ok := m.lvlOff(l2); !ok || d != 0 {
				m.failLvl(lastPos(p), "the level counter changes on a segment that inspects no successor")
			}
		}
	case "less":
		if len(stores) != 0 {
			m.failEff(stores[0].Pos(), "advancing must not store")
		}
		if to == nil {
			m.failEff(lastPos(p), "the traversal returns while the successor is still smaller than the key")
			return
		}
		if !ir.Same(n2, cand) {
			m.failEff(lastPos(p), "advancing must move the cursor to the inspected successor; found cursor' = %s", short(n2))
		}
		if x2 != nil && !ir.Same(x2, fingersOf(cand)) {
			m.failEff(lastPos(p), "advancing must refresh the cached finger slice to the new cursor's fingers; found %s", short(x2))
		}
		if d, ok := m.lvlOff(l2); !ok || d != 0 {
			m.failLvl(lastPos(p), "the level changes while advancing (when the next node is smaller the traversal must advance on the same level)")
		}
	case "stop":
		if to == nil {
			if !m.probe {
				m.c.Undecided("level-loops", m.name, lastPos(p), "the traversal returns directly from a level's stop; expected the level loop's head to decide")
			}
			m.okLvl = false
			return
		}
		if !ir.Same(n2, n) {
			m.failEff(lastPos(p), "going down a level must keep the cursor; found cursor' = %s", short(n2))
		}
		if x2 != nil && !ir.Same(x2, fingersOf(n)) {
			m.failEff(lastPos(p), "going down a level must keep the cached finger slice; found %s", short(x2))
		}
		if to != m.hL {
			m.failLvl(lastPos(p), "when the next node is not smaller the traversal must stop advancing on this level and go down one level")
		} else if d, ok := m.lvlOff(l2); !ok || d != -1 {
			m.failLvl(lastPos(p), "a pass of the level loop changes the level by %d (known=%v), expected -1", d, ok)
		}
		if recordsPath {
			good := len(stores) == 1 && stores[0].A[0].Op == "iaddr" && ir.Same(stores[0].A[0].Args[0], pathT) && m.sameLevel(stores[0].A[0].Args[1], idx) && ir.Same(sigma(stores[0].A[1]), n)
			if !good {
				m.failEff(lastPos(p), "going down a level must record path[level] := cursor exactly once (found %d stores): Put and Remove would splice at stale predecessors", len(stores))
			}
		} else if len(stores) != 0 {
			m.failEff(stores[0].Pos(), "the read-only traversal stores")
		}
	}
	// ---- the level loop's head: a pass begins iff index >= 0
	if from == m.hL && m.hL != nil {
		set, any := levelFacts(p, l)
		c0 := int64(0)
		known := m.cIdx != nil
		if known {
			c0 = *m.cIdx
		} else {
			m.failLvl(lastPos(p), "no segment reads a successor at the level counter plus a constant: the level loop's range cannot be judged")
		}
		if to == nil {
			// leaving: every consistent counter value has index < 0
			if !any {
				m.failLvl(lastPos(p), "the level loop is left without a test of the level counter")
			}
			for v := range set {
				if known && v+c0 >= 0 {
					m.failLvl(lastPos(p), "the level loop does not run while level >= 0 (level 0 must be included: skipping it loses elements): it is left with index %d pending", v+c0)
					break
				}
			}
		} else {
			if !any {
				m.failLvl(lastPos(p), "a pass of the level loop begins without a test of the level counter")
			}
			for v := range set {
				if known && v+c0 < 0 {
					m.failLvl(lastPos(p), "a pass of the level loop begins with a negative index (%d)", v+c0)
					break
				}
			}
		}
	} else if to == nil && from != nil {
		if !m.probe {
			m.c.Undecided("level-loops", m.name, lastPos(p), "the traversal returns from inside an inner loop")
		}
		m.okLvl = false
	}
	// ---- result
	if to == nil && p.Exit == ir.ExitReturn {
		r := sigma(p.Results[0])
		i, ok := isFingerAt(r, n)
		k, isK := int64(-1), false
		if ok {
			k, isK = i.IntConst()
		}
		if !ok || !isK || k != 0 {
			m.failEff(lastPos(p), "the traversal returns %s, expected the level-0 successor of the final cursor", short(r))
		}
		if recordsPath && (len(p.Results) != 2 || !ir.Same(p.Results[1], pathT)) {
			m.failEff(lastPos(p), "the traversal does not return the recorded path")
		}
	} else if to == nil {
		m.failEff(lastPos(p), "the traversal does not return")
	}
}


// tallyOnly: the loop-carried integer v is a statistic - every use of it is an addition of a constant feeding a phi of
// the same kind, a phi, a conversion, or an argument of a sync/atomic function. It decides nothing and indexes nothing.
func tallyOnly(v ssa.Value, seen map[ssa.Value]bool) bool {
	if seen[v] {
		return true
	}
	seen[v] = true
	refs := v.Referrers()
	if refs == nil {
		return false
	}
	for _, r := range *refs {
		switch x := r.(type) {
		case *ssa.DebugRef:
		case *ssa.Phi:
			if !tallyOnly(x, seen) {
				return false
			}
		case *ssa.Convert:
			if !tallyOnly(x, seen) {
				return false
			}
		case *ssa.BinOp:
			if x.Op != token.ADD {
				return false
			}
			other := x.Y
			if other == v {
				other = x.X
			}
			if _, isK := other.(*ssa.Const); !isK {
				return false
			}
			if !tallyOnly(x, seen) {
				return false
			}
		case *ssa.Call:
			sc := x.Call.StaticCallee()
			if sc == nil || sc.Pkg == nil || sc.Pkg.Pkg.Path() != "sync/atomic" {
				return false
			}
		default:
			return false
		}
	}
	return true
}

// splitLin writes t as base + k (k an integer constant); base is nil when t is a constant.
func splitLin(t *ir.Term) (*ir.Term, int64) {
	if t == nil {
		return nil, 0
	}
	if _, isK := t.IntConst(); isK {
		return nil, 0
	}
	if t.Op == "bin" && len(t.Args) == 2 {
		switch t.Aux {
		case "+":
			for i := 0; i < 2; i++ {
				if v, isK := t.Args[i].IntConst(); isK {
					b, k := splitLin(t.Args[1-i])
					return b, k + v
				}
			}
		case "-":
			if v, isK := t.Args[1].IntConst(); isK {
				b, k := splitLin(t.Args[0])
				return b, k - v
			}
		}
	}
	return t, 0
}

// isLevelCount: L stands for the list's number of levels - len(head.fingers), len(path), or the constructor's level
// field read from the list (directly or through a parameter struct nested in it).
func (m *travModel) isLevelCount(L, list, head, pathT *ir.Term) bool {
	if L.Op == "len" && len(L.Args) == 1 && (ir.Same(L.Args[0], fingersOf(head)) || ir.Same(L.Args[0], pathT)) {
		return true
	}
	if L.Op == "load" && len(L.Args) == 1 && L.Args[0].Op == "faddr" && m.lvFields[L.Args[0].Aux] {
		b := L.Args[0].Args[0]
		for b.Op == "faddr" && len(b.Args) == 1 {
			b = b.Args[0]
		}
		return ir.Same(b, list)
	}
	return false
}
