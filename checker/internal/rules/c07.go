package rules

import (
	"fmt"
	"go/types"
	"strings"

	"golang.org/x/tools/go/ssa"

	"verif/checker/internal/core"
	"verif/checker/internal/ir"
)

func init() {
	register(&Pack{ID: "C07", Run: runC07, Meta: core.Meta{
		Level:       "other",
		Explanation: "Which elements fail is a run-time quantity; what a stage does when one fails is shape. For Emit, Map, FMap, Unfold (pipe) and Map, FMap (fork) every path of the stage goroutine on which the user function returned an error must contain exactly one call of the catch role with (the stage's ctx, that very error, the stage's own error channel), no send on the value output and no second application; catch==false must exit, catch==true must return to the loop head; paths without error must not call catch. The closed-world implementations of the catch/errch roles are summarised from their paths (fail-fast: one plain send of the error, constant false, error channel of constant capacity >= 1; try: one select {exx<-err | <-ctx.Done()}, true iff sent, error channel of the requested capacity) and tied to the exported constructors (Lift/Pure/LiftF => fail-fast, Try/TryF => try); pipe and fork siblings must agree; the wrappers' Apply must call the wrapped function exactly once with the arguments in order. First failure under Lift => one error, both channels closed, nothing processed further; under Try => one error per failing element, normal output otherwise, order kept (single goroutine) - derived on paper from these facts. After catch returned false nothing further is received, sent, started or called before the stage leaves; Unfold delivers its seed before the step that may fail is applied (shared with C11). errch-request and catch-false-exits (after catch answered false nothing is received, sent, started or called, deferred functions included) are shared with C06.",
		RuleText:    "one obligation per (stage or implementation, rule)",
		TrustedBase: []string{"go/ssa", "path engine P", "closed-world argument: pipe.F/FF and fork.F/FF have unexported methods, only their own package can implement them"},
	}})
}

// errorStages: (package, exported name, index of the error in Apply's result tuple or -1 for single result, index of the element argument)
var errorStages = []struct {
	pkg, name string
	errIdx    int
}{
	{"pipe", "Emit", 1}, {"pipe", "Map", 1}, {"pipe", "FMap", -1}, {"pipe", "Unfold", 1},
	{"pipe/fork", "Map", 1}, {"pipe/fork", "FMap", -1},
}

func runC07(c *core.Ctx) {
	c.Doc("error-branch", 6, "on error: exactly one catch(ctx, err, exx), no output, no second Apply; false => exit, true => loop head; no catch without error")
	c.Doc("catch-summaries", 8, "catch implementations are the fail-fast or the try form, as their constructor promises")
	c.Doc("errch-capacity", 8, "fail-fast errch: constant capacity >= 1; try errch: capacity of its parameter")
	c.Doc("mode-siblings", 4, "pipe and fork define the same four kinds with pairwise equal summaries")
	c.Doc("apply-term", 8, "wrapper Apply calls the wrapped function exactly once, arguments in order, results returned unchanged")
	c.Doc("pure-never-fails", 2, "Pure wraps f as (f(a), nil)")

	for _, pkg := range []string{"pipe", "pipe/fork"} {
		for _, ctor := range []string{"Lift", "LiftF", "Try", "TryF"} {
			wrapsArgument(c, pkg, ctor)
		}
	}
	for _, es := range errorStages {
		fn := c.W.Func(es.pkg, es.name)
		name := pkgShort(es.pkg) + "." + es.name
		if fn == nil {
			c.Undecided("error-branch", name, 0, "anchor not found")
			continue
		}
		s := buildStage(c, es.pkg, fn)
		if len(s.Problems) > 0 {
			c.Undecided("error-branch", name, fn.Pos(), "engine could not model the stage: %s", strings.Join(s.Problems, "; "))
			continue
		}
		errorBranchRule(c, s, es.errIdx)
		if es.pkg == "pipe" && es.name == "Unfold" {
			// "exactly the results of the elements before the first failure": the seed is delivered before the step
			// that may fail is applied to it (shared with C11)
			if c.Rules["unfold-step"] == nil {
				c.Doc("unfold-step", 1, "send(out, seed) precedes the single Apply(seed); the result becomes the next seed")
			}
			unfoldStep(c, s)
		}
		exxProvenance(c, "C07", s)
		if es.pkg == "pipe" {
			stageLifecycleRules(c, s, lifecycleOpts{only: "closing", catchExit: true})
		}
	}

	// ---- implementations ------------------------------------------------------
	kinds := map[string]map[string]*catchImpl{} // pkg -> constructor -> impl
	for _, pkg := range []string{"pipe", "pipe/fork"} {
		kinds[pkg] = map[string]*catchImpl{}
		impls := catchImpls(c, pkg)
		byType := map[string]*catchImpl{}
		for _, ci := range impls {
			byType[ci.TypeName] = ci
		}
		for _, ctor := range []struct{ name, want string }{{"Lift", "fail-fast"}, {"Pure", "fail-fast"}, {"LiftF", "fail-fast"}, {"Try", "try"}, {"TryF", "try"}} {
			fn := c.W.Func(pkg, ctor.name)
			cname := pkgShort(pkg) + "." + ctor.name
			if fn == nil {
				c.Undecided("catch-summaries", cname, 0, "constructor not found")
				continue
			}
			tn := constructedType(fn)
			ci := byType[pkgShort(pkg)+"."+tn]
			if ci == nil || ci.Catch == nil || ci.Errch == nil {
				c.Undecided("catch-summaries", cname, fn.Pos(), "cannot resolve the implementation type constructed by %s (found %q)", cname, tn)
				continue
			}
			kinds[pkg][ctor.name] = ci
			c.Check(ci.Kind == ctor.want, "catch-summaries", cname, ci.Catch.Pos(), fmt.Sprintf("%s => %s: %s", cname, ci.TypeName, ci.Kind),
				"%s constructs %s whose catch is %q, expected the %s form (%s)", cname, ci.TypeName, ci.Kind, ctor.want, ci.Why)
			switch ctor.want {
			case "fail-fast":
				c.Check(ci.CapConst >= 1 || (ci.PlainSends == 0 && ci.CapParam), "errch-capacity", cname, ci.Errch.Pos(), fmt.Sprintf("make(chan error, %d) param=%v", ci.CapConst, ci.CapParam),
					"fail-fast error channel must have constant capacity >= 1 (the single plain send must not block); found const=%d param=%v", ci.CapConst, ci.CapParam)
			case "try":
				c.Check(ci.CapParam, "errch-capacity", cname, ci.Errch.Pos(), "make(chan error, cap)", "try error channel must have the requested capacity; found const=%d param=%v", ci.CapConst, ci.CapParam)
			}
			// Apply delegates
			applyTerm(c, pkg, cname, tn)
		}
		// Pure: (f(a), nil)
		pureNeverFails(c, pkg)
	}
	for _, ctor := range []string{"Lift", "LiftF", "Try", "TryF"} {
		a, b := kinds["pipe"][ctor], kinds["pipe/fork"][ctor]
		if a == nil || b == nil {
			c.Undecided("mode-siblings", ctor, 0, "sibling implementation missing")
			continue
		}
		same := a.Kind == b.Kind && a.AlwaysFalse == b.AlwaysFalse
		c.Check(same, "mode-siblings", ctor, b.Catch.Pos(), fmt.Sprintf("pipe.%s and fork.%s: %s", ctor, ctor, a.Kind),
			"pipe.%s (%s, cap const=%d param=%v) and fork.%s (%s, cap const=%d param=%v) disagree", ctor, a.Kind, a.CapConst, a.CapParam, ctor, b.Kind, b.CapConst, b.CapParam)
	}
	// the premise "provided the error channel is read (e.g. via StdErr)": StdErr itself must keep reading until the
	// error channel is closed, or a Try stage parks in catch for ever
	stdErrDrains(c)
}

// constructedType: the named type whose value the constructor returns inside an interface.
func constructedType(fn *ssa.Function) string {
	return constructedTypeDepth(fn, 0)
}

func constructedTypeDepth(fn *ssa.Function, depth int) string {
	name := constructedHere(fn)
	if name != "" || depth > 3 {
		return name
	}
	// a constructor that delegates: it returns what another function of the same package constructs
	for _, b := range fn.Blocks {
		for _, in := range b.Instrs {
			ret, ok := in.(*ssa.Return)
			if !ok || len(ret.Results) != 1 {
				continue
			}
			call, ok := ret.Results[0].(*ssa.Call)
			if !ok {
				return ""
			}
			callee := call.Call.StaticCallee()
			if callee == nil || len(callee.Blocks) == 0 {
				return ""
			}
			o := callee
			if oo := callee.Origin(); oo != nil {
				o = oo
			}
			fo := fn
			if oo := fn.Origin(); oo != nil {
				fo = oo
			}
			if o.Pkg == nil || fo.Pkg == nil || o.Pkg != fo.Pkg {
				return ""
			}
			n := constructedTypeDepth(o, depth+1)
			if n == "" || name != "" && name != n {
				return ""
			}
			name = n
		}
	}
	return name
}

func constructedHere(fn *ssa.Function) string {
	name := ""
	for _, b := range fn.Blocks {
		for _, in := range b.Instrs {
			if mi, ok := in.(*ssa.MakeInterface); ok {
				if nt, ok := mi.X.Type().(*types.Named); ok {
					name = nt.Origin().Obj().Name()
				}
			}
		}
	}
	return name
}

func applyTerm(c *core.Ctx, pkg, cname, typ string) {
	fn := c.W.Method(pkg, typ, "Apply")
	if fn == nil {
		c.Undecided("apply-term", cname, 0, "Apply of %s not found", typ)
		return
	}
	p := singlePath(c, "apply-term", cname, fn)
	if p == nil {
		return
	}
	// result: call(receiver, params...) – all results forwarded
	cs := calls(p)
	ok := len(cs) == 1 && len(nonLocalStores(p)) == 0
	why := fmt.Sprintf("Apply performs %d calls", len(cs))
	if ok {
		st := cs[0]
		ok = st.Callee != nil && (paramOf(st.Callee, fn, 0) || onlyFuncFieldOf(st.Callee, fn)) && len(st.A) == len(fn.Params)-1
		why = "the callee is not the wrapped function or the argument count differs"
		for i := 0; ok && i < len(st.A); i++ {
			if !paramOf(st.A[i], fn, i+1) {
				ok = false
				why = fmt.Sprintf("argument %d is %s, expected parameter %s", i+1, short(st.A[i]), fn.Params[i+1].Name())
			}
		}
		if ok {
			switch len(p.Results) {
			case 1:
				ok = ir.Same(p.Results[0], st.R)
			default:
				for i, r := range p.Results {
					if !(r.Op == "extract" && r.Aux == fmt.Sprint(i) && ir.Same(r.Args[0], st.R)) {
						ok = false
					}
				}
			}
			why = "results of the wrapped function are not returned unchanged"
		}
	}
	c.Check(ok, "apply-term", cname, fn.Pos(), "Apply(args...) = f(args...)", "%s", why)
}

// wrappedFuncOf: the function value an implementation value carries - the value itself (a function type with
// methods) or the single function-typed field of a struct literal (a struct holding the function next to a strategy).
func wrappedFuncOf(t *ir.Term) *ir.Term {
	if t == nil || t.Op != "lit" {
		return t
	}
	var found *ir.Term
	for _, kv := range t.Args {
		if kv.Op != "kv" || len(kv.Args) != 1 {
			continue
		}
		v := kv.Args[0]
		if v.Op == "closure" || v.Op == "fn" || v.Op == "param" {
			if found != nil {
				return nil
			}
			found = v
		}
	}
	return found
}

// onlyFuncFieldOf: t reads the single function-typed field of the receiver of method fn.
func onlyFuncFieldOf(t *ir.Term, fn *ssa.Function) bool {
	if len(fn.Params) == 0 {
		return false
	}
	var base *ir.Term
	switch {
	case t.Op == "field" && len(t.Args) == 1:
		base = t.Args[0]
	case t.Op == "load" && len(t.Args) >= 1 && t.Args[0].Op == "faddr":
		base = t.Args[0].Args[0]
	default:
		return false
	}
	if !paramOf(base, fn, 0) {
		return false
	}
	rt := fn.Params[0].Type()
	if p, ok := rt.Underlying().(*types.Pointer); ok {
		rt = p.Elem()
	}
	st, ok := rt.Underlying().(*types.Struct)
	if !ok {
		return false
	}
	n := 0
	for i := 0; i < st.NumFields(); i++ {
		if _, isF := st.Field(i).Type().Underlying().(*types.Signature); isF {
			n++
		}
	}
	return n == 1
}

func pureNeverFails(c *core.Ctx, pkg string) {
	fn := c.W.Func(pkg, "Pure")
	name := pkgShort(pkg) + ".Pure"
	if fn == nil {
		c.Undecided("pure-never-fails", name, 0, "anchor not found")
		return
	}
	// the closure built by Pure
	var cl *ssa.Function
	for _, a := range fn.AnonFuncs {
		cl = a
	}
	if cl == nil || len(fn.AnonFuncs) != 1 {
		c.Undecided("pure-never-fails", name, fn.Pos(), "Pure does not build exactly one closure")
		return
	}
	an := c.Analyze(fn)
	ps := an.AllPaths()
	var clT *ir.Term
	if len(an.Problems) == 0 && len(ps) == 1 && len(ps[0].Results) == 1 {
		clT = wrappedFuncOf(ps[0].Results[0])
	}
	if clT == nil || clT.Op != "closure" {
		c.Undecided("pure-never-fails", name, fn.Pos(), "Pure is not a single path returning the wrapped closure")
		return
	}
	// the closure is called once per element: what it left in its captured variables on an earlier call is unknown
	ian := c.AnalyzeFrom(clT.Fn, ir.ReentrantState(clT.Fn, clT.Args, ps[0].End), "closure-of-"+name)
	ips := ian.AllPaths()
	ok := len(ian.Problems) == 0 && len(ips) == 1 && len(ips[0].Results) == 2 && len(calls(ips[0])) == 1
	why := "closure is not a single call"
	if ok {
		r0, r1 := ips[0].Results[0], ips[0].Results[1]
		_, callee, args, isC := callParts(r0)
		ok = isC && paramOf(callee, fn, 0) && len(args) == 1 && paramOf(args[0], clT.Fn, 0) && r1.IsNil()
		why = fmt.Sprintf("closure returns (%s, %s), expected (f(a), nil)", short(r0), short(r1))
	}
	c.Check(ok, "pure-never-fails", name, fn.Pos(), "(f(a), nil)", "%s", why)
}

// errorBranchRule checks the error hand-off shape of every path of every goroutine of the stage.
func errorBranchRule(c *core.Ctx, s *Stage, errIdx int) {
	ok := true
	nPaths := 0
	outs := map[string]bool{}
	for _, r := range s.Returned {
		outs[r.Key()] = true
	}
	valueOut := outChan(s, 0)
	for _, pr := range procsOf(s) {
		if pr.g == nil {
			continue
		}
		for _, p := range pr.an.AllPaths() {
			var applies, catches []int
			for i := range p.Steps {
				st := &p.Steps[i]
				if isApplyRole(st) {
					applies = append(applies, i)
				}
				if isCatchRole(st) {
					catches = append(catches, i)
				}
			}
			if len(applies) == 0 {
				if len(catches) != 0 {
					ok = false
					c.Fail("error-branch", s.Name, p.Steps[catches[0]].Pos(), "catch is called on a path without an application of the user function")
				}
				continue
			}
			nPaths++
			if len(applies) > 1 {
				ok = false
				c.Fail("error-branch", s.Name, p.Steps[applies[1]].Pos(), "the user function is applied twice on one iteration path:\n%s", p)
				continue
			}
			ap := &p.Steps[applies[0]]
			var errT *ir.Term
			if errIdx < 0 {
				errT = ap.R
			} else {
				errT = &ir.Term{Op: "extract", Aux: fmt.Sprint(errIdx), Args: []*ir.Term{ap.R}}
			}
			en := polarity(p, errNilAtom(ap.R, errIdx))
			if errIdx < 0 {
				en = polarity(p, &ir.Term{Op: "bin", Aux: "==", Args: sorted2(ir.Nil, ap.R)})
			}
			switch {
			case en == 0:
				ok = false
				c.Fail("error-branch", s.Name, ap.Pos(), "the error of the user function is not tested on a path:\n%s", p)
			case en > 0:
				if len(catches) != 0 {
					ok = false
					c.Fail("error-branch", s.Name, ap.Pos(), "catch is called although the user function succeeded")
				}
			case en < 0:
				if len(catches) != 1 {
					ok = false
					c.Fail("error-branch", s.Name, ap.Pos(), "a failing element must be handed to catch exactly once; found %d calls:\n%s", len(catches), p)
					continue
				}
				ct := &p.Steps[catches[0]]
				if !ir.Same(ct.A[2], errT) {
					ok = false
					c.Fail("error-branch", s.Name, ct.Pos(), "catch receives %s, expected the error just returned by the user function", short(ct.A[2]))
				}
				if !ir.Same(ct.A[0], ap.A[0]) {
					ok = false
					c.Fail("error-branch", s.Name, ct.Pos(), "catch is invoked on a different function value than Apply")
				}
				// no value output for the failing element (sends after the Apply)
				for _, e := range allSends(p) {
					if valueOut != nil && ir.Same(e.ch, valueOut) && stepIndex(p, e.step) > applies[0] {
						ok = false
						c.Fail("error-branch", s.Name, e.step.Pos(), "a failing element produces a value on the output:\n%s", p)
					}
				}
				// catch result decides: true => loop head, false => exit
				res := polarity(p, ct.R)
				switch {
				case res == 0:
					ok = false
					c.Fail("error-branch", s.Name, ct.Pos(), "the result of catch is not tested")
				case res > 0 && p.To == nil && factsOf(p).done:
					// went on, and then saw the context done (a poll on the way to the next element): leaves as any stage may
				case res > 0 && p.To == nil:
					ok = false
					c.Fail("error-branch", s.Name, ct.Pos(), "catch returned true (continue) but the stage exits:\n%s", p)
				case res < 0 && p.Exit != ir.ExitReturn:
					ok = false
					c.Fail("error-branch", s.Name, ct.Pos(), "catch returned false (stop) but the stage continues:\n%s", p)
				case res < 0:
					// stop means stop: nothing further is received, sent, started or called before the stage leaves
					// (its deferred closes excepted) - "closes both channels without processing anything further"
					for j := catches[0] + 1; j < len(p.Steps); j++ {
						st := &p.Steps[j]
						if st.InDefer {
							continue
						}
						switch st.Kind {
						case ir.KRecv, ir.KSend, ir.KSelect, ir.KGo, ir.KCall:
							if st.Kind == ir.KCall && isWgDone(st) {
								continue
							}
							ok = false
							c.Fail("error-branch", s.Name, st.Pos(), "after catch returned false (stop) the stage goes on working before it leaves - it must close its channels without processing anything further:\n%s", p)
						}
					}
				}
			}
		}
	}
	if nPaths == 0 {
		c.Fail("error-branch", s.Name, s.Fn.Pos(), "no path applies the user function")
		return
	}
	if ok {
		c.Ok("error-branch", s.Name, s.Fn.Pos(), fmt.Sprintf("%d paths with an application checked", nPaths))
	}
}

func stepIndex(p *ir.Path, s *ir.Step) int {
	for i := range p.Steps {
		if &p.Steps[i] == s {
			return i
		}
	}
	return -1
}

// ctorKinds: each exported constructor of the package builds the error-mode kind it promises (shared by C07, C09, C11).
func ctorKinds(c *core.Ctx, pkg string) {
	sh := pkgShort(pkg)
	if c.Rules["catch-summaries"] == nil {
		c.Doc("catch-summaries", 5, "catch implementations are the fail-fast or the try form, as their constructor promises")
	}
	byType := map[string]*catchImpl{}
	for _, ci := range catchImpls(c, pkg) {
		byType[ci.TypeName] = ci
	}
	for _, ctor := range []struct{ name, want string }{{"Lift", "fail-fast"}, {"Pure", "fail-fast"}, {"LiftF", "fail-fast"}, {"Try", "try"}, {"TryF", "try"}} {
		fn := c.W.Func(pkg, ctor.name)
		cname := sh + "." + ctor.name
		if fn == nil {
			c.Undecided("catch-summaries", cname, 0, "constructor not found")
			continue
		}
		tn := constructedType(fn)
		ci := byType[sh+"."+tn]
		if ci == nil || ci.Catch == nil {
			c.Undecided("catch-summaries", cname, fn.Pos(), "cannot resolve the implementation type constructed by %s (found %q)", cname, tn)
			continue
		}
		c.Check(ci.Kind == ctor.want, "catch-summaries", cname, ci.Catch.Pos(), fmt.Sprintf("%s => %s: %s", cname, ci.TypeName, ci.Kind),
			"%s constructs %s whose catch is %q, expected the %s form (%s)", cname, ci.TypeName, ci.Kind, ctor.want, ci.Why)
	}
}


// wrapsArgument: what a constructor of the error-mode wrappers (Lift, LiftF, Try, TryF) keeps in the value it builds is
// the user's function itself - or a function literal that does nothing but apply it: analysed as a function that is
// called once per element (whatever an earlier call left in the variables it captures is unknown), it is one path with
// one call of the constructor's parameter, the literal's own parameters in order, and hands the results back
// unchanged. A literal that remembers something between calls (the first failure, the last argument) fails this.
func wrapsArgument(c *core.Ctx, pkg, ctor string) {
	fn := c.W.Func(pkg, ctor)
	name := pkgShort(pkg) + "." + ctor
	if c.Rules["wraps-argument"] == nil {
		c.Doc("wraps-argument", 4, "Lift / LiftF / Try / TryF keep the user's function itself, or a literal that applies it exactly once and remembers nothing")
	}
	if fn == nil {
		c.Undecided("wraps-argument", name, 0, "constructor not found")
		return
	}
	an := c.Analyze(fn)
	ps := dropNilGuardPanics(an.AllPaths())
	if len(an.Problems) > 0 || len(ps) != 1 || ps[0].Exit != ir.ExitReturn || len(ps[0].Results) != 1 {
		c.Undecided("wraps-argument", name, fn.Pos(), "the constructor is not a single path returning the wrapper")
		return
	}
	r := ps[0].Results[0]
	if r.Op == "alloc" {
		if lit := ps[0].End.MemAt(r); lit != nil {
			r = lit
		}
	}
	w := r
	for w != nil && (w.Op == "conv") && len(w.Args) == 1 {
		w = w.Args[0]
	}
	w = wrappedFuncOf(w)
	for w != nil && (w.Op == "conv") && len(w.Args) == 1 {
		w = w.Args[0]
	}
	switch {
	case w == nil:
		c.Fail("wraps-argument", name, fn.Pos(), "cannot identify the function the wrapper keeps (found %s)", short(r))
	case paramOf(w, fn, 0):
		c.Ok("wraps-argument", name, fn.Pos(), "keeps its argument")
	case w.Op == "closure" && w.Fn != nil:
		ian := c.AnalyzeFrom(w.Fn, ir.ReentrantState(w.Fn, w.Args, ps[0].End), "wrapped-closure-of-"+name)
		ips := dropNilGuardPanics(ian.AllPaths())
		ok := len(ian.Problems) == 0 && len(ips) == 1 && ips[0].Exit == ir.ExitReturn && len(calls(ips[0])) == 1 && len(nonLocalStores(ips[0])) == 0
		why := "the literal is not one path with one call and no store (it remembers something between calls, or decides without applying the function)"
		if ok {
			st := calls(ips[0])[0]
			ok = st.Method == nil && st.Callee != nil && paramOf(st.Callee, fn, 0) && len(st.A) == len(w.Fn.Params)
			why = "the literal's single call is not an application of the constructor's parameter"
			if ok {
				for i, a := range st.A {
					if !paramOf(a, w.Fn, i) {
						ok, why = false, "the literal does not pass its own parameters on in order"
					}
				}
			}
			if ok {
				for i, res := range ips[0].Results {
					want := &ir.Term{Op: "extract", Aux: fmt.Sprint(i), Args: []*ir.Term{st.R}}
					if !(ir.Same(res, want) || len(ips[0].Results) == 1 && ir.Same(res, st.R)) {
						ok, why = false, fmt.Sprintf("result %d of the literal is %s, expected the function's own result", i, short(res))
					}
				}
			}
		}
		c.Check(ok, "wraps-argument", name, fn.Pos(), "a literal applying its argument exactly once, remembering nothing", "%s", why)
	default:
		c.Fail("wraps-argument", name, fn.Pos(), "the wrapper keeps %s, expected the constructor's argument", short(w))
	}
}
