package rules

import (
	"fmt"
	"go/types"
	"sort"
	"strings"

	"golang.org/x/tools/go/ssa"

	"verif/checker/internal/core"
	"verif/checker/internal/ir"
)

func init() {
	register(&Pack{ID: "C19", Run: runC19, Meta: core.Meta{
		Level:       "other",
		Explanation: "Engine R: each operation of each implementation (linked list, slice) is summarised as a term by symbolic evaluation of its single path; the ADT laws are composed by evaluating one operation on the symbolic result (and final memory) of another, and normalised with a fixed rewrite system (field-of-literal; linear integer arithmetic normal form; len(append(a,b...)) = len(a)+len(b); len of a fresh k-element array slice = k; append(a,b...)[i] = a[i] for constant i < len(a); append(a,b...)[k:] = b when k = len(a)). Laws: Length(New(xs...)) = len(xs); Head(Cons(x,s)) = x; Tail(Cons(x,s)) is s (componentwise); Length(Cons(x,s)) = Length(s)+1; IsEmpty(s) is Length(s) == 0. Persistence: no operation stores into memory reachable from its argument, and no append has a caller's slice as first operand. list.New: canonical descending loop from len-1 to 0 prepending seq[i] => ascending list. Fold: accumulator from m.Empty(); per iteration x = Combine(x, Head(s)) with the accumulator first, s = Tail(s), guarded by not IsEmpty(s); result x. 'Any script of these operations gives the same element list on both implementations' is the usual initial-algebra argument (paper); the rewrite axioms for append/slicing are a trusted base.",
		RuleText:    "one obligation per (implementation, law)",
		TrustedBase: []string{"go/types", "go/ssa", "path engine P (used as symbolic evaluator of straight-line code)", "rewrite axioms for append / reslicing / len"},
	}})
}

// ---- rewrite system -----------------------------------------------------------

// lin: linear normal form  sum(coeff_i * atom_i) + k
type lin struct {
	atoms map[string]int64
	terms map[string]*ir.Term
	k     int64
}

func linOf(t *ir.Term) *lin {
	l := &lin{atoms: map[string]int64{}, terms: map[string]*ir.Term{}}
	var add func(t *ir.Term, sign int64)
	add = func(t *ir.Term, sign int64) {
		if k, ok := t.IntConst(); ok {
			l.k += sign * k
			return
		}
		if t.Op == "bin" && t.Aux == "+" {
			for _, a := range t.Args {
				add(a, sign)
			}
			return
		}
		if t.Op == "bin" && t.Aux == "-" && len(t.Args) == 2 {
			add(t.Args[0], sign)
			add(t.Args[1], -sign)
			return
		}
		l.atoms[t.Key()] += sign
		l.terms[t.Key()] = t
	}
	add(t, 1)
	for k, v := range l.atoms {
		if v == 0 {
			delete(l.atoms, k)
		}
	}
	return l
}

func (l *lin) String() string {
	var ks []string
	for k := range l.atoms {
		ks = append(ks, k)
	}
	sort.Strings(ks)
	var b strings.Builder
	for _, k := range ks {
		fmt.Fprintf(&b, "%+d*%s ", l.atoms[k], k)
	}
	fmt.Fprintf(&b, "%+d", l.k)
	return b.String()
}

func linEqual(a, b *ir.Term) bool { return linOf(a).String() == linOf(b).String() }

// freshArrayLen: slice(alloc [k]T, _, _, _) -> k
func freshArrayLen(t *ir.Term) (int64, *ir.Term, bool) {
	if t.Op != "slice" || t.Args[0].Op != "alloc" || t.Args[1].Aux != "_" || t.Args[2].Aux != "_" {
		return 0, nil, false
	}
	pt, ok := t.Args[0].Typ.(*types.Pointer)
	if !ok {
		return 0, nil, false
	}
	at, ok := pt.Elem().Underlying().(*types.Array)
	if !ok {
		return 0, nil, false
	}
	return at.Len(), t.Args[0], true
}

// rewrite normalises t bottom-up; st supplies memory for fresh arrays.
func rewrite(t *ir.Term, st *ir.State) *ir.Term {
	if t == nil || len(t.Args) == 0 {
		return t
	}
	args := make([]*ir.Term, len(t.Args))
	for i, a := range t.Args {
		args[i] = rewrite(a, st)
	}
	n := &ir.Term{Op: t.Op, Aux: t.Aux, Args: args, Fn: t.Fn, Typ: t.Typ, Src: t.Src, Owner: t.Owner}
	switch n.Op {
	case "len":
		x := n.Args[0]
		if x.Op == "append" && len(x.Args) == 2 {
			return rewrite(&ir.Term{Op: "bin", Aux: "+", Args: []*ir.Term{{Op: "len", Args: []*ir.Term{x.Args[0]}}, {Op: "len", Args: []*ir.Term{x.Args[1]}}}}, st)
		}
		if k, _, ok := freshArrayLen(x); ok {
			return ir.Const(fmt.Sprint(k))
		}
		// len(x[lo:]) = len(x) - lo for a fresh slice literal x and constant lo within it
		if x.Op == "slice" && len(x.Args) == 4 && x.Args[2].Aux == "_" && x.Args[3].Aux == "_" {
			if lo, isK := x.Args[1].IntConst(); isK {
				if k, _, ok := freshArrayLen(x.Args[0]); ok && lo >= 0 && lo <= k {
					return ir.Const(fmt.Sprint(k - lo))
				}
			}
		}
	case "load":
		a := n.Args[0]
		// []T{x0, ..}[i]: element i of a fresh slice literal is what was stored into the backing array
		if a.Op == "iaddr" {
			if i, isK := a.Args[1].IntConst(); isK {
				if k, arr, ok := freshArrayLen(a.Args[0]); ok && i >= 0 && i < k && st != nil {
					if v := st.MemAt(&ir.Term{Op: "iaddr", Args: []*ir.Term{arr, a.Args[1]}}); v != nil {
						return rewrite(v, st)
					}
				}
			}
		}
		if a.Op == "iaddr" && a.Args[0].Op == "append" {
			ap := a.Args[0]
			if i, isK := a.Args[1].IntConst(); isK {
				if k, arr, ok := freshArrayLen(ap.Args[0]); ok && i < k {
					v := st.MemAt(&ir.Term{Op: "iaddr", Args: []*ir.Term{arr, a.Args[1]}})
					if v != nil {
						return rewrite(v, st)
					}
				}
			}
		}
	case "slice":
		if n.Args[2].Aux != "_" {
			if linEqual(n.Args[2], rewrite(&ir.Term{Op: "len", Args: []*ir.Term{n.Args[0]}}, st)) {
				n.Args[2] = &ir.Term{Op: "const", Aux: "_"}
			}
		}
		x := n.Args[0]
		if x.Op == "append" && n.Args[2].Aux == "_" && n.Args[3].Aux == "_" {
			if lo, isK := n.Args[1].IntConst(); isK {
				if k, _, ok := freshArrayLen(x.Args[0]); ok && lo == k {
					return x.Args[1]
				}
			}
		}
	case "bin":
		if n.Aux == "+" || n.Aux == "-" {
			// linear normal form back to a term
			l := linOf(n)
			var ks []string
			for k := range l.atoms {
				ks = append(ks, k)
			}
			sort.Strings(ks)
			simple := true
			for _, k := range ks {
				if l.atoms[k] != 1 {
					simple = false
				}
			}
			if simple {
				var ops []*ir.Term
				for _, k := range ks {
					ops = append(ops, l.terms[k])
				}
				if l.k != 0 || len(ops) == 0 {
					ops = append(ops, ir.Const(fmt.Sprint(l.k)))
				}
				if len(ops) == 1 {
					return ops[0]
				}
				sort.SliceStable(ops, func(i, j int) bool { return ops[i].Key() < ops[j].Key() })
				return &ir.Term{Op: "bin", Aux: "+", Args: ops}
			}
		}
	case "field":
		if n.Args[0].Op == "lit" {
			for _, kv := range n.Args[0].Args {
				if kv.Aux == n.Aux {
					return kv.Args[0]
				}
			}
		}
	}
	return n
}

// ---- evaluation of one operation ----------------------------------------------

type opResult struct {
	fn  *ssa.Function
	res *ir.Term
	end *ir.State
	p   *ir.Path
}

// evalOp analyses method fn with the given parameter terms (nil = symbolic) on top of memory mem.
func evalOp(c *core.Ctx, fn *ssa.Function, params []*ir.Term, mem *ir.State, key string) *opResult {
	st := ir.NewRootState(fn, params, nil, mem)
	an := c.AnalyzeFrom(fn, st, key)
	if len(an.Problems) > 0 {
		return nil
	}
	var ps []*ir.Path
	for _, p := range an.AllPaths() {
		if p.Exit == ir.ExitPanic && emptinessGuard(p) {
			continue // Head / Tail of the empty sequence: outside the laws (it failed before, by index or nil dereference)
		}
		ps = append(ps, p)
	}
	if len(ps) != 1 || ps[0].Exit != ir.ExitReturn || len(ps[0].Results) != 1 {
		return nil
	}
	return &opResult{fn: fn, res: ps[0].Results[0], end: ps[0].End, p: ps[0]}
}

// emptinessGuard: the path has found its sequence empty - a length equal to 0 (or below 1), or the cell chain nil -
// and does nothing but panic: no store, no call other than message formatting.
func emptinessGuard(p *ir.Path) bool {
	if len(nonLocalStores(p)) != 0 {
		return false
	}
	found := false
	for _, b := range p.Events(ir.KBranch) {
		at := b.Atom
		if at.Op != "bin" || len(at.Args) != 2 || !b.Pol {
			continue
		}
		isLen := func(t *ir.Term) bool {
			return t.Op == "len" || (t.Op == "field" || t.Op == "load") && strings.Contains(strings.ToLower(t.Key()), "len")
		}
		switch at.Aux {
		case "==":
			for j := 0; j < 2; j++ {
				if k, isK := at.Args[j].IntConst(); isK && k == 0 && isLen(at.Args[1-j]) {
					found = true
				}
				if at.Args[j].IsNil() && !at.Args[1-j].IsConst() {
					found = true
				}
			}
		case "<":
			if k, isK := at.Args[1].IntConst(); isK && k == 1 && isLen(at.Args[0]) {
				found = true
			}
		}
	}
	return found
}

// evalOpCases: like evalOp, for an operation whose body splits into cases (an early return for the empty
// sequence): every returning path with its own result and end state.
func evalOpCases(c *core.Ctx, fn *ssa.Function, params []*ir.Term, mem *ir.State, key string) []*opResult {
	st := ir.NewRootState(fn, params, nil, mem)
	an := c.AnalyzeFrom(fn, st, key)
	if len(an.Problems) > 0 || len(an.Headers) > 0 {
		return nil
	}
	var out []*opResult
	for _, p := range an.AllPaths() {
		if p.Exit != ir.ExitReturn || len(p.Results) != 1 {
			return nil
		}
		out = append(out, &opResult{fn: fn, res: p.Results[0], end: p.End, p: p})
	}
	return out
}

func runC19(c *core.Ctx) {
	c.Doc("law", 10, "ADT laws by composition and rewriting")
	c.Doc("persistence", 10, "no operation stores into its argument's memory or appends onto a caller's slice")
	c.Doc("list-new-order", 1, "list.New prepends seq[i] for i = len-1 .. 0")
	c.Doc("fold", 1, "Fold: x := Empty(); while !IsEmpty(s) { x = Combine(x, Head(s)); s = Tail(s) }")

	// the monoid a caller builds with the library's own constructors is the one Fold folds with: From(e, op).Empty() is e and
	// its Combine is op itself - not a method of the instance type that shadows the promoted one (shared with C10 / C17)
	c.Doc("monoid-literal", 2, "monoid.From/FromOp build {Semigroup: combine, empty: empty}")
	c.Doc("monoid-empty", 1, "Empty returns the stored element")
	c.Doc("monoid-combine-promoted", 1, "Combine resolves to the stored semigroup's Combine")
	monoidRules(c)

	c.Doc("loops-progress", 1, "no loop of the packages can go round without changing anything")
	loopsProgress(c, "loops-progress", "internal/seq", "internal/seq/list", "internal/seq/slice")
	newLenProved = nil
	listNewOrder(c)
	for _, impl := range []string{"internal/seq/list", "internal/seq/slice"} {
		sh := pkgShort(impl)
		ops := map[string]*ssa.Function{}
		for _, m := range []string{"New", "Cons", "Head", "Tail", "Length", "IsEmpty"} {
			ops[m] = c.W.Method(impl, "Trait", m)
			if ops[m] == nil {
				c.Undecided("law", sh+"."+m, 0, "operation not found")
			}
		}
		if len(ops) != 6 {
			continue
		}
		skip := false
		for _, f := range ops {
			if f == nil {
				skip = true
			}
		}
		if skip {
			continue
		}
		// persistence
		for _, m := range []string{"New", "Cons", "Head", "Tail", "Length", "IsEmpty"} {
			fn := ops[m]
			an := c.Analyze(fn)
			name := sh + "." + m
			ok := len(an.Problems) == 0
			why := strings.Join(an.Problems, "; ")
			for _, p := range an.AllPaths() {
				for _, st := range nonLocalStores(p) {
					if freshSlotRegister(an, st.A[0]) {
						// a store through a loop-carried slot that only ever points into memory this call allocated
						// (the variable holding the result, the link field of the cell made last): nobody else's memory
						continue
					}
					ok, why = false, "stores into "+short(st.A[0])+": the sequence given is modified"
				}
				if p.Exit == ir.ExitPanic && !((m == "Head" || m == "Tail") && emptinessGuard(p)) {
					ok, why = false, "explicit panic"
				}
			}
			for _, b := range fn.Blocks {
				for _, in := range b.Instrs {
					if call, isC := in.(*ssa.Call); isC {
						if bi, isB := call.Call.Value.(*ssa.Builtin); isB && (bi.Name() == "append" || bi.Name() == "copy") && !freshSlice(call.Call.Args[0]) {
							ok, why = false, bi.Name()+" onto a slice that is not freshly allocated: with spare capacity two sequences built from the same base share memory"
						}
					}
					if st, isS := in.(*ssa.Store); isS {
						if ia, isIA := st.Addr.(*ssa.IndexAddr); isIA {
							if _, isSl := ia.X.Type().Underlying().(*types.Slice); isSl {
								ok, why = false, "writes a slice element"
							}
						}
					}
				}
			}
			c.Check(ok, "persistence", name, fn.Pos(), "no store / no append onto the argument", "%s", why)
		}

		// symbolic results, one case per returning path of Cons (a guard for the empty sequence makes two)
		conses := evalOpCases(c, ops["Cons"], nil, nil, "sym")
		if len(conses) == 0 {
			c.Undecided("law", sh+".Cons", ops["Cons"].Pos(), "Cons is not a finite set of straight-line cases")
			continue
		}
		xT := &ir.Term{Op: "param", Aux: ops["Cons"].Params[1].Name()}
		sT := &ir.Term{Op: "param", Aux: ops["Cons"].Params[2].Name()}
		on := func(m string, arg *ir.Term, mem *ir.State, key string) *ir.Term {
			r := evalOp(c, ops[m], []*ir.Term{nil, arg}, mem, key)
			if r == nil {
				return nil
			}
			return rewrite(r.res, r.end)
		}
		lenS := on("Length", nil, nil, "sym")
		sEmptyAtom := &ir.Term{Op: "bin", Aux: "==", Args: sorted2(ir.Const("0"), &ir.Term{Op: "len", Args: []*ir.Term{sT}})}
		okH, okT, okL := true, true, true
		whyH, whyT, whyL := "", "", ""
		shown := ""
		for ci, cons := range conses {
			// on a case that established "s is empty" the laws are about the one-element sequence
			sEmpty := polarity(cons.p, sEmptyAtom) > 0
			tag := fmt.Sprintf("-case%d", ci)
			// Head(Cons(x,s)) = x
			if r := on("Head", cons.res, cons.end, "head-of-cons"+tag); r != nil {
				shown = short(r)
				if !ir.Same(r, xT) {
					okH, whyH = false, fmt.Sprintf("Head(Cons(x,s)) normalises to %s, expected x", short(r))
				}
			} else {
				okH, whyH = false, "Head could not be evaluated"
			}
			// Tail(Cons(x,s)) = s
			if r := on("Tail", cons.res, cons.end, "tail-of-cons"+tag); r != nil {
				ok := ir.Same(r, sT)
				if !ok && r.Op == "lit" {
					// componentwise: every field equals the same field of s
					ok = len(r.Args) > 0
					for _, kv := range r.Args {
						want := &ir.Term{Op: "field", Aux: kv.Aux, Args: []*ir.Term{sT}}
						if !ir.Same(kv.Args[0], want) && !linEqual(kv.Args[0], want) {
							ok = false
						}
					}
				}
				if !ok && sEmpty {
					// both sides are the empty sequence: Length(Tail(Cons(x,s))) = 0 = Length(s)
					if lr := evalOp(c, ops["Length"], []*ir.Term{nil, r}, cons.end, "len-of-tail-of-cons"+tag); lr != nil {
						if z, isZ := rewrite(lr.res, lr.end).IntConst(); isZ && z == 0 {
							ok = true
						}
					}
				}
				if !ok {
					okT, whyT = false, fmt.Sprintf("Tail(Cons(x,s)) normalises to %s, expected s itself", short(r))
				}
			} else {
				okT, whyT = false, "Tail could not be evaluated"
			}
			// Length(Cons(x,s)) = Length(s) + 1
			if r := on("Length", cons.res, cons.end, "len-of-cons"+tag); r != nil && lenS != nil {
				lenOfS := substParam(lenS, ops["Length"].Params[1].Name(), sT)
				want := &ir.Term{Op: "bin", Aux: "+", Args: []*ir.Term{lenOfS, ir.Const("1")}}
				good := linEqual(r, want)
				if !good && sEmpty && ir.Same(lenOfS, &ir.Term{Op: "len", Args: []*ir.Term{sT}}) {
					if k, isK := r.IntConst(); isK && k == 1 {
						good = true
					}
				}
				if !good {
					okL, whyL = false, fmt.Sprintf("Length(Cons(x,s)) normalises to %s, expected %s", short(r), short(want))
				}
			} else {
				okL, whyL = false, "Length could not be evaluated"
			}
		}
		c.Check(okH, "law", sh+": Head(Cons(x,s)) = x", ops["Head"].Pos(), shown, "%s", whyH)
		c.Check(okT, "law", sh+": Tail(Cons(x,s)) = s", ops["Tail"].Pos(), fmt.Sprintf("%d case(s)", len(conses)), "%s", whyT)
		c.Check(okL, "law", sh+": Length(Cons(x,s)) = Length(s)+1", ops["Length"].Pos(), fmt.Sprintf("%d case(s)", len(conses)), "%s", whyL)
		// IsEmpty(s) = (Length(s) == 0): IsEmpty is the term L == 0, or a decision tree on it returning constants
		if lenS != nil {
			l2 := substParam(lenS, ops["Length"].Params[1].Name(), &ir.Term{Op: "param", Aux: ops["IsEmpty"].Params[1].Name()})
			isLenZero := func(t *ir.Term) bool {
				// L < 1 and L <= 0 say the same as L == 0 for a length (never negative: D-iii)
				if t.Op == "bin" && len(t.Args) == 2 {
					if k, isK := t.Args[1].IntConst(); isK && linEqual(t.Args[0], l2) && (t.Aux == "<" && k == 1 || t.Aux == "<=" && k == 0) {
						return true
					}
				}
				if t.Op != "bin" || t.Aux != "==" || len(t.Args) != 2 {
					return false
				}
				a, b := t.Args[0], t.Args[1]
				z, isZ := a.IntConst()
				other := b
				if !isZ {
					z, isZ = b.IntConst()
					other = a
				}
				return isZ && z == 0 && linEqual(other, l2)
			}
			an := c.Analyze(ops["IsEmpty"])
			ok := len(an.Problems) == 0 && len(an.Headers) == 0
			why := "IsEmpty could not be modelled"
			sawT, sawF := false, false
			for _, p := range an.AllPaths() {
				if !ok {
					break
				}
				if p.Exit != ir.ExitReturn || len(p.Results) != 1 {
					ok, why = false, "IsEmpty can panic"
					break
				}
				r := rewrite(p.Results[0], p.End)
				if isLenZero(r) {
					sawT, sawF = true, true
					continue
				}
				truth := 0
				for _, st := range p.Events(ir.KBranch) {
					at := rewrite(st.Atom, p.End)
					switch {
					case isLenZero(at):
						truth = polInt(st.Pol)
					case at.Op == "bin" && at.Aux == "<" && len(at.Args) == 2:
						// 0 < L  is the negation
						if z, isZ := at.Args[0].IntConst(); isZ && z == 0 && linEqual(at.Args[1], l2) {
							truth = -polInt(st.Pol)
						}
					}
				}
				if !(r.IsConst() && (r.Aux == "true" || r.Aux == "false")) || truth == 0 {
					ok, why = false, "IsEmpty returns "+short(r)+" without deciding Length(s) == 0"
					break
				}
				if (r.Aux == "true") != (truth > 0) {
					ok, why = false, fmt.Sprintf("IsEmpty returns %s when Length(s) == 0 is %v", r.Aux, truth > 0)
				}
				if truth > 0 {
					sawT = true
				} else {
					sawF = true
				}
			}
			if ok && !(sawT && sawF) {
				ok, why = false, "IsEmpty does not cover both cases"
			}
			c.Check(ok, "law", sh+": IsEmpty(s) = (Length(s) == 0)", ops["IsEmpty"].Pos(), "decides Length(s) == 0", "%s (Length(s) = %s)", why, short(l2))
		} else {
			c.Undecided("law", sh+": IsEmpty(s) = (Length(s) == 0)", ops["IsEmpty"].Pos(), "Length could not be evaluated")
		}
		// Length(New(xs...)) = len(xs)
		newLen(c, sh, ops)
	}
	foldRule(c)
}

func substParam(t *ir.Term, name string, by *ir.Term) *ir.Term {
	if t == nil {
		return nil
	}
	if t.Op == "param" && t.Aux == name {
		return by
	}
	if len(t.Args) == 0 {
		return t
	}
	args := make([]*ir.Term, len(t.Args))
	for i, a := range t.Args {
		args[i] = substParam(a, name, by)
	}
	return &ir.Term{Op: t.Op, Aux: t.Aux, Args: args, Fn: t.Fn, Typ: t.Typ}
}

// newLen: Length(New(xs...)) = len(xs). New may contain a loop (list): its result is taken from the exit path.
func newLen(c *core.Ctx, sh string, ops map[string]*ssa.Function) {
	fn := ops["New"]
	name := sh + ": Length(New(xs...)) = len(xs)"
	// New may delegate to a helper that holds the loop (`prepend(xs, onto)`): followed
	an := c.AnalyzeLoops(fn)
	if len(an.Problems) > 0 {
		an = c.Analyze(fn)
	}
	if len(an.Problems) > 0 {
		c.Undecided("law", name, fn.Pos(), "New could not be modelled")
		return
	}
	xs := &ir.Term{Op: "param", Aux: fn.Params[1].Name()}
	ok, n := true, 0
	why := ""
	for _, p := range an.AllPaths() {
		if p.Exit != ir.ExitReturn {
			continue
		}
		n++
		r := evalOp(c, ops["Length"], []*ir.Term{nil, p.Results[0]}, p.End, fmt.Sprintf("len-of-new-%d", n))
		if r == nil {
			ok, why = false, "Length could not be evaluated on New's result"
			continue
		}
		got := rewrite(r.res, r.end)
		// an early return for no arguments: the path established len(xs) == 0
		if polarity(p, &ir.Term{Op: "bin", Aux: "==", Args: sorted2(ir.Const("0"), &ir.Term{Op: "len", Args: []*ir.Term{xs}})}) > 0 {
			if z, isZ := got.IntConst(); isZ && z == 0 || got.Op == "const" && strings.HasPrefix(got.Aux, "zero") {
				continue
			}
		}
		if newLenProved != nil && ir.Same(got, newLenProved) {
			continue // proved by induction over the loop in list-new-order
		}
		if !linEqual(got, &ir.Term{Op: "len", Args: []*ir.Term{xs}}) {
			ok, why = false, fmt.Sprintf("Length(New(xs...)) normalises to %s, expected len(xs)", short(got))
		}
	}
	c.Check(ok && n > 0, "law", name, fn.Pos(), "len(xs)", "%s", why)
}

// newLenProved: set by listNewOrder when list.New returns a loop-carried descriptor whose counting field was proved
// inductively to equal len(xs) at the loop's exit: the term field[<f>](<descriptor symbol>) stands for len(xs).
var newLenProved *ir.Term

func listNewOrder(c *core.Ctx) {
	fn := c.W.Method("internal/seq/list", "Trait", "New")
	name := "list.New"
	if fn == nil {
		c.Undecided("list-new-order", name, 0, "anchor not found")
		return
	}
	an := c.AnalyzeLoops(fn)
	if len(an.Problems) > 0 || len(an.Headers) != 1 {
		c.Undecided("list-new-order", name, fn.Pos(), "expected one loop (found %d; %s)", len(an.Headers), strings.Join(an.Problems, "; "))
		return
	}
	h := an.Headers[0]
	xs := &ir.Term{Op: "param", Aux: fn.Params[1].Name()}
	lenXs := &ir.Term{Op: "len", Args: []*ir.Term{xs}}
	// the other way to build the same list: front to back through a slot (`*slot = cell; slot = &cell.tail`)
	if okF, whyF, recognised := listNewForward(fn, an, h, xs, lenXs); recognised {
		c.Check(okF, "list-new-order", name, fn.Pos(), "append xs[0] .. xs[len-1] through the link slot of the last cell", "%s", whyF)
		return
	}
	// the descending index: an integer loop-carried register
	var idx *ssa.Phi
	for _, in := range h.Instrs {
		if phi, ok := in.(*ssa.Phi); ok {
			if bt, isB := phi.Type().Underlying().(*types.Basic); isB && bt.Info()&types.IsInteger != 0 {
				idx = phi
			}
		}
	}
	if idx == nil {
		c.Fail("list-new-order", name, fn.Pos(), "no integer loop index")
		return
	}
	iSym := an.Start[h].Reg(idx)
	ok := true
	why := ""
	var jTerm *ir.Term   // the index of the element prepended in an iteration, as a term over the loop counter
	var descPhi *ssa.Phi // the loop-carried descriptor when New builds its result by repeated push
	descList, descLen := "", ""
	var accNow func(p *ir.Path) *ir.Term // the accumulated list as seen at the start of a path from h
	nIter := 0
	if l := countedLoop(an, h); l == nil || !l.Rotated() {
		if q := earlyExit(an, h); q != nil {
			ok, why = false, "the loop is left from inside its body: the remaining arguments never become cells"
		}
	}
	for _, p := range an.Segs[h] {
		if p.To != h {
			continue
		}
		nIter++
		// the new cell: a fresh allocation whose literal holds xs[J] and the previous list
		var cell, vTail *ir.Term
		nCells := 0
		p.End.EachMem(func(addr, val *ir.Term) {
			if addr.Op != "alloc" || !freshOnPath(p, &ir.Term{Op: "faddr", Aux: "", Args: []*ir.Term{addr}}) && !pathAllocates(p, addr) {
				return
			}
			lit := p.End.MemAt(addr)
			if lit == nil || lit.Op != "lit" {
				return
			}
			fs := ir.LitFields(lit)
			if len(fs) != 2 {
				return
			}
			for i := 0; i < 2; i++ {
				hd, tl := fs[i].Args[0], fs[1-i].Args[0]
				if hd.Op == "load" && hd.Args[0].Op == "iaddr" && ir.Same(hd.Args[0].Args[0], xs) {
					if j := hd.Args[0].Args[1]; mentions(j, iSym) {
						if jTerm != nil && !linEqual(jTerm, j) {
							ok, why = false, "different iterations index the arguments differently"
						}
						jTerm = j
						cell, vTail = addr, tl
						nCells++
					}
				}
			}
		})
		if nCells != 1 || cell == nil {
			ok, why = false, fmt.Sprintf("an iteration must build exactly one new cell holding xs[index] (found %d)", nCells)
			continue
		}
		// the previous list and its successor
		var next *ir.Term
		switch {
		case vTail.Op == "phi":
			if phi, isPhi := vTail.Src.(*ssa.Phi); isPhi && phi.Block() == h {
				next = p.PhiOut[phi]
				ph := phi
				accNow = func(q *ir.Path) *ir.Term { return an.Start[h].Reg(ph) }
			}
		case vTail.Op == "load" && len(vTail.Args) == 1:
			addr := vTail.Args[0]
			next = p.End.MemAt(addr)
			accNow = func(q *ir.Path) *ir.Term { return an.Start[h].MemAt(addr) }
		case vTail.Op == "field" && len(vTail.Args) == 1 && vTail.Args[0].Op == "phi":
			// the descriptor itself is loop-carried (s = s.push(x)): its list field is the accumulated list and its
			// other (integer) field counts the pushes
			if phi, isPhi := vTail.Args[0].Src.(*ssa.Phi); isPhi && phi.Block() == h {
				out := p.PhiOut[phi]
				if out != nil && out.Op == "alloc" {
					out = p.End.MemAt(out)
				}
				next = ir.FieldOf(out, vTail.Aux)
				ph, lf := phi, vTail.Aux
				accNow = func(q *ir.Path) *ir.Term { return ir.FieldOf(an.Start[h].Reg(ph), lf) }
				descPhi, descList = phi, lf
				// the counting field goes up by one per push
				if out != nil && out.Op == "lit" {
					for _, kv := range ir.LitFields(out) {
						if kv.Aux == lf {
							continue
						}
						descLen = kv.Aux
						if !linEqual(kv.Args[0], &ir.Term{Op: "bin", Aux: "+", Args: []*ir.Term{ir.FieldOf(an.Start[h].Reg(ph), kv.Aux), ir.Const("1")}}) {
							ok, why = false, "the length kept in the descriptor does not grow by one per element"
						}
					}
				}
			}
		}
		if next == nil || !ir.Same(next, cell) {
			ok, why = false, "the new cell must point to the list built so far and become the new head of it; found tail = "+short(vTail)+", list' = "+short(next)
		}
		// the element index J (a term over the loop counter, whichever way the counter runs) goes down by exactly
		// one per iteration
		jNext := substTerm(jTerm, iSym, p.PhiOut[idx])
		if !linEqual(jNext, &ir.Term{Op: "bin", Aux: "-", Args: []*ir.Term{jTerm, ir.Const("1")}}) {
			ok, why = false, "the index must decrease by exactly one per iteration"
		}
		// continue condition: exactly J >= 0. A test X < Y taken on its true edge means Y - X - 1 >= 0, on its false
		// edge X - Y >= 0; one of the loop's tests must be the same linear quantity as J
		good := false
		for _, st := range p.Events(ir.KBranch) {
			at := st.Atom
			if at.Op != "bin" || at.Aux != "<" || len(at.Args) != 2 || !mentions(at, iSym) {
				continue
			}
			var q *ir.Term
			if st.Pol {
				q = &ir.Term{Op: "bin", Aux: "-", Args: []*ir.Term{{Op: "bin", Aux: "-", Args: []*ir.Term{at.Args[1], at.Args[0]}}, ir.Const("1")}}
			} else {
				q = &ir.Term{Op: "bin", Aux: "-", Args: []*ir.Term{at.Args[0], at.Args[1]}}
			}
			if linEqual(q, jTerm) {
				good = true
			}
		}
		if !good {
			ok, why = false, "the loop does not run exactly while the element index is >= 0 (an element would be skipped or an index fall below zero)"
		}
	}
	if nIter == 0 {
		ok, why = false, "no iteration path"
	}
	// start: index such that the first element visited is xs[len-1]; empty accumulated list
	for _, p := range an.Segs[nil] {
		if p.To == h {
			if jTerm == nil {
				continue
			}
			if descPhi != nil {
				// the descriptor starts empty: no list, length 0 (with J = len-1 at the start and J going down by
				// one while the length goes up by one, length + J + 1 = len(xs) throughout and the loop ends at J = -1)
				d0 := p.PhiOut[descPhi]
				if d0 != nil && d0.Op == "alloc" {
					d0 = p.End.MemAt(d0)
				}
				l0, n0 := ir.FieldOf(d0, descList), ir.FieldOf(d0, descLen)
				zeroLike := func(t *ir.Term) bool {
					if t == nil {
						return false
					}
					if k, isK := t.IntConst(); isK && k == 0 {
						return true
					}
					return t.IsNil() || t.Op == "const" && strings.HasPrefix(t.Aux, "zero")
				}
				if d0 == nil || !zeroLike(l0) || !zeroLike(n0) {
					ok, why = false, "the descriptor does not start as the empty sequence: "+short(d0)
				}
			}
			first := substTerm(jTerm, iSym, p.PhiOut[idx])
			want := &ir.Term{Op: "bin", Aux: "-", Args: []*ir.Term{lenXs, ir.Const("1")}}
			if !linEqual(first, want) {
				ok, why = false, "the first element prepended is xs["+short(first)+"], expected xs[len(xs)-1]"
			}
		} else if p.Exit == ir.ExitReturn {
			// an early return is fine for no arguments only
			if polarity(p, &ir.Term{Op: "bin", Aux: "==", Args: sorted2(ir.Const("0"), lenXs)}) <= 0 {
				ok, why = false, "New returns before the loop for a non-empty argument list"
			}
		}
	}
	// exit: the descriptor holds the accumulated list and len(xs)
	for _, p := range an.Segs[h] {
		if p.Exit != ir.ExitReturn {
			continue
		}
		r := p.Results[0]
		if r.Op == "alloc" {
			r = p.End.MemAt(r)
		}
		hasLen, hasList := false, false
		if descPhi != nil && ir.Same(r, an.Start[h].Reg(descPhi)) && descLen != "" {
			// the loop-carried descriptor is returned as it is: its fields were proved inductively above
			hasLen, hasList = true, true
		}
		if r != nil && r.Op == "lit" && accNow != nil {
			for _, kv := range ir.LitFields(r) {
				if linEqual(kv.Args[0], lenXs) {
					hasLen = true
				}
				if ir.Same(kv.Args[0], accNow(p)) {
					hasList = true
				}
			}
		}
		if !hasLen || !hasList {
			ok, why = false, "the result is not {length: len(xs), list: the list built}: "+short(r)
		}
	}
	if ok && descPhi != nil && descLen != "" {
		newLenProved = ir.FieldOf(an.Start[h].Reg(descPhi), descLen)
	}
	c.Check(ok, "list-new-order", name, fn.Pos(), "prepend xs[len-1] .. xs[0] in this order", "%s", why)
}

// pathAllocates: the cell addr is allocated on path p (its zero-initialising store is path-local).
func pathAllocates(p *ir.Path, addr *ir.Term) bool {
	for _, st := range p.Events(ir.KStore) {
		if st.LocalStore {
			root := st.A[0]
			for root.Op == "faddr" || root.Op == "iaddr" {
				root = root.Args[0]
			}
			if ir.Same(root, addr) {
				return true
			}
		}
	}
	return false
}

func foldRule(c *core.Ctx) {
	fn := c.W.Method("internal/seq", "Foldable", "Fold")
	name := "seq.Foldable.Fold"
	if fn == nil {
		c.Undecided("fold", name, 0, "anchor not found")
		return
	}
	an := c.Analyze(fn)
	if len(an.Problems) == 0 && len(an.Headers) == 0 {
		// the traversal lives in a helper (an iterator the fold ranges over): followed together with its loop
		an = c.AnalyzeLoops(fn)
	}
	if len(an.Problems) > 0 || len(an.Headers) != 1 {
		c.Undecided("fold", name, fn.Pos(), "expected one loop")
		return
	}
	h := an.Headers[0]
	// accumulator and cursor: loop-carried registers, or cells of a state object (helpers done()/next() inlined):
	// found as the first argument of Combine and the argument of IsEmpty
	quantityOf := func(t *ir.Term) (Quantity, bool) {
		if t == nil {
			return Quantity{}, false
		}
		if t.Op == "phi" {
			if phi, isPhi := t.Src.(*ssa.Phi); isPhi && phi.Block() == h {
				return PhiQuantity(an, h, phi, nil), true
			}
		}
		if t.Op == "load" && len(t.Args) == 1 && cellAddr(t.Args[0]) {
			return CellQuantity(an, t.Args[0]), true
		}
		return Quantity{}, false
	}
	var accQ, curQ Quantity
	haveAcc, haveCur := false, false
	for _, p := range an.Segs[h] {
		for _, st := range p.Events(ir.KCall) {
			if st.Method == nil {
				continue
			}
			switch st.Method.Name() {
			case "IsEmpty", "Head", "Tail":
				if q, isQ := quantityOf(st.A[1]); isQ && !haveCur {
					curQ, haveCur = q, true
				}
			case "Combine":
				if q, isQ := quantityOf(st.A[1]); isQ && !haveAcc {
					accQ, haveAcc = q, true
				}
			}
		}
	}
	ok := haveAcc && haveCur
	why := "no accumulator / cursor"
	// The fold as a protocol on the pair (x, s), whichever way the loop is written (tested at the top or at the
	// bottom behind an entry check): IsEmpty speaks about the current cursor and, when true, the accumulator is
	// returned at once; Head / Combine / Tail touch the cursor only after it was found non-empty; per cursor position
	// exactly one x = Combine(x, Head(s)) - accumulator first - and then s = Tail(s). What is known at the loop head
	// ("the cursor was found non-empty", "its element is already combined") is the meet over the arrivals.
	type fstate struct {
		x, s            *ir.Term
		known, combined bool
	}
	type hfact struct{ known, combined, set bool }
	var headFact hfact
	sim := func(p *ir.Path, st fstate) (fstate, string) {
		for _, e := range p.Events(ir.KCall) {
			if e.Method == nil {
				continue
			}
			switch e.Method.Name() {
			case "Empty":
				if st.x != nil {
					return st, "Empty() is taken twice"
				}
				if !paramOf(e.A[0], fn, 1) {
					return st, "Empty() is not taken from the monoid argument"
				}
				st.x = e.R
			case "IsEmpty":
				if st.s == nil || !ir.Same(e.A[1], st.s) {
					return st, "IsEmpty is asked about something other than the cursor"
				}
				switch polarity(p, e.R) {
				case 1:
					if p.Exit != ir.ExitReturn || len(p.Results) != 1 || st.x == nil || !ir.Same(p.Results[0], st.x) {
						return st, "when the cursor is empty the accumulator must be returned"
					}
					// nothing may follow
					last := true
					seen := false
					for _, e2 := range p.Events(ir.KCall) {
						if seen && e2.Method != nil {
							last = false
						}
						if e2 == e {
							seen = true
						}
					}
					if !last {
						return st, "the fold goes on after it found the cursor empty"
					}
					return st, ""
				case -1:
					st.known = true
				default:
					return st, "the result of IsEmpty is not tested"
				}
			case "Head":
				if st.s == nil || !ir.Same(e.A[1], st.s) || !st.known {
					return st, "Head is taken of a cursor that was not found non-empty"
				}
			case "Combine":
				hd, _, hargs, isC := callParts(e.A[2])
				if st.x == nil || !paramOf(e.A[0], fn, 1) || !ir.Same(e.A[1], st.x) || !isC || hd != "Head" || len(hargs) != 2 || !ir.Same(hargs[1], st.s) || !st.known {
					return st, fmt.Sprintf("each step must be x = Combine(x, Head(s)) with the accumulator first; found Combine(%s, %s)", short(e.A[1]), short(e.A[2]))
				}
				if st.combined {
					return st, "an element is combined twice"
				}
				st.x, st.combined = e.R, true
			case "Tail":
				if st.s == nil || !ir.Same(e.A[1], st.s) || !st.known {
					return st, "Tail is taken of a cursor that was not found non-empty"
				}
				if !st.combined {
					return st, "the cursor moves on before its element was combined"
				}
				st.s, st.known, st.combined = e.R, false, false
			}
		}
		return st, ""
	}
	arrive := func(p *ir.Path, st fstate) string {
		if p.To != h {
			if p.Exit == ir.ExitReturn && !(len(p.Results) == 1 && st.x != nil && ir.Same(p.Results[0], st.x)) {
				return "a returning path does not return the accumulator"
			}
			return ""
		}
		if !ir.Same(accQ.ValueAt(p, len(p.Steps)), st.x) || !ir.Same(curQ.ValueAt(p, len(p.Steps)), st.s) {
			return "the loop-carried accumulator / cursor are not the values the pass computed"
		}
		if !headFact.set {
			headFact = hfact{st.known, st.combined, true}
		} else if headFact.known != st.known || headFact.combined != st.combined {
			return "the arrivals at the loop head disagree on what is known about the cursor"
		}
		return ""
	}
	if ok {
		// entry segments first (they fix what is known at the head), then the loop segments, twice for the fixpoint
		for _, p := range an.Segs[nil] {
			st, w := sim(p, fstate{s: &ir.Term{Op: "param", Aux: fn.Params[2].Name(), Src: fn.Params[2]}})
			if w == "" {
				w = arrive(p, st)
			}
			if w == "" && p.To == h {
				m, _, args, isC := callParts(accQ.ValueAt(p, len(p.Steps)))
				if !(isC && m == "Empty" && paramOf(args[0], fn, 1)) || !paramOf(curQ.ValueAt(p, len(p.Steps)), fn, 2) {
					w = "the fold must start from m.Empty() and the sequence argument"
				}
			}
			if w != "" {
				ok, why = false, w
			}
		}
		for round := 0; round < 2 && ok; round++ {
			for _, p := range an.Segs[h] {
				st, w := sim(p, fstate{x: accQ.StartSym(p), s: curQ.StartSym(p), known: headFact.known, combined: headFact.combined})
				if w == "" {
					w = arrive(p, st)
				}
				if w != "" {
					ok, why = false, w
				}
			}
		}
		if ok && !headFact.set {
			ok, why = false, "the loop is never entered"
		}
	}
	c.Check(ok, "fold", name, fn.Pos(), "x := Empty(); for !IsEmpty(s) { x = Combine(x, Head(s)); s = Tail(s) }", "%s", why)
}

// freshSlotRegister: addr is a loop-carried register every incoming value of which is a variable of this call or a
// field of a cell this call allocated.
func freshSlotRegister(an *ir.Analysis, addr *ir.Term) bool {
	if addr == nil || addr.Op != "phi" {
		return false
	}
	phi, isPhi := addr.Src.(*ssa.Phi)
	if !isPhi {
		return false
	}
	n := 0
	for _, ps := range an.Segs {
		for _, p := range ps {
			v, has := p.PhiOut[phi]
			if !has || p.To != phi.Block() {
				continue
			}
			n++
			base := v
			if base != nil && base.Op == "faddr" && len(base.Args) == 1 {
				base = base.Args[0]
			}
			if base == nil || base.Op != "alloc" {
				return false
			}
		}
	}
	return n > 0
}

// listNewForward: list.New building its cells front to back.
//
//	var first *cell; slot := &first
//	for i := 0; i < len(xs); i++ { c := &cell{head: xs[i]}; *slot = c; slot = &c.tail }
//	return {len(xs), first}
//
// By induction over the iterations, `first` heads the cells of xs[0..i) in order and slot is the nil link that ends
// them. recognised = the function has the slot register at all (otherwise the prepending form is tried).
func listNewForward(fn *ssa.Function, an *ir.Analysis, h *ssa.BasicBlock, xs, lenXs *ir.Term) (ok bool, why string, recognised bool) {
	var slot *ssa.Phi
	for _, in := range h.Instrs {
		phi, isPhi := in.(*ssa.Phi)
		if !isPhi {
			break
		}
		if pt, isP := phi.Type().Underlying().(*types.Pointer); isP {
			if _, isPP := pt.Elem().Underlying().(*types.Pointer); isPP {
				slot = phi
			}
		}
	}
	if slot == nil {
		return false, "", false
	}
	recognised = true
	l := countedLoop(an, h)
	z, isZ := int64(-1), false
	if l != nil && l.Start != nil {
		z, isZ = l.Start.IntConst()
	}
	if l == nil || l.Step != 1 || l.Descending || !(l.RangeOver != nil && ir.Same(l.RangeOver, xs) || l.Bound != nil && ir.Same(l.Bound, lenXs) && isZ && (z == 0 || z == -1)) {
		return false, "the loop is not an ascending walk over all arguments", true
	}
	if !l.Rotated() {
		if q := earlyExit(an, h); q != nil {
			return false, "the loop is left from inside its body: the remaining arguments never become cells", true
		}
	}
	idx := l.Index(an)
	slotSym := an.Start[h].Reg(slot)
	var first *ir.Term
	lb := ir.LoopBlocks(h)
	for _, ps := range an.Segs {
		for _, p := range ps {
			if p.To != h || (p.From != nil && lb[p.From]) {
				continue
			}
			v := p.PhiOut[slot]
			if v == nil || v.Op != "alloc" || !p.End.MemAt(v).IsNil() {
				return false, "the slot does not start at an empty list variable of the call: " + short(v), true
			}
			if first != nil && !ir.Same(first, v) {
				return false, "the slot starts at different variables", true
			}
			first = v
		}
	}
	if first == nil {
		return false, "no way into the loop", true
	}
	nIter := 0
	for _, p := range an.Segs[h] {
		if p.To != h {
			continue
		}
		nIter++
		if len(calls(p)) != 0 {
			return false, "an iteration calls out", true
		}
		var cell *ir.Term
		linked := 0
		for _, st := range p.Events(ir.KStore) {
			a, v := st.A[0], st.A[1]
			switch {
			case ir.Same(a, slotSym):
				linked++
				if v.Op != "alloc" {
					return false, "the slot receives " + short(v) + ", expected the cell just made", true
				}
				if cell != nil && !ir.Same(cell, v) {
					return false, "two cells in one iteration", true
				}
				cell = v
			case a.Op == "faddr" && len(a.Args) == 1 && a.Args[0].Op == "alloc" && st.LocalStore:
				if cell != nil && !ir.Same(cell, a.Args[0]) {
					return false, "two cells in one iteration", true
				}
				cell = a.Args[0]
				isElem := v.Op == "load" && len(v.Args) == 1 && v.Args[0].Op == "iaddr" && ir.Same(v.Args[0].Args[0], xs) && ir.Same(v.Args[0].Args[1], idx)
				if !isElem && !v.IsNil() {
					return false, "the new cell is filled with " + short(v) + ", expected the argument at the loop's index (and no successor yet)", true
				}
			case a.Op == "alloc" && st.LocalStore:
				// zero-initialisation of the fresh cell / of a local
			default:
				return false, "an iteration stores into " + short(a), true
			}
		}
		if linked != 1 || cell == nil {
			return false, fmt.Sprintf("an iteration must hang exactly one new cell into the slot (found %d)", linked), true
		}
		lit := p.End.MemAt(cell)
		nHead, tailF := 0, ""
		if pt, isP := cell.Typ.(*types.Pointer); isP {
			if st, isS := pt.Elem().Underlying().(*types.Struct); isS {
				for i := 0; i < st.NumFields(); i++ {
					if types.Identical(st.Field(i).Type(), cell.Typ) {
						tailF = st.Field(i).Name()
					}
				}
			}
		}
		for _, kv := range ir.LitFields(lit) {
			v := kv.Args[0]
			if v.Op == "load" && len(v.Args) == 1 && v.Args[0].Op == "iaddr" && ir.Same(v.Args[0].Args[0], xs) && ir.Same(v.Args[0].Args[1], idx) {
				nHead++
			}
		}
		if nHead != 1 || tailF == "" {
			return false, "the new cell does not hold the argument at the loop's index", true
		}
		if t := fieldOf2(lit, tailF); t != nil && !t.IsNil() && !(t.IsConst() && strings.HasPrefix(t.Aux, "zero")) {
			return false, "the new cell already has a successor: " + short(t), true
		}
		next := p.PhiOut[slot]
		if !(next != nil && next.Op == "faddr" && next.Aux == tailF && len(next.Args) == 1 && ir.Same(next.Args[0], cell)) {
			return false, "the slot must move to the link field of the cell just made; found " + short(next), true
		}
	}
	if nIter == 0 {
		return false, "no iteration path", true
	}
	// results
	nRet := 0
	for _, p := range an.AllPaths() {
		if p.Exit != ir.ExitReturn {
			continue
		}
		nRet++
		if p.From == nil {
			if polarity(p, &ir.Term{Op: "bin", Aux: "==", Args: sorted2(ir.Const("0"), lenXs)}) <= 0 {
				return false, "New returns before the loop for a non-empty argument list", true
			}
			continue
		}
		r := p.Results[0]
		if r.Op == "alloc" {
			r = p.End.MemAt(r)
		}
		hasLen, hasList := false, false
		if r != nil && r.Op == "lit" {
			for _, kv := range ir.LitFields(r) {
				if linEqual(kv.Args[0], lenXs) {
					hasLen = true
				}
				if ir.Same(kv.Args[0], an.Start[h].MemAt(first)) {
					hasList = true
				}
			}
		}
		if !hasLen || !hasList || len(nonLocalStores(p)) != 0 {
			return false, "the result is not {length: len(xs), list: the variable the slot started at}: " + short(r), true
		}
	}
	return nRet > 0, "no returning path", true
}
