package rules

import (
	"go/constant"
	"fmt"
	"go/token"
	"go/types"
	"strings"

	"golang.org/x/tools/go/ssa"

	"verif/checker/internal/core"
	"verif/checker/internal/ir"
)

func init() {
	register(&Pack{ID: "C18", Run: runC18, Meta: core.Meta{
		Level:       "other",
		Explanation: "EXPLICITLY WEAK. The property is a refinement over unbounded operation histories resting on a heap-shape invariant (every level a sorted sub-chain of the level below) and on random node heights; that needs shape analysis and is NOT decided. Decided are necessary conditions visible in the shape of the code (staged package internal/maplike/skiplist), independent of how the loops are written (helpers are inlined with their loops; a segment between two loop heads is classified by the successor cand = cursor.fingers[index] it inspects). compare-normal-form - keys are touched only through the order trait's Compare; in the two traversal functions (discovered as the callees of Put/Remove and Get) the only key compared is that of cand, after cand != nil, and the advance condition normalises to 'node key < search key'; the two traversals agree (siblings); in Put/Get/Remove the match condition normalises to 'equal' on the node the traversal returned. level-loops - index = level counter + c for one constant c; every traversal enters its level loop with index = L - 1, L being len(head.fingers), len(path) or the constructor's level field of the list (starting lower leaves the upper path entries stale); a pass of the level loop begins iff index >= 0 and the loop is left iff index < 0 (decided by evaluating the branch atoms over a window of integers), 'less' keeps the counter, 'stop' (nil or not less) decrements it by exactly one at the level loop's head; Put splices exactly the levels 0 .. height-1 of the new node (trip count len(node.fingers), or the constructor's rank when that is the length of the finger slice it builds); a new node's height is a counter from 0 incremented only under counter < list.levels, hence <= len(path) = len(head.fingers); Remove's loop covers every level of the removed node. traversal-effects - the cursor starts at the head; 'less' sets cursor := cand (and refreshes a cached finger slice, related by the invariant cached = cursor.fingers that is assumed at the start of every segment and proved at its end); 'stop' keeps the cursor and, in the path-recording traversal, stores path[index] := cursor exactly once; no other store; the result is the level-0 successor of the final cursor (and the path). splice-order - node.fingers[l] is read from path[l].fingers[l] BEFORE path[l].fingers[l] := node. unlink - a finger is overwritten only where path[l].fingers[l] == v, with v.fingers[l] when l < len(v.fingers) else nil. results - Get/Remove return the value of the node their traversal returned only under 'equal', the zero value otherwise, and no other source of values exists (no cache); Put on 'equal' performs only v.val := val (an assertion exit guarded by 'new node's height > number of levels' is unreachable by the height bound and is no result). nil-guard - every field access through the node a traversal returned is dominated by the non-nil side of a test of that node (or by the true side of a package helper that answers true only for a non-nil argument). print-walk - the list's String() carries one node cursor that enters as list.head, is advanced to cursor.fingers[0], leaves the loop iff nil and is rendered in every pass; print-node - a node's String() reads its own key and, for the elements it loads from its finger slice, the pointed-to key only behind that element's nil test. print-pure - String() keeps no state. That the level-0 chain is ascending and holds exactly the live keys rests on the undecided invariant.",
		RuleText:    "one obligation per (rule, function)",
		Assumptions: []string{"the comparison trait is a total order (premise of the property)"},
		TrustedBase: []string{"go/ssa", "path engine P"},
	}})
}

// skipsRotatedLoop: the path from the entry leaves the function because a bottom-tested level loop has nothing to do.
func skipsRotatedLoop(an *ir.Analysis, p *ir.Path) bool {
	for _, h := range an.Headers {
		if l := countedLoop(an, h); l != nil && zeroTrip(an, p, l) {
			return true
		}
	}
	return false
}

func runC18(c *core.Ctx) {
	pkg := "internal/maplike/skiplist"
	c.Doc("compare-normal-form", 4, "advance iff node key < key; match iff equal; keys only through Compare")
	c.Doc("level-loops", 4, "traversals go down to level 0 inclusive; Put splices 0..rank-1; Remove covers the node's levels")
	c.Doc("loops-progress", 1, "no loop of the package can go round without changing anything")
	c.Doc("traversal-effects", 2, "advancing moves node and next along the level; stopping keeps them and (insertion path) records the node; the result is next[0]")
	c.Doc("splice-order", 1, "node.fingers[l] read before path[l].fingers[l] := node")
	c.Doc("unlink", 1, "overwrite only where path[l].fingers[l] == v, with v.fingers[l] or nil")
	c.Doc("results", 3, "Get/Remove/Put results and effects under equal / not equal")

	loopsProgress(c, "loops-progress", pkg)
	// "prints its keys in ascending order" - of the list as it is now: printing keeps no state
	c.Doc("print-pure", 1, "String() of the list and of its nodes stores nothing outside its own frame and reads no package state")
	{
		n, bad := 0, 0
		for _, fn := range c.W.SourceFuncs(pkg) {
			if fn.Name() != "String" || fn.Signature.Recv() == nil {
				continue
			}
			n++
			for _, b := range fn.Blocks {
				for _, in := range b.Instrs {
					switch x := in.(type) {
					case *ssa.Store:
						root := x.Addr
						for {
							switch y := root.(type) {
							case *ssa.IndexAddr:
								root = y.X
								continue
							case *ssa.FieldAddr:
								root = y.X
								continue
							}
							break
						}
						if al, isAl := root.(*ssa.Alloc); !isAl || al.Parent() != fn {
							bad++
							c.Fail("print-pure", "skiplist."+fnLabel(fn), x.Pos(), "String() stores into memory that outlives the call (a cached rendering): a later print can show the list as it was, not as it is")
						}
					case *ssa.MapUpdate:
						bad++
						c.Fail("print-pure", "skiplist."+fnLabel(fn), x.Pos(), "String() updates a map")
					default:
						for _, op := range in.Operands(nil) {
							if op != nil && *op != nil {
								if g, isG := (*op).(*ssa.Global); isG && g.Pkg == fn.Pkg && !ir.ImmutableGlobal(g) {
									bad++
									c.Fail("print-pure", "skiplist."+fnLabel(fn), in.Pos(), "String() uses the package variable %s", g.Name())
								}
							}
						}
					}
				}
			}
		}
		if bad == 0 {
			c.Check(n > 0, "print-pure", "skiplist", 0, fmt.Sprintf("%d String methods", n), "no String method found")
		}
	}
	ctor := c.W.Func(pkg, "New")
	if ctor == nil {
		c.Undecided("compare-normal-form", "skiplist.New", 0, "constructor not found")
		return
	}
	nt := builtTypeAny(ctor)
	if nt == nil {
		c.Undecided("compare-normal-form", "skiplist.New", ctor.Pos(), "cannot discover the list type")
		return
	}
	roles := skipRoles(nt, ctor)
	if roles == nil {
		c.Undecided("compare-normal-form", "skiplist", ctor.Pos(), "cannot derive the roles of the list / node fields from their types")
		return
	}
	fFingers, fKey, fVal, fHead, fPath = roles.fingers, roles.key, roles.val, roles.head, roles.path
	intFields = roles.ints
	put, get, rem := iterMethod(c, nt, "Put"), iterMethod(c, nt, "Get"), iterMethod(c, nt, "Remove")
	c.Doc("print-walk", 1, "the list's String() walks level 0 from the head until nil and renders every node")
	c.Doc("print-node", 1, "a node prints its own key and, behind the finger's nil test, the key each finger points to")
	{
		found := false
		for _, sf := range c.W.SourceFuncs(pkg) {
			if sf.Name() == "String" && sf.Signature.Recv() != nil && len(sf.Params) > 0 && isNodePtrType(sf.Params[0].Type()) && nodeHasField(sf.Params[0].Type(), fKey) && nodeHasField(sf.Params[0].Type(), fFingers) {
				found = true
				printNode(c, sf)
			}
		}
		if !found {
			c.Ok("print-node", "skiplist", ctor.Pos(), "the node type has no String method: nodes are rendered by fmt's default")
		}
	}
	if ps := iterMethod(c, nt, "String"); ps != nil {
		printWalk(c, ps)
	} else {
		c.Ok("print-walk", "skiplist", ctor.Pos(), "the list type has no String method: no printed form to decide")
	}
	if put == nil || get == nil || rem == nil {
		c.Undecided("compare-normal-form", "skiplist", ctor.Pos(), "Put/Get/Remove not found")
		return
	}
	ordConst := func(name string) int64 {
		sp := c.W.SSA["pure/ord"]
		if k, ok := sp.Members[name].(*ssa.NamedConst); ok {
			v, _ := k.Value.Int64(), 0
			_ = v
			return k.Value.Int64()
		}
		return -99
	}
	LT, EQ, GT := ordConst("LT"), ordConst("EQ"), ordConst("GT")

	// traversal functions: static callees of Put/Remove/Get taking (list, key)
	trav := map[*ssa.Function]bool{}
	travOf := map[*ssa.Function]*ssa.Function{}
	for _, fn := range []*ssa.Function{put, get, rem} {
		an := c.Analyze(fn)
		for _, p := range an.AllPaths() {
			for i := range p.Steps {
				st := &p.Steps[i]
				// called (it holds the loops itself) or entered (a thin wrapper over a shared traversal, inlined here)
				if (st.Kind == ir.KCall || st.Kind == ir.KEnter && st.Depth == 0) && st.Static != nil && len(st.A) == 2 && paramOf(st.A[0], fn, 0) && paramOf(st.A[1], fn, 1) {
					tf := st.Static
					if tf.Origin() != nil {
						tf = tf.Origin()
					}
					trav[tf] = true
					travOf[fn] = tf
				}
			}
		}
	}
	if len(trav) == 0 || travOf[put] == nil || travOf[get] == nil || travOf[rem] == nil {
		c.Undecided("compare-normal-form", "skiplist", ctor.Pos(), "the traversal functions could not be discovered from Put/Get/Remove")
		return
	}

	// ---- "every comparison trait that is a total order": the library's own ord.Int / ord.String, which a list is
	// usually built with, are total orders (Compare answers LT/EQ/GT exactly for a<b / a==b / a>b) - shared with C17
	c.Doc("ord-constants", 1, "LT, EQ, GT are pairwise distinct constants")
	c.Doc("instances", 2, "ord.Int / ord.String are values of the generic instance type")
	c.Doc("ord-decision-tree", 1, "Compare returns LT/EQ/GT exactly for a<b / a==b / a>b on every path")
	instanceRules(c, [][3]string{{"pure/ord", "Int", "Compare"}, {"pure/ord", "String", "Compare"}})
	// ---- the traversal's node result is nil for a key beyond the last element: guarded before every field access
	c.Doc("nil-guard", 3, "Put/Get/Remove read fields of the traversal's node result only behind its nil test")
	for _, fn := range []*ssa.Function{put, get, rem} {
		nodeNilGuard(c, fn, travOf[fn])
	}
	// ---- traversals: candidate test, level loop and cursor effects (independent of the loop forms: c18trav.go)
	advance := map[*ssa.Function]string{}
	for fn := range trav {
		advance[fn] = traversalRule(c, "skiplist."+fn.Name(), fn, LT, GT, levelFields(c, ctor))
	}
	// siblings agree
	if len(trav) == 2 {
		var forms []string
		for fn := range trav {
			forms = append(forms, advance[fn])
		}
		c.Check(forms[0] == forms[1] && forms[0] != "", "compare-normal-form", "skiplist#traversals-agree", ctor.Pos(), "both traversals: "+forms[0], "the two traversal functions use different advance conditions (%q vs %q)", forms[0], forms[1])
	}

	// ---- Put / Get / Remove: match condition, results, splice, unlink
	matchOn := func(fn *ssa.Function, p *ir.Path) (node *ir.Term, eq int, ok bool) {
		// node = result of the traversal (first component when it returns a pair)
		var tr *ir.Step
		for _, st := range p.Events(ir.KCall) {
			if st.Static == travOf[fn] {
				tr = st
			}
		}
		if tr == nil {
			return nil, 0, false
		}
		node = tr.R
		if tr.Static.Signature.Results().Len() == 2 {
			node = &ir.Term{Op: "extract", Aux: "0", Args: []*ir.Term{tr.R}}
		}
		isNil := polarity(p, &ir.Term{Op: "bin", Aux: "==", Args: sorted2(ir.Nil, node)})
		if isNil > 0 {
			return node, -1, true
		}
		for _, st := range p.Events(ir.KCall) {
			if st.Method != nil && st.Method.Name() == "Compare" {
				nk := &ir.Term{Op: "load", Aux: "0", Args: []*ir.Term{{Op: "faddr", Aux: fKey, Args: []*ir.Term{node}}}}
				a, b := st.A[1], st.A[2]
				if !(ir.Same(a, nk) && paramOf(b, fn, 1) || ir.Same(b, nk) && paramOf(a, fn, 1)) {
					return node, 0, false
				}
				pol := polarity(p, &ir.Term{Op: "bin", Aux: "==", Args: sorted2(st.R, ir.Const(fmt.Sprint(EQ)))})
				if pol == 0 {
					// the traversal hands back the first node whose key is not less than the search key (that is what
					// compare-normal-form and traversal-effects establish), so "not greater" is "equal": Compare(node key,
					// key) != GT, or Compare(key, node key) != LT
					other := GT
					if !ir.Same(a, nk) {
						other = LT
					}
					if p2 := polarity(p, &ir.Term{Op: "bin", Aux: "==", Args: sorted2(st.R, ir.Const(fmt.Sprint(other)))}); p2 != 0 {
						pol = -p2
					}
				}
				if pol == 0 || isNil == 0 {
					return node, 0, false
				}
				return node, pol, true
			}
		}
		return node, 0, false
	}

	// Get
	{
		name := "skiplist.Get"
		an := c.AnalyzeLoopsExcept(get, travOf[get]) // the traversal stays one call, thin wrapper or not
		ok := len(an.Problems) == 0
		why := ""
		nHit := 0
		for _, p := range an.AllPaths() {
			node, eq, good := matchOn(get, p)
			if !good {
				ok, why = false, "a path answers without the 'traversal result is non-nil and its key equals the search key' test (e.g. from a cache)"
				continue
			}
			r := p.Results[0]
			if eq > 0 {
				nHit++
				want := &ir.Term{Op: "load", Aux: "0", Args: []*ir.Term{{Op: "faddr", Aux: fVal, Args: []*ir.Term{node}}}}
				if !ir.Same(r, want) {
					ok, why = false, "on a match Get returns "+short(r)+", expected the value of the node found"
				}
			} else if !strings.HasPrefix(r.Aux, "zero") {
				ok, why = false, "for an absent key Get returns "+short(r)+", expected the zero value"
			}
			if len(nonLocalStores(p)) != 0 {
				ok, why = false, "Get modifies the list"
			}
		}
		c.Check(ok && nHit > 0, "results", name, get.Pos(), "value of the found node iff equal, else zero; no mutation", "%s", why)
		c.Check(ok, "compare-normal-form", name, get.Pos(), "match iff Compare(node key, key) == EQ", "%s", why)
	}
	// Put
	{
		name := "skiplist.Put"
		an := c.Analyze(put)
		{
			// helpers with loops (a splice helper) are analysed as part of Put; the traversal and the node
			// constructor stay opaque (they are checked on their own / are the source of rank and node)
			var mkFn *ssa.Function
			for _, p := range an.AllPaths() {
				for _, st := range p.Events(ir.KCall) {
					if st.Static != nil && st.Static != travOf[put] && len(st.A) == 3 && paramOf(st.A[0], put, 0) && paramOf(st.A[1], put, 1) && paramOf(st.A[2], put, 2) {
						mkFn = st.Static
					}
					// a height function: its (integer) result becomes the length of a new node's finger slice
					if st.Static != nil && st.Static != travOf[put] && st.Static.Signature.Results().Len() == 1 && isBasicKind(st.Static.Signature.Results().At(0).Type(), types.Int) {
						for _, s2 := range p.Events(ir.KStore) {
							if s2.A[0].Op == "faddr" && s2.A[0].Aux == fFingers && s2.A[1].Op == "mkslice" && len(s2.A[1].Args) > 0 && ir.Same(s2.A[1].Args[0], st.R) {
								mkFn = st.Static
							}
						}
					}
				}
			}
			an = c.AnalyzeLoopsExcept(put, travOf[put], mkFn)
		}
		okR, okS, okL := len(an.Problems) == 0, true, true
		whyR, whyS, whyL := "", "", ""
		var mk *ir.Step
		for _, p := range an.AllPaths() {
			for _, st := range p.Events(ir.KCall) {
				if st.Static != nil && st.Static != travOf[put] && len(st.A) == 3 {
					mk = st
				}
			}
		}
		for _, p := range an.Segs[nil] {
			_, eq, good := matchOn(put, p)
			if !good {
				okR, whyR = false, "a path proceeds without the equal test on the traversal's result"
				continue
			}
			if eq > 0 {
				st := nonLocalStores(p)
				if !(len(st) == 1 && st[0].A[0].Op == "faddr" && st[0].A[0].Aux == fVal && paramOf(st[0].A[1], put, 2) && p.Exit == ir.ExitReturn) {
					okR, whyR = false, "Put on an existing key must only overwrite the node's value"
				}
			} else if p.Exit == ir.ExitPanic && mk != nil && tallerThanList(p, put, mk, travOf[put], levelFields(c, ctor)) {
				// an assertion `if rank > len(path) { panic }`: the node constructor's height is bounded by the number of
				// levels (level-loops/skiplist.<mkNode>), so this exit is unreachable and is no result of Put
			} else if p.To == nil && !skipsRotatedLoop(an, p) {
				okR, whyR = false, "Put of a new key returns without splicing"
			}
		}
		// the new node and its height: results of a node constructor (rank, node), or a node built in place whose
		// finger slice is made with a height drawn from a height function of the list
		var rank, node *ir.Term
		rankIsHeight := false
		if mk != nil {
			rank = &ir.Term{Op: "extract", Aux: "0", Args: []*ir.Term{mk.R}}
			node = &ir.Term{Op: "extract", Aux: "1", Args: []*ir.Term{mk.R}}
			rankIsHeight = mkNodeRankIsHeight(c, mk.Static)
			mkNodeHeightBound(c, ctor, mk.Static)
		} else {
			for _, p := range an.AllPaths() {
				for _, st := range p.Events(ir.KStore) {
					if st.A[0].Op == "faddr" && st.A[0].Aux == fFingers && st.A[0].Args[0].Op == "alloc" && st.A[1].Op == "mkslice" && len(st.A[1].Args) > 0 {
						for _, hs := range p.Events(ir.KCall) {
							if hs.Static != nil && hs.Static != travOf[put] && ir.Same(hs.R, st.A[1].Args[0]) {
								node, rank, rankIsHeight = st.A[0].Args[0], st.A[1].Args[0], true
								mk = hs
							}
						}
					}
				}
			}
			if mk != nil {
				mkNodeHeightBound(c, ctor, mk.Static)
			}
		}
		if mk == nil {
			okL, whyL = false, "no node constructor call found"
		} else {
			nodeLen := &ir.Term{Op: "len", Args: []*ir.Term{fingersOf(node)}}
			for _, h := range an.Headers {
				l := countedLoop(an, h)
				// every level of the new node, ascending from 0: trip count len(node.fingers), or the rank the node
				// constructor returns when that is the length of the finger slice it builds
				// (the order in which the levels are spliced is not observable: ascending or descending)
				if l == nil || !(l.Step == 1 || l.Descending) || l.Trip == nil || !(ir.Same(l.Trip, nodeLen) || ir.Same(l.Trip, rank) && rankIsHeight) {
					okL, whyL = false, "the splice loop does not run over levels 0 .. rank-1 of the new node"
					if l != nil {
						whyL += fmt.Sprintf(" (trip %s, step %d, op %s; node height %s)", short(l.Trip), l.Step, l.Op, short(rank))
					}
					continue
				}
				lv := an.Start[h].Reg(l.Phi)
				if l.RangeOver != nil || l.Op == "range" {
					lv = l.Index(an)
				}
				iters, _, early := loopSegments(an, h, l)
				if early != nil {
					okS, whyS = false, "the splice loop is left from inside its body: the upper levels of the new node are never linked"
				}
				for _, p := range iters {
					st := nonLocalStores(p)
					// store 1: node.fingers[l] := path[l].fingers[l] ; store 2: path[l].fingers[l] := node
					if len(st) != 2 {
						okS, whyS = false, fmt.Sprintf("a splice iteration performs %d stores, expected 2", len(st))
						continue
					}
					a0, v0, a1, v1 := st[0].A[0], st[0].A[1], st[1].A[0], st[1].A[1]
					isNodeFinger := a0.Op == "iaddr" && ir.Same(a0.Args[1], lv) && a0.Args[0].Op == "load" && a0.Args[0].Args[0].Op == "faddr" && a0.Args[0].Args[0].Aux == fFingers && ir.Same(a0.Args[0].Args[0].Args[0], node)
					if !isNodeFinger && a0.Op == "iaddr" && ir.Same(a0.Args[1], lv) && an.Start[h] != nil {
						// the node was built on this very path: its finger slice is known to the engine by value
						if known := an.Start[h].MemAt(&ir.Term{Op: "faddr", Aux: fFingers, Args: []*ir.Term{node}}); known != nil && ir.Same(a0.Args[0], known) {
							isNodeFinger = true
						}
					}
					isPathFinger := a1.Op == "iaddr" && ir.Same(a1.Args[1], lv) && a1.Args[0].Op == "load" && a1.Args[0].Args[0].Op == "faddr" && a1.Args[0].Args[0].Aux == fFingers
					readsPath := v0.Op == "load" && ir.Same(v0.Args[0], a1)
					if !(isNodeFinger && isPathFinger && readsPath && ir.Same(v1, node)) {
						okS, whyS = false, "a splice iteration must first set node.fingers[l] := path[l].fingers[l] and then path[l].fingers[l] := node (the other order makes the node point to itself)"
					}
				}
			}
		}
		c.Check(okR, "results", name, put.Pos(), "equal => only v.val := val", "%s", whyR)
		c.Check(okS, "splice-order", name, put.Pos(), "read successor before linking", "%s", whyS)
		c.Check(okL, "level-loops", name, put.Pos(), "levels 0 .. rank-1", "%s", whyL)
	}
	// Remove
	{
		name := "skiplist.Remove"
		an := c.AnalyzeLoopsExcept(rem, travOf[rem])
		okR, okU, okL := len(an.Problems) == 0, true, true
		whyR, whyU, whyL := "", "", ""
		var node, path *ir.Term
		for _, p := range an.Segs[nil] {
			n, eq, good := matchOn(rem, p)
			if !good {
				okR, whyR = false, "a path proceeds without the equal test on the traversal's result"
				continue
			}
			node = n
			path = &ir.Term{Op: "extract", Aux: "1", Args: []*ir.Term{n.Args[0]}}
			if eq < 0 {
				if p.Exit != ir.ExitReturn || !strings.HasPrefix(p.Results[0].Aux, "zero") || len(nonLocalStores(p)) != 0 {
					okR, whyR = false, "for an absent key Remove must return the zero value and change nothing"
				}
			} else if p.To == nil && !skipsRotatedLoop(an, p) {
				okR, whyR = false, "Remove of a present key returns without unlinking"
			}
		}
		for _, h := range an.Headers {
			l := countedLoop(an, h)
			if l == nil || l.Step != 1 || !(l.Op == "<" || l.Rotated()) {
				okL, whyL = false, "the unlink loop is not an ascending counted loop"
				continue
			}
			if s0, isK := l.Start.IntConst(); !isK || s0 != 0 {
				okL, whyL = false, "the unlink loop does not start at level 0"
			}
			// bound: len(head.fingers) | list.levels | len(v.fingers)
			b := l.Bound
			good := false
			if b.Op == "len" && b.Args[0].Op == "load" && b.Args[0].Args[0].Op == "faddr" && b.Args[0].Args[0].Aux == fFingers {
				owner := b.Args[0].Args[0].Args[0]
				if node != nil && ir.Same(owner, node) {
					good = true
				}
				if owner.Op == "load" && owner.Args[0].Op == "faddr" && owner.Args[0].Aux == fHead && paramOf(owner.Args[0].Args[0], rem, 0) {
					good = true
				}
			}
			if b.Op == "load" && b.Args[0].Op == "faddr" && intFields[b.Args[0].Aux] && paramOf(b.Args[0].Args[0], rem, 0) {
				good = true
			}
			if !good {
				okL, whyL = false, "the unlink loop's bound is "+short(b)+": it must cover every level of the removed node (len(head.fingers), list.levels or len(v.fingers)); a shorter bound leaves the node linked on upper levels"
			}
			lv := an.Start[h].Reg(l.Phi)
			iters, exits, early := loopSegments(an, h, l)
			if early != nil {
				okL, whyL = false, "the unlink loop is left from inside its body: the node stays linked on the levels above"
			}
			for _, p := range append(append([]*ir.Path{}, iters...), exits...) {
				st := nonLocalStores(p)
				if p.To != h {
					// exit: returns v.val
					want := &ir.Term{Op: "load", Aux: "0", Args: []*ir.Term{{Op: "faddr", Aux: fVal, Args: []*ir.Term{node}}}}
					if p.Exit == ir.ExitReturn && !ir.Same(p.Results[0], want) {
						okR, whyR = false, "Remove returns "+short(p.Results[0])+", expected the removed node's value"
					}
					continue
				}
				if len(st) == 0 {
					// no store: allowed only where the path does not point to the removed node - which the pass must
					// have found out
					tested := false
					for _, b := range p.Events(ir.KBranch) {
						if b.Atom.Op == "bin" && b.Atom.Aux == "==" && node != nil && (ir.Same(b.Atom.Args[0], node) || ir.Same(b.Atom.Args[1], node)) {
							if b.Pol {
								okU, whyU = false, "a level on which the path points to the removed node is not unlinked: the node stays reachable on that level"
							} else {
								tested = true
							}
						}
					}
					if !tested && okU {
						okU, whyU = false, "a pass over a level neither unlinks nor finds that the path does not point to the removed node there: the node stays reachable"
					}
					continue
				}
				if len(st) != 1 || node == nil {
					okU, whyU = false, "an unlink iteration performs more than one store"
					continue
				}
				a, v := st[0].A[0], st[0].A[1]
				isPathFinger := a.Op == "iaddr" && ir.Same(a.Args[1], lv) && a.Args[0].Op == "load" && a.Args[0].Args[0].Op == "faddr" && a.Args[0].Args[0].Aux == fFingers &&
					a.Args[0].Args[0].Args[0].Op == "load" && a.Args[0].Args[0].Args[0].Args[0].Op == "iaddr" && ir.Same(a.Args[0].Args[0].Args[0].Args[0].Args[0], path) && ir.Same(a.Args[0].Args[0].Args[0].Args[0].Args[1], lv)
				// guarded by path[l].fingers[l] == v
				guard := 0
				for _, b := range p.Events(ir.KBranch) {
					if b.Atom.Op == "bin" && b.Atom.Aux == "==" && (ir.Same(b.Atom.Args[0], node) || ir.Same(b.Atom.Args[1], node)) {
						other := b.Atom.Args[0]
						if ir.Same(other, node) {
							other = b.Atom.Args[1]
						}
						if other.Op == "load" && ir.Same(other.Args[0], a) {
							guard = polInt(b.Pol)
						}
					}
				}
				within := polarity(p, &ir.Term{Op: "bin", Aux: "<", Args: []*ir.Term{lv, {Op: "len", Args: []*ir.Term{{Op: "load", Aux: "0", Args: []*ir.Term{{Op: "faddr", Aux: fFingers, Args: []*ir.Term{node}}}}}}}})
				vf := &ir.Term{Op: "load", Aux: "0", Args: []*ir.Term{{Op: "iaddr", Args: []*ir.Term{{Op: "load", Aux: "0", Args: []*ir.Term{{Op: "faddr", Aux: fFingers, Args: []*ir.Term{node}}}}, lv}}}}
				good := isPathFinger && guard > 0 && (within > 0 && ir.Same(v, vf) || within < 0 && v.IsNil())
				if !good {
					okU, whyU = false, fmt.Sprintf("a finger may be overwritten only where path[l].fingers[l] == v, with v.fingers[l] when l < len(v.fingers) else nil (path finger=%v, guard=%d, within=%d, value %s)", isPathFinger, guard, within, short(v))
				}
			}
		}
		c.Check(okR, "results", name, rem.Pos(), "value of the removed node iff equal, else zero", "%s", whyR)
		c.Check(okU, "unlink", name, rem.Pos(), "unlink only where the path points to v", "%s", whyU)
		c.Check(okL, "level-loops", name, rem.Pos(), "covers every level of the removed node", "%s", whyL)
	}
	_ = types.Typ
}

// builtTypeAny: the named type a constructor allocates on the heap (new T / &T{...}).
func builtTypeAny(fn *ssa.Function) *types.Named {
	var nt *types.Named
	for _, b := range fn.Blocks {
		for _, in := range b.Instrs {
			if al, ok := in.(*ssa.Alloc); ok && al.Heap {
				if n, ok := al.Type().(*types.Pointer).Elem().(*types.Named); ok {
					if st, isS := n.Underlying().(*types.Struct); isS && st.NumFields() > 3 {
						nt = n.Origin()
					}
				}
			}
		}
	}
	return nt
}

type tokenPosT = token.Pos

// mkNodeRankIsHeight: on every returning path of the node constructor the first result is the length of the finger
// slice stored in the node it returns.
func mkNodeRankIsHeight(c *core.Ctx, mk *ssa.Function) bool {
	if mk == nil || mk.Signature.Results().Len() != 2 {
		return false
	}
	an := c.AnalyzeLoops(mk)
	if len(an.Problems) > 0 {
		return false
	}
	n := 0
	for _, p := range an.AllPaths() {
		if p.Exit != ir.ExitReturn {
			continue
		}
		n++
		if len(p.Results) != 2 {
			return false
		}
		var fing *ir.Term
		if p.End != nil {
			fing = p.End.MemAt(&ir.Term{Op: "faddr", Aux: fFingers, Args: []*ir.Term{p.Results[1]}})
		}
		if fing == nil {
			fing = ir.FieldOf(p.Results[1], fFingers)
		}
		if fing == nil || fing.Op != "mkslice" || len(fing.Args) < 1 || !ir.Same(fing.Args[0], p.Results[0]) {
			return false
		}
	}
	return n > 0
}

// levelFields: the integer field(s) that hold the length the constructor gives to the insertion path / head fingers -
// wherever the constructor keeps it (a field of the list, or of a nested parameter struct).
func levelFields(c *core.Ctx, ctor *ssa.Function) map[string]bool {
	lvFields := map[string]bool{}
	{
		an := c.Analyze(ctor)
		for _, p := range an.AllPaths() {
			var pathLen *ir.Term
			for _, st := range p.Events(ir.KStore) {
				if st.A[0].Op == "faddr" && st.A[0].Aux == fPath && st.A[1].Op == "mkslice" && len(st.A[1].Args) > 0 {
					pathLen = st.A[1].Args[0]
				}
			}
			if pathLen == nil {
				continue
			}
			var scan func(v *ir.Term)
			scan = func(v *ir.Term) {
				if v == nil || v.Op != "lit" {
					return
				}
				for _, kv := range ir.LitFields(v) {
					if ir.Same(kv.Args[0], pathLen) {
						lvFields[kv.Aux] = true
					}
					scan(kv.Args[0])
				}
			}
			for _, st := range p.Events(ir.KStore) {
				if st.A[0].Op == "faddr" && ir.Same(st.A[1], pathLen) {
					lvFields[st.A[0].Aux] = true
				}
				scan(st.A[1])
			}
		}
	}
	return lvFields
}

// mkNodeHeightBound: the height of a new node never exceeds the number of levels of the list (the length of the
// head's finger slice and of the insertion path, as the constructor makes them): the height is a counter that
// starts at 0 and is incremented only under `counter < list.<levels>`, so counter <= levels is an inductive
// invariant (levels is a length, hence non-negative). A taller node makes Put index the path out of range.
func mkNodeHeightBound(c *core.Ctx, ctor, mk *ssa.Function) {
	name := "skiplist." + mk.Name()
	// the integer field(s) that hold the length the constructor gives to the path / head fingers - wherever the
	// constructor keeps it (a field of the list, or of a nested parameter struct)
	lvFields := levelFields(c, ctor)
	if len(lvFields) == 0 {
		c.Undecided("level-loops", name, mk.Pos(), "cannot find the field that records the number of levels (the length of the insertion path) in the constructor")
		return
	}
	isLevels := func(t *ir.Term) bool {
		if t == nil {
			return false
		}
		if t.Op == "load" && len(t.Args) == 1 && t.Args[0].Op == "faddr" && lvFields[t.Args[0].Aux] {
			return true
		}
		return t.Op == "field" && lvFields[t.Aux]
	}
	lvField := ""
	for f := range lvFields {
		if lvField == "" || f < lvField {
			lvField = f
		}
	}
	an := c.Analyze(mk)
	if problems(c, "level-loops", name, an) {
		return
	}
	ok, why := true, ""
	bounded := map[string]bool{} // keys of terms known to be <= levels
	atLeast := map[string]int64{} // keys of loop counters -> the smallest value they enter their loop with (steps are +1)
	for _, h := range an.Headers {
		for _, in := range h.Instrs {
			phi, isPhi := in.(*ssa.Phi)
			if !isPhi {
				break
			}
			b, isB := phi.Type().Underlying().(*types.Basic)
			if !isB || b.Info()&types.IsInteger == 0 {
				continue
			}
			sym := an.Start[h].Reg(phi)
			inductive := true
			lower, lowerKnown := int64(1<<40), true
			for _, ps := range an.Segs {
				for _, p := range ps {
					if p.To != h {
						continue
					}
					v := p.PhiOut[phi]
					if p.From == nil || !ir.LoopBlocks(h)[p.From] {
						if k, isK := v.IntConst(); isK {
							if k < lower {
								lower = k
							}
						} else {
							lowerKnown = false
						}
						if k, isK := v.IntConst(); !isK || k > 1 {
							inductive = false
						}
						continue
					}
					if d, isD := plusConst(v, sym); !isD || d < 0 {
						lowerKnown = false
					}
					d, isD := plusConst(v, sym)
					switch {
					case isD && d == 1 && guardedByLevels(p, sym, isLevels):
					case isD && d == 1 && guardedByLevels(phiLockstepPath(an, h, phi, p), sym, isLevels):
						// the bound is tested on another counter that runs in lock-step with this one (the index of
						// a range over table[:levels])
					default:
						inductive = false
					}
				}
			}
			if inductive {
				bounded[sym.Key()] = true
			}
			if lowerKnown && lower < 1<<40 {
				atLeast[sym.Key()] = lower
			}
		}
	}
	if c.Rules["node-height-positive"] == nil {
		c.Doc("node-height-positive", 1, "every new node has at least one level, whatever the random draw: a node of height 0 is linked nowhere and its key is lost")
	}
	okPos, whyPos := true, ""
	n := 0
	for _, p := range an.AllPaths() {
		if p.Exit != ir.ExitReturn || len(p.Results) == 0 {
			continue
		}
		n++
		r := p.Results[0]
		if r.Op == "alloc" && len(p.Results) == 1 {
			// the constructor hands back the node alone: its height is the length its finger slice is made with
			if lit := p.End.MemAt(r); lit != nil {
				if fv := fieldOf2(lit, fFingers); fv != nil && fv.Op == "mkslice" && len(fv.Args) > 0 {
					r = fv.Args[0]
				}
			}
		}
		// at least one level: a constant >= 1, the number of levels itself, a counter that enters its loop with >= 1 and
		// only grows, or a value the path has found different from / greater than 0
		{
			k, isK := r.IntConst()
			lb, hasLB := atLeast[r.Key()]
			switch {
			case isK && k >= 1, isLevels(r), hasLB && lb >= 1:
			case !isK && polarity(p, &ir.Term{Op: "bin", Aux: "==", Args: sorted2(ir.Const("0"), r)}) < 0:
			default:
				okPos = false
				whyPos = "the height " + short(r) + " of a new node can be 0: its first level depends on the random draw (float64(Int63())/(1<<63) rounds to exactly 1.0 for the largest draws, and 1.0 < p[0] = 1.0 fails); a node without levels is linked nowhere, so Put loses the key"
			}
		}
		if k, isK := r.IntConst(); isK && k <= 1 {
			continue // one level: within bounds for every list the constructor can build (it has at least one level)
		}
		if isLevels(r) {
			continue // the number of levels itself (the loop ran out): the bound is attained, not exceeded
		}
		if !bounded[r.Key()] {
			ok, why = false, "the height "+short(r)+" of a new node is not bounded by the list's number of levels (a counter from 0 incremented only while counter < list."+lvField+"): Put would index the insertion path out of range"
		}
	}
	c.Check(ok && n > 0, "level-loops", name, mk.Pos(), "node height <= list."+lvField+" = len(path) = len(head.fingers)", "%s", why)
	c.Check(okPos && n > 0, "node-height-positive", name, mk.Pos(), "node height >= 1 on every path", "%s", whyPos)
}

// guardedByLevels: path p carries the fact counter < <levels field>.
func guardedByLevels(p *ir.Path, sym *ir.Term, isLevels func(*ir.Term) bool) bool {
	for _, b := range p.Events(ir.KBranch) {
		at := b.Atom
		if at.Op == "bin" && at.Aux == "<" && len(at.Args) == 2 && b.Pol && ir.Same(at.Args[0], sym) && isLevels(at.Args[1]) {
			return true
		}
	}
	return false
}

// field roles of the skip list, derived from types (never from names)
var (
	fFingers, fKey, fVal, fHead, fPath string
	intFields                          map[string]bool
)

type skipRoleSet struct {
	fingers, key, val, head, path string
	ints                          map[string]bool
}

func skipRoles(list *types.Named, ctor *ssa.Function) *skipRoleSet {
	// fields the constructor initialises with a freshly allocated node (the head sentinel) resp. a fresh slice
	// (the insertion path): they disambiguate when a struct has several fields of the same type
	freshInit := map[string]bool{}
	if ctor != nil {
		for _, b := range ctor.Blocks {
			for _, in := range b.Instrs {
				st, ok := in.(*ssa.Store)
				if !ok {
					continue
				}
				fa, ok := st.Addr.(*ssa.FieldAddr)
				if !ok {
					continue
				}
				pt, ok := fa.X.Type().Underlying().(*types.Pointer)
				if !ok {
					continue
				}
				stt, ok := pt.Elem().Underlying().(*types.Struct)
				if !ok {
					continue
				}
				switch v := st.Val.(type) {
				case *ssa.Alloc:
					freshInit[stt.Field(fa.Field).Name()] = true
				case *ssa.MakeSlice:
					freshInit[stt.Field(fa.Field).Name()] = true
				default:
					_ = v
				}
			}
		}
	}
	lst, ok := list.Underlying().(*types.Struct)
	if !ok {
		return nil
	}
	r := &skipRoleSet{ints: map[string]bool{}}
	var node *types.Named
	for i := 0; i < lst.NumFields(); i++ {
		f := lst.Field(i)
		ft := f.Type()
		if _, isNamedSlice := ft.Underlying().(*types.Slice); isNamedSlice {
			ft = ft.Underlying()
		}
		switch t := ft.(type) {
		case *types.Pointer:
			if n, isN := t.Elem().(*types.Named); isN {
				if _, isS := n.Underlying().(*types.Struct); isS {
					if r.head == "" || freshInit[f.Name()] && !freshInit[r.head] {
						r.head, node = f.Name(), n
					}
				}
			}
		case *types.Slice:
			if pt, isP := t.Elem().(*types.Pointer); isP {
				if _, isN := pt.Elem().(*types.Named); isN {
					if r.path == "" || freshInit[f.Name()] && !freshInit[r.path] {
						r.path = f.Name()
					}
				}
			}
		case *types.Basic:
			if t.Info()&types.IsInteger != 0 {
				r.ints[f.Name()] = true
			}
		}
	}
	if node == nil {
		return nil
	}
	nst := node.Underlying().(*types.Struct)
	tps := node.Origin().TypeParams()
	for i := 0; i < nst.NumFields(); i++ {
		f := nst.Field(i)
		nft := f.Type()
		if _, isNamedSlice := nft.Underlying().(*types.Slice); isNamedSlice {
			nft = nft.Underlying()
		}
		switch t := nft.(type) {
		case *types.Slice:
			r.fingers = f.Name()
		case *types.TypeParam:
			if tps != nil && tps.Len() == 2 {
				if t.Index() == 0 {
					r.key = f.Name()
				} else {
					r.val = f.Name()
				}
			}
		}
	}
	if r.fingers == "" || r.key == "" || r.val == "" || r.head == "" || r.path == "" {
		return nil
	}
	return r
}

// phiLockstepPath: a copy of path p (branches only) in which every other integer counter of loop head h that runs in
// lock-step with phi - constant start on every way in, the same constant step on every way round - is expressed
// through phi (other = phi + (start_other - start_phi)).
func phiLockstepPath(an *ir.Analysis, h *ssa.BasicBlock, phi *ssa.Phi, p *ir.Path) *ir.Path {
	lb := ir.LoopBlocks(h)
	behaviour := func(x *ssa.Phi) (start, step int64, ok bool) {
		sym := an.Start[h].Reg(x)
		nIn, nBack := 0, 0
		for _, ps := range an.Segs {
			for _, q := range ps {
				if q.To != h {
					continue
				}
				v := q.PhiOut[x]
				if v == nil {
					return 0, 0, false
				}
				if q.From == nil || !lb[q.From] {
					k, isK := v.IntConst()
					if !isK || (nIn > 0 && k != start) {
						return 0, 0, false
					}
					start = k
					nIn++
				} else {
					d, isD := plusConst(v, sym)
					if !isD || (nBack > 0 && d != step) {
						return 0, 0, false
					}
					step = d
					nBack++
				}
			}
		}
		return start, step, nIn > 0 && nBack > 0
	}
	s0, d0, ok0 := behaviour(phi)
	if !ok0 {
		return p
	}
	sym := an.Start[h].Reg(phi)
	type rel struct {
		sym *ir.Term
		off int64
	}
	var rels []rel
	for _, in := range h.Instrs {
		x, isPhi := in.(*ssa.Phi)
		if !isPhi {
			break
		}
		if x == phi {
			continue
		}
		if b, isB := x.Type().Underlying().(*types.Basic); !isB || b.Info()&types.IsInteger == 0 {
			continue
		}
		if s1, d1, ok1 := behaviour(x); ok1 && d1 == d0 {
			rels = append(rels, rel{an.Start[h].Reg(x), s1 - s0})
		}
	}
	if len(rels) == 0 {
		return p
	}
	out := &ir.Path{From: p.From, To: p.To, Exit: p.Exit}
	for i := range p.Steps {
		st := p.Steps[i]
		if st.Kind == ir.KBranch {
			at := st.Atom
			for _, r := range rels {
				at = substTerm(at, r.sym, ir.MkBin("+", ir.Const(fmt.Sprint(r.off)), sym))
			}
			st.Atom = ir.Rebuild(at)
			out.Steps = append(out.Steps, st)
		}
	}
	return out
}

// printWalk: "its printed form always lists the live keys in ascending order": the list's String() walks level 0 from
// the head until nil and renders every node it passes. Decided on SSA: exactly one loop-carried node cursor; it
// enters as list.head (or head.fingers[0]); every other arrival is cursor.fingers[0]; the loop's head leaves iff
// the cursor is nil; the cursor is used in the pass for something besides advancing (it is rendered). That the level-0
// chain is ascending and holds exactly the live keys is the business of the splice/unlink/traversal rules.
func printWalk(c *core.Ctx, fn *ssa.Function) {
	const rule = "print-walk"
	name := "skiplist." + fnLabel(fn)
	fieldOf := func(fa *ssa.FieldAddr) string {
		pt, ok := fa.X.Type().Underlying().(*types.Pointer)
		if !ok {
			return ""
		}
		st, ok := pt.Elem().Underlying().(*types.Struct)
		if !ok || fa.Field >= st.NumFields() {
			return ""
		}
		return st.Field(fa.Field).Name()
	}
	// load of <base>.<field>
	loadField := func(v ssa.Value, field string) (ssa.Value, bool) {
		u, ok := v.(*ssa.UnOp)
		if !ok || u.Op != token.MUL {
			return nil, false
		}
		fa, ok := u.X.(*ssa.FieldAddr)
		if !ok || fieldOf(fa) != field {
			return nil, false
		}
		return fa.X, true
	}
	// v = <node>.fingers[0]
	level0Of := func(v ssa.Value) (ssa.Value, bool) {
		u, ok := v.(*ssa.UnOp)
		if !ok || u.Op != token.MUL {
			return nil, false
		}
		ia, ok := u.X.(*ssa.IndexAddr)
		if !ok {
			return nil, false
		}
		k, ok := ia.Index.(*ssa.Const)
		if !ok || k.Value == nil || k.Int64() != 0 {
			return nil, false
		}
		return loadField(ia.X, fFingers)
	}
	isHead := func(v ssa.Value) bool {
		b, ok := loadField(v, fHead)
		if !ok {
			return false
		}
		if len(fn.Params) > 0 && b == fn.Params[0] {
			return true
		}
		// a spilled receiver (its address is taken for %p): a load of the receiver's cell
		if u, isU := b.(*ssa.UnOp); isU && u.Op == token.MUL {
			if al, isAl := u.X.(*ssa.Alloc); isAl {
				for _, r := range *al.Referrers() {
					if st, isSt := r.(*ssa.Store); isSt && st.Addr == al && len(fn.Params) > 0 && st.Val != fn.Params[0] {
						return false
					}
				}
				return true
			}
		}
		return false
	}
	var cur *ssa.Phi
	for _, b := range fn.Blocks {
		for _, in := range b.Instrs {
			phi, ok := in.(*ssa.Phi)
			if !ok {
				break
			}
			if isNodePtrType(phi.Type()) {
				if cur != nil {
					c.Undecided(rule, name, phi.Pos(), "String() carries more than one node cursor")
					return
				}
				cur = phi
			}
		}
	}
	if cur == nil {
		c.Undecided(rule, name, fn.Pos(), "String() has no loop over the nodes (no loop-carried node cursor)")
		return
	}
	ok := true
	entries, advances := 0, 0
	for _, e := range cur.Edges {
		switch {
		case isHead(e):
			entries++
		default:
			if n, is0 := level0Of(e); is0 && (n == cur || isHead(n)) {
				if n == cur {
					advances++
				} else {
					entries++
				}
				continue
			}
			ok = false
			c.Fail(rule, name, cur.Pos(), "the print cursor arrives as %s: expected list.head on entry and cursor.fingers[0] (the level-0 successor) afterwards - a walk along another level, or from another node, does not list every live key", e.String())
		}
	}
	if ok && (entries == 0 || advances == 0) {
		ok = false
		c.Fail(rule, name, cur.Pos(), "the print cursor has %d entries from the head and %d level-0 advances", entries, advances)
	}
	// the head of the loop leaves iff the cursor is nil
	hb := cur.Block()
	reaches := func(from, to *ssa.BasicBlock) bool {
		seen := map[*ssa.BasicBlock]bool{}
		var walk func(b *ssa.BasicBlock) bool
		walk = func(b *ssa.BasicBlock) bool {
			if b == to {
				return true
			}
			if seen[b] {
				return false
			}
			seen[b] = true
			for _, s := range b.Succs {
				if walk(s) {
					return true
				}
			}
			return false
		}
		return walk(from)
	}
	if iff, isIf := hb.Instrs[len(hb.Instrs)-1].(*ssa.If); !isIf {
		c.Undecided(rule, name, cur.Pos(), "the loop head of the print walk does not end in a test")
		return
	} else {
		bo, isB := iff.Cond.(*ssa.BinOp)
		isNilC := func(v ssa.Value) bool { k, isK := v.(*ssa.Const); return isK && k.IsNil() }
		if !isB || !(bo.Op == token.NEQ || bo.Op == token.EQL) || !(bo.X == cur && isNilC(bo.Y) || bo.Y == cur && isNilC(bo.X)) {
			c.Undecided(rule, name, iff.Pos(), "the loop head of the print walk does not test the cursor against nil")
			return
		}
		live, dead := hb.Succs[0], hb.Succs[1]
		if bo.Op == token.EQL {
			live, dead = dead, live
		}
		if !reaches(live, hb) || reaches(dead, hb) {
			ok = false
			c.Fail(rule, name, iff.Pos(), "the print walk must go on while the cursor is not nil and stop when it is nil")
		}
	}
	// the node is rendered: a use besides advancing / testing
	used := false
	for _, r := range *cur.Referrers() {
		switch x := r.(type) {
		case *ssa.DebugRef, *ssa.Phi:
		case *ssa.BinOp:
		case *ssa.FieldAddr:
			if fieldOf(x) != fFingers {
				used = true
			} else {
				for _, rr := range *x.Referrers() {
					if u, isU := rr.(*ssa.UnOp); isU {
						for _, r3 := range *u.Referrers() {
							if ia, isIA := r3.(*ssa.IndexAddr); !isIA || ia.X != u {
								used = true
							} else if k, isK := ia.Index.(*ssa.Const); !isK || k.Int64() != 0 {
								used = true
							}
						}
					}
				}
			}
		default:
			used = true
		}
	}
	if !used {
		ok = false
		c.Fail(rule, name, cur.Pos(), "the print walk passes the nodes without rendering them (the cursor is only advanced and tested)")
	}
	if ok {
		c.Ok(rule, name, fn.Pos(), "cursor := list.head; while cursor != nil { render cursor; cursor = cursor.fingers[0] }")
	}
}

// tallerThanList: the path p of Put has decided "height of the new node > number of levels" (the height being the
// integer result of the node constructor call mk, the number of levels len(path) / len(head.fingers) / the level field).
func tallerThanList(p *ir.Path, put *ssa.Function, mk *ir.Step, trav *ssa.Function, lvFields map[string]bool) bool {
	list := &ir.Term{Op: "param", Aux: put.Params[0].Name()}
	isRank := func(t *ir.Term) bool {
		if ir.Same(t, mk.R) {
			return true
		}
		return t.Op == "extract" && len(t.Args) == 1 && ir.Same(t.Args[0], mk.R) && t.Aux == "0"
	}
	var travR *ir.Term
	for _, st := range p.Events(ir.KCall) {
		if st.Static == trav {
			travR = st.R
		}
	}
	isLevels := func(t *ir.Term) bool {
		if t.Op == "len" && len(t.Args) == 1 {
			x := t.Args[0]
			if travR != nil && x.Op == "extract" && x.Aux == "1" && ir.Same(x.Args[0], travR) {
				return true
			}
			if x.Op == "load" && len(x.Args) == 1 && x.Args[0].Op == "faddr" && (x.Args[0].Aux == fPath && ir.Same(x.Args[0].Args[0], list) || x.Args[0].Aux == fFingers) {
				return true
			}
		}
		return t.Op == "load" && len(t.Args) == 1 && t.Args[0].Op == "faddr" && lvFields[t.Args[0].Aux]
	}
	flip := map[string]string{"<": ">", "<=": ">=", ">": "<", ">=": "<="}
	neg := map[string]string{"<": ">=", "<=": ">", ">": "<=", ">=": "<"}
	for _, b := range p.Events(ir.KBranch) {
		at := b.Atom
		if at.Op != "bin" || len(at.Args) != 2 || flip[at.Aux] == "" {
			continue
		}
		rel := ""
		switch {
		case isRank(at.Args[0]) && isLevels(at.Args[1]):
			rel = at.Aux
		case isLevels(at.Args[0]) && isRank(at.Args[1]):
			rel = flip[at.Aux]
		default:
			continue
		}
		if !b.Pol {
			rel = neg[rel]
		}
		if rel == ">" {
			return true
		}
	}
	return false
}

// nodeNilGuard: the node a traversal returns may be nil (key beyond the last element, empty list): every field access
// through it in Put / Get / Remove sits behind a test of that very value against nil. Decided on SSA by dominance: a
// FieldAddr on the traversal's node result is dominated by the non-nil successor of an `if v != nil` / `v == nil` on it.
func nodeNilGuard(c *core.Ctx, fn, trav *ssa.Function) {
	const rule = "nil-guard"
	name := "skiplist." + fn.Name()
	var results []ssa.Value
	for _, b := range fn.Blocks {
		for _, in := range b.Instrs {
			call, ok := in.(*ssa.Call)
			if !ok {
				continue
			}
			sc := call.Call.StaticCallee()
			if sc == nil {
				continue
			}
			if sc != trav && sc.Origin() != trav {
				continue
			}
			if isNodePtrType(call.Type()) {
				results = append(results, call)
				continue
			}
			for _, r := range *call.Referrers() {
				if ex, isEx := r.(*ssa.Extract); isEx && isNodePtrType(ex.Type()) {
					results = append(results, ex)
				}
			}
		}
	}
	if len(results) == 0 {
		c.Undecided(rule, name, fn.Pos(), "the node result of the traversal call was not found")
		return
	}
	isNilC := func(v ssa.Value) bool { k, isK := v.(*ssa.Const); return isK && k.IsNil() }
	ok := true
	n := 0
	for _, v := range results {
		// the blocks in which v is known to be non-nil
		var safe []*ssa.BasicBlock
		for _, r := range *v.Referrers() {
			bo, isB := r.(*ssa.BinOp)
			if !isB || !(bo.Op == token.NEQ || bo.Op == token.EQL) || !(bo.X == v && isNilC(bo.Y) || bo.Y == v && isNilC(bo.X)) {
				continue
			}
			for _, r2 := range *bo.Referrers() {
				iff, isIf := r2.(*ssa.If)
				if !isIf {
					continue
				}
				succ := iff.Block().Succs[0]
				if bo.Op == token.EQL {
					succ = iff.Block().Succs[1]
				}
				// the successor must be entered only from this test
				if len(succ.Preds) == 1 {
					safe = append(safe, succ)
				}
			}
		}
		// ... or by a helper of the package that answers true only for a non-nil node (`list.holds(v, key)`)
		for _, r := range *v.Referrers() {
			call, isC := r.(*ssa.Call)
			if !isC {
				continue
			}
			sc := call.Call.StaticCallee()
			if sc == nil || !isBasicKind(call.Type(), types.Bool) {
				continue
			}
			if o := sc.Origin(); o != nil {
				sc = o
			}
			if sc.Pkg != fn.Pkg {
				continue
			}
			ai := -1
			for i, a := range call.Call.Args {
				if a == v {
					ai = i
				}
			}
			if ai < 0 || !trueImpliesNonNil(c, sc, ai) {
				continue
			}
			for _, r2 := range *call.Referrers() {
				switch x := r2.(type) {
				case *ssa.If:
					if succ := x.Block().Succs[0]; len(succ.Preds) == 1 {
						safe = append(safe, succ)
					}
				case *ssa.UnOp:
					if x.Op != token.NOT {
						continue
					}
					for _, r3 := range *x.Referrers() {
						if iff, isIf := r3.(*ssa.If); isIf {
							if succ := iff.Block().Succs[1]; len(succ.Preds) == 1 {
								safe = append(safe, succ)
							}
						}
					}
				}
			}
		}
		// ... or by a boolean that can be true only when it was computed on the non-nil side
		// (`found := v != nil && cmp == EQ; if found { .. v.val .. }`: a phi of false and of values from safe blocks)
		isSafe := func(b *ssa.BasicBlock) bool {
			for _, sb := range safe {
				if sb == b || sb.Dominates(b) {
					return true
				}
			}
			return false
		}
		for round := 0; round < 3; round++ {
			for _, b := range fn.Blocks {
				if len(b.Instrs) == 0 {
					continue
				}
				iff, isIf := b.Instrs[len(b.Instrs)-1].(*ssa.If)
				if !isIf {
					continue
				}
				phi, isPhi := iff.Cond.(*ssa.Phi)
				if !isPhi || len(b.Succs[0].Preds) != 1 || isSafe(b.Succs[0]) {
					continue
				}
				all := len(phi.Edges) > 0
				for i, e := range phi.Edges {
					if k, isK := e.(*ssa.Const); isK && k.Value != nil && !constant.BoolVal(k.Value) {
						continue
					}
					if i < len(phi.Block().Preds) && isSafe(phi.Block().Preds[i]) {
						continue
					}
					all = false
				}
				if all {
					safe = append(safe, b.Succs[0])
				}
			}
		}
		for _, r := range *v.Referrers() {
			fa, isFA := r.(*ssa.FieldAddr)
			if !isFA || fa.X != v {
				continue
			}
			n++
			guarded := false
			for _, sb := range safe {
				if sb == fa.Block() || sb.Dominates(fa.Block()) {
					guarded = true
				}
			}
			if !guarded {
				ok = false
				c.Fail(rule, name, fa.Pos(), "a field of the node the traversal returned is read before that node is known to be non-nil: for a key beyond the last element (or an empty list) the traversal returns nil and %s panics instead of answering like a map", fn.Name())
			}
		}
	}
	if ok {
		c.Ok(rule, name, fn.Pos(), fmt.Sprintf("%d field accesses through the traversal's node result, each behind its nil test", n))
	}
}

// trueImpliesNonNil: every path of the boolean helper h that can answer true has established that its i-th parameter
// is not nil (the result is the constant false, or a term, only behind `param != nil`).
func trueImpliesNonNil(c *core.Ctx, h *ssa.Function, i int) bool {
	if h.Origin() != nil {
		h = h.Origin()
	}
	if i >= len(h.Params) || len(h.Blocks) == 0 {
		return false
	}
	an := c.Analyze(h)
	if len(an.Problems) != 0 || len(an.Headers) != 0 {
		return false
	}
	prm := &ir.Term{Op: "param", Aux: h.Params[i].Name()}
	isNil := &ir.Term{Op: "bin", Aux: "==", Args: sorted2(ir.Nil, prm)}
	for _, p := range an.AllPaths() {
		if p.Exit != ir.ExitReturn || len(p.Results) != 1 {
			return false
		}
		r := p.Results[0]
		if r.IsConst() && r.Aux == "false" {
			continue
		}
		if polarity(p, isNil) >= 0 {
			return false
		}
	}
	return true
}

// nonNilBlocks: the blocks entered only from the non-nil side of a direct test of v against nil.
func nonNilBlocks(v ssa.Value) []*ssa.BasicBlock {
	var safe []*ssa.BasicBlock
	if v.Referrers() == nil {
		return nil
	}
	isNilC := func(x ssa.Value) bool { k, isK := x.(*ssa.Const); return isK && k.IsNil() }
	for _, r := range *v.Referrers() {
		bo, isB := r.(*ssa.BinOp)
		if !isB || !(bo.Op == token.NEQ || bo.Op == token.EQL) || !(bo.X == v && isNilC(bo.Y) || bo.Y == v && isNilC(bo.X)) {
			continue
		}
		for _, r2 := range *bo.Referrers() {
			if iff, isIf := r2.(*ssa.If); isIf {
				succ := iff.Block().Succs[0]
				if bo.Op == token.EQL {
					succ = iff.Block().Succs[1]
				}
				if len(succ.Preds) == 1 {
					safe = append(safe, succ)
				}
			}
		}
	}
	return safe
}

// printNode: "... with forward pointers only to larger keys": what a node prints is its own key and, for every finger,
// the key of the node that finger points to (nil fingers without a dereference). Decided on SSA: the node's String()
// reads its receiver's key; it loads elements of the receiver's finger slice; every key read through such an element is
// behind that element's nil test, and at least one exists.
func printNode(c *core.Ctx, fn *ssa.Function) {
	const rule = "print-node"
	name := "skiplist." + fnLabel(fn)
	if len(fn.Params) == 0 {
		return
	}
	recv := fn.Params[0]
	fieldName := func(fa *ssa.FieldAddr) string {
		pt, ok := fa.X.Type().Underlying().(*types.Pointer)
		if !ok {
			return ""
		}
		st, ok := pt.Elem().Underlying().(*types.Struct)
		if !ok || fa.Field >= st.NumFields() {
			return ""
		}
		return st.Field(fa.Field).Name()
	}
	ownKey := false
	var elems []ssa.Value
	for _, b := range fn.Blocks {
		for _, in := range b.Instrs {
			switch x := in.(type) {
			case *ssa.FieldAddr:
				if x.X == recv && fieldName(x) == fKey {
					ownKey = true
				}
			case *ssa.UnOp:
				if x.Op != token.MUL || !isNodePtrType(x.Type()) {
					continue
				}
				if ia, isIA := x.X.(*ssa.IndexAddr); isIA {
					if ld, isLd := ia.X.(*ssa.UnOp); isLd && ld.Op == token.MUL {
						if fa, isFA := ld.X.(*ssa.FieldAddr); isFA && fa.X == recv && fieldName(fa) == fFingers {
							elems = append(elems, x)
						}
					}
				}
			}
		}
	}
	if !ownKey {
		c.Fail(rule, name, fn.Pos(), "the node's String() never reads the node's own key")
		return
	}
	if len(elems) == 0 {
		c.Undecided(rule, name, fn.Pos(), "no element of the receiver's finger slice is loaded: the rendering of the forward pointers is not of the recognised form")
		return
	}
	ok, keys := true, 0
	for _, x := range elems {
		safe := nonNilBlocks(x)
		for _, r := range *x.Referrers() {
			fa, isFA := r.(*ssa.FieldAddr)
			if !isFA || fa.X != x {
				continue
			}
			if fieldName(fa) == fKey {
				keys++
			}
			guarded := false
			for _, sb := range safe {
				if sb == fa.Block() || sb.Dominates(fa.Block()) {
					guarded = true
				}
			}
			if !guarded {
				ok = false
				c.Fail(rule, name, fa.Pos(), "a finger is dereferenced where it is not known to be non-nil (the top fingers of the last nodes are nil): printing panics or shows nil fingers as keys")
			}
		}
	}
	if ok && keys == 0 {
		ok = false
		c.Fail(rule, name, fn.Pos(), "the keys the fingers point to are never read: the forward pointers are not rendered")
	}
	if ok {
		c.Ok(rule, name, fn.Pos(), fmt.Sprintf("own key; %d finger loads, the pointed-to key read behind the finger's nil test", len(elems)))
	}
}

func nodeHasField(t types.Type, name string) bool {
	pt, ok := t.Underlying().(*types.Pointer)
	if !ok {
		return false
	}
	st, ok := pt.Elem().Underlying().(*types.Struct)
	if !ok {
		return false
	}
	for i := 0; i < st.NumFields(); i++ {
		if st.Field(i).Name() == name {
			return true
		}
	}
	return false
}
