package rules

import (
	"fmt"
	"go/token"
	"go/types"
	"strings"

	"golang.org/x/tools/go/ssa"

	"verif/checker/internal/core"
	"verif/checker/internal/ir"
)

func init() {
	expl := "The list semantics of an arbitrarily nested iterator expression is behavioural; what is decided is that each combinator obeys its iterator protocol, as path constraints with branch polarities (engine P), each a necessary condition: nil-is-empty (no method is invoked on an iterator parameter or user-returned iterator unless non-nil was established on the path; iterator-valued fields are proven non-nil in every object a constructor returns and at every `return true` of Next); eager-position (constructors return non-nil only after a positive test of the current element, advance with Next() otherwise, return nil when Next() is false); the Next protocols of takeWhile (true => inner Next true then predicate true on the fresh element, once each, in that order; inner false => false without calling the predicate), filter (false predicate loops to the inner Next; false only after inner false), plus (inner true => true without state change; inner false and rhs != nil => Seq := rhs, rhs := nil, true without calling rhs.Next(); else false) and the join family (inner true => true; else advance lhs; lhs false => false; Seq := rhs(current lhs element); non-nil => true); map.Value = f(inner current); leaves; ForEach = drain idiom, f once per element, first error returned at once; predicates and join functions always receive the element the inner iterator is positioned on (values read after the last Next of that iterator on the path); no store through an element address of a slice and no append onto a caller's slice (source slices are never modified). With these constraints induction over the expression tree gives list semantics - the induction itself and the user functions are not decided. state-persists: a method that assigns a field of its value receiver's copy - the copy being used for nothing but field accesses - has lost that assignment (the iterator's progress must be written through a pointer receiver)."
	register(&Pack{ID: "C14", Run: func(c *core.Ctx) { runIter(c, "trait/seq", false) }, Meta: core.Meta{
		Level: "other", Explanation: expl,
		RuleText:    "one obligation per (combinator, rule)",
		Assumptions: []string{"an iterator is not aliased by the wrapper that holds it", "after Next returned false an iterator is dead by the documented protocol"},
		TrustedBase: []string{"go/types", "go/ssa", "path engine P"},
	}})
	register(&Pack{ID: "C15", Run: func(c *core.Ctx) { runIter(c, "trait/pair", true) }, Meta: core.Meta{
		Level: "other", Explanation: expl + " For the key/value package in addition: for every pair combinator type Key, Value and Next resolve through the same embedded field (so they speak about the same element) except the mapping's Value; Key is never redefined (Map never changes keys); every call of a two-argument user function passes (X.Key(), X.Value()) of one and the same iterator X, both read after X's last Next on the path (the type checker rejects swapped arguments because K and V are distinct type parameters).",
		RuleText:    "one obligation per (combinator, rule)",
		Assumptions: []string{"an iterator is not aliased by the wrapper that holds it", "after Next returned false an iterator is dead by the documented protocol"},
		TrustedBase: []string{"go/types", "go/ssa", "path engine P"},
	}})
}

// ---- iterator events --------------------------------------------------------

type itEv struct {
	kind string // next | value | key | user
	on   *ir.Term
	st   *ir.Step
	idx  int
}

func iterEvents(p *ir.Path) []itEv {
	var out []itEv
	for i := range p.Steps {
		st := &p.Steps[i]
		if st.Kind != ir.KCall {
			continue
		}
		switch {
		case st.Method != nil && (st.Method.Name() == "Next" || st.Method.Name() == "Value" || st.Method.Name() == "Key"):
			out = append(out, itEv{strings.ToLower(st.Method.Name()), st.A[0], st, i})
		case st.Method == nil && st.Static == nil && st.Callee != nil:
			out = append(out, itEv{"user", st.Callee, st, i})
		}
	}
	return out
}

// freshArgs: every argument of the user call is the result of a Value()/Key() call on one iterator X, made after
// the last X.Next() preceding the user call on this path; for pairs the order must be (Key, Value).
// Returns the iterator X.
func freshArgs(an *ir.Analysis, p *ir.Path, evs []itEv, u itEv, pair bool) (*ir.Term, string) {
	want := []string{"value"}
	if pair && len(u.st.A) == 2 {
		want = []string{"key", "value"}
	}
	if len(u.st.A) != len(want) {
		return nil, fmt.Sprintf("user function is called with %d arguments", len(u.st.A))
	}
	var x *ir.Term
	for i, a := range u.st.A {
		var src *itEv
		for j := range evs {
			if evs[j].st.R != nil && ir.Same(evs[j].st.R, a) && (evs[j].kind == "value" || evs[j].kind == "key") {
				src = &evs[j]
			}
		}
		if src == nil && a.Op == "phi" && p.From != nil {
			// a loop-carried copy of the element: every way into the loop head must have read it freshly
			on, why := freshPhi(an, p, a, want[i])
			if why != "" {
				return nil, fmt.Sprintf("argument %d: %s", i+1, why)
			}
			// and the iterator must not have advanced on this path before the call
			for _, e := range evs {
				if e.kind == "next" && ir.Same(e.on, on) && e.idx < u.idx {
					return nil, fmt.Sprintf("argument %d was read before the iterator advanced: the function sees a stale %s", i+1, want[i])
				}
			}
			if x == nil {
				x = on
			} else if !ir.Same(x, on) {
				return nil, "key and value are read from different iterators"
			}
			continue
		}
		if src == nil {
			return nil, fmt.Sprintf("argument %d (%s) is not read from the iterator on this path (a stale or foreign value)", i+1, short(a))
		}
		if src.kind != want[i] {
			return nil, fmt.Sprintf("argument %d is the iterator's %s, expected its %s", i+1, src.kind, want[i])
		}
		if x == nil {
			x = src.on
		} else if !ir.Same(x, src.on) {
			return nil, "key and value are read from different iterators"
		}
		// no Next of x between the read and the user call
		for _, e := range evs {
			if e.kind == "next" && ir.Same(e.on, src.on) && e.idx > src.idx && e.idx < u.idx {
				return nil, fmt.Sprintf("argument %d was read before the iterator advanced: the function sees a stale %s", i+1, src.kind)
			}
		}
	}
	return x, ""
}

// freshPhi: the loop-carried value a (a phi of p's start header) is, on every incoming path, the result of a
// kind() call on one iterator X made after X's last Next on that path. Returns X.
func freshPhi(an *ir.Analysis, p *ir.Path, a *ir.Term, kind string) (*ir.Term, string) {
	phi, ok := a.Src.(*ssa.Phi)
	if !ok || phi.Block() != p.From {
		return nil, "a loop-carried value of unknown origin is passed"
	}
	var x *ir.Term
	n := 0
	for _, segs := range an.Segs {
		for _, q := range segs {
			if q.To != p.From {
				continue
			}
			n++
			v := q.PhiOut[phi]
			evs := iterEvents(q)
			var src *itEv
			for j := range evs {
				if evs[j].st.R != nil && ir.Same(evs[j].st.R, v) && evs[j].kind == kind {
					src = &evs[j]
				}
			}
			if src == nil {
				return nil, fmt.Sprintf("on a way back to the loop head the carried %s is %s, not a fresh read of the iterator (the function would see a stale %s)", kind, short(v), kind)
			}
			for _, e := range evs {
				if e.kind == "next" && ir.Same(e.on, src.on) && e.idx > src.idx {
					return nil, fmt.Sprintf("the carried %s is read before the iterator advances", kind)
				}
			}
			if x == nil {
				x = src.on
			} else if !ir.Same(x, src.on) {
				return nil, "carried value read from different iterators"
			}
		}
	}
	if n == 0 || x == nil {
		return nil, "no incoming path"
	}
	return x, ""
}

// nilEstablished: on path p, before step idx, iterator term t is known non-nil: a branch (t == nil) false,
// or an earlier method invocation on t.
func nilEstablished(p *ir.Path, idx int, t *ir.Term) bool {
	at := &ir.Term{Op: "bin", Aux: "==", Args: sorted2(ir.Nil, t)}
	for i := 0; i < idx; i++ {
		st := &p.Steps[i]
		if st.Kind == ir.KBranch && ir.Same(st.Atom, at) && !st.Pol {
			return true
		}
		if st.Kind == ir.KCall && st.Method != nil && len(st.A) > 0 && ir.Same(st.A[0], t) {
			return true
		}
	}
	return false
}

// typeOfCtor: the named type a constructor builds (via its composite literal), nil if it returns its argument only.
func builtType(fn *ssa.Function) *types.Named {
	var nt *types.Named
	for _, b := range fn.Blocks {
		for _, in := range b.Instrs {
			switch x := in.(type) {
			case *ssa.Alloc:
				if n, ok := x.Type().(*types.Pointer).Elem().(*types.Named); ok {
					if _, isS := n.Underlying().(*types.Struct); isS && n.Obj().Pkg() == fn.Pkg.Pkg {
						nt = n.Origin()
					}
				}
			case *ssa.MakeInterface:
				t := x.X.Type()
				if p, ok := t.(*types.Pointer); ok {
					t = p.Elem()
				}
				if n, ok := t.(*types.Named); ok {
					if _, isS := n.Underlying().(*types.Struct); isS && n.Obj().Pkg() == fn.Pkg.Pkg {
						nt = n.Origin()
					}
				}
			}
		}
	}
	return nt
}

// iterFieldsOf: names of the struct's fields that are iterators (have a Next() bool method), in declaration order.
func iterFieldsOf(nt *types.Named) []string {
	st, ok := nt.Underlying().(*types.Struct)
	if !ok {
		return nil
	}
	var out []string
	for i := 0; i < st.NumFields(); i++ {
		ms := types.NewMethodSet(st.Field(i).Type())
		if sel := ms.Lookup(nil, "Next"); sel != nil {
			if sig, isSig := sel.Type().(*types.Signature); isSig && sig.Params().Len() == 0 && sig.Results().Len() == 1 {
				out = append(out, st.Field(i).Name())
			}
		}
	}
	return out
}

func iterMethod(c *core.Ctx, nt *types.Named, name string) *ssa.Function {
	if nt == nil {
		return nil
	}
	for i := 0; i < nt.NumMethods(); i++ {
		if nt.Method(i).Name() == name {
			return c.W.Prog.FuncValue(nt.Method(i))
		}
	}
	return nil
}

// recvField: term of the receiver's field (pointer or value receiver).
func isRecvField(t *ir.Term, fn *ssa.Function, field string) bool {
	if t == nil {
		return false
	}
	if t.Op == "field" && t.Aux == field && paramOf(t.Args[0], fn, 0) {
		return true
	}
	if t.Op == "load" && t.Args[0].Op == "faddr" && t.Args[0].Aux == field && paramOf(t.Args[0].Args[0], fn, 0) {
		return true
	}
	return false
}

func runIter(c *core.Ctx, pkg string, pair bool) {
	sh := pkgShort(pkg)
	c.Doc("nil-is-empty", 8, "no method invoked on a possibly-nil iterator; constructors return objects with non-nil iterator fields")
	c.Doc("eager-position", 4, "constructors return non-nil only when positioned on an element that qualifies")
	c.Doc("next-protocol", 4, "Next of takeWhile / filter / plus / join family obeys its protocol on every path")
	c.Doc("fresh-element", 6, "user functions receive the element the iterator is positioned on")
	c.Doc("map-value", 1, "mapping Value = f(inner current element); Next (and Key) promoted")
	c.Doc("leaves", 1, "leaf iterators")
	c.Doc("foreach", 1, "drain idiom; f once per element; first error returned at once")
	c.Doc("no-slice-write", 1, "no store into, and no append onto, a caller's slice")
	c.Doc("state-persists", 1, "a method that assigns its receiver's fields has a pointer receiver (the iterator's progress is not written to a copy)")
	c.Doc("typed-nil", 1, "no possibly-nil pointer is converted to an iterator interface: the empty sequence is the nil interface, and a nil pointer inside an interface is not nil")
	typedNilRule(c, pkg)

	// ---- generic rules on every function of the package
	allFns := c.W.SourceFuncs(pkg)
	nPersist := 0
	for _, fn := range allFns {
		if fn.Parent() != nil {
			continue
		}
		if st := lostReceiverStore(fn); st != nil {
			nPersist++
			c.Fail("state-persists", sh+"."+fnLabel(fn), st.Pos(), "the method has a value receiver but assigns a field of it: the assignment changes a copy that dies with the call, so the iterator the caller holds never sees the new state")
		}
		// entry points only: exported constructors and the methods of the combinator types; unexported helper
		// functions are covered where they are inlined (their callers establish their preconditions)
		if fn.Signature.Recv() == nil && !token.IsExported(fn.Name()) {
			continue
		}
		// likewise the methods of unexported helper types that are not iterators themselves (a named predicate
		// type with a `test(seq)` method): they see their arguments only through the callers that were followed
		if r := fn.Signature.Recv(); r != nil {
			if nt := namedBehindPtr(r.Type()); nt != nil && !nt.Obj().Exported() {
				if o, _, _ := types.LookupFieldOrMethod(r.Type(), true, nt.Obj().Pkg(), "Next"); o == nil {
					continue
				}
			}
		}
		an := c.AnalyzeLoops(fn)
		name := sh + "." + fnLabel(fn)
		if problems(c, "nil-is-empty", name, an) {
			continue
		}
		okNil, okFresh := true, true
		nUser := 0
		for _, p := range an.AllPaths() {
			evs := iterEvents(p)
			for _, e := range evs {
				switch e.kind {
				case "next", "value", "key":
					// receivers that are parameters or results of user functions must be known non-nil
					t := e.on
					needs := t.Op == "param" && fn.Signature.Recv() == nil || t.Op == "call"
					if t.Op == "param" && fn.Signature.Recv() != nil && !paramOf(t, fn, 0) {
						needs = true
					}
					if needs && !nilEstablished(p, e.idx, t) && !drainGuard(an, p, t) && !nilFactAtStart(an, p, t) {
						okNil = false
						c.Fail("nil-is-empty", name, e.st.Pos(), "%s() is invoked on %s which may be nil on this path (nil means empty)", e.st.Method.Name(), short(t))
					}
				case "user":
					nUser++
					if _, why := freshArgs(an, p, evs, e, pair); why != "" {
						okFresh = false
						c.Fail("fresh-element", name, e.st.Pos(), "%s", why)
					}
				}
			}
		}
		if okNil {
			c.Ok("nil-is-empty", name, fn.Pos(), "")
		}
		if nUser > 0 && okFresh {
			c.Ok("fresh-element", name, fn.Pos(), fmt.Sprintf("%d user calls", nUser))
		}
	}

	if nPersist == 0 {
		c.Ok("state-persists", sh, 0, fmt.Sprintf("%d methods", len(allFns)))
	}
	takeWhileRules(c, pkg, pair)
	dropWhileRules(c, pkg)
	filterRules(c, pkg, pair)
	plusRules(c, pkg)
	joinRules(c, pkg, pair)
	mapRules(c, pkg, pair)
	leafRules(c, pkg, pair)
	forEachRule(c, pkg, pair)
	noSliceWrite(c, pkg)
	if pair {
		// expressions mix pair and plain sequences through ToSeq / FromSeq: the plain leaves must not write the
		// caller's slices either (shared with C14)
		noSliceWrite(c, "trait/seq")
		kvRules(c, pkg)
	}
}

// lostReceiverStore: fn is a method with a value (struct) receiver and stores into a field of the receiver's
// spilled copy while that copy is used for nothing but field accesses (never read whole, passed on or returned).
func lostReceiverStore(fn *ssa.Function) ssa.Instruction {
	recv := fn.Signature.Recv()
	if recv == nil || len(fn.Params) == 0 {
		return nil
	}
	if _, isPtr := recv.Type().(*types.Pointer); isPtr {
		return nil
	}
	if _, isStruct := recv.Type().Underlying().(*types.Struct); !isStruct {
		return nil
	}
	var spill *ssa.Alloc
	for _, r := range *fn.Params[0].Referrers() {
		if st, isSt := r.(*ssa.Store); isSt && st.Val == ssa.Value(fn.Params[0]) {
			if a, isA := st.Addr.(*ssa.Alloc); isA {
				spill = a
			}
		}
	}
	if spill == nil {
		return nil
	}
	var lost ssa.Instruction
	var visit func(addr ssa.Value) bool
	visit = func(addr ssa.Value) bool {
		for _, r := range *addr.Referrers() {
			switch r := r.(type) {
			case *ssa.FieldAddr:
				for _, r2 := range *r.Referrers() {
					switch r2 := r2.(type) {
					case *ssa.Store:
						if r2.Addr == ssa.Value(r) && lost == nil {
							lost = r2
						}
					case *ssa.FieldAddr:
						// nested struct field
						if !visit(r) {
							return false
						}
					}
				}
			case *ssa.Store:
				if r.Addr != addr {
					return false // the copy's address escapes
				}
			case *ssa.UnOp:
				return false // the copy is read whole (returned / passed on): the change may be used
			case *ssa.DebugRef:
			default:
				return false
			}
		}
		return true
	}
	if !visit(spill) {
		return nil
	}
	return lost
}

// arrivesAdvanced: path p starts at a loop head, and on every way into that head the last thing done with the
// outer iterator was a successful Next (so the element p expands first is a new one).
func arrivesAdvanced(an *ir.Analysis, p *ir.Path, isOuter func(*ir.Term) bool) bool {
	if p.From == nil {
		return false
	}
	n := 0
	for _, segs := range an.Segs {
		for _, q := range segs {
			if q.To != p.From {
				continue
			}
			n++
			evs := iterEvents(q)
			ok := false
			for i := len(evs) - 1; i >= 0; i-- {
				e := evs[i]
				if e.kind == "user" {
					break
				}
				if e.kind == "next" && isOuter(e.on) {
					ok = polarity(q, e.st.R) > 0
					break
				}
			}
			if !ok {
				return false
			}
		}
	}
	return n > 0
}

// nilFactAtStart: t != nil was established on every way into the segment's start (facts survive the merge at loop heads).
func nilFactAtStart(an *ir.Analysis, p *ir.Path, t *ir.Term) bool {
	st := an.Start[p.From]
	at := &ir.Term{Op: "bin", Aux: "==", Args: sorted2(ir.Nil, t)}
	v, known := st.Fact(at)
	return known && !v
}

// drainGuard: the `for has := s != nil; has; has = s.Next()` idiom – the loop-carried boolean implies s != nil.
func drainGuard(an *ir.Analysis, p *ir.Path, t *ir.Term) bool {
	if p.From == nil {
		return false
	}
	// first branch of the path is on a boolean phi of the header, true
	for i := range p.Steps {
		st := &p.Steps[i]
		if st.Kind != ir.KBranch {
			continue
		}
		if st.Atom.Op != "phi" || !st.Pol {
			return false
		}
		phi, ok := st.Atom.Src.(*ssa.Phi)
		if !ok {
			return false
		}
		// every incoming value implies t != nil when true
		for _, segs := range an.Segs {
			for _, q := range segs {
				if q.To != p.From {
					continue
				}
				v := q.PhiOut[phi]
				okIn := false
				if v != nil && v.Op == "bin" && v.Aux == "!=" && (ir.Same(v.Args[0], t) && v.Args[1].IsNil() || ir.Same(v.Args[1], t) && v.Args[0].IsNil()) {
					okIn = true
				}
				if m, _, args, isC := callParts(v); isC && m == "Next" && ir.Same(args[0], t) {
					okIn = true
				}
				if !okIn {
					return false
				}
			}
		}
		return true
	}
	return false
}

func ctorAndType(c *core.Ctx, pkg, ctor string) (*ssa.Function, *types.Named) {
	fn := c.W.Func(pkg, ctor)
	if fn == nil {
		return nil, nil
	}
	return fn, builtType(fn)
}

// innerNext returns the next-events on the receiver's embedded iterator field.
func fieldOfRecv(fn *ssa.Function, t *ir.Term) string {
	if t.Op == "field" && paramOf(t.Args[0], fn, 0) {
		return t.Aux
	}
	if t.Op == "load" && t.Args[0].Op == "faddr" && paramOf(t.Args[0].Args[0], fn, 0) {
		return t.Args[0].Aux
	}
	return ""
}

func retBool(p *ir.Path) (bool, bool) {
	if p.Exit != ir.ExitReturn || len(p.Results) != 1 || !p.Results[0].IsConst() {
		return false, false
	}
	return p.Results[0].Aux == "true", p.Results[0].Aux == "true" || p.Results[0].Aux == "false"
}

// predicateStage checks the common core of takeWhile.Next / filter.Next per path:
//
//	true  => last inner Next() == true followed by predicate(fresh element) == true
//	pred false => (takeWhile) return false / (filter) continue the loop
//	inner false => false without calling the predicate
func predicateNext(c *core.Ctx, rule, name string, fn *ssa.Function, an *ir.Analysis, pair, isFilter bool) {
	ok := true
	nTrue := 0
	fail := func(pos token.Pos, format string, a ...any) {
		ok = false
		c.Fail(rule, name, pos, format, a...)
	}
	// the fact carried across loop heads: "the inner iterator X has advanced successfully and its new element has
	// not been shown to the predicate yet" (X = advOn). A loop that tests first and advances at its end (a shared
	// seek helper) establishes it on its back edge instead of at the top of the pass.
	type adv struct {
		fresh bool
		on    *ir.Term
	}
	endFact := func(p *ir.Path, start adv) adv {
		st := start
		for _, e := range iterEvents(p) {
			switch e.kind {
			case "next":
				st = adv{polarity(p, e.st.R) > 0, e.on}
			case "user":
				st = adv{false, nil}
			}
		}
		return st
	}
	facts := map[*ssa.BasicBlock]adv{}
	for _, h := range an.Headers {
		facts[h] = adv{true, nil} // optimistic start, lowered to the meet over the arrivals
	}
	for round := 0; round < 8; round++ {
		changed := false
		for _, h := range an.Headers {
			meet := adv{true, nil}
			first := true
			for _, ps := range an.Segs {
				for _, q := range ps {
					if q.To != h {
						continue
					}
					start := adv{false, nil}
					if q.From != nil {
						start = facts[q.From]
					}
					e := endFact(q, start)
					if first {
						meet, first = e, false
						continue
					}
					if !e.fresh || !meet.fresh || (e.on != nil && meet.on != nil && !ir.Same(e.on, meet.on)) {
						meet = adv{false, nil}
					} else if meet.on == nil {
						meet.on = e.on
					}
				}
			}
			if first {
				meet = adv{false, nil}
			}
			if meet.fresh != facts[h].fresh || !ir.Same(meet.on, facts[h].on) {
				facts[h] = meet
				changed = true
			}
		}
		if !changed {
			break
		}
	}
	for _, p := range an.AllPaths() {
		evs := iterEvents(p)
		st := adv{false, nil}
		if p.From != nil {
			st = facts[p.From]
		}
		rv, isRet := retBool(p)
		verdict := 0 // +1: the predicate held on the fresh element (must return true); -1: it failed; 0: none pending
		bad := false
		for k, e := range evs {
			if bad {
				break
			}
			switch e.kind {
			case "next":
				if verdict > 0 {
					fail(e.st.Pos(), "the predicate holds on the new element but Next advances again instead of returning true")
					bad = true
					break
				}
				if verdict < 0 && !isFilter {
					fail(e.st.Pos(), "the predicate fails on the new element but Next does not return false")
					bad = true
					break
				}
				if st.fresh {
					fail(e.st.Pos(), "the inner iterator advanced to an element that is neither tested nor reported")
					bad = true
					break
				}
				verdict = 0
				switch polarity(p, e.st.R) {
				case 1:
					st = adv{true, e.on}
				case -1:
					st = adv{false, nil}
					// exhausted: false, and nothing else
					for _, e2 := range evs[k+1:] {
						if e2.kind == "user" || e2.kind == "next" {
							fail(e2.st.Pos(), "the inner iterator is exhausted but Next goes on")
							bad = true
						}
					}
					if !bad && !(isRet && !rv) {
						fail(lastPos(p), "the inner iterator is exhausted but Next does not return false")
						bad = true
					}
				default:
					fail(e.st.Pos(), "the result of advancing the inner iterator is not tested")
					bad = true
				}
			case "user":
				if !st.fresh {
					fail(e.st.Pos(), "the predicate is called without a successful inner Next() before it on this path")
					bad = true
					break
				}
				x, why := freshArgs(an, p, evs, e, pair)
				if why != "" || (st.on != nil && !ir.Same(x, st.on)) {
					fail(e.st.Pos(), "the predicate does not test the element the inner iterator just advanced to (%s)", why)
					bad = true
					break
				}
				st = adv{false, nil}
				switch polarity(p, e.st.R) {
				case 1:
					verdict = 1
				case -1:
					verdict = -1
				default:
					fail(lastPos(p), "the predicate's result is not tested")
					bad = true
				}
			}
		}
		if bad {
			continue
		}
		switch {
		case verdict > 0:
			if isRet && rv {
				nTrue++
			} else {
				fail(lastPos(p), "the predicate holds on the new element but Next does not return true")
			}
		case verdict < 0 && isFilter:
			if p.To == nil {
				fail(lastPos(p), "a rejected element must be skipped (loop to the inner Next), but the path leaves the loop")
			}
		case verdict < 0 && !isFilter:
			if !(isRet && !rv) {
				fail(lastPos(p), "the predicate fails on the new element but Next does not return false")
			}
		default:
			if isRet && rv {
				fail(lastPos(p), "Next returns true without testing the predicate on the new element")
			}
			if st.fresh && p.Exit == ir.ExitReturn {
				fail(lastPos(p), "the inner iterator advanced to an element that is neither tested nor reported")
			}
			// giving up without even trying to advance is right only in the dead state (the predicate was cleared, the
			// inner iterator is gone, a done flag is set): a live iterator whose Next answers false at once loses the
			// rest of the sequence
			if isRet && !rv && p.From == nil && len(evs) == 0 && !deadStateEstablished(an, p, fn) {
				fail(lastPos(p), "Next answers false without advancing the inner iterator although no dead state (a cleared field / a set flag of the receiver) was established on this path: the rest of the sequence is lost")
			}
		}
	}
	if ok && nTrue > 0 {
		c.Ok(rule, name, fn.Pos(), "inner Next true -> predicate(fresh element) -> result")
	} else if ok {
		c.Fail(rule, name, fn.Pos(), "no path returns true")
	}
}

// recvFieldTerm: t reads a field of the receiver of method fn (value or pointer receiver).
func recvFieldTerm(t *ir.Term, fn *ssa.Function) bool {
	if t == nil || len(fn.Params) == 0 {
		return false
	}
	if t.Op == "field" && len(t.Args) == 1 {
		return paramOf(t.Args[0], fn, 0) || recvFieldTerm(t.Args[0], fn)
	}
	if t.Op == "load" && len(t.Args) == 1 && t.Args[0].Op == "faddr" {
		x := t.Args[0].Args[0]
		return paramOf(x, fn, 0) || x.Op == "faddr" && recvFieldTerm(&ir.Term{Op: "load", Args: []*ir.Term{x}}, fn)
	}
	return false
}

// deadStateEstablished: the path has found a field of the receiver nil, a boolean field of the receiver set, or a
// field of the receiver equal to a constant that the method itself stores into that field somewhere (a state enum:
// `state == closed` where the predicate's failure does `state = closed`).
func deadStateEstablished(an *ir.Analysis, p *ir.Path, fn *ssa.Function) bool {
	marks := map[string]bool{} // field + "=" + constant stored by the method
	for _, q := range an.AllPaths() {
		for _, s := range q.Events(ir.KStore) {
			if s.A[0].Op == "faddr" && paramOf(s.A[0].Args[0], fn, 0) && s.A[1].IsConst() && !s.A[1].IsNil() {
				marks[s.A[0].Aux+"="+s.A[1].Aux] = true
			}
		}
	}
	fieldName := func(t *ir.Term) string {
		if t.Op == "field" {
			return t.Aux
		}
		if t.Op == "load" && len(t.Args) == 1 && t.Args[0].Op == "faddr" {
			return t.Args[0].Aux
		}
		return ""
	}
	for _, s := range p.Events(ir.KBranch) {
		at := s.Atom
		if at.Op == "bin" && at.Aux == "==" && len(at.Args) == 2 && s.Pol {
			for i := 0; i < 2; i++ {
				if at.Args[i].IsNil() && recvFieldTerm(at.Args[1-i], fn) {
					return true
				}
				if at.Args[i].IsConst() && recvFieldTerm(at.Args[1-i], fn) && marks[fieldName(at.Args[1-i])+"="+at.Args[i].Aux] {
					return true
				}
			}
		}
		if s.Pol && recvFieldTerm(at, fn) {
			return true
		}
	}
	return false
}

func takeWhileRules(c *core.Ctx, pkg string, pair bool) {
	sh := pkgShort(pkg)
	ctor, nt := ctorAndType(c, pkg, "TakeWhile")
	if ctor == nil || nt == nil {
		c.Undecided("eager-position", sh+".TakeWhile", 0, "constructor or its type not found")
		return
	}
	// constructor: non-nil result only with seq != nil and predicate(current) true; literal {Seq: seq, f: f}
	an := c.AnalyzeLoops(ctor)
	name := sh + ".TakeWhile"
	ok := true
	nObj := 0
	for _, p := range an.AllPaths() {
		if p.Exit != ir.ExitReturn {
			ok = false
			continue
		}
		r := p.Results[0]
		evs := iterEvents(p)
		var user *itEv
		for i := range evs {
			if evs[i].kind == "user" {
				user = &evs[i]
			}
		}
		if r.IsNil() {
			// must be justified: seq == nil or predicate false
			if !(polarity(p, &ir.Term{Op: "bin", Aux: "==", Args: sorted2(ir.Nil, &ir.Term{Op: "param", Aux: ctor.Params[0].Name()})}) > 0 || user != nil && polarity(p, user.st.R) < 0) {
				ok = false
				c.Fail("eager-position", name, lastPos(p), "nil (empty) is returned although the sequence is non-empty and its first element satisfies the predicate")
			}
			continue
		}
		nObj++
		lit := p.End.MemAt(r)
		good := r.Op == "alloc" && lit != nil && lit.Op == "lit" && user != nil && polarity(p, user.st.R) > 0 && paramOf(user.on, ctor, 1)
		if good {
			good = litHolds(lit, ctor, 0) && litHolds(lit, ctor, 1)
		}
		if !good {
			ok = false
			c.Fail("eager-position", name, lastPos(p), "a non-empty result must be {Seq: seq, f: f} built after f(current element) held; found %s", short(lit))
		}
	}
	c.Check(ok && nObj > 0, "eager-position", name, ctor.Pos(), "nil unless f(first); {Seq: seq, f: f}", "constructor shape not recognised")
	if next := iterMethod(c, nt, "Next"); next != nil {
		nan := c.AnalyzeLoops(next)
		if !problems(c, "next-protocol", sh+".takeWhile.Next", nan) {
			predicateNext(c, "next-protocol", sh+"."+nt.Obj().Name()+".Next", next, nan, pair, false)
		}
	} else {
		c.Fail("next-protocol", sh+".takeWhile.Next", ctor.Pos(), "the type built by TakeWhile has no Next of its own: it would keep yielding after the predicate fails")
	}
}

// litHolds: exactly one field of the literal holds parameter i of fn.
func litHolds(lit *ir.Term, fn *ssa.Function, i int) bool {
	n := 0
	var walk func(l *ir.Term, depth int)
	walk = func(l *ir.Term, depth int) {
		for _, kv := range ir.LitFields(l) {
			v := kv.Args[0]
			if paramOf(v, fn, i) {
				n++
			} else if v.Op == "lit" && depth < 3 {
				walk(v, depth+1) // fields grouped in an embedded helper struct
			}
		}
	}
	walk(lit, 0)
	return n == 1
}

func fieldOf2(lit *ir.Term, name string) *ir.Term {
	if lit == nil || lit.Op != "lit" {
		return nil
	}
	v := ir.FieldOf(lit, name)
	if v != nil && v.Op == "const" && strings.HasPrefix(v.Aux, "zero:.") {
		return nil
	}
	return v
}

func dropWhileRules(c *core.Ctx, pkg string) {
	sh := pkgShort(pkg)
	fn := c.W.Func(pkg, "DropWhile")
	name := sh + ".DropWhile"
	if fn == nil {
		c.Undecided("eager-position", name, 0, "anchor not found")
		return
	}
	an := c.AnalyzeLoops(fn)
	if problems(c, "eager-position", name, an) {
		return
	}
	ok := true
	nSeq := 0
	for _, p := range an.AllPaths() {
		if p.Exit != ir.ExitReturn {
			continue
		}
		r := p.Results[0]
		evs := iterEvents(p)
		var user, next *itEv
		for i := range evs {
			if evs[i].kind == "user" {
				user = &evs[i]
			}
			if evs[i].kind == "next" {
				next = &evs[i]
			}
		}
		switch {
		case paramOf(r, fn, 0):
			nSeq++
			// the last thing decided: predicate false on the current element, no Next after it
			if user == nil || polarity(p, user.st.R) >= 0 || (next != nil && next.idx > user.idx) {
				ok = false
				c.Fail("eager-position", name, lastPos(p), "the sequence is returned without the predicate having failed on its current element")
			}
		case r.IsNil():
			isNilSeq := polarity(p, &ir.Term{Op: "bin", Aux: "==", Args: sorted2(ir.Nil, &ir.Term{Op: "param", Aux: fn.Params[0].Name()})}) > 0
			if !isNilSeq && !(next != nil && polarity(p, next.st.R) < 0) {
				ok = false
				c.Fail("eager-position", name, lastPos(p), "nil (empty) is returned although the sequence is not exhausted")
			}
		default:
			ok = false
			c.Fail("eager-position", name, lastPos(p), "DropWhile returns %s, expected the positioned sequence or nil", short(r))
		}
	}
	// every loop iteration: predicate true => advance exactly once
	for _, h := range an.Headers {
		for _, p := range an.Segs[h] {
			if p.To != h {
				continue
			}
			evs := iterEvents(p)
			nNext, nUser := 0, 0
			for _, e := range evs {
				if e.kind == "next" {
					nNext++
				}
				if e.kind == "user" {
					nUser++
				}
			}
			if nNext != 1 || nUser != 1 {
				ok = false
				c.Fail("eager-position", name, lastPos(p), "an iteration must test the predicate once and advance once (tests=%d, advances=%d)", nUser, nNext)
			}
			// another pass is made only after the advance succeeded: going round on an exhausted iterator never ends
			// (or tests its last element again)
			for _, e := range evs {
				if e.kind == "next" && polarity(p, e.st.R) <= 0 {
					ok = false
					c.Fail("eager-position", name, e.st.Pos(), "the loop makes another pass without having found that the advance succeeded: on an exhausted sequence it never ends")
				}
			}
		}
	}
	if bad := untestedSkip(an); bad != nil {
		ok = false
		c.Fail("eager-position", name, bad.Pos(), "the iterator is advanced past an element the predicate has not seen (the first element, or the one just reached): that element is dropped untested")
	}
	c.Check(ok && nSeq > 0, "eager-position", name, fn.Pos(), "drop while f(current); nil when exhausted", "shape not recognised")
}

// untestedSkip: a positioning loop (Filter, DropWhile) may leave an element behind only after the predicate has seen
// it. "Untested" holds on entry (the iterator is positioned on its first element, not yet shown to the predicate) and
// after every successful advance; a predicate call clears it; an advance while it holds skips an element the
// predicate never saw. The fact at a loop head is the meet over its arrivals. Returns the offending advance.
func untestedSkip(an *ir.Analysis) *ir.Step {
	end := func(p *ir.Path, start bool) (bool, *ir.Step) {
		u := start
		var bad *ir.Step
		for _, e := range iterEvents(p) {
			switch e.kind {
			case "user":
				u = false
			case "next":
				if u && bad == nil {
					bad = e.st
				}
				u = polarity(p, e.st.R) > 0
			}
		}
		return u, bad
	}
	facts := map[*ssa.BasicBlock]bool{}
	for _, h := range an.Headers {
		facts[h] = false // pessimistic for reporting: "untested" only when every arrival says so
	}
	// an arrival that is untested makes the head untested (may-analysis: one such arrival is enough to lose an element)
	for round := 0; round < 8; round++ {
		changed := false
		for _, h := range an.Headers {
			v := false
			for _, ps := range an.Segs {
				for _, q := range ps {
					if q.To != h {
						continue
					}
					start := true
					if q.From != nil {
						start = facts[q.From]
					}
					if e, _ := end(q, start); e {
						v = true
					}
				}
			}
			if v != facts[h] {
				facts[h] = v
				changed = true
			}
		}
		if !changed {
			break
		}
	}
	for _, p := range an.AllPaths() {
		start := true
		if p.From != nil {
			start = facts[p.From]
		}
		if _, bad := end(p, start); bad != nil {
			return bad
		}
	}
	return nil
}

func filterRules(c *core.Ctx, pkg string, pair bool) {
	sh := pkgShort(pkg)
	ctor, nt := ctorAndType(c, pkg, "Filter")
	name := sh + ".Filter"
	if ctor == nil || nt == nil {
		c.Undecided("eager-position", name, 0, "constructor or its type not found")
		return
	}
	an := c.AnalyzeLoops(ctor)
	if problems(c, "eager-position", name, an) {
		return
	}
	ok := true
	nObj := 0
	for _, p := range an.AllPaths() {
		if p.Exit != ir.ExitReturn {
			continue
		}
		r := p.Results[0]
		evs := iterEvents(p)
		var user, next *itEv
		for i := range evs {
			if evs[i].kind == "user" {
				user = &evs[i]
			}
			if evs[i].kind == "next" {
				next = &evs[i]
			}
		}
		if r.IsNil() {
			isNilSeq := polarity(p, &ir.Term{Op: "bin", Aux: "==", Args: sorted2(ir.Nil, &ir.Term{Op: "param", Aux: ctor.Params[0].Name()})}) > 0
			if !isNilSeq && !(next != nil && polarity(p, next.st.R) < 0) {
				ok = false
				c.Fail("eager-position", name, lastPos(p), "nil (empty) is returned although the sequence is not exhausted")
			}
			continue
		}
		nObj++
		lit := r
		if r.Op == "alloc" {
			lit = p.End.MemAt(r)
		}
		good := lit != nil && lit.Op == "lit" && user != nil && polarity(p, user.st.R) > 0 && (next == nil || next.idx < user.idx) &&
			litHolds(lit, ctor, 0) && litHolds(lit, ctor, 1)
		if !good {
			ok = false
			c.Fail("eager-position", name, lastPos(p), "a non-empty result must be {Seq: seq, f: f} positioned on an element for which f held; found %s", short(lit))
		}
	}
	// every pass of the skipping loop: the predicate failed on the current element, then the iterator advanced
	// successfully, once each (a pass that does not advance never ends and tests the same element again)
	for _, h := range an.Headers {
		for _, p := range an.Segs[h] {
			if p.To == nil {
				continue
			}
			var users, nexts []itEv
			for _, e := range iterEvents(p) {
				switch e.kind {
				case "user":
					users = append(users, e)
				case "next":
					nexts = append(nexts, e)
				}
			}
			good := len(users) == 1 && len(nexts) == 1 && polarity(p, nexts[0].st.R) > 0 && polarity(p, users[0].st.R) < 0
			if !good {
				ok = false
				c.Fail("eager-position", name, lastPos(p), "a pass of the skipping loop must find the predicate false on the current element and then advance successfully, once each (tests=%d, advances=%d)", len(users), len(nexts))
			}
		}
	}
	if bad := untestedSkip(an); bad != nil {
		ok = false
		c.Fail("eager-position", name, bad.Pos(), "the iterator is advanced past an element the predicate has not seen (the first element, or the one just reached): that element is lost")
	}
	c.Check(ok && nObj > 0, "eager-position", name, ctor.Pos(), "skip until f(current); nil when exhausted", "shape not recognised")
	if next := iterMethod(c, nt, "Next"); next != nil {
		nan := c.AnalyzeLoops(next)
		if !problems(c, "next-protocol", sh+".filter.Next", nan) {
			predicateNext(c, "next-protocol", sh+"."+nt.Obj().Name()+".Next", next, nan, pair, true)
		}
	} else {
		c.Fail("next-protocol", sh+".filter.Next", ctor.Pos(), "the type built by Filter has no Next of its own")
	}
}

func plusRules(c *core.Ctx, pkg string) {
	sh := pkgShort(pkg)
	ctor, nt := ctorAndType(c, pkg, "Plus")
	name := sh + ".Plus"
	if ctor == nil || nt == nil {
		c.Undecided("eager-position", name, 0, "constructor or its type not found")
		return
	}
	an := c.AnalyzeLoops(ctor)
	if problems(c, "eager-position", name, an) {
		return
	}
	its := iterFieldsOf(nt)
	next := iterMethod(c, nt, "Next")
	nname := sh + "." + nt.Obj().Name() + ".Next"
	if len(its) != 2 || next == nil {
		c.Fail("eager-position", name, ctor.Pos(), "the concatenation type must have two iterator fields and a Next of its own (found %d fields)", len(its))
		return
	}
	nan := c.AnalyzeLoops(next)
	if problems(c, "next-protocol", nname, nan) {
		return
	}
	// roles: cur = the field Next advances; pend = the other one
	cur, pend := "", ""
	for _, p := range nan.AllPaths() {
		for _, e := range iterEvents(p) {
			if e.kind == "next" {
				if f := fieldOfRecv(next, e.on); f != "" {
					cur = f
				}
			}
		}
	}
	for _, f := range its {
		if f != cur {
			pend = f
		}
	}
	ok := cur != "" && pend != ""
	// a presence flag (bool or two-valued enum) may shadow "the pending operand is still there": the constructor
	// stores v0 next to a non-nil pending operand, the switch stores !v0 next to pending := nil, nothing else
	// touches either - so flag == v0 <=> pending != nil, and a test of the flag is a test of the pending operand
	flagF, flagV0 := "", ""
	if stt, isS := nt.Underlying().(*types.Struct); isS {
		for i := 0; i < stt.NumFields(); i++ {
			ft := stt.Field(i).Type()
			b, isB := ft.Underlying().(*types.Basic)
			if isB && (b.Kind() == types.Bool || ir.IsBoolEnum(ft)) {
				if flagF != "" {
					flagF = "?"
				} else {
					flagF = stt.Field(i).Name()
				}
			}
		}
	}
	if flagF == "?" {
		flagF = ""
	}
	nilAtom := func(i int) *ir.Term {
		return &ir.Term{Op: "bin", Aux: "==", Args: sorted2(ir.Nil, &ir.Term{Op: "param", Aux: ctor.Params[i].Name()})}
	}
	for _, p := range an.AllPaths() {
		if p.Exit != ir.ExitReturn {
			ok = false
			continue
		}
		l, r := polarity(p, nilAtom(0)), polarity(p, nilAtom(1))
		res := p.Results[0]
		switch {
		case paramOf(res, ctor, 1):
			// right operand returned: correct iff the left one is empty
			if l <= 0 {
				ok = false
				c.Fail("eager-position", name, lastPos(p), "the right operand alone is returned without the left one being empty")
			}
		case paramOf(res, ctor, 0):
			if r <= 0 {
				ok = false
				c.Fail("eager-position", name, lastPos(p), "the left operand alone is returned without the right one being empty")
			}
		case res.IsNil():
			if !(l > 0 && r > 0) {
				ok = false
				c.Fail("eager-position", name, lastPos(p), "nil is returned although an operand may be non-empty")
			}
		default:
			lit := p.End.MemAt(res)
			if !(l < 0 && r < 0 && res.Op == "alloc" && lit != nil && paramOf(fieldOf2(lit, cur), ctor, 0) && paramOf(fieldOf2(lit, pend), ctor, 1)) {
				ok = false
				c.Fail("eager-position", name, lastPos(p), "a concatenation object must be built only for two non-empty operands, holding the left one as current and the right one as pending; found %s", short(lit))
			}
			if len(iterEvents(p)) != 0 {
				ok = false
				c.Fail("eager-position", name, lastPos(p), "Plus must not advance or read its operands")
			}
			if flagF != "" && lit != nil {
				if v := fieldOf2(lit, flagF); v != nil && v.IsConst() && (v.Aux == "true" || v.Aux == "false") && (flagV0 == "" || flagV0 == v.Aux) {
					flagV0 = v.Aux
				} else {
					flagF = "" // not a constant presence flag
				}
			}
		}
	}
	c.Check(ok, "eager-position", name, ctor.Pos(), "nil-aware concatenation", "shape not recognised")

	okN := true
	var sawTrue, sawSwitch, sawFalse bool
	for _, p := range nan.AllPaths() {
		evs := iterEvents(p)
		var nexts []itEv
		for _, e := range evs {
			if e.kind == "next" {
				nexts = append(nexts, e)
			}
		}
		// a guard for an object whose current operand is nil: no live object is in that state (the constructor and
		// every successful step leave it non-nil), so answering false there decides nothing
		if p.Exit == ir.ExitReturn && len(p.Results) == 1 && len(evs) == 0 && len(nonLocalStores(p)) == 0 {
			if rv, isRet := retBool(p); isRet && !rv {
				curNil := false
				for _, b := range p.Events(ir.KBranch) {
					at := b.Atom
					if at.Op == "bin" && at.Aux == "==" && len(at.Args) == 2 && b.Pol {
						for j := 0; j < 2; j++ {
							if at.Args[j].IsNil() && fieldOfRecv(next, at.Args[1-j]) == cur {
								curNil = true
							}
						}
					}
				}
				if curNil {
					continue
				}
			}
		}
		if p.Exit != ir.ExitReturn || len(p.Results) != 1 || len(nexts) != 1 || fieldOfRecv(next, nexts[0].on) != cur {
			okN = false
			c.Fail("next-protocol", nname, lastPos(p), "every step must advance the current operand exactly once (advances=%d)", len(nexts))
			continue
		}
		R := nexts[0].st.R
		inner := polarity(p, R)
		pendNil := polarity(p, &ir.Term{Op: "bin", Aux: "==", Args: sorted2(ir.Nil, &ir.Term{Op: "load", Aux: "0", Args: []*ir.Term{{Op: "faddr", Aux: pend, Args: []*ir.Term{{Op: "param", Aux: next.Params[0].Name()}}}}})})
		stores := nonLocalStores(p)
		if flagF != "" && flagV0 != "" && pendNil == 0 {
			if fp := polarity(p, &ir.Term{Op: "load", Aux: "0", Args: []*ir.Term{{Op: "faddr", Aux: flagF, Args: []*ir.Term{{Op: "param", Aux: next.Params[0].Name()}}}}}); fp != 0 {
				if (fp > 0) == (flagV0 == "true") {
					pendNil = -1 // flag still at its initial value: the pending operand is present
				} else {
					pendNil = 1
				}
			}
		}
		// does the path switch operands?  cur := old pend ; pend := nil
		var setCur, setPend bool
		nFlag := 0
		for _, s := range stores {
			if flagF != "" && flagV0 != "" && s.Kind == ir.KStore && s.A[0].Op == "faddr" && s.A[0].Aux == flagF && paramOf(s.A[0].Args[0], next, 0) &&
				s.A[1].IsConst() && (s.A[1].Aux == "true" || s.A[1].Aux == "false") && s.A[1].Aux != flagV0 {
				nFlag++
			}
			if s.Kind == ir.KStore && s.A[0].Op == "faddr" && paramOf(s.A[0].Args[0], next, 0) {
				if s.A[0].Aux == cur && s.A[1].Op == "load" && s.A[1].Args[0].Op == "faddr" && s.A[1].Args[0].Aux == pend && s.A[1].Aux == "0" {
					setCur = true
				}
				if s.A[0].Aux == pend && s.A[1].IsNil() {
					setPend = true
				}
			}
		}
		switched := setCur && setPend && len(stores) == 2
		if flagF != "" && flagV0 != "" {
			// the flag is flipped exactly together with the switch
			switched = setCur && setPend && nFlag == 1 && len(stores) == 3
		}
		if len(stores) != 0 && !switched {
			okN = false
			c.Fail("next-protocol", nname, lastPos(p), "the only allowed state change is: current := pending, pending := nil (found %d stores)", len(stores))
			continue
		}
		// result under every completion of what the path left undecided
		res := p.Results[0]
		for _, in := range []int{1, -1} {
			if inner != 0 && inner != in {
				continue
			}
			for _, pn := range []int{1, -1} {
				if pendNil != 0 && pendNil != pn {
					continue
				}
				wantSwitch := in < 0 && pn < 0
				want := in > 0 || wantSwitch
				var got, known bool
				switch {
				case res.IsConst() && (res.Aux == "true" || res.Aux == "false"):
					got, known = res.Aux == "true", true
				case ir.Same(res, R):
					got, known = in > 0, true
				}
				if !known || got != want || switched != wantSwitch {
					okN = false
					c.Fail("next-protocol", nname, lastPos(p), "with the current operand %s and the pending one %s Next must %s; the path returns %s and switches=%v",
						map[int]string{1: "non-exhausted", -1: "exhausted"}[in], map[int]string{1: "absent", -1: "present"}[pn],
						map[bool]string{true: "return true", false: "return false"}[want], short(res), switched)
					continue
				}
				switch {
				case in > 0:
					sawTrue = true
				case wantSwitch:
					sawSwitch = true
				default:
					sawFalse = true
				}
			}
		}
	}
	c.Check(okN && sawTrue && sawSwitch && sawFalse, "next-protocol", nname, next.Pos(), "inner true | switch to pending | false", "not all three cases of the protocol are present")
}

// joinRules covers Join (and for pairs ToSeq / FromSeq): the flat-map family, as a protocol automaton
// over the events of every path (robust against how the loops are written):
//
//	S0 outer positioned on an unexpanded element --G--> S1 generated, untested
//	S1 --test non-nil--> S2 (success allowed)      S1 --test nil--> S3 generated empty
//	S3 --outer.Next true--> S0                     S3 --outer.Next false--> S4 (failure allowed)
//	SN (Next only) inner positioned --inner.Next true--> S2 ; --inner.Next false--> S3
func joinRules(c *core.Ctx, pkg string, pair bool) {
	sh := pkgShort(pkg)
	names := []string{"Join"}
	if pair {
		names = append(names, "ToSeq", "FromSeq")
	}
	for _, cn := range names {
		ctor, nt := ctorAndType(c, pkg, cn)
		name := sh + "." + cn
		if ctor == nil || nt == nil {
			c.Undecided("eager-position", name, 0, "constructor or its type not found")
			continue
		}
		// roles from types: generator = the func-typed field; cur = the field of the generator's result type;
		// outer = the remaining field
		st := nt.Underlying().(*types.Struct)
		var cur, outer, gen string
		var genRes types.Type
		for i := 0; i < st.NumFields(); i++ {
			if sig, isSig := st.Field(i).Type().Underlying().(*types.Signature); isSig && sig.Results().Len() == 1 {
				gen, genRes = st.Field(i).Name(), sig.Results().At(0).Type()
			}
		}
		for i := 0; i < st.NumFields(); i++ {
			f := st.Field(i)
			if f.Name() == gen {
				continue
			}
			if genRes != nil && types.Identical(f.Type(), genRes) && cur == "" {
				cur = f.Name()
			} else {
				outer = f.Name()
			}
		}
		if cur == "" || outer == "" || gen == "" || st.NumFields() != 3 {
			c.Fail("eager-position", name, ctor.Pos(), "the flat-map type does not have (current inner sequence, outer iterator, generator) fields")
			continue
		}
		pairArgs := pair && cn != "FromSeq"
		an := c.AnalyzeLoops(ctor)
		if !problems(c, "eager-position", name, an) {
			why := flatMapAutomaton(c, ctor, an, true, cur, outer, gen, pairArgs)
			// the object holds the outer iterator and the generator
			for _, p := range an.AllPaths() {
				if p.Exit == ir.ExitReturn && !p.Results[0].IsNil() && why == "" {
					lit := p.End.MemAt(p.Results[0])
					if !(paramOf(fieldOf2(lit, outer), ctor, 0) && paramOf(fieldOf2(lit, gen), ctor, 1)) {
						why = "the flat-map object must hold the outer iterator and the generator; found " + short(lit)
					}
				}
			}
			c.Check(why == "", "eager-position", name, ctor.Pos(), "position on the first non-empty inner sequence; nil when none", "%s", why)
		}
		next := iterMethod(c, nt, "Next")
		nname := sh + "." + nt.Obj().Name() + ".Next"
		if next == nil {
			c.Fail("next-protocol", nname, ctor.Pos(), "the flat-map type has no Next of its own")
			continue
		}
		nan := c.AnalyzeLoops(next)
		if problems(c, "next-protocol", nname, nan) {
			continue
		}
		why := flatMapAutomaton(c, next, nan, false, cur, outer, gen, pairArgs)
		c.Check(why == "", "next-protocol", nname, next.Pos(), "inner true | advance outer, expand, skip empties | false", "%s", why)
	}
}

const (
	fmS0  = iota // outer positioned on an unexpanded element
	fmS1         // generated, untested
	fmS2         // non-empty inner sequence is current
	fmS3         // need to advance the outer iterator
	fmS4         // outer exhausted
	fmSN         // (Next) inner positioned on a consumed element
	fmPre        // (constructor) before the outer iterator is known non-nil
	fmSU         // outer advanced, result not tested yet on this segment
	fmSF         // outer advanced (or initially positioned); a loop-carried flag says whether an element is current
)

var fmNames = []string{"unexpanded outer element", "generated/untested", "non-empty inner current", "must advance outer", "outer exhausted", "inner positioned", "start", "outer advanced/untested", "outer advanced, flag pending"}

func flatMapAutomaton(c *core.Ctx, fn *ssa.Function, an *ir.Analysis, isCtor bool, cur, outer, gen string, pairArgs bool) string {
	isOuter := func(t *ir.Term) bool {
		if isCtor {
			return paramOf(t, fn, 0)
		}
		return fieldOfRecv(fn, t) == outer
	}
	isGen := func(t *ir.Term) bool {
		if isCtor {
			return paramOf(t, fn, 1)
		}
		return fieldOfRecv(fn, t) == gen
	}
	// cur value: a generator result, or a load of the cur field of the object
	isCurVal := func(t *ir.Term) bool {
		if _, callee, _, isC := callParts(t); isC && callee != nil && isGen(callee) {
			return true
		}
		if t.Op == "load" && t.Args[0].Op == "faddr" && t.Args[0].Aux == cur {
			return true
		}
		if t.Op == "field" && t.Aux == cur {
			return true
		}
		return false
	}
	start := map[*ssa.BasicBlock]int{}
	known := map[*ssa.BasicBlock]bool{}
	// `for has := true; has; has = outer.Next()`: the result of advancing is carried to the loop head in a flag
	flagPhi := map[*ssa.BasicBlock]*ssa.Phi{}
	init := fmSN
	if isCtor {
		init = fmPre
	}
	start[nil], known[nil] = init, true
	work := []*ssa.BasicBlock{nil}
	rounds := 0
	for len(work) > 0 {
		rounds++
		if rounds > 200 {
			return "protocol automaton did not converge"
		}
		h := work[0]
		work = work[1:]
		for _, p := range an.Segs[h] {
			s := start[h]
			evs := iterEvents(p)
			var pendR *ir.Term
			for i := range p.Steps {
				st := &p.Steps[i]
				if s == fmSF && h != nil && flagPhi[h] != nil {
					if st.Kind == ir.KBranch && ir.Same(st.Atom, an.Start[h].Reg(flagPhi[h])) {
						if st.Pol {
							s = fmS0
						} else {
							s = fmS4
						}
						continue
					}
					if st.Kind == ir.KCall || st.Kind == ir.KStore {
						return "the result of advancing the outer iterator is not tested"
					}
				}
				switch {
				case st.Kind == ir.KBranch:
					at := st.Atom
					if at.Op == "bin" && at.Aux == "==" && len(at.Args) == 2 {
						x := at.Args[0]
						if x.IsNil() {
							x = at.Args[1]
						} else if !at.Args[1].IsNil() {
							continue
						}
						switch {
						case s == fmPre && isOuter(x):
							if !st.Pol {
								s = fmS0
							} // nil outer: stays in fmPre, must return nil
						case isOuter(x) && s == fmSN && !isCtor:
							// a latch: the outer iterator is dropped (set to nil) once it is exhausted, and finding it nil
							// at entry means the iterator is dead
							if st.Pol {
								s = fmS4
							}
						case isCurVal(x) && s == fmSN && !isCtor:
							// a guard on the dead state: after Next answered false the current inner sequence is nil (the
							// documented protocol); finding it nil at entry means the iterator is exhausted already
							if st.Pol {
								s = fmS4
							}
						case isCurVal(x) && (s == fmS1 || s == fmS2 || s == fmS3):
							if s == fmS1 {
								if st.Pol {
									s = fmS3
								} else {
									s = fmS2
								}
							}
						}
					}
				case st.Kind == ir.KCall && st.Method != nil && st.Method.Name() == "Next":
					pol := polarity(p, st.R)
					switch {
					case isOuter(st.A[0]):
						if s != fmS3 {
							return fmt.Sprintf("the outer iterator is advanced in state '%s': an element of the outer sequence is skipped without being expanded", fmNames[s])
						}
						switch {
						case pol > 0:
							s = fmS0
						case pol < 0:
							s = fmS4
						default:
							s, pendR = fmSU, st.R
						}
					case isCurVal(st.A[0]):
						if s != fmSN {
							return fmt.Sprintf("the inner sequence is advanced in state '%s'", fmNames[s])
						}
						switch {
						case pol > 0:
							s = fmS2
						case pol < 0:
							s = fmS3
						default:
							return "the result of advancing the inner sequence is not tested"
						}
					}
				case st.Kind == ir.KCall && st.Method == nil && st.Callee != nil && isGen(st.Callee):
					if s != fmS0 {
						return fmt.Sprintf("the generator is called in state '%s' (the same outer element would be expanded twice, or none is current)", fmNames[s])
					}
					var u itEv
					for _, e := range evs {
						if e.st == st {
							u = e
						}
					}
					x, why := freshArgs(an, p, evs, u, pairArgs)
					if why != "" {
						return "the generator does not receive the outer iterator's current element: " + why
					}
					if !isOuter(x) {
						return "the generator is fed from " + short(x) + ", expected the outer iterator"
					}
					// its result becomes the current inner sequence
					stored := false
					for j := i + 1; j < len(p.Steps); j++ {
						s2 := &p.Steps[j]
						if s2.Kind == ir.KStore && s2.A[0].Op == "faddr" && s2.A[0].Aux == cur && ir.Same(s2.A[1], st.R) && (isCtor || paramOf(s2.A[0].Args[0], fn, 0)) {
							stored = true
						}
					}
					if !stored && isCtor {
						// a constructor may keep the generated sequence in a local and build the object only once it
						// is known to be non-empty: the object returned on this path must then hold it
						for _, r := range p.Results {
							if p.Exit == ir.ExitReturn && !r.IsNil() {
								if lit := p.End.MemAt(r); lit != nil && ir.Same(fieldOf2(lit, cur), st.R) {
									stored = true
								}
							}
						}
						if p.Exit == ir.ExitReturn && len(p.Results) == 1 && p.Results[0].IsNil() || p.To != nil {
							// no object on this path (empty result, or the search goes on): nothing to hold it yet -
							// the test of the value itself (not of a field) is what the automaton follows
							stored = true
						}
					}
					if !stored {
						return "the generated inner sequence does not become the current one"
					}
					s = fmS1
				}
			}
			switch {
			case p.Exit == ir.ExitReturn:
				success := false
				if isCtor {
					success = !p.Results[0].IsNil()
				} else {
					rv, isRet := retBool(p)
					if !isRet {
						return "Next does not return a constant"
					}
					success = rv
				}
				switch {
				case success && s != fmS2:
					return fmt.Sprintf("success is reported in state '%s' (no non-empty inner sequence is current)", fmNames[s])
				case !success && s == fmS2:
					return "a non-empty inner sequence is current but the result is empty/false"
				case !success && !(s == fmS4 || s == fmPre):
					return fmt.Sprintf("failure is reported in state '%s': later elements of the outer sequence would be lost", fmNames[s])
				}
			case p.To != nil:
				// the flag form: the untested result (or, on the way in, a constant) becomes a phi of the loop head
				if s == fmSU {
					var fp *ssa.Phi
					for phi, v := range p.PhiOut {
						if ir.Same(v, pendR) {
							fp = phi
						}
					}
					if fp == nil || (flagPhi[p.To] != nil && flagPhi[p.To] != fp) {
						return "the result of advancing the outer iterator is not tested"
					}
					if flagPhi[p.To] == nil {
						flagPhi[p.To] = fp
						if known[p.To] && start[p.To] != fmSF {
							// an earlier arrival with a constant flag: compatible when the constant tells the same state
							prev := start[p.To]
							okPrev := false
							for _, q := range an.Segs[nil] {
								if q.To == p.To {
									if v := q.PhiOut[fp]; v != nil && v.IsConst() && (v.Aux == "true" && prev == fmS0 || v.Aux == "false" && prev == fmS4) {
										okPrev = true
									}
								}
							}
							if !okPrev {
								return fmt.Sprintf("a loop head is reached in different protocol states ('%s' and '%s')", fmNames[prev], fmNames[fmSF])
							}
							start[p.To] = fmSF
							work = append(work, p.To)
						}
					}
					s = fmSF
				} else if fp := flagPhi[p.To]; fp != nil && (s == fmS0 || s == fmS4) {
					if v := p.PhiOut[fp]; v != nil && v.IsConst() && (v.Aux == "true" && s == fmS0 || v.Aux == "false" && s == fmS4) {
						s = fmSF
					}
				}
				if known[p.To] && start[p.To] != s {
					return fmt.Sprintf("a loop head is reached in different protocol states ('%s' and '%s')", fmNames[start[p.To]], fmNames[s])
				}
				if !known[p.To] {
					known[p.To], start[p.To] = true, s
					work = append(work, p.To)
				}
			case p.Exit == ir.ExitPanic:
				return "explicit panic"
			}
		}
	}
	return ""
}

// valueSource: the element a combinator shows is the element its underlying iterator is positioned on: for every
// iterator type of the package that wraps another iterator, Value (and Key) is promoted through / forwarded to the
// wrapped iterator - except the mapping type, whose own Value is decided by map-value. A method declared on a
// combinator type (in any file of the package) that shadows the promoted one is an element source no rule has read.
func valueSource(c *core.Ctx, pkg string, mapType *types.Named) {
	sh := pkgShort(pkg)
	if c.Rules["value-source"] == nil {
		c.Doc("value-source", 4, "Value/Key of a wrapping combinator come from the wrapped iterator (promoted or forwarded); only the mapping type computes its own Value")
	}
	pk := c.W.Pkgs[pkg]
	if pk == nil {
		return
	}
	sc := pk.Types.Scope()
	for _, n := range sc.Names() {
		tn, ok := sc.Lookup(n).(*types.TypeName)
		if !ok {
			continue
		}
		nt, ok := tn.Type().(*types.Named)
		if !ok {
			continue
		}
		st, ok := nt.Underlying().(*types.Struct)
		if !ok || len(iterFieldsOf(nt)) == 0 {
			continue
		}
		for _, m := range []string{"Value", "Key"} {
			obj, idx, _ := types.LookupFieldOrMethod(nt, true, pk.Types, m)
			if obj == nil {
				continue
			}
			name := sh + "." + n + "." + m
			switch {
			case len(idx) > 1:
				c.Ok("value-source", name, tn.Pos(), "promoted through field "+st.Field(idx[0]).Name())
			case mapType != nil && m == "Value" && types.Identical(nt.Origin(), mapType.Origin()):
				c.Ok("value-source", name, tn.Pos(), "the mapping type's own Value (map-value)")
			default:
				if fm := iterMethod(c, nt, m); fm != nil {
					if f := forwardsTo(c, fm); f != "" {
						c.Ok("value-source", name, tn.Pos(), "forwards to field "+f)
						continue
					}
					c.Fail("value-source", name, fm.Pos(), "%s declares its own %s, which shadows the one promoted from the wrapped iterator: what the combinator shows is no longer the element its underlying iterator is positioned on (only the mapping type computes a value of its own)", n, m)
				}
			}
		}
	}
}

func mapRules(c *core.Ctx, pkg string, pair bool) {
	sh := pkgShort(pkg)
	ctor, nt := ctorAndType(c, pkg, "Map")
	name := sh + ".Map"
	valueSource(c, pkg, nt)
	if ctor == nil || nt == nil {
		c.Undecided("map-value", name, 0, "constructor or its type not found")
		return
	}
	val := iterMethod(c, nt, "Value")
	ok := val != nil
	why := "the mapping type has no Value of its own"
	if ok {
		p := singlePath(c, "map-value", name, val)
		if p == nil {
			return
		}
		evs := iterEvents(p)
		var user *itEv
		for i := range evs {
			if evs[i].kind == "user" {
				user = &evs[i]
			}
		}
		ok = user != nil && ir.Same(p.Results[0], user.st.R) && len(calls(p)) == len(user.st.A)+1
		why = "Value is not f(inner current element)"
		if ok {
			x, w := freshArgs(c.AnalyzeLoops(val), p, evs, *user, pair)
			ok = w == "" && x != nil && fieldOfRecv(val, x) != "" && fieldOfRecv(val, user.on) != ""
			if w != "" {
				why = w
			}
		}
	}
	if ok {
		// Next (and Key) are not redefined
		for _, m := range []string{"Next", "Key"} {
			if fm := iterMethod(c, nt, m); fm != nil && forwardsTo(c, fm) == "" {
				ok, why = false, "the mapping type redefines "+m+": Map must not change positions or keys"
			}
		}
		// constructor: nil -> nil; else {Seq: seq, f: f}
		an := c.AnalyzeLoops(ctor)
		for _, p := range an.AllPaths() {
			if p.Exit != ir.ExitReturn {
				continue
			}
			r := p.Results[0]
			if r.IsNil() {
				if polarity(p, &ir.Term{Op: "bin", Aux: "==", Args: sorted2(ir.Nil, &ir.Term{Op: "param", Aux: ctor.Params[0].Name()})}) <= 0 {
					ok, why = false, "nil returned for a non-empty sequence"
				}
				continue
			}
			lit := r
			if r.Op == "alloc" {
				lit = p.End.MemAt(r)
			}
			its := iterFieldsOf(nt)
			if !(lit != nil && lit.Op == "lit" && len(its) == 1 && paramOf(fieldOf2(lit, its[0]), ctor, 0) && len(iterEvents(p)) == 0) {
				ok, why = false, "Map must wrap the sequence without reading it; found "+short(lit)
			}
			// nil means empty: a wrapper is built only around a sequence known to be non-nil
			if polarity(p, &ir.Term{Op: "bin", Aux: "==", Args: sorted2(ir.Nil, &ir.Term{Op: "param", Aux: ctor.Params[0].Name()})}) >= 0 {
				ok, why = false, "Map wraps a possibly nil (empty) sequence into a non-nil iterator: its Next would be invoked on nil"
			}
		}
	}
	c.Check(ok, "map-value", name, ctor.Pos(), "Value = f(inner current); Next/Key promoted", "%s", why)
}

func leafRules(c *core.Ctx, pkg string, pair bool) {
	sh := pkgShort(pkg)
	ctor, nt := ctorAndType(c, pkg, "From")
	name := sh + ".From"
	if ctor == nil {
		c.Undecided("leaves", name, 0, "anchor not found")
		return
	}
	if nt == nil {
		// value literal returned through MakeInterface: find via signature of the struct value
		for _, b := range ctor.Blocks {
			for _, in := range b.Instrs {
				if mi, ok := in.(*ssa.MakeInterface); ok {
					if n, ok := mi.X.Type().(*types.Named); ok {
						nt = n.Origin()
					}
				}
			}
		}
	}
	ok := nt != nil
	why := "singleton type not found"
	if ok {
		next := iterMethod(c, nt, "Next")
		if p := singlePath(c, "leaves", name, next); p != nil {
			rv, isRet := retBool(p)
			if !isRet || rv {
				ok, why = false, "a singleton's Next must return false"
			}
		} else {
			return
		}
		// Value / Key return the stored fields: constructor stores parameters in declaration order
		p := singlePath(c, "leaves", name, ctor)
		if p == nil {
			return
		}
		lit := p.Results[0]
		if lit.Op == "alloc" {
			lit = p.End.MemAt(lit)
		}
		st := nt.Underlying().(*types.Struct)
		for i := 0; i < st.NumFields() && ok; i++ {
			if !paramOf(fieldOf2(lit, st.Field(i).Name()), ctor, i) {
				ok, why = false, fmt.Sprintf("field %s does not hold parameter %d", st.Field(i).Name(), i+1)
			}
		}
		getters := map[string]int{"Value": st.NumFields() - 1}
		if pair {
			getters["Key"] = 0
		}
		for m, fi := range getters {
			g := iterMethod(c, nt, m)
			if gp := singlePath(c, "leaves", name, g); gp != nil {
				r := gp.Results[0]
				if !(r.Op == "field" && r.Aux == st.Field(fi).Name() && paramOf(r.Args[0], g, 0)) {
					ok, why = false, fmt.Sprintf("%s returns %s, expected field %s", m, short(r), st.Field(fi).Name())
				}
			}
		}
	}
	c.Check(ok, "leaves", name, ctor.Pos(), "singleton: Next false, accessors return the stored fields", "%s", why)

	if pair {
		return
	}
	// FromSlice / seqOf
	fs, snt := ctorAndType(c, pkg, "FromSlice")
	sname := sh + ".FromSlice"
	if fs == nil || snt == nil {
		c.Undecided("leaves", sname, 0, "anchor not found")
		return
	}
	okS := true
	whyS := ""
	an := c.AnalyzeLoops(fs)
	if sst, isS := snt.Underlying().(*types.Struct); isS && sst.NumFields() == 2 {
		// the other representation of the same leaf: the whole slice plus the position of the current element
		leafCursorForm(c, sname, fs, snt, an)
		return
	}
	for _, p := range an.AllPaths() {
		if p.Exit != ir.ExitReturn {
			continue
		}
		empty := polarity(p, &ir.Term{Op: "bin", Aux: "==", Args: sorted2(ir.Const("0"), &ir.Term{Op: "len", Args: []*ir.Term{{Op: "param", Aux: fs.Params[0].Name()}}})})
		r := p.Results[0]
		switch {
		case empty > 0 && !r.IsNil():
			okS, whyS = false, "an empty slice must give nil"
		case empty < 0:
			lit := p.End.MemAt(r)
			if r.IsNil() || lit == nil || len(lit.Args) != 1 || !paramOf(lit.Args[0].Args[0], fs, 0) {
				okS, whyS = false, "a non-empty slice must be wrapped unchanged"
			}
		case empty == 0:
			okS, whyS = false, "emptiness of the slice is not tested"
		}
	}
	if v := iterMethod(c, snt, "Value"); v != nil {
		if p := singlePath(c, "leaves", sname, v); p != nil {
			r := p.Results[0]
			good := r.Op == "load" && r.Args[0].Op == "iaddr"
			if good {
				k, isK := r.Args[0].Args[1].IntConst()
				good = isK && k == 0
			}
			if !good {
				okS, whyS = false, "Value must be element 0 of the remaining slice, found "+short(r)
			}
		}
	}
	if n := iterMethod(c, snt, "Next"); n != nil {
		nan := c.AnalyzeLoops(n)
		fld := snt.Underlying().(*types.Struct).Field(0).Name()
		cur := &ir.Term{Op: "load", Aux: "0", Args: []*ir.Term{{Op: "faddr", Aux: fld, Args: []*ir.Term{{Op: "param", Aux: n.Params[0].Name()}}}}}
		for _, p := range nan.AllPaths() {
			rv, isRet := retBool(p)
			last := polarity(p, &ir.Term{Op: "bin", Aux: "==", Args: sorted2(ir.Const("1"), &ir.Term{Op: "len", Args: []*ir.Term{cur}})})
			if last == 0 {
				// `len(rest) <= 1` / `len(rest) < 2` / `len(rest) > 1`: on a live iterator the remaining slice is never
				// empty (the constructor answers nil for an empty slice, Next never leaves less than one element), so
				// "at most one" is "exactly one"
				lenT := &ir.Term{Op: "len", Args: []*ir.Term{cur}}
				if pl := polarity(p, &ir.Term{Op: "bin", Aux: "<", Args: []*ir.Term{ir.Const("1"), lenT}}); pl != 0 {
					last = -pl
				} else if pl := polarity(p, &ir.Term{Op: "bin", Aux: "<", Args: []*ir.Term{lenT, ir.Const("2")}}); pl != 0 {
					last = pl
				}
			}
			st := nonLocalStores(p)
			switch {
			case !isRet || last == 0:
				okS, whyS = false, "Next does not decide on len(remaining) == 1"
			case last > 0 && (rv || len(st) != 0):
				okS, whyS = false, "on the last element Next must return false and change nothing"
			case last < 0:
				good := rv && len(st) == 1 && st[0].A[1].Op == "slice" && ir.Same(st[0].A[1].Args[0], cur)
				if good {
					lo, isK := st[0].A[1].Args[1].IntConst()
					good = isK && lo == 1 && st[0].A[1].Args[2].Aux == "_"
				}
				if !good {
					okS, whyS = false, "with elements left Next must drop exactly the first (el = el[1:]) and return true"
				}
			}
		}
	}
	c.Check(okS, "leaves", sname, fs.Pos(), "nil for empty; Value = el[0]; Next: el = el[1:] unless last", "%s", whyS)
}

// leafCursorForm: FromSlice represented as {el: the whole slice, at: index of the current element}:
// nil for the empty slice, else {xs, 0}; Value = el[at]; Next: false without a change when at is the last index,
// else at+1 and true. The decision of Next is checked by evaluating its branch conditions for every (len, at) with
// 0 <= at < len <= 4, whichever way the comparison is written.
func leafCursorForm(c *core.Ctx, sname string, fs *ssa.Function, snt *types.Named, an *ir.Analysis) {
	st := snt.Underlying().(*types.Struct)
	elF, atF := "", ""
	for i := 0; i < st.NumFields(); i++ {
		switch u := st.Field(i).Type().Underlying().(type) {
		case *types.Slice:
			elF = st.Field(i).Name()
		case *types.Basic:
			if u.Info()&types.IsInteger != 0 {
				atF = st.Field(i).Name()
			}
		}
	}
	if elF == "" || atF == "" {
		c.Fail("leaves", sname, fs.Pos(), "the slice iterator is neither {remaining slice} nor {slice, position}")
		return
	}
	okS, whyS := true, ""
	for _, p := range an.AllPaths() {
		if p.Exit != ir.ExitReturn {
			continue
		}
		empty := polarity(p, &ir.Term{Op: "bin", Aux: "==", Args: sorted2(ir.Const("0"), &ir.Term{Op: "len", Args: []*ir.Term{{Op: "param", Aux: fs.Params[0].Name()}}})})
		r := p.Results[0]
		switch {
		case empty > 0 && !r.IsNil():
			okS, whyS = false, "an empty slice must give nil"
		case empty < 0:
			lit := p.End.MemAt(r)
			z, isZ := fieldOf2(lit, atF).IntConst()
			if r.IsNil() || lit == nil || !paramOf(fieldOf2(lit, elF), fs, 0) || !isZ || z != 0 {
				okS, whyS = false, "a non-empty slice must be wrapped unchanged with the position at 0"
			}
		case empty == 0:
			okS, whyS = false, "emptiness of the slice is not tested"
		}
	}
	recvF := func(fn *ssa.Function, f string) *ir.Term {
		return &ir.Term{Op: "load", Aux: "0", Args: []*ir.Term{{Op: "faddr", Aux: f, Args: []*ir.Term{{Op: "param", Aux: fn.Params[0].Name()}}}}}
	}
	if v := iterMethod(c, snt, "Value"); v != nil {
		if p := singlePath(c, "leaves", sname, v); p != nil {
			r := p.Results[0]
			if !(r.Op == "load" && r.Args[0].Op == "iaddr" && ir.Same(r.Args[0].Args[0], recvF(v, elF)) && ir.Same(r.Args[0].Args[1], recvF(v, atF))) {
				okS, whyS = false, "Value must be the element at the current position, found "+short(r)
			}
		}
	}
	if n := iterMethod(c, snt, "Next"); n != nil {
		nan := c.AnalyzeLoops(n)
		el, at := recvF(n, elF), recvF(n, atF)
		lenEl := &ir.Term{Op: "len", Args: []*ir.Term{el}}
		if problems(c, "leaves", sname, nan) {
			return
		}
		for L := int64(1); L <= 4 && okS; L++ {
			for a := int64(0); a < L && okS; a++ {
				nFeasible := 0
				for _, p := range nan.AllPaths() {
					feasible := true
					for _, b := range p.Events(ir.KBranch) {
						ev := ir.Rebuild(substTerm(substTerm(b.Atom, lenEl, ir.Const(fmt.Sprint(L))), at, ir.Const(fmt.Sprint(a))))
						if !ev.IsConst() || (ev.Aux != "true" && ev.Aux != "false") {
							okS, whyS = false, "Next decides on something other than the position and the length: "+short(b.Atom)
							feasible = false
							break
						}
						if (ev.Aux == "true") != b.Pol {
							feasible = false
							break
						}
					}
					if !feasible {
						continue
					}
					nFeasible++
					rv, isRet := retBool(p)
					stores := nonLocalStores(p)
					switch {
					case !isRet:
						okS, whyS = false, "Next does not return a constant"
					case a == L-1 && (rv || len(stores) != 0):
						okS, whyS = false, "on the last element Next must return false and change nothing"
					case a < L-1:
						good := rv && len(stores) == 1 && stores[0].A[0].Op == "faddr" && stores[0].A[0].Aux == atF && paramOf(stores[0].A[0].Args[0], n, 0)
						if good {
							d, isD := plusConst(stores[0].A[1], at)
							good = isD && d == 1
						}
						if !good {
							okS, whyS = false, "with elements left Next must move the position by exactly one and return true"
						}
					}
				}
				if nFeasible != 1 && okS {
					okS, whyS = false, fmt.Sprintf("Next has %d ways to answer at position %d of %d", nFeasible, a, L)
				}
			}
		}
	} else {
		okS, whyS = false, "the slice iterator has no Next"
	}
	c.Check(okS, "leaves", sname, fs.Pos(), "nil for empty; {xs, 0}; Value = el[at]; Next: at+1 unless last", "%s", whyS)
}

func forEachRule(c *core.Ctx, pkg string, pair bool) {
	sh := pkgShort(pkg)
	fn := c.W.Func(pkg, "ForEach")
	name := sh + ".ForEach"
	if fn == nil {
		c.Undecided("foreach", name, 0, "anchor not found")
		return
	}
	an := c.AnalyzeLoops(fn)
	if problems(c, "foreach", name, an) {
		return
	}
	ok := len(an.Headers) == 1
	why := "expected one drain loop"
	nVisit := 0
	if ok {
		h := an.Headers[0]
		for _, p := range an.Segs[h] {
			evs := iterEvents(p)
			var user, next *itEv
			nUser := 0
			for i := range evs {
				if evs[i].kind == "user" {
					user = &evs[i]
					nUser++
				}
				if evs[i].kind == "next" {
					next = &evs[i]
				}
			}
			if nUser > 1 {
				ok, why = false, "the visitor is called more than once per element"
				break
			}
			if user == nil {
				// loop exit: returns nil
				if p.Exit == ir.ExitReturn && !p.Results[0].IsNil() {
					ok, why = false, "at the end of the sequence ForEach must return nil"
				}
				if p.To == h {
					ok, why = false, "an element is skipped without being visited"
				}
				continue
			}
			nVisit++
			if !paramOf(user.on, fn, 1) {
				ok, why = false, "the function called is not the visitor argument"
			}
			if x, w := freshArgs(an, p, evs, *user, pair); w != "" || !paramOf(x, fn, 0) {
				ok, why = false, "the visitor does not receive the current element: "+w
			}
			errNil := polarity(p, &ir.Term{Op: "bin", Aux: "==", Args: sorted2(ir.Nil, user.st.R)})
			switch {
			case errNil == 0:
				ok, why = false, "the visitor's error is not tested"
			case errNil < 0:
				// first error returned at once: no Next after it, the error itself returned
				if p.Exit != ir.ExitReturn || !ir.Same(p.Results[0], user.st.R) || (next != nil && next.idx > user.idx) {
					ok, why = false, "an error returned by the visitor must be returned immediately and unchanged (found advance-after-error or another result)"
				}
			case errNil > 0:
				switch {
				case next == nil || next.idx < user.idx:
					ok, why = false, "after a successful visit the iterator must advance"
				case polarity(p, next.st.R) > 0 && p.To != h:
					ok, why = false, "after a successful visit and a successful advance the loop must continue"
				case polarity(p, next.st.R) < 0 && !(p.Exit == ir.ExitReturn && p.Results[0].IsNil()):
					ok, why = false, "at the end of the sequence ForEach must return nil"
				case polarity(p, next.st.R) == 0 && p.To != h:
					ok, why = false, "after a successful visit the iterator must advance and the loop continue"
				}
			}
		}
		if ok && nVisit == 0 {
			ok, why = false, "no path visits an element"
		}
	}
	c.Check(ok, "foreach", name, fn.Pos(), "drain; f once per element; first error returned at once", "%s", why)
}

func noSliceWrite(c *core.Ctx, pkg string) {
	sh := pkgShort(pkg)
	bad := 0
	for _, fn := range c.W.SourceFuncs(pkg) {
		for _, b := range fn.Blocks {
			for _, in := range b.Instrs {
				switch x := in.(type) {
				case *ssa.Store:
					if ia, ok := x.Addr.(*ssa.IndexAddr); ok {
						if _, isSlice := ia.X.Type().Underlying().(*types.Slice); isSlice {
							bad++
							c.Fail("no-slice-write", sh+"."+fnLabel(fn), x.Pos(), "a slice element is written: source slices must never be modified")
						}
					}
				case *ssa.Call:
					if bi, ok := x.Call.Value.(*ssa.Builtin); ok && (bi.Name() == "append" || bi.Name() == "copy") && len(x.Call.Args) > 0 {
						if !freshSlice(x.Call.Args[0]) {
							bad++
							c.Fail("no-slice-write", sh+"."+fnLabel(fn), x.Pos(), "%s onto a slice that is not freshly allocated here: with spare capacity this writes into the caller's backing array", bi.Name())
						}
					}
				}
			}
		}
	}
	if bad == 0 {
		c.Ok("no-slice-write", sh, 0, "0 element stores / appends onto foreign slices")
	}
	c.Canary("no-slice-write", canarySliceWrite())
}

func freshSlice(v ssa.Value) bool { return freshSliceEnv(v, nil, 0) }

// freshSliceEnv: v is a slice whose backing array was allocated by the function under inspection (env: which
// parameters of the function v lives in are bound to such slices by its caller).
func freshSliceEnv(v ssa.Value, env map[*ssa.Parameter]bool, depth int) bool {
	switch x := v.(type) {
	case *ssa.MakeSlice:
		return true
	case *ssa.Const:
		return x.IsNil()
	case *ssa.Slice:
		if al, ok := x.X.(*ssa.Alloc); ok {
			return al != nil
		}
	case *ssa.ChangeType:
		return freshSliceEnv(x.X, env, depth)
	case *ssa.Parameter:
		return env[x]
	case *ssa.Call:
		// a helper that hands back a slice made here: every return of the (statically known) callee gives a fresh
		// slice of its own or one of its parameters, and the argument given for that parameter is fresh at this site
		callee := x.Call.StaticCallee()
		if callee != nil && len(callee.Blocks) == 0 && callee.Origin() != nil {
			callee = callee.Origin()
		}
		if callee == nil || len(callee.Blocks) == 0 || depth > 3 || len(callee.Params) != len(x.Call.Args) {
			return false
		}
		inner := map[*ssa.Parameter]bool{}
		for i, prm := range callee.Params {
			if _, isSl := prm.Type().Underlying().(*types.Slice); isSl {
				inner[prm] = freshSliceEnv(x.Call.Args[i], env, depth+1)
			}
		}
		n := 0
		for _, b := range callee.Blocks {
			ret, ok := b.Instrs[len(b.Instrs)-1].(*ssa.Return)
			if !ok {
				continue
			}
			if len(ret.Results) != 1 || !freshSliceEnv(ret.Results[0], inner, depth+1) {
				return false
			}
			n++
		}
		return n > 0
	}
	return false
}

func canarySliceWrite() bool {
	sp := buildSnippet(`package canary
func F(xs []int, ys []int) []int { xs[0] = 1; return append(xs, ys...) }`)
	if sp == nil {
		return false
	}
	n := 0
	for _, b := range sp.Func("F").Blocks {
		for _, in := range b.Instrs {
			switch x := in.(type) {
			case *ssa.Store:
				if ia, ok := x.Addr.(*ssa.IndexAddr); ok {
					if _, isSlice := ia.X.Type().Underlying().(*types.Slice); isSlice {
						n++
					}
				}
			case *ssa.Call:
				if bi, ok := x.Call.Value.(*ssa.Builtin); ok && bi.Name() == "append" && !freshSlice(x.Call.Args[0]) {
					n++
				}
			}
		}
	}
	return n == 2
}

// forwardsTo: method m of a combinator type is a pure forwarder `return recv.F.m(args...)`; returns the field F ("" if not).
func forwardsTo(c *core.Ctx, m *ssa.Function) string {
	an := c.AnalyzeLoops(m)
	ps := an.AllPaths()
	if len(an.Problems) > 0 || len(ps) != 1 || ps[0].Exit != ir.ExitReturn || len(ps[0].Results) != 1 {
		return ""
	}
	cs := calls(ps[0])
	if len(cs) != 1 || cs[0].Method == nil || cs[0].Method.Name() != m.Name() || !ir.Same(ps[0].Results[0], cs[0].R) || len(nonLocalStores(ps[0])) != 0 {
		return ""
	}
	return fieldOfRecv(m, cs[0].A[0])
}

// kvRules (C15): Key/Value/Next resolve through the same embedded field; Key never redefined.
func kvRules(c *core.Ctx, pkg string) {
	c.Doc("kv-same-path", 6, "Key, Value and Next of a pair combinator speak about the same underlying iterator")
	pk := c.W.Pkgs[pkg]
	sc := pk.Types.Scope()
	for _, n := range sc.Names() {
		tn, ok := sc.Lookup(n).(*types.TypeName)
		if !ok {
			continue
		}
		nt, ok := tn.Type().(*types.Named)
		if !ok {
			continue
		}
		st, ok := nt.Underlying().(*types.Struct)
		if !ok || len(iterFieldsOf(nt)) == 0 {
			continue
		}
		name := "pair." + n
		// source(m): the field through which method m gets its answer: promoted through an embedded field, or a pure
		// forwarder to a field's method of the same name; "own" for a real implementation; "" when m does not exist
		source := func(m string) string {
			obj, idx, _ := types.LookupFieldOrMethod(nt, true, pk.Types, m)
			if obj == nil {
				return ""
			}
			if len(idx) > 1 {
				return st.Field(idx[0]).Name()
			}
			if fm := iterMethod(c, nt, m); fm != nil {
				if f := forwardsTo(c, fm); f != "" {
					return f
				}
			}
			return "own"
		}
		k, v, nx := source("Key"), source("Value"), source("Next")
		if k == "" {
			continue // a plain value sequence (toSeq): no keys
		}
		ok2 := true
		why := ""
		switch {
		case k == "own":
			ok2, why = false, "the combinator computes Key itself: keys must come unchanged from the element the underlying iterator is positioned on"
		case v != "own" && v != k:
			ok2, why = false, fmt.Sprintf("Key comes from field %s but Value from field %s", k, v)
		case nx != "own" && nx != k:
			ok2, why = false, fmt.Sprintf("Key comes from field %s but Next advances field %s", k, nx)
		case nx == "own":
			// the own Next must advance the iterator Key reads from
			adv := false
			if fm := iterMethod(c, nt, "Next"); fm != nil {
				for _, p := range c.AnalyzeLoops(fm).AllPaths() {
					for _, e := range iterEvents(p) {
						if e.kind == "next" && fieldOfRecv(fm, e.on) == k {
							adv = true
						}
					}
				}
			}
			if !adv {
				ok2, why = false, "Next never advances the iterator Key reads from"
			}
		}
		c.Check(ok2, "kv-same-path", name, tn.Pos(), fmt.Sprintf("Key via %s, Value via %s, Next via %s", k, v, nx), "%s", why)
	}
}


// typedNilRule: nil means empty, and callers test `s != nil` on the interface. A pointer that may be nil, converted to
// the interface (a helper returning *T whose nil result is returned as Seq), is a non-nil interface around a nil
// pointer: the caller enters the drain loop and the first Value() dereferences nil. Every conversion of a pointer to an
// interface with a Next method in the package must convert a pointer known to be non-nil: a fresh object, the
// receiver, a value tested against nil on the way, a parameter every caller passes such a value for, or the result of
// a function of the repository all of whose results are such values.
func typedNilRule(c *core.Ctx, pkg string) {
	sh := pkgShort(pkg)
	fns := c.W.SourceFuncs(pkg)
	inPkg := map[*ssa.Function]bool{}
	for _, f := range fns {
		inPkg[f] = true
	}
	callersOf := func(target *ssa.Function) (sites []*ssa.CallCommon, closed bool) {
		closed = target.Object() != nil && !target.Object().Exported() || target.Parent() != nil
		for _, f := range fns {
			for _, b := range f.Blocks {
				for _, in := range b.Instrs {
					var cc *ssa.CallCommon
					switch x := in.(type) {
					case *ssa.Call:
						cc = &x.Call
					case *ssa.Go:
						cc = &x.Call
					case *ssa.Defer:
						cc = &x.Call
					}
					if cc != nil {
						if sc := cc.StaticCallee(); sc != nil && (sc == target || sc.Origin() == target) {
							sites = append(sites, cc)
							continue
						}
					}
					// any other use of the function (a method value, a function value) opens the set of callers
					for _, op := range in.Operands(nil) {
						if op != nil && *op != nil {
							if f2, ok := (*op).(*ssa.Function); ok && (f2 == target || f2.Origin() == target) {
								if cc == nil || cc.Value != *op {
									closed = false
								}
							}
						}
					}
				}
			}
		}
		return sites, closed
	}
	var nonNil func(v ssa.Value, at *ssa.BasicBlock, depth int, seen map[ssa.Value]bool) bool
	nonNil = func(v ssa.Value, at *ssa.BasicBlock, depth int, seen map[ssa.Value]bool) bool {
		if depth > 4 || seen[v] {
			return seen[v] // a cycle through phis adds nothing
		}
		seen[v] = true
		defer delete(seen, v)
		// tested against nil on the way: the block is dominated by the non-nil edge of `v != nil` / `v == nil`
		if at != nil {
			if refs := v.Referrers(); refs != nil {
				for _, r := range *refs {
					bo, ok := r.(*ssa.BinOp)
					if !ok || bo.Op != token.NEQ && bo.Op != token.EQL {
						continue
					}
					other := bo.Y
					if other == v {
						other = bo.X
					}
					if k, isK := other.(*ssa.Const); !isK || !k.IsNil() {
						continue
					}
					for _, br := range *bo.Referrers() {
						iff, isIf := br.(*ssa.If)
						if !isIf || iff.Block() == nil || len(iff.Block().Succs) != 2 {
							continue
						}
						succ := iff.Block().Succs[0]
						if bo.Op == token.EQL {
							succ = iff.Block().Succs[1]
						}
						if len(succ.Preds) == 1 && succ.Dominates(at) {
							return true
						}
					}
				}
			}
		}
		switch x := v.(type) {
		case *ssa.Alloc, *ssa.FieldAddr, *ssa.IndexAddr, *ssa.MakeClosure, *ssa.Function:
			return true
		case *ssa.ChangeType:
			return nonNil(x.X, at, depth, seen)
		case *ssa.Phi:
			for i, e := range x.Edges {
				if !nonNil(e, x.Block().Preds[i], depth, seen) {
					return false
				}
			}
			return true
		case *ssa.Parameter:
			fn := x.Parent()
			idx := -1
			for i, p := range fn.Params {
				if p == x {
					idx = i
				}
			}
			if idx == 0 && fn.Signature.Recv() != nil {
				return true // a method reached through its receiver
			}
			target := fn
			if fn.Origin() != nil {
				target = fn.Origin()
			}
			sites, closed := callersOf(target)
			if !closed || len(sites) == 0 || idx < 0 {
				return false
			}
			for _, cc := range sites {
				args := cc.Args
				if len(args) != len(fn.Params) || !nonNil(args[idx], cc.Value.(interface{ Parent() *ssa.Function }).Parent().Blocks[0], depth+1, seen) {
					return false
				}
			}
			return true
		case *ssa.Call:
			sc := x.Call.StaticCallee()
			if sc == nil {
				return false
			}
			if sc.Origin() != nil {
				sc = sc.Origin()
			}
			if !inPkg[sc] || sc.Signature.Results().Len() != 1 {
				return false
			}
			n := 0
			for _, b := range sc.Blocks {
				if ret, ok := b.Instrs[len(b.Instrs)-1].(*ssa.Return); ok {
					n++
					if !nonNil(ret.Results[0], b, depth+1, seen) {
						return false
					}
				}
			}
			return n > 0
		}
		return false
	}
	nSites, bad := 0, 0
	for _, fn := range fns {
		for _, b := range fn.Blocks {
			for _, in := range b.Instrs {
				mi, ok := in.(*ssa.MakeInterface)
				if !ok {
					continue
				}
				if _, isPtr := mi.X.Type().Underlying().(*types.Pointer); !isPtr {
					continue
				}
				it, isIface := mi.Type().Underlying().(*types.Interface)
				if !isIface {
					continue
				}
				hasNext := false
				for i := 0; i < it.NumMethods(); i++ {
					if it.Method(i).Name() == "Next" {
						hasNext = true
					}
				}
				if !hasNext {
					continue
				}
				nSites++
				if !nonNil(mi.X, b, 0, map[ssa.Value]bool{}) {
					bad++
					c.Fail("typed-nil", sh+"."+fnLabel(fn), mi.Pos(), "a pointer that may be nil is converted to the iterator interface: a nil pointer inside an interface is not the nil (= empty) sequence, the caller's `s != nil` test passes and the first Value() dereferences nil")
				}
			}
		}
	}
	if bad == 0 {
		c.Check(nSites > 0, "typed-nil", sh, 0, fmt.Sprintf("%d conversions of a pointer to an iterator interface, each of a pointer known to be non-nil", nSites), "no conversion of a combinator object to the iterator interface found: the census is blind")
	}
}
