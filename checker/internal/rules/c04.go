package rules

import (
	"fmt"
	"go/ast"
	"go/token"
	"go/types"
	"os"
	"sort"
	"strings"

	"golang.org/x/tools/go/ssa"

	"verif/checker/internal/core"
	"verif/checker/internal/ir"
)

func init() {
	register(&Pack{ID: "C04", Run: runC04, Meta: core.Meta{
		Level:       "other",
		Explanation: "Every composite optic is a tiny straight-line method; its ordered event list (invocations of the component lenses / user functions with argument terms) is compared with its defining equation: join.Put = get outer, put inner into the copy, put the copy back (in this order, the value put back being the copy AFTER the inner put); join.Get = b.Get(&a.Get(s)); Getter.Put performs no invocation and no store; Setter.Put = lens.Put(s, f(b)); BiMap.Put/Get = lens.Put(s, cmap(b)) / fmap(lens.Get(s)) with the constructor mapping parameter 2 to fmap and 3 to cmap; BiMapS/B/I/F = BiMap(ForProduct1[S,A](attr...), pure conversion, pure conversion); lensM = one map update / lookup of lens.key; iso.Forward/Inverse = ta.Put(t, sa.Get(s)) / sa.Put(s, ta.Get(t)); morphism = ascending range, per element Forward(s,t) (resp. Inverse(t,s)) iff the element is non-nil, nothing else; shapeN.Put = exactly N Put invocations, one per field lens with the parameter of the matching position, chained on s, the last result returned; shapeN.Get = i-th result field_i.Get(s); ForShapeN stores the i-th result of ForProductN in the i-th field. Type-level witnesses: swapping two parameters in shapeN.Put or Forward/Inverse in morphism is rejected by the type checker (built in memory). Lens laws are preserved by these constructions when the components are lawful (standard, on paper); no composite performs a store of its own except lensM's single map update (census from C01). User conversions being mutually inverse is a premise.",
		RuleText:    "one obligation per (construct, defining equation)",
		TrustedBase: []string{"go/types", "go/ssa", "path engine P"},
	}})
}

// composite kinds are discovered from their exported constructors; field roles are defined by the constructor's
// parameter positions (role "a" of join = the field holding Join's first parameter, ...), never by field names
var c04Kinds = map[string]struct {
	ctor  string
	roles []string
}{
	"join": {"Join", []string{"a", "b"}}, "fmap": {"Getter", []string{"lens", "f"}}, "cmap": {"Setter", []string{"lens", "f"}},
	"codec": {"BiMap", []string{"lens", "fmap", "cmap"}}, "iso": {"Iso", []string{"sa", "ta"}}, "lensM": {"NewLensM", []string{"key"}},
	"morphism": {"Morphism", nil},
}

type c04Kind struct {
	nt    *types.Named
	field map[string]string // role -> actual field name
}

var c04Found map[string]*c04Kind

func c04Discover(c *core.Ctx) {
	c04Found = map[string]*c04Kind{}
	for kind, spec := range c04Kinds {
		fn := c.W.Func("optics", spec.ctor)
		if fn == nil {
			continue
		}
		k := &c04Kind{field: map[string]string{}}
		// the concrete type converted to the interface result
		for _, b := range fn.Blocks {
			for _, in := range b.Instrs {
				if mi, ok := in.(*ssa.MakeInterface); ok {
					t := mi.X.Type()
					if pt, isP := t.(*types.Pointer); isP {
						t = pt.Elem()
					}
					if nt, isN := t.(*types.Named); isN {
						k.nt = nt.Origin()
					}
				}
			}
		}
		if k.nt == nil {
			continue
		}
		if len(spec.roles) > 0 {
			an := c.Analyze(fn)
			ps := an.AllPaths()
			if len(an.Problems) > 0 || len(ps) != 1 || len(ps[0].Results) != 1 {
				continue
			}
			r := ps[0].Results[0]
			if r.Op == "alloc" {
				r = ps[0].End.MemAt(r)
			}
			for i, role := range spec.roles {
				for _, kv := range ir.LitFields(r) {
					if paramOf(kv.Args[0], fn, i) {
						k.field[role] = kv.Aux
					}
				}
			}
		}
		c04Found[kind] = k
	}
}

// rf: the actual field name playing `role` in composite `kind` ("?<role>" when it could not be discovered).
func rf(kind, role string) string {
	if k := c04Found[kind]; k != nil {
		if f, ok := k.field[role]; ok {
			return f
		}
	}
	return "?" + role
}

func c04Method(c *core.Ctx, typ, m string) (*ssa.Function, *ir.Path, string) {
	var fn *ssa.Function
	if k := c04Found[typ]; k != nil {
		fn = iterMethod(c, k.nt, m)
	}
	name := "optics." + typ + "." + m
	p := singlePath(c, "equation", name, fn)
	return fn, p, name
}

// invoke matches step st as  recvField.Method(args...)  on the receiver's struct field.
func isInvokeOn(st *ir.Step, fn *ssa.Function, field, method string) bool {
	return st.Kind == ir.KCall && st.Method != nil && st.Method.Name() == method && len(st.A) > 0 &&
		st.A[0].Op == "field" && st.A[0].Aux == field && paramOf(st.A[0].Args[0], fn, 0)
}

// isCallOfField: dynamic call of the function stored in the receiver's field.
func isCallOfField(st *ir.Step, fn *ssa.Function, field string) bool {
	return st.Kind == ir.KCall && st.Method == nil && st.Callee != nil && st.Callee.Op == "field" && st.Callee.Aux == field && paramOf(st.Callee.Args[0], fn, 0)
}

// ---- composed equations --------------------------------------------------------------------------------------
// The representation-independent form of a wrapper's defining equation: the method is analysed with its receiver
// bound to the very value the exported constructor returns (the constructor's own parameters staying symbolic), so
// the events speak about the constructor's parameters directly - whatever fields, nested structs or helper methods
// sit in between. Used when the field-role form of the rule does not recognise the representation.

type cExp struct {
	recv   int      // index of the constructor parameter invoked / called
	method string   // "" for a plain call of the function parameter
	args   []string // "pN" = parameter N of the method (1 = first after the receiver), "rK" = result of expected call K
}

func composedEq(c *core.Ctx, ctor, kind, method string, exps []cExp, result string) (bool, string) {
	cf := c.W.Func("optics", ctor)
	k := c04Found[kind]
	if cf == nil || k == nil {
		return false, "constructor or composite type not found"
	}
	mf := iterMethod(c, k.nt, method)
	if mf == nil {
		return false, "method not found"
	}
	can := c.Analyze(cf)
	cps := can.AllPaths()
	if len(can.Problems) > 0 || len(cps) != 1 || len(cps[0].Results) != 1 || cps[0].Exit != ir.ExitReturn || len(calls(cps[0])) != 0 {
		return false, "the constructor is not a single straight-line path without calls"
	}
	recv := cps[0].Results[0]
	if _, isPtr := mf.Params[0].Type().Underlying().(*types.Pointer); !isPtr && recv.Op == "alloc" {
		recv = cps[0].End.MemAt(recv)
	}
	an := c.AnalyzeFrom(mf, ir.NewRootState(mf, []*ir.Term{recv}, nil, cps[0].End), "composed:"+ctor)
	ps := an.AllPaths()
	if len(an.Problems) > 0 || len(ps) != 1 || ps[0].Exit != ir.ExitReturn || (len(ps[0].Results) != 1 && result != "") {
		return false, "the method on the constructed value is not a single straight-line path"
	}
	p := ps[0]
	cs := calls(p)
	if len(cs) != len(exps) {
		return false, fmt.Sprintf("%d invocations, expected %d", len(cs), len(exps))
	}
	if len(nonLocalStores(p)) != 0 {
		return false, "the wrapper stores on its own"
	}
	argOK := func(t *ir.Term, want string) bool {
		var n int
		switch {
		case want == "zero":
			return t.IsConst() && strings.HasPrefix(t.Aux, "zero")
		case strings.HasPrefix(want, "p"):
			fmt.Sscanf(want[1:], "%d", &n)
			return paramOf(t, mf, n)
		case strings.HasPrefix(want, "r"):
			fmt.Sscanf(want[1:], "%d", &n)
			return n < len(cs) && ir.Same(t, cs[n].R)
		}
		return false
	}
	for i, e := range exps {
		st := cs[i]
		var args []*ir.Term
		if e.method != "" {
			if st.Method == nil || st.Method.Name() != e.method || len(st.A) == 0 || !paramOf(st.A[0], cf, e.recv) {
				return false, fmt.Sprintf("invocation %d is not %s on constructor parameter %d", i+1, e.method, e.recv+1)
			}
			args = st.A[1:]
		} else {
			if st.Method != nil || st.Callee == nil || !paramOf(st.Callee, cf, e.recv) {
				return false, fmt.Sprintf("call %d is not a call of constructor parameter %d", i+1, e.recv+1)
			}
			args = st.A
		}
		if len(args) != len(e.args) {
			return false, fmt.Sprintf("call %d has %d arguments, expected %d", i+1, len(args), len(e.args))
		}
		for j, w := range e.args {
			if !argOK(args[j], w) {
				return false, fmt.Sprintf("argument %d of call %d is %s, expected %s", j+1, i+1, short(args[j]), w)
			}
		}
	}
	if result != "" && !argOK(p.Results[0], result) {
		return false, fmt.Sprintf("the result is %s, expected %s", short(p.Results[0]), result)
	}
	return true, ""
}

// c04Composed: the composed equations of the wrappers built by one constructor.
var c04Composed = map[string][]struct {
	method string
	exps   []cExp
	result string
}{
	"fmap": {{"Put", nil, "p1"}, {"Get", []cExp{{0, "Get", []string{"p1"}}, {1, "", []string{"r0"}}}, "r1"}},
	"cmap": {{"Put", []cExp{{1, "", []string{"p2"}}, {0, "Put", []string{"p1", "r0"}}}, "r1"}, {"Get", nil, "zero"}},
	"codec": {{"Put", []cExp{{2, "", []string{"p2"}}, {0, "Put", []string{"p1", "r0"}}}, "r1"},
		{"Get", []cExp{{0, "Get", []string{"p1"}}, {1, "", []string{"r0"}}}, "r1"}},
	"iso": {{"Forward", []cExp{{0, "Get", []string{"p1"}}, {1, "Put", []string{"p2", "r0"}}}, ""},
		{"Inverse", []cExp{{1, "Get", []string{"p1"}}, {0, "Put", []string{"p2", "r0"}}}, ""}},
}

// composedHolds: the composed equation of kind.method holds (memoised; false when there is none).
func composedHolds(c *core.Ctx, kind, method string) (bool, string) {
	spec, ok := c04Kinds[kind]
	if !ok {
		return false, ""
	}
	for _, e := range c04Composed[kind] {
		if e.method == method {
			return composedEq(c, spec.ctor, kind, method, e.exps, e.result)
		}
	}
	return false, ""
}

func runC04(c *core.Ctx) {
	c.Doc("equation", 14, "the method's event list equals its defining equation")
	c.Doc("constructor", 6, "constructor stores its parameters in the matching fields")
	c.Doc("shape", 16, "shapeN.Put / Get are positional over N field lenses")
	c.Doc("for-shape", 8, "ForShapeN stores the i-th lens of ForProductN in the i-th field")
	c.Doc("bimap-auto", 4, "BiMapS/B/I/F = BiMap(ForProduct1[S,A](attr...), conversion, conversion)")
	c.Doc("witness", 8, "in-memory variants swapping positions are rejected by the type checker")

	c04Discover(c)
	// every composite optic is built over the lenses NewLens / NewReflector hand out: "ShapeN / BiMap / Join touch only
	// their component foci" presupposes that the constructor returns a fresh lens holding the very hseq.Type it was
	// given, behind the type guard (a memoised / interned lens of another entry breaks every composite built on it).
	// Shared with C01 / C02.
	c.Doc("guard-dominates", 2, "every returning path of NewLens/NewReflector passed the type guard and returns a fresh lens of its argument")
	c.Doc("guard-strength-B", 2, "the guard is type identity between the entry's field type and the focus type")
	guardRules(c)
	// ... and that the lens it returns addresses the field the listing says: the offsets of the unfolding (shared with C01)
	c.Doc("addr-term", 4, "every unsafe dereference is base + L.Offset + L.RootOffs typed *A")
	c.Doc("addr-agree", 1, "the four accessor methods use the same address term")
	c.Doc("put-effect", 2, "Put/Putt: exactly one store, of a, through that pointer; container returned unchanged")
	c.Doc("get-effect", 2, "Get/Gett: no store; returns the loaded value")
	c.Doc("offs-writers", 1, "RootOffs / StructField are written only by the unfolding function's literals")
	c.Doc("offs-term", 3, "RootOffs := offset parameter; StructField := cat.Field(i); recursion passes offset + cat.Field(i).Offset; root call passes 0")
	if lensAccessorRules(c) != nil {
		offsRules(c)
	}
	// orComposed: the field-role form of the equation, or - for a representation it does not recognise - the same
	// equation stated on the value the constructor builds
	orComposed := func(ok bool, kind, method string) bool {
		if os.Getenv("VERIF_C04_COMPOSED_ONLY") != "" {
			h, why := composedHolds(c, kind, method)
			fmt.Fprintf(os.Stderr, "composed %s.%s: %v %s\n", kind, method, h, why)
			return h
		}
		if ok {
			return true
		}
		h, _ := composedHolds(c, kind, method)
		return h
	}
	// ---- join
	if fn, p, name := c04Method(c, "join", "Put"); p != nil {
		cs := calls(p)
		ok := len(cs) == 3 && isInvokeOn(cs[0], fn, rf("join", "a"), "Get") && paramOf(cs[0].A[1], fn, 1) &&
			isInvokeOn(cs[1], fn, rf("join", "b"), "Put") && cs[1].A[1].Op == "alloc" && paramOf(cs[1].A[2], fn, 2) &&
			isInvokeOn(cs[2], fn, rf("join", "a"), "Put") && paramOf(cs[2].A[1], fn, 1) && paramOf(p.Results[0], fn, 1)
		why := "expected: va := a.Get(s); b.Put(&va, b); a.Put(s, va); return s"
		if ok {
			// the copy holds a.Get(s) before the inner put, and what is put back is the copy after it
			va := cs[1].A[1]
			stored := false
			for _, st := range p.Events(ir.KStore) {
				if ir.Same(st.A[0], va) && ir.Same(st.A[1], cs[0].R) {
					stored = true
				}
			}
			back := cs[2].A[2]
			ok = stored && back.Op == "load" && ir.Same(back.Args[0], va) && strings.HasPrefix(back.Aux, "c:")
			if !ok {
				why = "the value put back into the outer focus is " + short(back) + ", expected the copy after the inner put"
			}
		}
		c.Check(ok && len(nonLocalStores(p)) == 0, "equation", name, fn.Pos(), "get outer; put inner into the copy; put the copy back", "%s:\n%s", why, p)
	}
	if fn, p, name := c04Method(c, "join", "Get"); p != nil {
		cs := calls(p)
		ok := len(cs) == 2 && isInvokeOn(cs[0], fn, rf("join", "a"), "Get") && paramOf(cs[0].A[1], fn, 1) && isInvokeOn(cs[1], fn, rf("join", "b"), "Get") && cs[1].A[1].Op == "alloc" && ir.Same(p.Results[0], cs[1].R)
		if ok {
			ok = false
			for _, st := range p.Events(ir.KStore) {
				if ir.Same(st.A[0], cs[1].A[1]) && ir.Same(st.A[1], cs[0].R) {
					ok = true
				}
			}
		}
		c.Check(ok && len(nonLocalStores(p)) == 0, "equation", name, fn.Pos(), "b.Get(&a.Get(s))", "expected b.Get(&va) with va := a.Get(s):\n%s", p)
	}
	// ---- fmap / cmap / codec
	if fn, p, name := c04Method(c, "fmap", "Put"); p != nil {
		c.Check(orComposed(len(calls(p)) == 0 && len(nonLocalStores(p)) == 0 && paramOf(p.Results[0], fn, 1), "fmap", "Put"), "equation", name, fn.Pos(), "no invocation, no store, returns s", "a Getter must never write: Put performs %d calls / %d stores", len(calls(p)), len(nonLocalStores(p)))
	}
	if fn, p, name := c04Method(c, "fmap", "Get"); p != nil {
		cs := calls(p)
		ok := len(cs) == 2 && isInvokeOn(cs[0], fn, rf("fmap", "lens"), "Get") && paramOf(cs[0].A[1], fn, 1) && isCallOfField(cs[1], fn, rf("fmap", "f")) && ir.Same(cs[1].A[0], cs[0].R) && ir.Same(p.Results[0], cs[1].R)
		c.Check(orComposed(ok, "fmap", "Get"), "equation", name, fn.Pos(), "f(lens.Get(s))", "expected f(lens.Get(s)):\n%s", p)
	}
	if fn, p, name := c04Method(c, "cmap", "Put"); p != nil {
		cs := calls(p)
		ok := len(cs) == 2 && isCallOfField(cs[0], fn, rf("cmap", "f")) && paramOf(cs[0].A[0], fn, 2) && isInvokeOn(cs[1], fn, rf("cmap", "lens"), "Put") && paramOf(cs[1].A[1], fn, 1) && ir.Same(cs[1].A[2], cs[0].R) && ir.Same(p.Results[0], cs[1].R)
		c.Check(orComposed(ok && len(nonLocalStores(p)) == 0, "cmap", "Put"), "equation", name, fn.Pos(), "lens.Put(s, f(b))", "a Setter must write exactly the converted value: expected lens.Put(s, f(b)):\n%s", p)
	}
	if fn, p, name := c04Method(c, "cmap", "Get"); p != nil {
		c.Check(orComposed(len(calls(p)) == 0 && len(nonLocalStores(p)) == 0 && strings.HasPrefix(p.Results[0].Aux, "zero"), "cmap", "Get"), "equation", name, fn.Pos(), "zero value, no invocation", "Setter.Get must not read: %s", p)
	}
	if fn, p, name := c04Method(c, "codec", "Put"); p != nil {
		cs := calls(p)
		ok := len(cs) == 2 && isCallOfField(cs[0], fn, rf("codec", "cmap")) && paramOf(cs[0].A[0], fn, 2) && isInvokeOn(cs[1], fn, rf("codec", "lens"), "Put") && paramOf(cs[1].A[1], fn, 1) && ir.Same(cs[1].A[2], cs[0].R) && ir.Same(p.Results[0], cs[1].R)
		c.Check(orComposed(ok && len(nonLocalStores(p)) == 0, "codec", "Put"), "equation", name, fn.Pos(), "lens.Put(s, cmap(b))", "expected lens.Put(s, cmap(b)):\n%s", p)
	}
	if fn, p, name := c04Method(c, "codec", "Get"); p != nil {
		cs := calls(p)
		ok := len(cs) == 2 && isInvokeOn(cs[0], fn, rf("codec", "lens"), "Get") && paramOf(cs[0].A[1], fn, 1) && isCallOfField(cs[1], fn, rf("codec", "fmap")) && ir.Same(cs[1].A[0], cs[0].R) && ir.Same(p.Results[0], cs[1].R)
		c.Check(orComposed(ok, "codec", "Get"), "equation", name, fn.Pos(), "fmap(lens.Get(s))", "expected fmap(lens.Get(s)):\n%s", p)
	}
	// ---- lensM
	if fn, p, name := c04Method(c, "lensM", "Put"); p != nil {
		st := nonLocalStores(p)
		key := &ir.Term{Op: "load", Aux: "0", Args: []*ir.Term{{Op: "faddr", Aux: rf("lensM", "key"), Args: []*ir.Term{{Op: "param", Aux: fn.Params[0].Name()}}}}}
		ok := len(st) == 1 && st[0].Kind == ir.KMapUpdate && st[0].A[0].Op == "load" && paramOf(st[0].A[0].Args[0], fn, 1) && ir.Same(st[0].A[1], key) && paramOf(st[0].A[2], fn, 2) && paramOf(p.Results[0], fn, 1) && len(calls(p)) == 0
		c.Check(ok, "equation", name, fn.Pos(), "(*s)[lens.key] = a; return s", "a map lens must touch only its key: expected exactly one update of (*s)[lens.key] with a:\n%s", p)
	}
	if fn, p, name := c04Method(c, "lensM", "Get"); p != nil {
		r := p.Results[0]
		key := &ir.Term{Op: "load", Aux: "0", Args: []*ir.Term{{Op: "faddr", Aux: rf("lensM", "key"), Args: []*ir.Term{{Op: "param", Aux: fn.Params[0].Name()}}}}}
		ok := r.Op == "lookup" && r.Args[0].Op == "load" && paramOf(r.Args[0].Args[0], fn, 1) && ir.Same(r.Args[1], key) && len(nonLocalStores(p)) == 0 && len(calls(p)) == 0
		c.Check(ok, "equation", name, fn.Pos(), "(*s)[lens.key]", "expected a lookup of lens.key in *s, found %s", short(r))
	}
	// ---- iso
	for _, x := range [][5]string{{"Forward", "sa", "ta"}, {"Inverse", "ta", "sa"}} {
		if fn, p, name := c04Method(c, "iso", x[0]); p != nil {
			cs := calls(p)
			ok := len(cs) == 2 && isInvokeOn(cs[0], fn, rf("iso", x[1]), "Get") && paramOf(cs[0].A[1], fn, 1) && isInvokeOn(cs[1], fn, rf("iso", x[2]), "Put") && paramOf(cs[1].A[1], fn, 2) && ir.Same(cs[1].A[2], cs[0].R)
			c.Check(orComposed(ok && len(nonLocalStores(p)) == 0, "iso", x[0]), "equation", name, fn.Pos(), fmt.Sprintf("%s.Put(dst, %s.Get(src))", x[2], x[1]), "expected %s.Put(second argument, %s.Get(first argument)):\n%s", x[2], x[1], p)
		}
	}
	// ---- morphism
	for _, m := range []string{"Forward", "Inverse"} {
		var fn *ssa.Function
		if k := c04Found["morphism"]; k != nil {
			fn = iterMethod(c, k.nt, m)
		}
		name := "optics.morphism." + m
		if fn == nil {
			c.Undecided("equation", name, 0, "anchor not found")
			continue
		}
		an := c.Analyze(fn)
		if len(an.Problems) == 0 && len(an.Headers) == 0 {
			// the walk may live in a helper (an internal iterator taking the visit function): followed with its loop
			an = c.AnalyzeLoops(fn)
		}
		if problems(c, "equation", name, an) {
			continue
		}
		ok := len(an.Headers) == 1
		why := "expected one loop over the isomorphisms"
		if ok {
			h := an.Headers[0]
			l := countedLoop(an, h)
			ok = l != nil && l.RangeOver != nil && paramOf(l.RangeOver, fn, 0)
			why = "the loop is not an ascending range over the receiver"
			if ok {
				elem := l.Elem(an)
				nilAtom := &ir.Term{Op: "bin", Aux: "==", Args: sorted2(ir.Nil, elem)}
				nCall := 0
				for _, p := range an.Segs[h] {
					// a bottom-tested loop runs its body on the way out too
					if p.To != h && !l.Rotated() {
						if len(calls(p)) != 0 {
							ok, why = false, "invocation after the loop"
						}
						// the walk ends only when the list is exhausted: a path that has looked at an entry and then
						// leaves the loop stops short (the entries behind a nil one are never applied)
						if polarity(p, nilAtom) != 0 {
							ok, why = false, "the walk leaves the loop after having looked at an entry: the isomorphisms behind it are never applied"
						}
						continue
					}
					isNil := polarity(p, nilAtom)
					cs := calls(p)
					switch {
					case isNil == 0:
						ok, why = false, "an element is used without the nil test (nil entries must be skipped)"
					case isNil > 0 && len(cs) != 0:
						ok, why = false, "a nil entry is invoked"
					case isNil < 0:
						good := len(cs) == 1 && cs[0].Method != nil && cs[0].Method.Name() == m && ir.Same(cs[0].A[0], elem) && paramOf(cs[0].A[1], fn, 1) && paramOf(cs[0].A[2], fn, 2)
						if !good {
							ok, why = false, fmt.Sprintf("a non-nil entry must be applied exactly once as %s(first, second argument)", m)
						}
						nCall++
					}
					if len(nonLocalStores(p)) != 0 {
						ok, why = false, "the morphism stores on its own"
					}
				}
				if nCall == 0 && ok {
					ok, why = false, "no entry is ever applied"
				}
			}
		}
		c.Check(ok, "equation", name, fn.Pos(), fmt.Sprintf("range seq: iso != nil => iso.%s(a, b)", m), "%s", why)
	}

	// ---- constructors: parameter i stored in the field of matching role
	for _, x := range []struct {
		fn     string
		fields []string
	}{{"Join", []string{"a", "b"}}, {"Getter", []string{"lens", "f"}}, {"Setter", []string{"lens", "f"}}, {"BiMap", []string{"lens", "fmap", "cmap"}}, {"Iso", []string{"sa", "ta"}}, {"NewLensM", []string{"key"}}} {
		fn := c.W.Func("optics", x.fn)
		name := "optics." + x.fn
		p := singlePath(c, "constructor", name, fn)
		if p == nil {
			continue
		}
		r := p.Results[0]
		if r.Op == "alloc" {
			r = p.End.MemAt(r)
		}
		ok := r != nil && r.Op == "lit" && len(r.Args) == len(x.fields) && len(calls(p)) == 0
		why := "result is not a literal of the composite type: " + short(r)
		if ok {
			// a bijection: every parameter is stored in exactly one field, every field holds a parameter
			used := map[string]bool{}
			for i := range x.fields {
				n := 0
				for _, kv := range ir.LitFields(r) {
					if paramOf(kv.Args[0], fn, i) {
						n++
						used[kv.Aux] = true
					}
				}
				if n != 1 {
					ok, why = false, fmt.Sprintf("parameter %d (%s) is stored in %d fields of the composite, expected exactly one", i+1, fn.Params[i].Name(), n)
				}
			}
			if ok && len(used) != len(x.fields) {
				ok, why = false, "two parameters share one field"
			}
		}
		if !ok {
			// another representation of the composite: the constructor is right when every method of the value it
			// builds satisfies its equation stated on the constructor's own parameters
			for kind, spec := range c04Kinds {
				if spec.ctor != x.fn || len(c04Composed[kind]) == 0 {
					continue
				}
				all := true
				for _, e := range c04Composed[kind] {
					if h, _ := composedHolds(c, kind, e.method); !h {
						all = false
					}
				}
				ok = all
			}
		}
		c.Check(ok, "constructor", name, fn.Pos(), strings.Join(x.fields, ", ")+" := parameters in order", "%s", why)
	}
	// Morphism(seq...) returns seq itself
	if fn := c.W.Func("optics", "Morphism"); fn != nil {
		if p := singlePath(c, "constructor", "optics.Morphism", fn); p != nil {
			good := paramOf(p.Results[0], fn, 0) && len(calls(p)) == 0
			how := "the list itself"
			if !good {
				// a private copy of the list, entry by entry: a fresh slice of len(seq) filled by copy(own, seq) - or
				// append onto an empty / nil slice, or slices.Clone - and nothing else
				r := p.Results[0]
				cs := calls(p)
				if r.Op == "mkslice" && len(r.Args) >= 1 && r.Args[0].Op == "len" && paramOf(r.Args[0].Args[0], fn, 0) && len(cs) == 1 &&
					cs[0].Callee != nil && cs[0].Callee.Op == "builtin" && cs[0].Callee.Aux == "copy" && len(cs[0].A) == 2 && ir.Same(cs[0].A[0], r) && paramOf(cs[0].A[1], fn, 0) && len(nonLocalStores(p)) == 0 {
					good, how = true, "a private copy of the list (make + copy)"
				}
				if r.Op == "append" && len(r.Args) == 2 && paramOf(r.Args[1], fn, 0) && len(cs) == 0 && (r.Args[0].IsNil() || r.Args[0].Op == "const" && strings.HasPrefix(r.Args[0].Aux, "zero") || r.Args[0].Op == "mkslice" && len(r.Args[0].Args) > 0 && func() bool { k, isK := r.Args[0].Args[0].IntConst(); return isK && k == 0 }()) {
					good, how = true, "a private copy of the list (append onto an empty slice)"
				}
			}
			c.Check(good, "constructor", "optics.Morphism", fn.Pos(), how, "Morphism returns %s, expected its argument list", short(p.Results[0]))
		}
	}

	shapeRules(c)
	bimapAuto(c)
	c04Witnesses(c)
}

// shapeTypes: struct types of optics whose fields are all Lens[T, X_i] over one container T (N >= 2).
func shapeTypes(c *core.Ctx) []*types.Named {
	pk := c.W.Pkgs["optics"]
	if pk == nil {
		return nil
	}
	var out []*types.Named
	sc := pk.Types.Scope()
	for _, n := range sc.Names() {
		tn, ok := sc.Lookup(n).(*types.TypeName)
		if !ok {
			continue
		}
		nt, ok := tn.Type().(*types.Named)
		if !ok {
			continue
		}
		st, ok := nt.Underlying().(*types.Struct)
		if !ok || st.NumFields() < 2 {
			continue
		}
		good := true
		var cont types.Type
		for i := 0; i < st.NumFields(); i++ {
			ft, ok := st.Field(i).Type().(*types.Named)
			if !ok || ft.Origin().Obj().Name() != "Lens" || ft.TypeArgs().Len() != 2 {
				good = false
				break
			}
			if cont == nil {
				cont = ft.TypeArgs().At(0)
			} else if !types.Identical(cont, ft.TypeArgs().At(0)) {
				good = false
			}
		}
		if good {
			out = append(out, nt)
		}
	}
	sort.Slice(out, func(i, j int) bool {
		return out[i].Underlying().(*types.Struct).NumFields() < out[j].Underlying().(*types.Struct).NumFields()
	})
	return out
}

// shapeComposed: the positional rules of one ForShapeN stated on the value it builds (representation independent):
// ForShapeN makes one ForProductN[T, A...](attr...) call; Put on the built value is N chained Put invocations, the
// i-th lens of ForProductN receiving the i-th value parameter; Get returns the i-th lens's Get(s) at position i.
type shapeComp struct {
	nt                     *types.Named
	forOK, putOK, getOK    bool
	forWhy, putWhy, getWhy string
}

func shapeComposed(c *core.Ctx, fn *ssa.Function) *shapeComp {
	r := &shapeComp{forWhy: "not analysed", putWhy: "not analysed", getWhy: "not analysed"}
	an := c.AnalyzeKeepingDepth(fn, "forproduct", func(f *ssa.Function) bool { return strings.HasPrefix(f.Name(), "ForProduct") }, 14)
	ps := an.AllPaths()
	if len(an.Problems) > 0 || len(ps) != 1 || ps[0].Exit != ir.ExitReturn || len(ps[0].Results) != 1 {
		r.forWhy = "ForShapeN is not a single straight-line path"
		return r
	}
	p := ps[0]
	cs := calls(p)
	if len(cs) != 1 || cs[0].Static == nil || !strings.HasPrefix(cs[0].Static.Name(), "ForProduct") {
		r.forWhy = "expected exactly one call, of ForProductN"
		return r
	}
	call := cs[0]
	tps := typeParamsOf(fn)
	n := len(tps) - 1
	r.forOK, r.forWhy = true, ""
	if len(call.InstArgs) != len(tps) {
		r.forOK, r.forWhy = false, "ForProductN is instantiated with a different number of type arguments"
	}
	for i := range call.InstArgs {
		if r.forOK && !types.Identical(call.InstArgs[i], tps[i]) {
			r.forOK, r.forWhy = false, fmt.Sprintf("type argument %d of %s is %s, expected %s", i+1, call.Static.Name(), call.InstArgs[i], tps[i])
		}
	}
	if r.forOK && (len(call.A) != 1 || !paramOf(call.A[0], fn, 0)) {
		r.forOK, r.forWhy = false, "the names are not forwarded unchanged"
	}
	v := p.Results[0]
	dt := p.End.DynType(v)
	if pt, isP := dt.(*types.Pointer); isP {
		dt = pt.Elem()
	}
	nt, _ := dt.(*types.Named)
	if nt == nil {
		r.forOK, r.forWhy = false, "the concrete type of the built value is not known"
		return r
	}
	r.nt = nt.Origin()
	lensOf := func(t *ir.Term) int {
		if t.Op == "extract" && len(t.Args) == 1 && ir.Same(t.Args[0], call.R) {
			var i int
			fmt.Sscanf(t.Aux, "%d", &i)
			return i
		}
		return -1
	}
	bind := func(m string) (*ssa.Function, *ir.Path, string) {
		mf := iterMethod(c, r.nt, m)
		if mf == nil {
			return nil, nil, "method " + m + " not found"
		}
		recv := v
		if _, isPtr := mf.Params[0].Type().Underlying().(*types.Pointer); !isPtr && recv.Op == "alloc" {
			recv = p.End.MemAt(recv)
		}
		man := c.AnalyzeDeep(mf, ir.NewRootState(mf, []*ir.Term{recv}, nil, p.End), "composed:"+fn.Name(), 14)
		mps := man.AllPaths()
		if len(man.Problems) > 0 || len(mps) != 1 || mps[0].Exit != ir.ExitReturn {
			return nil, nil, m + " on the built value is not a single straight-line path"
		}
		if len(nonLocalStores(mps[0])) != 0 {
			return nil, nil, m + " stores on its own"
		}
		return mf, mps[0], ""
	}
	// Put
	if mf, mp, why := bind("Put"); mp == nil {
		r.putWhy = why
	} else {
		mcs := calls(mp)
		ok, why := len(mcs) == n && len(mf.Params) == n+2 && len(mp.Results) == 1, fmt.Sprintf("%d invocations for %d lenses", len(mcs), n)
		used := map[int]bool{}
		var prev *ir.Term
		for k, st := range mcs {
			if !ok {
				break
			}
			if st.Method == nil || st.Method.Name() != "Put" || len(st.A) != 3 {
				ok, why = false, "an invocation is not a Put of a lens"
				break
			}
			li := lensOf(st.A[0])
			if li < 0 || li >= n || used[li] {
				ok, why = false, "a Put is not on one of the lenses of ForProductN, or a lens is used twice"
				break
			}
			used[li] = true
			if !paramOf(st.A[2], mf, li+2) {
				ok, why = false, fmt.Sprintf("lens %d is given %s, expected the value parameter of the same position (%s)", li+1, short(st.A[2]), mf.Params[li+2].Name())
				break
			}
			if k == 0 {
				if !paramOf(st.A[1], mf, 1) {
					ok, why = false, "the first Put does not start from the container argument"
				}
			} else if !ir.Same(st.A[1], prev) {
				ok, why = false, "the Puts are not chained on the container (result of one is the container of the next)"
			}
			prev = st.R
		}
		if ok && !ir.Same(mp.Results[0], prev) {
			ok, why = false, "the last Put's result is not returned"
		}
		r.putOK, r.putWhy = ok, why
	}
	// Get
	if mf, mp, why := bind("Get"); mp == nil {
		r.getWhy = why
	} else {
		ok, why := len(mp.Results) == n && len(calls(mp)) == n, fmt.Sprintf("%d results / %d invocations for %d lenses", len(mp.Results), len(calls(mp)), n)
		for i := 0; i < n && ok; i++ {
			m, _, args, isC := callParts(mp.Results[i])
			ok = isC && m == "Get" && len(args) == 2 && lensOf(args[0]) == i && paramOf(args[1], mf, 1)
			if !ok {
				why = fmt.Sprintf("result %d is %s, expected the Get(s) of lens %d", i+1, short(mp.Results[i]), i+1)
			}
		}
		r.getOK, r.getWhy = ok, why
	}
	return r
}

func shapeRules(c *core.Ctx) {
	comps := map[string]*shapeComp{} // by ForShapeN name
	byType := map[*types.Named]*shapeComp{}
	for _, fn := range familyFuncs(c, "optics", "ForShape") {
		sc := shapeComposed(c, fn)
		comps[fn.Name()] = sc
		if os.Getenv("VERIF_C04_COMPOSED_ONLY") != "" {
			fmt.Fprintf(os.Stderr, "composed %s: for=%v %s put=%v %s get=%v %s\n", fn.Name(), sc.forOK, sc.forWhy, sc.putOK, sc.putWhy, sc.getOK, sc.getWhy)
		}
		if sc.nt != nil {
			byType[sc.nt] = sc
		}
	}
	flat := map[*types.Named]bool{}
	for _, nt := range shapeTypes(c) {
		st := nt.Underlying().(*types.Struct)
		n := st.NumFields()
		tname := nt.Obj().Name()
		flat[nt] = true
		comp := byType[nt]
		if comp == nil {
			comp = &shapeComp{}
		}
		// Put
		fn := c.W.Method("optics", tname, "Put")
		name := "optics." + tname + ".Put"
		if p := singlePath(c, "shape", name, fn); p != nil {
			cs := calls(p)
			ok := len(cs) == n && len(fn.Params) == n+2 && len(nonLocalStores(p)) == 0
			why := fmt.Sprintf("%d invocations for %d field lenses", len(cs), n)
			used := map[string]bool{}
			var prev *ir.Term
			for k, s := range cs {
				if !ok {
					break
				}
				if s.Method == nil || s.Method.Name() != "Put" || s.A[0].Op != "field" || !paramOf(s.A[0].Args[0], fn, 0) {
					ok, why = false, "an invocation is not a Put of one of the field lenses"
					break
				}
				f := s.A[0].Aux
				fi := -1
				for i := 0; i < n; i++ {
					if st.Field(i).Name() == f {
						fi = i
					}
				}
				if fi < 0 || used[f] {
					ok, why = false, "field lens "+f+" is used twice or unknown"
					break
				}
				used[f] = true
				if !paramOf(s.A[2], fn, fi+2) {
					ok, why = false, fmt.Sprintf("field lens %s (position %d) is given %s, expected the parameter of the same position (%s)", f, fi+1, short(s.A[2]), fn.Params[fi+2].Name())
					break
				}
				if k == 0 {
					if !paramOf(s.A[1], fn, 1) {
						ok, why = false, "the first Put does not start from the container argument"
					}
				} else if !ir.Same(s.A[1], prev) {
					ok, why = false, "the Puts are not chained on the container (result of one is the container of the next)"
				}
				prev = s.R
			}
			if ok && !ir.Same(p.Results[0], prev) {
				ok, why = false, "the last Put's result is not returned"
			}
			c.Check(ok || (comp.forOK && comp.putOK), "shape", name, fn.Pos(), fmt.Sprintf("%d chained positional Puts", n), "%s", why)
		}
		// Get
		fn = c.W.Method("optics", tname, "Get")
		name = "optics." + tname + ".Get"
		if p := singlePath(c, "shape", name, fn); p != nil {
			ok := len(p.Results) == n && len(calls(p)) == n && len(nonLocalStores(p)) == 0
			why := fmt.Sprintf("%d results / %d invocations for %d field lenses", len(p.Results), len(calls(p)), n)
			for i := 0; i < n && ok; i++ {
				m, _, args, isC := callParts(p.Results[i])
				ok = isC && m == "Get" && len(args) == 2 && args[0].Op == "field" && args[0].Aux == st.Field(i).Name() && paramOf(args[0].Args[0], fn, 0) && paramOf(args[1], fn, 1)
				if !ok {
					why = fmt.Sprintf("result %d is %s, expected %s.Get(s)", i+1, short(p.Results[i]), st.Field(i).Name())
				}
			}
			c.Check(ok || (comp.forOK && comp.getOK), "shape", name, fn.Pos(), fmt.Sprintf("%d positional Gets", n), "%s", why)
		}
	}
	// shapes that are not a flat struct of N lenses (a nested / delegating representation): the positional rules
	// stated on the value ForShapeN builds
	for _, fn := range familyFuncs(c, "optics", "ForShape") {
		sc := comps[fn.Name()]
		if sc == nil || sc.nt == nil || flat[sc.nt] {
			continue
		}
		tname := sc.nt.Obj().Name()
		n := len(typeParamsOf(fn)) - 1
		pos := fn.Pos()
		if mf := iterMethod(c, sc.nt, "Put"); mf != nil {
			pos = mf.Pos()
		}
		c.Check(sc.putOK, "shape", "optics."+tname+".Put", pos, fmt.Sprintf("%d chained positional Puts (on the value %s builds)", n, fn.Name()), "%s", sc.putWhy)
		if mf := iterMethod(c, sc.nt, "Get"); mf != nil {
			pos = mf.Pos()
		}
		c.Check(sc.getOK, "shape", "optics."+tname+".Get", pos, fmt.Sprintf("%d positional Gets (on the value %s builds)", n, fn.Name()), "%s", sc.getWhy)
	}
	// ForShapeN
	for _, fn := range familyFuncs(c, "optics", "ForShape") {
		name := "optics." + fn.Name()
		// SSA: one call ForProductN[T...](attr...), its i-th result stored into the i-th field of the literal
		var call *ssa.Call
		nCalls := 0
		for _, b := range fn.Blocks {
			for _, in := range b.Instrs {
				if cl, ok := in.(*ssa.Call); ok {
					nCalls++
					call = cl
				}
			}
		}
		ok := nCalls == 1 && call.Call.StaticCallee() != nil && call.Call.StaticCallee().Origin() != nil && strings.HasPrefix(call.Call.StaticCallee().Origin().Name(), "ForProduct")
		why := "expected exactly one call, of ForProductN"
		if ok {
			callee := call.Call.StaticCallee()
			tps := typeParamsOf(fn)
			ta := callee.TypeArgs()
			ok = len(ta) == len(tps)
			for i := range ta {
				if ok && !types.Identical(ta[i], tps[i]) {
					ok, why = false, fmt.Sprintf("type argument %d of %s is %s, expected %s", i+1, callee.Origin().Name(), ta[i], tps[i])
				}
			}
			if ok && (len(call.Call.Args) != 1 || call.Call.Args[0] != ssa.Value(fn.Params[0])) {
				ok, why = false, "the names are not forwarded unchanged"
			}
			// stores: FieldAddr(lit, i) <- Extract(call, i)
			n := len(tps) - 1
			seen := 0
			for _, b := range fn.Blocks {
				for _, in := range b.Instrs {
					if st, isSt := in.(*ssa.Store); isSt {
						fa, isFA := st.Addr.(*ssa.FieldAddr)
						ex, isEx := st.Val.(*ssa.Extract)
						if isFA && isEx && ex.Tuple == ssa.Value(call) {
							seen++
							if fa.Field != ex.Index {
								ok, why = false, fmt.Sprintf("lens %d of ForProductN is stored in field %d", ex.Index+1, fa.Field+1)
							}
						}
					}
				}
			}
			if ok && seen != n {
				ok, why = false, fmt.Sprintf("%d of %d field lenses are set", seen, n)
			}
		}
		if sc := comps[fn.Name()]; !ok && sc != nil && sc.forOK && sc.putOK && sc.getOK {
			// not the flat literal: the lenses reach the positions the methods use them at (shown on the built value)
			ok = true
		}
		c.Check(ok, "for-shape", name, fn.Pos(), "i-th lens of ForProductN -> i-th field", "%s", why)
	}
}

func bimapAuto(c *core.Ctx) {
	bimap := c.W.Func("optics", "BiMap")
	fp1 := c.W.Func("optics", "ForProduct1")
	for _, n := range []string{"BiMapS", "BiMapB", "BiMapI", "BiMapF"} {
		fn := c.W.Func("optics", n)
		name := "optics." + n
		if fn == nil {
			c.Undecided("bimap-auto", name, 0, "anchor not found")
			continue
		}
		an := c.Analyze(fn)
		if problems(c, "bimap-auto", name, an) {
			continue
		}
		tps := typeParamsOf(fn)
		ok := len(tps) == 3
		why := "expected type parameters [S, A, B]"
		nRet := 0
		for _, p := range an.AllPaths() {
			if p.Exit != ir.ExitReturn || !ok {
				continue
			}
			nRet++
			// helper extraction is followed by inlining: look at the entered callees
			var fpEnter, bmEnter *ir.Step
			for i := range p.Steps {
				st := &p.Steps[i]
				if st.Kind == ir.KEnter && st.Static == fp1 {
					fpEnter = st
				}
				if st.Kind == ir.KEnter && st.Static == bimap {
					bmEnter = st
				}
			}
			if fpEnter == nil || bmEnter == nil {
				ok, why = false, "a returning path does not build BiMap(ForProduct1(...), f, g)"
				break
			}
			if len(fpEnter.A) != 1 || !paramOf(fpEnter.A[0], fn, 0) {
				ok, why = false, "the field names are not forwarded unchanged to ForProduct1 (got "+short(fpEnter.A[0])+"): the lens would focus the first field of the type instead of the named one"
				break
			}
			r := p.Results[0]
			if r.Op != "lit" || len(bmEnter.A) != 3 {
				ok, why = false, "result is not the BiMap literal"
				break
			}
			for i, want := range [][2]int{{1, 2}, {2, 1}} {
				ft := bmEnter.A[1+i]
				f := ft.Fn
				if f == nil || len(f.Params) != 1 || len(ft.Args) != 0 {
					ok, why = false, fmt.Sprintf("conversion %d is not a closed function", i+1)
					break
				}
				_ = want
				cp := singlePath(c, "bimap-auto", name+"#conv", f)
				if cp == nil {
					ok = false
					break
				}
				cr := cp.Results[0]
				if !((cr.Op == "conv" && paramOf(cr.Args[0], f, 0) || paramOf(cr, f, 0)) && len(calls(cp)) == 0) {
					ok, why = false, fmt.Sprintf("conversion %d returns %s, expected a plain conversion of its argument", i+1, short(cr))
				}
			}
		}
		if ok && nRet == 0 {
			ok, why = false, "no returning path"
		}
		c.Check(ok, "bimap-auto", name, fn.Pos(), "BiMap(ForProduct1[S,A](attr...), B(a), A(b))", "%s", why)
	}
}

// c04Witnesses: swapping two value parameters in shapeN.Put, or Forward/Inverse in morphism, must not type-check.
func c04Witnesses(c *core.Ctx) {
	pk := c.W.Pkgs["optics"]
	// the shape types: flat structs of lenses, and whatever else the ForShapeN constructors build
	all := shapeTypes(c)
	seen := map[*types.Named]bool{}
	for _, nt := range all {
		seen[nt] = true
	}
	for _, fn := range familyFuncs(c, "optics", "ForShape") {
		if sc := shapeComposed(c, fn); sc.nt != nil && !seen[sc.nt] {
			seen[sc.nt] = true
			all = append(all, sc.nt)
		}
	}
	for _, nt := range all {
		tname := nt.Obj().Name()
		name := "optics." + tname + ".Put#swap"
		errs, applied, perr := TypeCheckVariant(pk, func(fset *token.FileSet, files []*ast.File) bool {
			fd := funcDecl(files, tname, "Put")
			if fd == nil || fd.Type.Params == nil {
				return false
			}
			// names of the last two value parameters
			var names []*ast.Ident
			for _, f := range fd.Type.Params.List {
				names = append(names, f.Names...)
			}
			if len(names) < 3 {
				return false
			}
			a, b := names[len(names)-2].Name, names[len(names)-1].Name
			sw := 0
			ast.Inspect(fd.Body, func(n ast.Node) bool {
				if id, ok := n.(*ast.Ident); ok {
					switch id.Name {
					case a:
						id.Name = b
						sw++
					case b:
						id.Name = a
						sw++
					}
				}
				return true
			})
			return sw >= 2
		})
		switch {
		case perr != nil || !applied:
			c.Ok("witness", name, nt.Obj().Pos(), "no witness built; the positional rule alone decides")
		case len(errs) > 0:
			c.Ok("witness", name, nt.Obj().Pos(), "swapping the last two parameters is rejected by go/types")
		default:
			c.Ok("witness", name, nt.Obj().Pos(), "swap type-checks (positions not enforced by types); the positional rule alone decides")
		}
	}
}
