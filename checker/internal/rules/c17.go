package rules

import (
	"os"
	"fmt"
	"go/constant"
	"go/types"

	"golang.org/x/tools/go/ssa"

	"verif/checker/internal/core"
	"verif/checker/internal/ir"
	"verif/checker/internal/load"
)

func init() {
	register(&Pack{ID: "C17", Run: runC17, Meta: core.Meta{
		Level:       "proof",
		Explanation: "The instances are total, loop-free functions that touch their arguments only through comparisons or one call, so the static decision is complete. ord.Compare: its cut-point paths form a decision tree over comparisons of the two parameters; the tree is evaluated for the three possible orderings a<b, a=b, a>b (trichotomy of int/string order) and must return LT, EQ, GT respectively, which must be pairwise distinct constants - totality, antisymmetry, transitivity and agreement with Eq follow. eq.Equal: term a==b. ContraMap: Base(f(a), f(b)) with the same projection and the argument order kept. From wrappers and semigroup.From: f(a,b). monoid.From/FromOp: the literal maps empty->empty, combine->Semigroup (FromOp through the conversion to semigroup.From whose Combine is f(a,b)); Empty returns the field; Combine is promoted from the embedded semigroup (method-set resolution).",
		RuleText:    "one obligation per (instance method, rule)",
		TrustedBase: []string{"go/types", "go/ssa construction", "Go spec for ==, <, > on int and string (total order, trichotomy)"},
	}})
}

// singlePath returns the only path of fn (nil + obligation recorded otherwise).
func singlePath(c *core.Ctx, rule, construct string, fn *ssa.Function) *ir.Path {
	if fn == nil {
		c.Undecided(rule, construct, 0, "anchor not found")
		return nil
	}
	an := c.Analyze(fn)
	if problems(c, rule, construct, an) {
		return nil
	}
	ps := dropNilGuardPanics(an.AllPaths())
	if q := boolIdentity(ps); q != nil {
		ps = []*ir.Path{q}
	}
	if len(ps) != 1 || ps[0].Exit != ir.ExitReturn {
		c.Fail(rule, construct, fn.Pos(), "expected one straight-line returning path, found %d paths", len(ps))
		return nil
	}
	return ps[0]
}

// boolIdentity: two paths that are one computation followed by `if t { return true } else { return false }` are the
// single path returning t (the long spelling of `return t`); nil when ps is not of that form.
func boolIdentity(ps []*ir.Path) *ir.Path {
	if len(ps) != 2 {
		return nil
	}
	a, b := ps[0], ps[1]
	ra, okA := retBool(a)
	rb, okB := retBool(b)
	if !okA || !okB || ra == rb || len(a.Steps) != len(b.Steps) || len(a.Steps) == 0 {
		return nil
	}
	n := len(a.Steps)
	if a.Steps[n-1].Kind == ir.KReturn && b.Steps[n-1].Kind == ir.KReturn {
		n--
	}
	if n == 0 {
		return nil
	}
	for i := 0; i < n-1; i++ {
		if a.Steps[i].String() != b.Steps[i].String() {
			return nil
		}
	}
	la, lb := &a.Steps[n-1], &b.Steps[n-1]
	if la.Kind != ir.KBranch || lb.Kind != ir.KBranch || !ir.Same(la.Atom, lb.Atom) || la.Pol == lb.Pol || la.Pol != ra || lb.Pol != rb {
		return nil
	}
	return &ir.Path{From: a.From, Exit: ir.ExitReturn, Steps: a.Steps[:n-1], Results: []*ir.Term{la.Atom}, End: a.End}
}

func runC17(c *core.Ctx) {
	c.Doc("ord-decision-tree", 1, "Compare returns LT/EQ/GT exactly for a<b / a==b / a>b on every path")
	c.Doc("ord-constants", 1, "LT, EQ, GT are pairwise distinct constants")
	c.Doc("eq-term", 1, "Equal(a,b) is a == b")
	c.Doc("contramap-term", 2, "ContraMap.X(a,b) = Base.X(f(a), f(b))")
	c.Doc("from-term", 3, "From wrappers return f(a,b)")
	c.Doc("monoid-literal", 2, "monoid.From/FromOp build {Semigroup: combine, empty: empty}")
	c.Doc("monoid-empty", 1, "Empty returns the stored element")
	c.Doc("monoid-combine-promoted", 1, "Combine resolves through the embedded Semigroup")
	c.Doc("instances", 4, "eq.Int/eq.String/ord.Int/ord.String are values of the generic instance types")

	instanceRules(c, [][3]string{{"pure/ord", "Int", "Compare"}, {"pure/ord", "String", "Compare"}, {"pure/eq", "Int", "Equal"}, {"pure/eq", "String", "Equal"}})

	// ---- ContraMap
	for _, x := range [][3]string{{"pure/eq", "Equal", "Eq"}, {"pure/ord", "Compare", "Ord"}} {
		name := x[0][5:] + ".ContraMap." + x[1]
		fn := c.W.Method(x[0], "ContraMap", x[1])
		p := singlePath(c, "contramap-term", name, fn)
		if p == nil {
			continue
		}
		n := len(fn.Params)
		t := p.Results[0]
		m, _, args, isCall := callParts(t)
		ok := isCall && m == x[1] && len(args) == 3 && len(calls(p)) == 3
		why := "result is not a call of the base instance's " + x[1] + ": " + short(t)
		if ok {
			recv := args[0]
			ok = recv.Op == "field" && recv.Aux == x[2] && paramOf(recv.Args[0], fn, 0)
			if !ok {
				why = "base instance is " + short(recv) + ", expected the embedded " + x[2]
			}
			for i, pi := range []int{n - 2, n - 1} {
				if !ok {
					break
				}
				_, callee, a2, isC := callParts(args[1+i])
				ok = isC && callee != nil && callee.Op == "field" && callee.Aux == "ContraMap" && paramOf(callee.Args[0], fn, 0) && len(a2) == 1 && paramOf(a2[0], fn, pi)
				if !ok {
					why = fmt.Sprintf("argument %d of the base call is %s, expected f(%s)", i+1, short(args[1+i]), fn.Params[pi].Name())
				}
			}
		}
		c.Check(ok, "contramap-term", name, fn.Pos(), "Base."+x[1]+"(f(a), f(b))", "%s", why)
	}

	// ---- From wrappers
	for _, x := range [][3]string{{"pure/eq", "From", "Equal"}, {"pure/ord", "From", "Compare"}, {"pure/semigroup", "From", "Combine"}} {
		name := x[0][5:] + ".From." + x[2]
		fn := c.W.Method(x[0], x[1], x[2])
		p := singlePath(c, "from-term", name, fn)
		if p == nil {
			continue
		}
		n := len(fn.Params)
		m, callee, args, isCall := callParts(p.Results[0])
		ok := isCall && m == "" && paramOf(callee, fn, 0) && len(args) == 2 && paramOf(args[0], fn, n-2) && paramOf(args[1], fn, n-1) && len(calls(p)) == 1
		c.Check(ok, "from-term", name, fn.Pos(), "f(a, b)", "%s returns %s, expected f(a, b) with f the receiver", x[2], short(p.Results[0]))
	}

	monoidRules(c)

}

// instanceRules: the ordering constants are distinct and the library's own instance values (ord.Int, ord.String,
// eq.Int, eq.String - those listed in which) are what their names say: Compare answers LT/EQ/GT exactly for
// a<b / a==b / a>b on every path, Equal is ==. Shared by C17 and - for the ord instances a skip list is built with - C18.
func instanceRules(c *core.Ctx, which [][3]string) {
	// ---- ord constants
	ordPkg := c.W.SSA["pure/ord"]
	cv := map[string]int64{}
	okConst := ordPkg != nil
	if okConst {
		for _, n := range []string{"LT", "EQ", "GT"} {
			k, _ := ordPkg.Members[n].(*ssa.NamedConst)
			if k == nil {
				okConst = false
				break
			}
			v, exact := constant.Int64Val(k.Value.Value)
			if !exact {
				okConst = false
			}
			cv[n] = v
		}
	}
	if okConst {
		c.Check(cv["LT"] != cv["EQ"] && cv["EQ"] != cv["GT"] && cv["LT"] != cv["GT"], "ord-constants", "ord.LT/EQ/GT", ordPkg.Members["LT"].Pos(),
			fmt.Sprintf("LT=%d EQ=%d GT=%d", cv["LT"], cv["EQ"], cv["GT"]), "LT=%d EQ=%d GT=%d are not pairwise distinct", cv["LT"], cv["EQ"], cv["GT"])
	} else {
		c.Undecided("ord-constants", "ord.LT/EQ/GT", 0, "constants not found")
	}

	// ---- instance methods: resolved from the exported instance values, not by type name
	seenFn := map[*ssa.Function]bool{}
	for _, x := range which {
		sp := c.W.SSA[x[0]]
		iname := x[0][5:] + "." + x[1]
		k, _ := sp.Members[x[1]].(*ssa.NamedConst)
		var m *ssa.Function
		if k != nil {
			if sel := c.W.Prog.MethodSets.MethodSet(k.Type()).Lookup(sp.Pkg, x[2]); sel != nil {
				m = c.W.Prog.MethodValue(sel)
				if m != nil && m.Origin() != nil {
					m = m.Origin()
				}
			}
			if m == nil {
				// method of a generic named type: look it up on the origin type
				if nt, ok := k.Type().(*types.Named); ok {
					for i := 0; i < nt.Origin().NumMethods(); i++ {
						if nt.Origin().Method(i).Name() == x[2] {
							m = c.W.Prog.FuncValue(nt.Origin().Method(i))
						}
					}
				}
			}
		}
		if m == nil || len(m.Blocks) == 0 {
			c.Undecided("instances", iname, 0, "cannot resolve %s of the instance %s", x[2], iname)
			continue
		}
		elem := ""
		if nt, ok := k.Type().(*types.Named); ok && nt.TypeArgs().Len() == 1 {
			elem = nt.TypeArgs().At(0).String()
		} else if len(m.Params) >= 2 {
			elem = m.Params[len(m.Params)-1].Type().String()
		}
		want := map[string]string{"Int": "int", "String": "string"}[x[1]]
		c.Check(elem == want, "instances", iname, k.Pos(), iname+" compares "+elem, "%s compares %s values, expected %s", iname, elem, want)
		if seenFn[m] {
			continue
		}
		seenFn[m] = true
		if x[2] == "Compare" {
			checkCompare(c, m, cv, okConst)
		} else {
			checkEqual(c, m)
		}
	}

}

// monoidRules: what monoid.From / FromOp build and what the built value's Empty / Combine are (shared with C10,
// whose accumulators all start from Empty()).
func monoidRules(c *core.Ctx) {
	// ---- monoid.From / FromOp
	// the concrete monoid type is what From builds; its field roles come from the field types (the element of the
	// type parameter's type, the embedded interface that has Combine), never from unexported names
	var monoidT *types.Named
	emptyF, sgF := "", ""
	if fn := c.W.Func("pure/monoid", "From"); fn != nil {
		for _, b := range fn.Blocks {
			for _, in := range b.Instrs {
				if mi, isMI := in.(*ssa.MakeInterface); isMI {
					t := mi.X.Type()
					if pt, isP := t.(*types.Pointer); isP {
						t = pt.Elem()
					}
					if nt, isN := t.(*types.Named); isN {
						if st, isS := nt.Underlying().(*types.Struct); isS && nt.Obj().Pkg() != nil && load.Logical(nt.Obj().Pkg().Path()) == "pure/monoid" {
							monoidT = nt.Origin()
							for i := 0; i < st.NumFields(); i++ {
								f := st.Field(i)
								if _, isTP := f.Type().(*types.TypeParam); isTP {
									emptyF = f.Name()
								} else if types.IsInterface(f.Type()) {
									if o, _, _ := types.LookupFieldOrMethod(f.Type(), false, nil, "Combine"); o != nil {
										sgF = f.Name()
									}
								}
							}
						}
					}
				}
			}
		}
	}
	for _, ctor := range []string{"From", "FromOp"} {
		name := "monoid." + ctor
		fn := c.W.Func("pure/monoid", ctor)
		// another representation of the monoid (a second implementation type for plain binary operators, a fast path
		// choosing between two): the constructor is right when, on every returning path, the value it builds answers
		// Empty() with the constructor's first parameter and Combine(a, b) with one application of its second
		// parameter to (a, b) - the laws are then those of the arguments, whatever sits in between
		if fn != nil {
			if okC, how := monoidComposed(c, fn); okC {
				c.Ok("monoid-literal", name, fn.Pos(), how)
				continue
			}
		}
		p := singlePath(c, "monoid-literal", name, fn)
		if p == nil {
			continue
		}
		t := p.Results[0]
		ok := t.Op == "lit" && ir.LitBase(t) == nil && len(calls(p)) == 0
		why := "result is not a composite literal: " + short(t)
		if ok {
			var sg, em *ir.Term
			for _, kv := range t.Args {
				switch {
				case kv.Aux == sgF && sgF != "":
					sg = kv.Args[0]
				case kv.Aux == emptyF && emptyF != "":
					em = kv.Args[0]
				}
			}
			ok = paramOf(em, fn, 0) && paramOf(sg, fn, 1)
			if !ok {
				why = fmt.Sprintf("literal is {Semigroup: %s, empty: %s}, expected {combine, empty} parameters", short(sg), short(em))
			}
		}
		if ok && ctor == "FromOp" {
			// the function value must be stored under a type whose Combine is From.Combine
			found := false
			for _, b := range fn.Blocks {
				for _, in := range b.Instrs {
					if mi, isMI := in.(*ssa.MakeInterface); isMI {
						if nt, isN := mi.X.Type().(*types.Named); isN {
							o := nt.Origin().Obj()
							if o.Name() == "From" && o.Pkg() != nil && o.Pkg().Path() == "github.com/fogfish/golem/pure/semigroup" {
								found = true
							}
						}
					}
				}
			}
			if !found {
				ok, why = false, "combine is not converted to semigroup.From"
			}
		}
		// the returned dynamic type must be the type whose Empty/Combine are checked below
		c.Check(ok, "monoid-literal", name, fn.Pos(), "{Semigroup: combine, empty: empty}", "%s", why)
	}
	var emptyM *ssa.Function
	if monoidT != nil {
		emptyM = methodsOf(c, monoidT)["Empty"]
	}
	if emptyM != nil {
		fn := emptyM
		if p := singlePath(c, "monoid-empty", "monoid.monoid.Empty", fn); p != nil {
			t := p.Results[0]
			ok := t.Op == "field" && t.Aux == emptyF && emptyF != "" && paramOf(t.Args[0], fn, 0) && len(calls(p)) == 0
			c.Check(ok, "monoid-empty", "monoid.monoid.Empty", fn.Pos(), "m.empty", "Empty returns %s, expected the stored element", short(t))
		}
	} else {
		c.Undecided("monoid-empty", "monoid.monoid.Empty", 0, "anchor not found")
	}
	// Combine promoted through the embedded Semigroup
	if mp := c.W.Pkgs["pure/monoid"]; mp != nil {
		if monoidT == nil {
			c.Undecided("monoid-combine-promoted", "monoid.monoid.Combine", 0, "the concrete monoid type was not found")
		} else {
			obj := monoidT.Obj()
			o, idx, _ := types.LookupFieldOrMethod(obj.Type(), false, mp.Types, "Combine")
			st, _ := obj.Type().Underlying().(*types.Struct)
			ok := o != nil && len(idx) == 2 && st != nil && st.Field(idx[0]).Embedded() && st.Field(idx[0]).Name() == sgF
			how := "promoted from embedded Semigroup"
			if !ok && o != nil && len(idx) == 1 && sgF != "" {
				// a hand-written forwarder: Combine(a, b) = m.<semigroup field>.Combine(a, b), nothing else
				if fn := methodsOf(c, monoidT)["Combine"]; fn != nil && len(fn.Params) == 3 {
					an := c.Analyze(fn)
					ps := dropNilGuardPanics(an.AllPaths())
					if len(an.Problems) == 0 && len(ps) == 1 && ps[0].Exit == ir.ExitReturn && len(ps[0].Results) == 1 && len(calls(ps[0])) == 1 && len(nonLocalStores(ps[0])) == 0 {
						m, _, args, isC := callParts(ps[0].Results[0])
						if isC && m == "Combine" && len(args) == 3 && args[0].Op == "field" && args[0].Aux == sgF && paramOf(args[0].Args[0], fn, 0) &&
							paramOf(args[1], fn, 1) && paramOf(args[2], fn, 2) {
							ok, how = true, "forwards to the stored Semigroup: m."+sgF+".Combine(a, b)"
						}
					}
				}
			}
			c.Check(ok, "monoid-combine-promoted", "monoid.monoid.Combine", obj.Pos(), how, "Combine does not resolve through the embedded Semigroup field (index path %v) and is not a plain forwarder to it", idx)
		}
	}

}

func fnLabel(fn *ssa.Function) string {
	r, n := declOf(fn)
	if r != "" {
		return r + "." + n
	}
	return n
}

func checkCompare(c *core.Ctx, fn *ssa.Function, cv map[string]int64, okConst bool) {
	if okConst {
		an := c.Analyze(fn)
		if !problems(c, "ord-decision-tree", "ord."+fnLabel(fn), an) {
			a, b := fn.Params[len(fn.Params)-2], fn.Params[len(fn.Params)-1]
			isA := func(t *ir.Term) bool { return t.Op == "param" && t.Src == ssa.Value(a) }
			isB := func(t *ir.Term) bool { return t.Op == "param" && t.Src == ssa.Value(b) }
			want := map[string]int64{"lt": cv["LT"], "eq": cv["EQ"], "gt": cv["GT"]}
			ok := len(an.Headers) == 0
			why := ""
			if !ok {
				why = "Compare contains a loop"
			}
			for _, ordn := range []string{"lt", "eq", "gt"} {
				if !ok {
					break
				}
				feasible := 0
				for _, p := range an.AllPaths() {
					f := true
					for _, s := range p.Events(ir.KBranch) {
						at := s.Atom
						var truth bool
						switch {
						case at.Op == "bin" && at.Aux == "<" && isA(at.Args[0]) && isB(at.Args[1]):
							truth = ordn == "lt"
						case at.Op == "bin" && at.Aux == "<" && isB(at.Args[0]) && isA(at.Args[1]):
							truth = ordn == "gt"
						case at.Op == "bin" && at.Aux == "==" && (isA(at.Args[0]) && isB(at.Args[1]) || isB(at.Args[0]) && isA(at.Args[1])):
							truth = ordn == "eq"
						case at.IsConst():
							truth = at.Aux == "true"
						default:
							ok, why = false, "branch on something other than a comparison of the two arguments: "+short(at)
						}
						if truth != s.Pol {
							f = false
						}
					}
					if !ok || !f {
						continue
					}
					feasible++
					if p.Exit != ir.ExitReturn || len(p.Results) != 1 {
						ok, why = false, "a path for ordering "+ordn+" does not return a value (panic?)"
						continue
					}
					if len(calls(p)) != 0 || len(nonLocalStores(p)) != 0 {
						ok, why = false, "Compare has side effects (calls / stores)"
					}
					v, isInt := p.Results[0].IntConst()
					if !isInt || v != want[ordn] {
						ok, why = false, fmt.Sprintf("for a %s b Compare returns %s, expected %d", map[string]string{"lt": "<", "eq": "==", "gt": ">"}[ordn], short(p.Results[0]), want[ordn])
					}
				}
				if ok && feasible == 0 {
					ok, why = false, "no path for ordering "+ordn
				}
			}
			c.Check(ok, "ord-decision-tree", "ord."+fnLabel(fn), fn.Pos(), fmt.Sprintf("%d paths evaluated under a<b, a==b, a>b", an.NPaths), "%s", why)
		}
	}

}

func checkEqual(c *core.Ctx, fn *ssa.Function) {
	name := "eq." + fnLabel(fn)
	an := c.Analyze(fn)
	if problems(c, "eq-term", name, an) {
		return
	}
	n := len(fn.Params)
	isAB := func(t *ir.Term) bool {
		return t.Op == "bin" && t.Aux == "==" && len(t.Args) == 2 &&
			(paramOf(t.Args[0], fn, n-2) && paramOf(t.Args[1], fn, n-1) || paramOf(t.Args[0], fn, n-1) && paramOf(t.Args[1], fn, n-2))
	}
	ok := len(an.Headers) == 0
	why := "Equal contains a loop"
	sawT, sawF := false, false
	for _, p := range an.AllPaths() {
		if !ok {
			break
		}
		if p.Exit != ir.ExitReturn || len(p.Results) != 1 || len(calls(p)) != 0 || len(nonLocalStores(p)) != 0 {
			ok, why = false, "Equal has side effects or can panic"
			break
		}
		r := p.Results[0]
		if isAB(r) {
			sawT, sawF = true, true
			continue
		}
		// a decision tree on a == b returning constants
		truth := 0
		for _, s := range p.Events(ir.KBranch) {
			if isAB(s.Atom) {
				truth = polInt(s.Pol)
			} else if !s.Atom.IsConst() {
				ok, why = false, "branch on something other than a == b: "+short(s.Atom)
			}
		}
		if !(r.IsConst() && (r.Aux == "true" || r.Aux == "false")) || truth == 0 {
			ok, why = false, "Equal returns "+short(r)+" without deciding a == b"
			break
		}
		if (r.Aux == "true") != (truth > 0) {
			ok, why = false, fmt.Sprintf("Equal returns %s when a == b is %v", r.Aux, truth > 0)
		}
		if truth > 0 {
			sawT = true
		} else {
			sawF = true
		}
	}
	if ok && !(sawT && sawF) {
		ok, why = false, "Equal does not cover both a == b and a != b"
	}
	c.Check(ok, "eq-term", name, fn.Pos(), "a == b", "%s", why)
}


// dropNilGuardPanics: the laws are stated for instances that were built from functions; a path that does nothing but
// find a function-valued or interface-valued part of the instance (the receiver itself, one of its fields, a
// parameter) nil and panic is argument validation, not behaviour. Such paths are left out; what remains must satisfy
// the rule. A panic under any other condition stays.
func dropNilGuardPanics(ps []*ir.Path) []*ir.Path {
	var out []*ir.Path
	for _, p := range ps {
		if p.Exit == ir.ExitPanic && onlyNilGuard(p) {
			continue
		}
		out = append(out, p)
	}
	return out
}

func onlyNilGuard(p *ir.Path) bool {
	foundNil := false
	for i := range p.Steps {
		st := &p.Steps[i]
		switch st.Kind {
		case ir.KBranch:
			at := st.Atom
			if at.Op != "bin" || at.Aux != "==" || len(at.Args) != 2 {
				return false
			}
			var x *ir.Term
			if at.Args[0].IsNil() {
				x = at.Args[1]
			} else if at.Args[1].IsNil() {
				x = at.Args[0]
			}
			if x == nil {
				return false
			}
			// a parameter, or a field / load reached from one
			root := x
			for root != nil && (root.Op == "field" || root.Op == "load" || root.Op == "faddr") && len(root.Args) > 0 {
				root = root.Args[0]
			}
			if root == nil || root.Op != "param" {
				return false
			}
			if st.Pol {
				foundNil = true
			}
		case ir.KPanic, ir.KStore:
			// the panic itself; stores only spill the receiver / parameters
			if st.Kind == ir.KStore && (len(st.A) == 0 || st.A[0].Op != "alloc") {
				return false
			}
		default:
			return false
		}
	}
	return foundNil
}


// monoidComposed: see the call site. Only consulted; the literal form below gives the precise messages.
func monoidComposed(c *core.Ctx, cf *ssa.Function) (bool, string) {
	can := c.Analyze(cf)
	if len(can.Problems) > 0 || len(can.Headers) > 0 {
		return dbgFalse(1)
	}
	rootOf := func(t *ir.Term) *ir.Term {
		for t != nil {
			switch t.Op {
			case "conv", "extract", "tassert", "field":
				if len(t.Args) > 0 {
					t = t.Args[0]
					continue
				}
			}
			break
		}
		return t
	}
	nPaths := 0
	for _, cp := range dropNilGuardPanics(can.AllPaths()) {
		if cp.Exit != ir.ExitReturn || len(cp.Results) != 1 || len(calls(cp)) != 0 || len(nonLocalStores(cp)) != 0 {
			return dbgFalse(2)
		}
		nPaths++
		recv := cp.Results[0]
		dt := cp.End.DynType(recv)
		if dt == nil {
			if os.Getenv("VERIF_DBG_C17") != "" {
				fmt.Fprintln(os.Stderr, "no dyn type for", short(recv))
			}
			return dbgFalse(3)
		}
		nt := namedBehindPtr(dt)
		if nt == nil {
			return dbgFalse(4)
		}
		ms := methodsOf(c, nt.Origin())
		em, cm := ms["Empty"], ms["Combine"]
		if cm == nil {
			cm = iterMethod(c, nt.Origin(), "Combine") // promoted through an embedded field
		}
		if em == nil {
			em = iterMethod(c, nt.Origin(), "Empty")
		}
		promoted := false
		if cm == nil && em != nil {
			// Combine promoted from an embedded interface-typed field: the value kept there must be the constructor's
			// second parameter itself
			if st, isS := nt.Origin().Underlying().(*types.Struct); isS {
				lit := recv
				if lit.Op == "alloc" {
					lit = cp.End.MemAt(lit)
				}
				for i := 0; i < st.NumFields(); i++ {
					f := st.Field(i)
					if !f.Embedded() || !types.IsInterface(f.Type()) {
						continue
					}
					if o, _, _ := types.LookupFieldOrMethod(f.Type(), false, nil, "Combine"); o == nil {
						continue
					}
					if lit != nil && paramOf(fieldOf2(lit, f.Name()), cf, 1) {
						promoted = true
					}
				}
			}
		}
		if em == nil || !promoted && (cm == nil || len(cm.Params) != 3) || len(em.Params) != 1 {
			return dbgFalse(5)
		}
		bind := func(mf *ssa.Function) *ir.Term {
			r := recv
			if _, isPtr := mf.Params[0].Type().Underlying().(*types.Pointer); !isPtr && r.Op == "alloc" {
				r = cp.End.MemAt(r)
			}
			return r
		}
		// Empty() = the constructor's first parameter
		ean := c.AnalyzeFrom(em, ir.NewRootState(em, []*ir.Term{bind(em)}, nil, cp.End), fmt.Sprintf("composed-monoid:%s:%d", cf.Name(), nPaths))
		eps := dropNilGuardPanics(ean.AllPaths())
		if len(ean.Problems) > 0 || len(eps) != 1 || eps[0].Exit != ir.ExitReturn || len(eps[0].Results) != 1 || len(calls(eps[0])) != 0 || !paramOf(eps[0].Results[0], cf, 0) {
			return dbgFalse(6)
		}
		if promoted {
			continue
		}
		// Combine(a, b) = one application of the second parameter to (a, b)
		man := c.AnalyzeFrom(cm, ir.NewRootState(cm, []*ir.Term{bind(cm)}, nil, cp.End), fmt.Sprintf("composed-monoid:%s:%d", cf.Name(), nPaths))
		mps := dropNilGuardPanics(man.AllPaths())
		if len(man.Problems) > 0 || len(mps) != 1 || mps[0].Exit != ir.ExitReturn || len(mps[0].Results) != 1 || len(nonLocalStores(mps[0])) != 0 {
			return dbgFalse(7)
		}
		cs := calls(mps[0])
		if len(cs) != 1 || !ir.Same(mps[0].Results[0], cs[0].R) {
			return dbgFalse(8)
		}
		st := cs[0]
		var args []*ir.Term
		switch {
		case st.Method != nil && st.Method.Name() == "Combine" && len(st.A) == 3 && paramOf(rootOf(st.A[0]), cf, 1):
			args = st.A[1:]
		case st.Method == nil && st.Callee != nil && paramOf(rootOf(st.Callee), cf, 1) && len(st.A) == 2:
			args = st.A
		default:
			return dbgFalse(9)
		}
		if !paramOf(args[0], cm, 1) || !paramOf(args[1], cm, 2) {
			return dbgFalse(10)
		}
	}
	if nPaths == 0 {
		return dbgFalse(11)
	}
	return true, fmt.Sprintf("%d constructor paths: Empty() = empty, Combine(a, b) = combine applied once to (a, b)", nPaths)
}


func dbgFalse(n int) (bool, string) {
	if os.Getenv("VERIF_DBG_C17") != "" {
		fmt.Fprintln(os.Stderr, "monoidComposed: exit", n)
	}
	return false, ""
}
