package rules

import (
	"fmt"
	"go/types"
	"strings"

	"golang.org/x/tools/go/ssa"

	"verif/checker/internal/core"
	"verif/checker/internal/ir"
)

func init() {
	register(&Pack{ID: "C10", Run: runC10, Meta: core.Meta{
		Level:       "other",
		Explanation: "Accumulator provenance and counting rules on fork.Fold (and pipe.Fold as the reference sibling). Worker: its accumulator cell is initialised by its own call of m.Empty(), becomes Combine(acc, x) exactly once per received element with the accumulator first, and on every exit the accumulator is sent exactly once on the partials channel before wg.Done. Collector: runs after wg.Wait, its accumulator starts from m.Empty() (every value reaching the first argument of Combine is Empty() or a previous Combine result), it combines exactly one received partial per iteration of a counted loop whose trip count is the worker-count parameter - the same value as wg.Add's argument, the spawn loop's trip count and the partials channel's capacity -, then sends the accumulator exactly once on the result channel (capacity >= 1) and closes it. With associativity/commutativity of the user's monoid (a premise) the combination of par partial folds from Empty() equals the sequential left fold; that step is a paper argument. The monoid handed to Fold is covered by the monoid rules of C17 (From/FromOp build {combine, empty}; Empty returns the stored element; Combine resolves to the stored semigroup).",
		RuleText:    "one obligation per rule on fork.Fold's worker / collector and on pipe.Fold",
		Assumptions: []string{"the monoid laws of the user's instance (associative, commutative, Empty is the identity)"},
		TrustedBase: []string{"go/ssa", "path engine P", "counted-loop recognition D-iv"},
	}})
}

func runC10(c *core.Ctx) {
	c.Doc("acc-provenance", 3, "every accumulator starts from the goroutine's own m.Empty() and is only updated by Combine(acc, _)")
	c.Doc("combine-once", 2, "worker: one Combine(acc, x) per element; collector: one Combine(acc, <-partials) per iteration")
	c.Doc("partials-count", 1, "collector trip count = spawn trip count = wg.Add argument = cap(partials) = par; each worker sends exactly one partial before Done")
	c.Doc("worker-local-state", 1, "the worker closure stores to no variable shared between workers")
	c.Doc("single-result", 1, "exactly one send on the result channel, then its close; capacity >= 1")

	// the monoid handed to Fold: From(e, op).Empty() is e, its Combine is op (shared with C17)
	c.Doc("monoid-literal", 2, "monoid.From/FromOp build {Semigroup: combine, empty: empty}")
	c.Doc("monoid-empty", 1, "Empty returns the stored element")
	c.Doc("monoid-combine-promoted", 1, "Combine resolves to the stored semigroup's Combine")
	monoidRules(c)

	// reference sibling
	if fn := c.W.Func("pipe", "Fold"); fn != nil {
		s := buildStage(c, "pipe", fn)
		if len(s.Problems) == 0 && len(s.Gos) == 1 && len(s.Gos[0].An.Headers) == 1 {
			g := s.Gos[0]
			if foldShape(c, "acc-provenance", "pipe.Fold", g, g.An.Headers[0], outChan(s, 0), true) {
				c.Ok("acc-provenance", "pipe.Fold", g.Fn.Pos(), "acc := Empty(); acc = Combine(acc, x); send(acc)")
			}
		} else {
			c.Undecided("acc-provenance", "pipe.Fold", fn.Pos(), "could not model pipe.Fold")
		}
	} else {
		c.Undecided("acc-provenance", "pipe.Fold", 0, "anchor not found")
	}

	fn := c.W.Func("pipe/fork", "Fold")
	if fn == nil {
		c.Undecided("acc-provenance", "fork.Fold", 0, "anchor not found")
		return
	}
	s := buildStage(c, "pipe/fork", fn)
	if len(s.Problems) > 0 {
		c.Undecided("acc-provenance", "fork.Fold", fn.Pos(), "engine could not model the stage: %s", strings.Join(s.Problems, "; "))
		return
	}
	w, closers := poolWorker(s)
	par := parParam(fn)
	if w == nil || len(closers) != 1 || par == nil || len(w.An.Headers) != 1 {
		c.Fail("partials-count", "fork.Fold", fn.Pos(), "expected one worker closure spawned in a loop, one collector goroutine and an int worker-count parameter")
		return
	}
	col := closers[0]
	result := outChan(s, 0)
	// partials channel: the made channel the worker sends on
	var vals *ir.Term
	for _, p := range w.An.AllPaths() {
		for _, e := range allSends(p) {
			if isMadeChan(e.ch) {
				if vals != nil && !ir.Same(vals, e.ch) {
					c.Fail("partials-count", "fork.Fold", e.step.Pos(), "the worker sends on more than one channel")
					return
				}
				vals = e.ch
			}
		}
	}
	if vals == nil || result == nil || ir.Same(vals, result) {
		c.Fail("partials-count", "fork.Fold", fn.Pos(), "no separate partials channel between workers and collector")
		return
	}
	// ---- worker
	if foldShapeX(c, "acc-provenance", "fork.Fold#worker", w, w.An.Headers[0], vals, false, true) {
		c.Ok("acc-provenance", "fork.Fold#worker", w.Fn.Pos(), "acc := Empty(); acc = Combine(acc, x); one send(partials, acc) on every exit")
		c.Ok("combine-once", "fork.Fold#worker", w.Fn.Pos(), "one Combine(acc, x) per received element")
	}
	workerLocalState(c, "fork.Fold", s, w)
	// "... and then closes its result channel": every made channel has one closer and is closed exactly once on every
	// exit (a second close panics after the value was delivered) - the ownership rules shared with C06 / C09
	c.Doc("single-closer", 2, "every made channel has exactly one closing goroutine")
	c.Doc("close-on-every-exit", 2, "the owner closes exactly once on every exit path, after its last send")
	c.Doc("no-send-after-close", 2, "every sender is the closer itself or is counted by the WaitGroup the closer waits for, with Done after its last send")
	stageLifecycleRules(c, s, lifecycleOpts{only: "closing"})
	// ---- collector
	collectorRules(c, s, col, w, vals, result, par)
}

func collectorRules(c *core.Ctx, s *Stage, col, w *Goroutine, vals, result *ir.Term, par *ssa.Parameter) {
	an := col.An
	if len(an.Headers) != 1 {
		c.Undecided("combine-once", "fork.Fold#collector", col.Fn.Pos(), "collector has %d loops, expected one", len(an.Headers))
		return
	}
	h := an.Headers[0]
	isPar := func(t *ir.Term) bool { return t != nil && t.Op == "param" && t.Src == ssa.Value(par) }
	loop := countedLoop(an, h)
	// the accumulator: the loop-carried value (phi) or cell that is sent on result
	var accPhi *ssa.Phi
	for _, in := range h.Instrs {
		if phi, ok := in.(*ssa.Phi); ok && (loop == nil || phi != loop.Phi) {
			if bt, isB := phi.Type().Underlying().(*types.Basic); isB && bt.Info()&types.IsInteger != 0 && loop == nil {
				continue // the counter of a loop form not recognised as counted
			}
			accPhi = phi
		}
	}
	var accQ Quantity
	switch {
	case accPhi != nil:
		accQ = PhiQuantity(an, h, accPhi, nil)
	default:
		// a cell: the variable captured by the loop body of a range-over-func, the field of a state object - found
		// as the first operand of Combine
		var addr *ir.Term
		for _, p := range an.Segs[h] {
			for _, st := range p.Events(ir.KCall) {
				if st.Method != nil && st.Method.Name() == "Combine" && len(st.A) == 3 && st.A[1].Op == "load" && len(st.A[1].Args) == 1 && cellAddr(st.A[1].Args[0]) {
					addr = st.A[1].Args[0]
				}
			}
		}
		if addr == nil {
			c.Undecided("acc-provenance", "fork.Fold#collector", col.Fn.Pos(), "no loop-carried accumulator found")
			return
		}
		accQ = CellQuantity(an, addr)
	}
	sym := accQ.StartSym(&ir.Path{From: h})
	okProv, okComb := true, true
	isEmpty := func(t *ir.Term) bool {
		m, _, args, isC := callParts(t)
		return isC && m == "Empty" && len(args) == 1 && args[0].Op == "param"
	}
	rotated := loop != nil && loop.Rotated()
	// exitRule: exactly one send of accVal on the result channel, then its close; capacity >= 1
	exitRule := func(p *ir.Path, accVal *ir.Term, isAcc func(*ir.Term) bool) {
		sends := allSends(p)
		n := 0
		sendIdx, closeIdx := -1, -1
		for i := range p.Steps {
			st := &p.Steps[i]
			if st.Kind == ir.KSend && ir.Same(st.A[0], result) {
				n++
				sendIdx = i
				if !(accVal != nil && ir.Same(st.A[1], accVal)) && !(isAcc != nil && isAcc(st.A[1])) {
					okProv = false
					c.Fail("single-result", "fork.Fold", st.Pos(), "the value sent on the result channel is %s, expected the collector's accumulator", short(st.A[1]))
				}
			}
			if st.Kind == ir.KClose && ir.Same(st.A[0], result) {
				closeIdx = i
			}
		}
		capOK := false
		if k, isK := chanCap(result).IntConst(); isK && k >= 1 {
			capOK = true
		}
		c.Check(n == 1 && len(sends) == 1 && closeIdx > sendIdx && capOK, "single-result", "fork.Fold", lastPos(p), "one send(result, acc), then close; cap >= 1",
			"the collector sends %d values on the result channel (want exactly 1, before its close, capacity >= 1; found capacity %s)", n, short(chanCap(result)))
	}
	for _, p := range an.Segs[nil] {
		if p.To == nil && p.Exit == ir.ExitPanic {
			// a path that dies delivers nothing; the engine has no counting argument over the workers that would show an
			// assertion such as `len(vals) != par` after wg.Wait() unreachable, so it is reported for what it is
			c.Fail("single-result", "fork.Fold#collector-panic", lastPos(p), "a path of the collector ends in an explicit panic before anything is delivered (its unreachability is not shown): no value, and the process dies")
			continue
		}
		v := accQ.ValueAt(p, len(p.Steps))
		if p.To == nil && rotated && p.Exit == ir.ExitReturn {
			// bottom-tested loop skipped (no partial expected): the result is the monoid's Empty() itself
			exitRule(p, nil, isEmpty)
		} else if p.To != h || !isEmpty(v) {
			okProv = false
			c.Fail("acc-provenance", "fork.Fold#collector", col.Fn.Pos(), "the collector's accumulator starts from %s, expected the monoid's Empty(): a monoid whose identity is not the zero value (product, min, and) yields a wrong result", short(v))
		}
		// wait first
		waited := false
		for i := range p.Steps {
			if isWgWait(&p.Steps[i]) {
				waited = true
			}
			if p.Steps[i].Kind == ir.KRecv && !waited {
				okComb = false
				c.Fail("partials-count", "fork.Fold", p.Steps[i].Pos(), "the collector receives before wg.Wait")
			}
		}
		if !waited {
			okComb = false
			c.Fail("partials-count", "fork.Fold", col.Fn.Pos(), "the collector does not wait for the workers")
		}
	}
	for _, p := range an.Segs[h] {
		if p.To == h || rotated && p.Exit == ir.ExitReturn {
			v := accQ.ValueAt(p, len(p.Steps))
			if p.To != h {
				// bottom-tested loop: the exit path carries the last iteration; its accumulator is what is sent
				for _, st := range p.Events(ir.KSend) {
					if ir.Same(st.A[0], result) {
						v = st.A[1]
					}
				}
			}
			recvs := p.Events(ir.KRecv)
			m, _, args, isC := callParts(v)
			isPartial := func(t *ir.Term) bool {
				return len(recvs) == 1 && (ir.Same(t, recvs[0].R) || t.Op == "extract" && t.Aux == "0" && len(t.Args) == 1 && ir.Same(t.Args[0], recvs[0].R))
			}
			good := isC && m == "Combine" && len(args) == 3 && len(recvs) == 1 && ir.Same(recvs[0].A[0], vals) &&
				(ir.Same(args[1], sym) && isPartial(args[2]) || ir.Same(args[2], sym) && isPartial(args[1])) // either order: the monoid is commutative (the property's premise)
			nComb := 0
			for _, st := range p.Events(ir.KCall) {
				if st.Method != nil && st.Method.Name() == "Combine" {
					nComb++
				}
			}
			if !good || nComb != 1 {
				okComb = false
				c.Fail("combine-once", "fork.Fold#collector", lastPos(p), "each iteration must set acc = Combine(acc, <-partials) exactly once; found acc' = %s with %d receives", short(v), len(recvs))
			}
			if p.To != h {
				exitRule(p, v, nil)
			}
		} else if p.Exit == ir.ExitReturn {
			exitRule(p, sym, nil)
		}
	}
	if okProv {
		c.Ok("acc-provenance", "fork.Fold#collector", col.Fn.Pos(), "acc := Empty(); acc = Combine(acc, <-partials)")
	}
	if okComb {
		c.Ok("combine-once", "fork.Fold#collector", col.Fn.Pos(), "one Combine per iteration")
	}
	// counts
	addWhy := "the collector does not wait for the workers"
	for _, p := range an.AllPaths() {
		for i := range p.Steps {
			if isWgWait(&p.Steps[i]) {
				_, addWhy = addAccounts(s.Outer, p.Steps[i].A[0], w, w.Trip)
			}
		}
	}
	why := ""
	// the collector may count par receives, or close the partials channel after wg.Wait and drain it: every worker
	// hands over exactly one partial before Done (checked below), so what the drain receives are exactly the par partials
	drains := false
	if loop == nil || !isPar(loop.Trip) {
		nRecv, allClosed := 0, true
		for _, p := range an.AllPaths() {
			for i := range p.Steps {
				st := &p.Steps[i]
				if st.Kind == ir.KRecv && ir.Same(st.A[0], vals) {
					nRecv++
					if !drainsByClose(an, st) {
						allClosed = false
					}
				}
			}
		}
		waitFirst := true
		for _, p := range an.AllPaths() {
			for i := range p.Steps {
				st := &p.Steps[i]
				if st.Kind == ir.KClose && ir.Same(st.A[0], vals) {
					if !precededOnPaths(an, st.Instr, isWgWait) {
						waitFirst = false
					}
				}
			}
		}
		drains = nRecv > 0 && allClosed && waitFirst
	}
	switch {
	case (loop == nil || !isPar(loop.Trip)) && !drains:
		t := "unknown"
		if loop != nil {
			t = short(loop.Trip)
		}
		why = "the collector's loop runs " + t + " times, expected exactly the worker-count parameter"
	case !isPar(w.Trip):
		why = "the spawn loop runs " + short(w.Trip) + " times, expected exactly the worker-count parameter"
	case addWhy != "":
		why = addWhy
	case !isPar(chanCap(vals)):
		why = "the partials channel's capacity is " + short(chanCap(vals)) + ", expected the worker-count parameter (each worker sends its partial with a plain send)"
	}
	if why == "" {
		// each worker sends exactly one partial on every exit, before Done (accountedReceive re-checks the ordering)
		var recvStep *ir.Step
		for _, p := range an.Segs[h] {
			for _, st := range p.Events(ir.KRecv) {
				recvStep = st
			}
		}
		if recvStep == nil {
			why = "collector never receives"
		} else {
			var colProc *proc
			for _, pr := range procsOf(s) {
				if pr.g == col {
					colProc = pr
				}
			}
			why = accountedReceive(s, colProc, recvStep)
		}
	}
	c.Check(why == "", "partials-count", "fork.Fold", col.Fn.Pos(), fmt.Sprintf("collector trips = spawn trips = wg.Add = cap(partials) = %s; one partial per worker before Done", par.Name()), "%s", why)
}
