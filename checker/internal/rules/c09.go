package rules

import (
	"fmt"
	"go/types"
	"strings"

	"golang.org/x/tools/go/ssa"

	"verif/checker/internal/core"
	"verif/checker/internal/ir"
	"verif/checker/internal/load"
)

func init() {
	register(&Pack{ID: "C09", Run: runC09, Meta: core.Meta{
		Level:       "other",
		Explanation: "For the seven parallel stages of package fork the worker closure and the closer goroutine are discovered from the go statements. The worker must satisfy the same per-iteration constraint as its pipe sibling (one rule template, two instances - sibling cross-check), receive from the shared input only through its one range loop (Go delivers each element to exactly one receiver), perform no store to a variable captured from the enclosing function (static form of 'no data race between workers': captured variables are only read, sent on, or are the WaitGroup), call wg.Done exactly once on every exit after its last send and last user call; wg.Add's argument, the spawn loop's trip count and the channel capacities accounted for plain sends are the same value par; every close of an output is dominated by wg.Wait in the single closer goroutine; the C06 rule set (cancellable blocking, loop exits, catch false exits, no panic source) holds for workers and closer. The delegating functions (Emit, Unfold, Join, Take, TakeWhile, Throttling, Seq, ToSeq, StdErr) must be pure forwarding calls to the pipe sibling with the arguments in order, and pipef() must map fail-fast to fail-fast and try to try. Completion orders, GOMAXPROCS and the race detector itself are dynamic and not decided.",
		RuleText:    "one obligation per (stage, rule) or (blocking site, rule); all stages of package fork enumerated",
		TrustedBase: []string{"go/ssa", "path engine P", "Go channel semantics: a value sent is received by exactly one receiver"},
	}})
}

// poolWorker returns the worker goroutine (spawned in the counted loop) of a fork stage.
func poolWorker(s *Stage) (worker *Goroutine, closers []*Goroutine) {
	for _, g := range s.Gos {
		if g.InLoop {
			if worker == nil {
				worker = g
			} else if worker.Fn != g.Fn {
				return nil, nil
			}
		} else {
			closers = append(closers, g)
		}
	}
	return
}

var forkParallel = []struct {
	name string
	iter func(c *core.Ctx, s *Stage, g *Goroutine, h *ssa.BasicBlock)
}{
	{"Map", iterMap}, {"FMap", iterFMap}, {"Filter", iterFilter}, {"Partition", iterPartition}, {"ForEach", iterForEach}, {"Void", iterVoid}, {"Fold", nil},
}

func runC09(c *core.Ctx) {
	c.Doc("stage-found", 7, "parallel stage constructors of package fork resolved")
	c.Doc("pool-shape", 7, "one worker closure spawned in a counted loop of trip count par, one closer goroutine")
	c.Doc("iteration", 6, "worker satisfies the per-iteration constraint of its pipe sibling")
	c.Doc("one-range-per-worker", 7, "the worker receives from the shared input at exactly one site, its range loop")
	c.Doc("worker-local-state", 7, "a concurrently started closure stores to no variable captured from the enclosing function")
	c.Doc("delegation", 9, "non-parallel fork functions forward to the pipe sibling, arguments in order")
	c.Doc("pipef-kind", 2, "pipef() maps fail-fast to pipe's fail-fast and try to pipe's try")
	c.Doc("cancellable-blocking", 14, "C06 rule on fork goroutines")
	c.Doc("no-send-after-close", 9, "closes are ordered after every worker's last send by the WaitGroup")

	for _, ps := range forkParallel {
		fn := c.W.Func("pipe/fork", ps.name)
		name := "fork." + ps.name
		if fn == nil {
			c.Undecided("stage-found", name, 0, "anchor not found")
			continue
		}
		s := buildStage(c, "pipe/fork", fn)
		if len(s.Problems) > 0 {
			c.Undecided("stage-found", name, fn.Pos(), "engine could not model the stage: %s", strings.Join(s.Problems, "; "))
			continue
		}
		c.Ok("stage-found", name, fn.Pos(), fmt.Sprintf("%d goroutine kinds", len(s.Gos)))
		w, closers := poolWorker(s)
		par := parParam(fn)
		if w == nil || len(closers) != 1 || par == nil {
			c.Fail("pool-shape", name, fn.Pos(), "expected one worker closure spawned in a loop, one closer goroutine and an int worker-count parameter (workers found=%v, closers=%d)", w != nil, len(closers))
			continue
		}
		if w.Trip == nil || !(w.Trip.Op == "param" && w.Trip.Src == ssa.Value(par)) {
			c.Fail("pool-shape", name, w.Spawn.Pos(), "the spawn loop's trip count is %s, expected exactly the worker-count parameter %s", short(w.Trip), par.Name())
		} else {
			c.Ok("pool-shape", name, w.Spawn.Pos(), "worker spawned par times; one closer")
		}
		if len(w.An.Headers) != 1 {
			c.Undecided("iteration", name, w.Fn.Pos(), "worker has %d loops, expected the single element loop", len(w.An.Headers))
			continue
		}
		h := w.An.Headers[0]
		if ps.iter != nil {
			ps.iter(c, s, w, h)
		}
		// a worker that meets a failing element hands it to catch and goes on with the next one when catch says so
		// (and leaves when it says stop): otherwise every failure takes a worker out of the pool and the rest of the
		// input is never read (shared with C07)
		if ps.name == "Map" || ps.name == "FMap" {
			if c.Rules["error-branch"] == nil {
				c.Doc("error-branch", 2, "on error: exactly one catch(ctx, err, exx), no output, no second Apply; false => exit, true => loop head")
			}
			errIdx := 1
			if ps.name == "FMap" {
				errIdx = -1
			}
			errorBranchRule(c, s, errIdx)
		}
		// every receive from the shared input feeds the element loop: it is a comma-ok receive whose ok is tested on
		// the same segment, or whose two results become the (element, ok) pair of the loop head (init / post
		// statement of `for x, ok := <-in; ok; x, ok = <-in`); nothing is received and dropped
		{
			rot := rotatedReceive(w.An, h)
			nSites := map[ssa.Instruction]bool{}
			bad := ""
			for _, p := range w.An.AllPaths() {
				for i := range p.Steps {
					st := &p.Steps[i]
					if st.Kind == ir.KSelect {
						for _, a := range st.Arms {
							if !a.Send && isInputChan(a.Chan) {
								bad = "the worker receives from the input in a select"
							}
						}
					}
					if st.Kind != ir.KRecv || !isInputChan(st.A[0]) {
						continue
					}
					nSites[st.Instr] = true
					if !st.CommaOk {
						bad = "the worker receives from the input without testing for its close"
						continue
					}
					tested := false
					for j := i + 1; j < len(p.Steps); j++ {
						b := &p.Steps[j]
						if b.Kind == ir.KBranch && b.Atom.Op == "extract" && b.Atom.Aux == "1" && ir.Same(b.Atom.Args[0], st.R) {
							tested = true
						}
					}
					feeds := false
					if rot != nil && p.To == h {
						okV := p.PhiOut[rot.ok]
						feeds = okV != nil && len(okV.Args) == 1 && ir.Same(okV.Args[0], st.R)
						if rot.x != nil {
							xV := p.PhiOut[rot.x]
							feeds = feeds && xV != nil && len(xV.Args) == 1 && ir.Same(xV.Args[0], st.R)
						}
					}
					if !tested && !feeds {
						bad = "a value received from the input is neither tested nor handed to the element loop (it is dropped)"
					}
				}
			}
			if len(nSites) == 0 {
				bad = "the worker never receives from the input"
			}
			c.Check(bad == "", "one-range-per-worker", name, w.Fn.Pos(), "every receive from the input feeds the worker's single element loop", "%s", bad)
		}
		workerLocalState(c, name, s, w)
		stageLifecycleRules(c, s, lifecycleOpts{})
		exxProvenance(c, "C09", s)
	}
	catchImplBlocking(c, "pipe/fork")

	// ---- delegations -----------------------------------------------------------
	for _, name := range []string{"Emit", "Unfold", "Join", "Take", "TakeWhile", "Throttling", "Seq", "ToSeq", "StdErr"} {
		delegation(c, name)
	}
	pipefKinds(c)
	// the closed-world catch implementations of the package: try hands the error off or gives up on cancellation and
	// answers accordingly, fail-fast sends once and answers false (shared with C06 / C07)
	catchImplBlocking(c, "pipe/fork")
	// ... and each exported constructor builds the kind it promises (Lift / Pure / LiftF stop at the first failure,
	// Try / TryF continue): a Try that answers "stop" takes a worker out of the pool per failure (shared with C07)
	ctorKinds(c, "pipe/fork")
}

func parParam(fn *ssa.Function) *ssa.Parameter {
	var par *ssa.Parameter
	for _, p := range fn.Params {
		if p.Type().String() == "int" {
			if par != nil {
				return nil
			}
			par = p
		}
	}
	return par
}

// workerLocalState: no store by a multiply-started closure into a cell owned by another function's frame.
func workerLocalState(c *core.Ctx, name string, s *Stage, w *Goroutine) {
	ok := true
	own := map[*ssa.Function]bool{}
	var addOwn func(f *ssa.Function)
	addOwn = func(f *ssa.Function) {
		own[f] = true
		for _, a := range f.AnonFuncs {
			addOwn(a)
		}
	}
	addOwn(w.Fn)
	for _, p := range w.An.AllPaths() {
		for _, st := range p.Events(ir.KStore, ir.KMapUpdate) {
			root := st.A[0]
			for root.Op == "faddr" || root.Op == "iaddr" {
				root = root.Args[0]
			}
			shared := false
			switch root.Op {
			case "alloc":
				shared = root.Owner != nil && !own[root.Owner] && !inlinedInto(root, w.Fn)
			case "free", "global", "param", "load":
				shared = true
			}
			if shared && ok {
				ok = false
				c.Fail("worker-local-state", name, st.Pos(), "the worker closure, started par times concurrently, stores to %s which lives outside the worker (a variable of the enclosing function shared by all workers): data race, elements can be lost or duplicated", short(st.A[0]))
			}
		}
	}
	if ok {
		c.Ok("worker-local-state", name, w.Fn.Pos(), "0 stores to captured variables")
	}
}

// inlinedInto: the alloc was created by a callee inlined while analysing fn (its frame id mentions fn's call site).
func inlinedInto(a *ir.Term, fn *ssa.Function) bool {
	return strings.Contains(a.Aux, "/"+ir.FuncName(fn)+"#")
}

func delegation(c *core.Ctx, name string) {
	fn := c.W.Func("pipe/fork", name)
	cname := "fork." + name
	if fn == nil {
		c.Undecided("delegation", cname, 0, "anchor not found")
		return
	}
	target := c.W.Func("pipe", name)
	if target == nil {
		c.Undecided("delegation", cname, fn.Pos(), "pipe sibling not found")
		return
	}
	// SSA-level: exactly one call, to the sibling, arguments are the parameters in order
	// (an F parameter goes through its pipef() conversion)
	var callsFound []*ssa.Call
	other := 0
	for _, b := range fn.Blocks {
		for _, in := range b.Instrs {
			switch x := in.(type) {
			case *ssa.Call:
				if x.Call.IsInvoke() && sigIsPipeConv(x.Call.Method) {
					continue
				}
				callsFound = append(callsFound, x)
			case *ssa.Go, *ssa.Defer, *ssa.Send, *ssa.Select, *ssa.MakeChan, *ssa.Store, *ssa.If:
				other++
			}
		}
	}
	if len(callsFound) != 1 || other != 0 || len(fn.Blocks) != 1 {
		c.Fail("delegation", cname, fn.Pos(), "not a pure forwarding function (%d calls, %d other effects)", len(callsFound), other)
		return
	}
	call := callsFound[0]
	callee := call.Call.StaticCallee()
	if callee != nil && callee.Origin() != nil {
		callee = callee.Origin()
	}
	if callee != target {
		c.Fail("delegation", cname, call.Pos(), "forwards to %v, expected pipe.%s", callee, name)
		return
	}
	ok := len(call.Call.Args) == len(fn.Params)
	why := "argument count differs"
	for i := 0; ok && i < len(fn.Params); i++ {
		a := call.Call.Args[i]
		// strip conversions
		for {
			if ct, isCT := a.(*ssa.ChangeType); isCT {
				a = ct.X
				continue
			}
			break
		}
		if a == ssa.Value(fn.Params[i]) {
			continue
		}
		if pc, isCall := a.(*ssa.Call); isCall && pc.Call.IsInvoke() && sigIsPipeConv(pc.Call.Method) && pc.Call.Value == ssa.Value(fn.Params[i]) {
			continue
		}
		ok = false
		why = fmt.Sprintf("argument %d is not parameter %s", i+1, fn.Params[i].Name())
	}
	// result returned unchanged
	if ok {
		ret, isRet := fn.Blocks[0].Instrs[len(fn.Blocks[0].Instrs)-1].(*ssa.Return)
		if !isRet {
			ok, why = false, "no return"
		} else {
			for i, r := range ret.Results {
				if len(ret.Results) == 1 {
					if r != ssa.Value(call) {
						ok, why = false, "result not returned unchanged"
					}
				} else if ex, isEx := r.(*ssa.Extract); !isEx || ex.Tuple != ssa.Value(call) || ex.Index != i {
					ok, why = false, "results not returned in order"
				}
			}
		}
	}
	c.Check(ok, "delegation", cname, fn.Pos(), "return pipe."+name+"(args in order)", "%s", why)
}

func pipefKinds(c *core.Ctx) {
	pipeKinds := map[*ssa.Function]string{} // pipe constructor -> kind
	byType := map[string]*catchImpl{}
	for _, ci := range catchImpls(c, "pipe") {
		byType[ci.TypeName] = ci
	}
	for _, n := range []string{"Lift", "Try", "Pure", "LiftF", "TryF"} {
		if fn := c.W.Func("pipe", n); fn != nil {
			if ci := byType["pipe."+constructedType(fn)]; ci != nil {
				pipeKinds[fn] = ci.Kind
			}
		}
	}
	for _, ci := range catchImpls(c, "pipe/fork") {
		// the conversion method of this kind: recognised by its signature () pipe.F[...]
		var m *ssa.Function
		if ci.Named != nil {
			for i := 0; i < ci.Named.NumMethods(); i++ {
				if mf := ci.Named.Method(i); sigIsPipeConv(mf) {
					m = c.W.Prog.FuncValue(mf)
				}
			}
		}
		if m == nil {
			continue // FF kinds have no conversion
		}
		name := ci.TypeName + ".pipef"
		kind := ""
		for _, b := range m.Blocks {
			for _, in := range b.Instrs {
				if call, ok := in.(*ssa.Call); ok {
					callee := call.Call.StaticCallee()
					if callee != nil && callee.Origin() != nil {
						callee = callee.Origin()
					}
					if k, ok := pipeKinds[callee]; ok {
						kind = k
					}
				}
			}
		}
		c.Check(kind == ci.Kind && kind != "", "pipef-kind", name, m.Pos(), fmt.Sprintf("%s -> pipe %s", ci.Kind, kind), "fork kind %q is converted to pipe kind %q", ci.Kind, kind)
	}
}

// sigIsPipeConv: a parameterless method whose single result is one of package pipe's function interfaces - the
// role of the conversion of a fork function into its pipe sibling (recognised by signature, not by name).
func sigIsPipeConv(m *types.Func) bool {
	if m == nil {
		return false
	}
	sig, ok := m.Type().(*types.Signature)
	if !ok || sig.Params().Len() != 0 || sig.Results().Len() != 1 {
		return false
	}
	nt, ok := sig.Results().At(0).Type().(*types.Named)
	if !ok || nt.Obj().Pkg() == nil || !types.IsInterface(nt) {
		return false
	}
	return load.Logical(nt.Obj().Pkg().Path()) == "pipe"
}
