package rules

import (
	"fmt"
	"go/types"
	"strings"

	"golang.org/x/tools/go/ssa"

	"verif/checker/internal/core"
	"verif/checker/internal/ir"
)

// lookupDiscipline recognises the append / unit disciplines written as *lookup, then update*:
//
//	ctx := f.innermost()          // nil when f is closed, else the innermost open context
//	if ctx == nil { return false }
//	<effect on ctx>; return true
//
// with a self-recursive lookup  innermost: closed => nil; empty => f; last child a nested sequence => what the child
// answers unless that is nil; else f.  It is the recursive discipline with the effect moved behind the walk: the walk
// finds exactly the context on which the recursive form performs its effect (the deepest open context along the chain
// of last children), so the two agree on every tree.  handled = false when fn is not of this form.
func lookupDiscipline(c *core.Ctx, fn *ssa.Function, effect string) (handled bool, why string) {
	an := c.AnalyzeKeeping(fn, "lookup-core", selfRecursive)
	if len(an.Problems) > 0 {
		return false, ""
	}
	var look *ssa.Function
	var lookR *ir.Term
	for _, p := range an.AllPaths() {
		for _, st := range p.Events(ir.KCall) {
			if st.Static == nil || !selfRecursive(originOf(st.Static)) {
				continue
			}
			g := originOf(st.Static)
			if look != nil && (look != g || !ir.Same(lookR, st.R)) {
				return false, ""
			}
			if len(st.A) != 1 || !paramOf(st.A[0], fn, 0) {
				return false, ""
			}
			look, lookR = g, st.R
		}
	}
	if look == nil || len(look.Params) != 1 || !types.Identical(look.Params[0].Type(), fn.Params[0].Type()) ||
		look.Signature.Results().Len() != 1 || !types.Identical(look.Signature.Results().At(0).Type(), fn.Params[0].Type()) {
		return false, ""
	}
	if w := lookupWalk(c, look); w != "" {
		return true, "the lookup " + ir.FuncName(look) + ": " + w
	}
	// the update
	isNilAtom := &ir.Term{Op: "bin", Aux: "==", Args: sorted2(ir.Nil, lookR)}
	sawRefuse, sawEffect, sawRootKeep := false, false, false
	for _, p := range an.AllPaths() {
		rv, isRet := retBool(p)
		if !isRet {
			return true, "a path does not return a constant"
		}
		n := 0
		for _, st := range p.Events(ir.KCall) {
			if st.Static != nil && originOf(st.Static) == look {
				n++
			}
		}
		if n != 1 {
			return true, fmt.Sprintf("a path looks the context up %d times (want once)", n)
		}
		stores := nonLocalStores(p)
		switch polarity(p, isNilAtom) {
		case 0:
			return true, "a path does not test whether an open context was found"
		case 1:
			sawRefuse = true
			if rv || len(stores) != 0 {
				return true, "a closed sequence must refuse (false) without mutation"
			}
			continue
		}
		if !rv {
			return true, "an open context was found but the answer is false"
		}
		switch effect {
		case "append":
			if len(stores) != 1 {
				return true, fmt.Sprintf("an accepting path performs %d stores (want exactly one append on the context found)", len(stores))
			}
			st := stores[0]
			seqOf := &ir.Term{Op: "load", Aux: "0", Args: []*ir.Term{{Op: "faddr", Aux: "Seq", Args: []*ir.Term{lookR}}}}
			good := st.A[0].Op == "faddr" && st.A[0].Aux == "Seq" && ir.Same(st.A[0].Args[0], lookR) && st.A[1].Op == "append" && ir.Same(st.A[1].Args[0], seqOf)
			if good {
				x := appendedOne(p, st.A[1].Args[1])
				good = x != nil && paramOf(x, fn, 1)
			}
			if !good {
				return true, "the effect is not ctx.Seq = append(ctx.Seq, n) on the context found, with the given node"
			}
			sawEffect = true
		case "unit":
			rootAtom := &ir.Term{Op: "load", Aux: "0", Args: []*ir.Term{{Op: "faddr", Aux: "Root", Args: []*ir.Term{lookR}}}}
			switch polarity(p, rootAtom) {
			case 0:
				return true, "the context found is closed (or not) without testing whether it is the root"
			case 1:
				sawRootKeep = true
				if len(stores) != 0 {
					return true, "the root context is modified (it never closes)"
				}
			default:
				good := len(stores) == 1 && stores[0].A[0].Op == "faddr" && stores[0].A[0].Aux == "Deferred" && ir.Same(stores[0].A[0].Args[0], lookR) &&
					stores[0].A[1].IsConst() && stores[0].A[1].Aux == "false"
				if !good {
					return true, "a non-root context found must be closed (Deferred = false) and nothing else changed"
				}
				sawEffect = true
			}
		}
	}
	if !sawRefuse || !sawEffect || effect == "unit" && !sawRootKeep {
		return true, fmt.Sprintf("not all cases of the discipline are present (refuse=%v effect=%v root-kept=%v)", sawRefuse, sawEffect, sawRootKeep)
	}
	return true, ""
}

// lookupWalk decides the recursive lookup g: (*AstSeq) -> *AstSeq.
func lookupWalk(c *core.Ctx, g *ssa.Function) string {
	an := c.Analyze(g)
	if len(an.Problems) > 0 {
		return "could not be modelled: " + strings.Join(an.Problems, "; ")
	}
	sawNil, sawSelf, sawChild, sawFallback := false, false, false, false
	for _, p := range an.AllPaths() {
		if p.Exit != ir.ExitReturn || len(p.Results) != 1 {
			return "a path does not return"
		}
		if len(nonLocalStores(p)) != 0 {
			return "the lookup modifies the tree"
		}
		r := p.Results[0]
		var rec []*ir.Step
		for _, st := range p.Events(ir.KCall) {
			if st.Static != nil && originOf(st.Static) == g {
				rec = append(rec, st)
			} else {
				return "the lookup calls " + st.String()
			}
		}
		switch polarity(p, deferredAtom(g)) {
		case 0:
			return "a path does not test whether the sequence is still open"
		case -1:
			if !r.IsNil() || len(rec) != 0 {
				return "a closed sequence must answer nil without looking further"
			}
			sawNil = true
			continue
		}
		if len(rec) > 1 {
			return "more than one descent on a path"
		}
		if st := lastChildWithoutGuard(p, g); st != nil {
			return "the last child is read although the child list may be empty (index -1)"
		}
		lastIsSeq := 0
		for _, s := range p.Events(ir.KBranch) {
			if s.Atom.Op == "extract" && s.Atom.Aux == "1" && s.Atom.Args[0].Op == "tassert" {
				lastIsSeq = polInt(s.Pol)
			}
		}
		if len(rec) == 1 {
			if !isLastChildAssert(rec[0].A[0], g) {
				return "the descent does not go to the last child, asserted to be a nested sequence"
			}
			switch polarity(p, &ir.Term{Op: "bin", Aux: "==", Args: sorted2(ir.Nil, rec[0].R)}) {
			case 0:
				return "the child's answer is not tested"
			case -1:
				if !ir.Same(r, rec[0].R) {
					return "an open context found below is not handed up"
				}
				sawChild = true
			default:
				if !paramOf(r, g, 0) {
					return "with the last child closed the sequence itself is the innermost open context"
				}
				sawFallback = true
			}
			continue
		}
		if lastIsSeq > 0 {
			return "the last child is a nested sequence but it is not asked first"
		}
		if lastIsSeq == 0 && !emptyKnown(p, g) {
			return "the sequence answers itself without having looked at its last child"
		}
		if !paramOf(r, g, 0) {
			return "an open sequence without an open nested last child must answer itself"
		}
		sawSelf = true
	}
	if !sawNil || !sawSelf || !sawChild || !sawFallback {
		return fmt.Sprintf("not all cases of the walk are present (closed=%v self=%v child=%v fallback=%v)", sawNil, sawSelf, sawChild, sawFallback)
	}
	return ""
}
