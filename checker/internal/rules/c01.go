package rules

import (
	"fmt"
	"go/types"
	"sort"
	"strings"

	"golang.org/x/tools/go/ssa"

	"verif/checker/internal/core"
	"verif/checker/internal/ir"
	"verif/checker/internal/load"
)

func init() {
	register(&Pack{ID: "C01", Run: runC01, Meta: core.Meta{
		Level:       "other",
		Explanation: "What decides which bytes a lens touches is one address expression and one pair of numbers, all visible in the code. addr-term: every dereference of a pointer converted from unsafe.Pointer in package optics has the normalised address term uintptr(unsafe.Pointer(BASE)) + L.Type.StructField.Offset + L.Type.RootOffs (sum flattened and sorted) with L the method receiver and BASE the container pointer (the *S parameter, or the result of the successful s.(*S) assertion), typed *A for the lens' focus type parameter; the four methods agree (sibling cross-check); Put/Putt perform exactly one store, of parameter a, through that pointer and return the container argument unchanged, Get/Gett store nothing; unsafe-census: every unsafe.Pointer conversion in every loaded package sits in one of those address terms; offs-writers/offs-term: the only writers of hseq.Type.RootOffs / StructField are the composite literals of the unfolding function hseq.New calls with offset 0, where RootOffs is the offset parameter, StructField is cat.Field(i) and the recursion passes offset + cat.Field(i).Offset for the same i; pairing: ForProductN/ForSpectrumN/NewN/FMapN are positionally consistent on type arguments and constant indices. Paper: RootOffs+Offset is the sum of reflect offsets along a chain of value-embedded structs = the compiler's byte offset; a typed store through *A writes sizeof(A) bytes there; A = field type by the guard (C02) => GetPut/PutGet/PutPut and neighbours untouched for every layout. The reflect layout contract and field values are not decided. Thorough tier repeats the rules under GOARCH=386 and arm64. Selection by names keeps the requested order and never falls back to the declaration order (names-order, shared with C03). unfold-pure: what hseq.New reaches touches package state only read-only, as a lock, or as a memo obeying the memo discipline (one-argument function, entry written under its unmodified parameter holding exactly the returned value) - shared with C02 and C03.",
		RuleText:    "one obligation per (rule, method / constructor / literal / call site)",
		Assumptions: []string{"hseq.Type values reaching optics were produced by hseq (clients can forge the public struct; all writers inside the repository are enumerated)", "reflect reports true field offsets"},
		TrustedBase: []string{"go/types", "go/ssa", "term normaliser T", "reflect's layout data"},
	}})
}

// unsafeDerefs collects the address terms  conv[*X](conv[unsafe.Pointer](SUM))  occurring in a path.
func unsafeDerefs(p *ir.Path) []*ir.Term {
	seen := map[string]bool{}
	var out []*ir.Term
	visit := func(t *ir.Term) {
		t.Walk(func(x *ir.Term) {
			if x.Op == "conv" && strings.HasPrefix(x.Aux, "*") && len(x.Args) == 1 && x.Args[0].Op == "conv" && x.Args[0].Aux == "unsafe.Pointer" {
				if !seen[x.Key()] {
					seen[x.Key()] = true
					out = append(out, x)
				}
			}
		})
	}
	for i := range p.Steps {
		for _, a := range p.Steps[i].A {
			visit(a)
		}
		if p.Steps[i].R != nil {
			visit(p.Steps[i].R)
		}
	}
	for _, r := range p.Results {
		visit(r)
	}
	return out
}

// lensAddr decomposes an address term; returns base, and whether offset/rootoffs components are exactly right.
func lensAddr(t *ir.Term, recv *ir.Term) (base *ir.Term, why string) {
	base, _, why = lensAddrDisp(t, recv, "")
	return base, why
}

// lensAddrDisp: as lensAddr; when dispField names an integer field of the lens itself, the address may instead be
// base + L.<dispField> (the sum Offset + RootOffs computed once, at construction - checked at its writers); usedDisp
// tells which form was found.
func lensAddrDisp(t *ir.Term, recv *ir.Term, dispField string) (base *ir.Term, usedDisp bool, why string) {
	b, w := lensAddrSum(t, recv, dispField, &usedDisp)
	return b, usedDisp, w
}

func lensAddrSum(t *ir.Term, recv *ir.Term, dispField string, usedDisp *bool) (base *ir.Term, why string) {
	sum := t.Args[0].Args[0]
	if sum.Op != "bin" || sum.Aux != "+" {
		return nil, "address is not a sum: " + short(sum)
	}
	var nOff, nRoot, nDisp int
	for _, op := range sum.Args {
		switch {
		case dispField != "" && op.Op == "load" && op.Args[0].Op == "faddr" && op.Args[0].Aux == dispField && ir.Same(op.Args[0].Args[0], recv):
			nDisp++
		case op.Op == "conv" && op.Aux == "uintptr" && len(op.Args) == 1 && op.Args[0].Op == "conv" && op.Args[0].Aux == "unsafe.Pointer":
			if base != nil {
				return nil, "two base pointers in the address"
			}
			base = op.Args[0].Args[0]
		case op.Op == "load" && op.Args[0].Op == "faddr" && op.Args[0].Aux == "Offset":
			// L.Type.StructField.Offset
			x := op.Args[0].Args[0]
			if !(x.Op == "faddr" && x.Aux == "StructField" && x.Args[0].Op == "faddr" && ir.Same(x.Args[0].Args[0], recv)) {
				return nil, "Offset is not read from the receiver's own hseq.Type: " + short(op)
			}
			nOff++
		case op.Op == "load" && op.Args[0].Op == "faddr" && op.Args[0].Aux == "RootOffs":
			x := op.Args[0].Args[0]
			if !(x.Op == "faddr" && ir.Same(x.Args[0], recv)) {
				return nil, "RootOffs is not read from the receiver's own hseq.Type: " + short(op)
			}
			nRoot++
		default:
			return nil, "unexpected summand " + short(op)
		}
	}
	if base != nil && nDisp == 1 && nOff == 0 && nRoot == 0 {
		*usedDisp = true
		return base, ""
	}
	if base == nil || nOff != 1 || nRoot != 1 || nDisp != 0 {
		return nil, fmt.Sprintf("address must be base + Offset + RootOffs, each exactly once (base=%v, Offset x%d, RootOffs x%d)", base != nil, nOff, nRoot)
	}
	return base, ""
}

// lensDispField: the single integer-typed field of the lens struct (a displacement cached at construction), "" if
// the lens has none.
func lensDispField(nt *types.Named) string {
	st, ok := nt.Underlying().(*types.Struct)
	if !ok {
		return ""
	}
	name, n := "", 0
	for i := 0; i < st.NumFields(); i++ {
		if b, isB := st.Field(i).Type().Underlying().(*types.Basic); isB && b.Info()&types.IsInteger != 0 && !st.Field(i).Embedded() {
			name = st.Field(i).Name()
			n++
		}
	}
	if n != 1 {
		return ""
	}
	return name
}

// lensDispWriters: every store into the displacement field of a lens writes Offset + RootOffs of the hseq.Type that
// the same lens object holds. Returns the number of writers and "" when they all do.
func lensDispWriters(c *core.Ctx, nt *types.Named, dispField string) (int, string) {
	st := nt.Underlying().(*types.Struct)
	typeField := ""
	for i := 0; i < st.NumFields(); i++ {
		if ft, ok := st.Field(i).Type().(*types.Named); ok && ft.Origin().Obj().Name() == "Type" && ft.Obj().Pkg() != nil && load.Logical(ft.Obj().Pkg().Path()) == "hseq" {
			typeField = st.Field(i).Name()
		}
	}
	if typeField == "" {
		return 0, "the lens holds no hseq.Type"
	}
	n := 0
	for _, pkg := range c.W.AllLogical() {
		for _, fn := range c.W.SourceFuncs(pkg) {
			writes := false
			for _, b := range fn.Blocks {
				for _, in := range b.Instrs {
					fa, ok := in.(*ssa.FieldAddr)
					if !ok || fa.Referrers() == nil {
						continue
					}
					pt, _ := fa.X.Type().Underlying().(*types.Pointer)
					if pt == nil {
						continue
					}
					xt, _ := pt.Elem().(*types.Named)
					if xt == nil || xt.Origin() != nt || fieldNameOf(fa) != dispField {
						continue
					}
					for _, r := range *fa.Referrers() {
						if sto, isSt := r.(*ssa.Store); isSt && sto.Addr == ssa.Value(fa) {
							writes = true
						}
					}
				}
			}
			if !writes {
				continue
			}
			an := c.Analyze(fn)
			if len(an.Problems) > 0 {
				return n, "a writer of the displacement could not be modelled: " + ir.FuncName(fn)
			}
			for _, p := range an.AllPaths() {
				for _, stp := range p.Events(ir.KStore) {
					a := stp.A[0]
					if a.Op != "faddr" || a.Aux != dispField {
						continue
					}
					n++
					obj := a.Args[0]
					v := p.End.MemAt(&ir.Term{Op: "faddr", Aux: typeField, Args: []*ir.Term{obj}})
					if v == nil {
						return n, "the lens whose displacement is written holds no descriptor on that path (" + ir.FuncName(fn) + ")"
					}
					wantOff := ir.FieldOf(ir.FieldOf(v, "StructField"), "Offset")
					wantRoot := ir.FieldOf(v, "RootOffs")
					val := stp.A[1]
					good := val.Op == "bin" && val.Aux == "+" && len(val.Args) == 2 &&
						(ir.Same(val.Args[0], wantOff) && ir.Same(val.Args[1], wantRoot) || ir.Same(val.Args[1], wantOff) && ir.Same(val.Args[0], wantRoot))
					if !good {
						return n, fmt.Sprintf("%s stores %s as the displacement, expected Offset + RootOffs of the descriptor the same lens holds", ir.FuncName(fn), short(val))
					}
				}
			}
		}
	}
	if n == 0 {
		return 0, "the displacement field is never written"
	}
	return n, ""
}

// lensType finds the concrete type NewLens constructs.
func lensType(c *core.Ctx) *types.Named {
	fn := c.W.Func("optics", "NewLens")
	if fn == nil {
		return nil
	}
	for _, b := range fn.Blocks {
		for _, in := range b.Instrs {
			if mi, ok := in.(*ssa.MakeInterface); ok {
				t := mi.X.Type()
				if p, ok := t.(*types.Pointer); ok {
					t = p.Elem()
				}
				if nt, ok := t.(*types.Named); ok {
					return nt.Origin()
				}
			}
		}
	}
	return nil
}

func methodsOf(c *core.Ctx, nt *types.Named) map[string]*ssa.Function {
	out := map[string]*ssa.Function{}
	for i := 0; i < nt.NumMethods(); i++ {
		m := nt.Method(i)
		if f := c.W.Prog.FuncValue(m); f != nil {
			out[m.Name()] = f
		}
	}
	return out
}

// sameTypeParamOf: a and b denote the same type - identical, or the same-index receiver type parameter of two
// methods of the generic type nt (every method declares its own copies of the receiver's type parameters).
func sameTypeParamOf(nt *types.Named, a, b types.Type) bool {
	if types.Identical(a, b) {
		return true
	}
	ta, ok1 := a.(*types.TypeParam)
	tb, ok2 := b.(*types.TypeParam)
	if !ok1 || !ok2 || ta.Index() != tb.Index() {
		return false
	}
	isRecvTP := func(tp *types.TypeParam) bool {
		if tps := nt.TypeParams(); tps != nil {
			for i := 0; i < tps.Len(); i++ {
				if tps.At(i) == tp {
					return true
				}
			}
		}
		for i := 0; i < nt.NumMethods(); i++ {
			sig, _ := nt.Method(i).Type().(*types.Signature)
			if sig == nil || sig.RecvTypeParams() == nil {
				continue
			}
			for j := 0; j < sig.RecvTypeParams().Len(); j++ {
				if sig.RecvTypeParams().At(j) == tp {
					return true
				}
			}
		}
		return false
	}
	return isRecvTP(ta) && isRecvTP(tb)
}

func originOf(f *ssa.Function) *ssa.Function {
	if f == nil {
		return nil
	}
	if o := f.Origin(); o != nil {
		return o
	}
	return f
}

// addressHelpers: functions containing unsafe.Pointer conversions that are referenced only as the static callee
// of plain calls inside checked functions (transitively); a method value, a go/defer, an interface method of the
// same name or a call from anywhere else leaves the helper uncovered.
// isUnsafeBuiltin: a call of unsafe.Add / Slice / SliceData / String / StringData.
func isUnsafeBuiltin(call *ssa.Call) bool {
	b, ok := call.Call.Value.(*ssa.Builtin)
	if !ok {
		return false
	}
	switch b.Name() {
	case "Add", "Slice", "SliceData", "String", "StringData":
		return true
	}
	return false
}

func addressHelpers(c *core.Ctx, checked map[*ssa.Function]bool) []*ssa.Function {
	return coveredHelpers(c, checked, func(fn *ssa.Function) bool {
		for _, b := range fn.Blocks {
			for _, in := range b.Instrs {
				if call, isCall := in.(*ssa.Call); isCall && isUnsafeBuiltin(call) {
					return true
				}
				if cv, ok := in.(*ssa.Convert); ok && (isUnsafePtr(cv.Type()) || isUnsafePtr(cv.X.Type())) {
					return true
				}
			}
		}
		return false
	})
}

// coveredHelpers: candidate functions (isCand) outside the checked set that are referenced only as the static callee
// of plain calls inside checked functions or other covered helpers (to a fixpoint), are unexported and are not
// reachable through an interface method of the same name.
func coveredHelpers(c *core.Ctx, checked map[*ssa.Function]bool, isCand func(*ssa.Function) bool) []*ssa.Function {
	type ref struct {
		in    *ssa.Function
		plain bool
	}
	refs := map[*ssa.Function][]ref{}
	invoked := map[string]bool{}
	var cands []*ssa.Function
	for _, pkg := range c.W.AllLogical() {
		for _, fn := range c.W.SourceFuncs(pkg) {
			for _, b := range fn.Blocks {
				for _, in := range b.Instrs {
					var callee ssa.Value
					if ci, ok := in.(ssa.CallInstruction); ok {
						cc := ci.Common()
						if cc.IsInvoke() {
							invoked[cc.Method.Name()] = true
						} else {
							callee = cc.Value
							if f, isF := callee.(*ssa.Function); isF {
								_, isCall := in.(*ssa.Call)
								refs[originOf(f)] = append(refs[originOf(f)], ref{fn, isCall})
							}
						}
					}
					for _, op := range in.Operands(nil) {
						if op == nil || *op == nil || *op == callee {
							continue
						}
						if f, isF := (*op).(*ssa.Function); isF {
							g := originOf(f)
							if f.Synthetic != "" && f.Object() != nil {
								if of, ok := f.Object().(*types.Func); ok {
									if og := c.W.Prog.FuncValue(of.Origin()); og != nil {
										g = og
									}
								}
							}
							refs[g] = append(refs[g], ref{fn, false})
						}
					}
				}
			}
			if !checked[fn] && isCand(fn) {
				cands = append(cands, fn)
			}
		}
	}
	covered := map[*ssa.Function]bool{}
	for changed := true; changed; {
		changed = false
		// (a helper may be reached through helpers that are no candidates themselves: coverage is decided for every
		// referenced function, and reported for the candidates)
		var all []*ssa.Function
		for g := range refs {
			all = append(all, g)
		}
		sort.Slice(all, func(i, j int) bool { return all[i].Pos() < all[j].Pos() })
		for _, g := range all {
			if covered[g] || checked[g] || len(refs[g]) == 0 || invoked[g.Name()] || g.Object() == nil || g.Object().Exported() {
				continue
			}
			all := true
			for _, r := range refs[g] {
				if !r.plain || !(checked[r.in] || covered[r.in]) {
					all = false
				}
			}
			if all {
				covered[g] = true
				changed = true
			}
		}
	}
	var out []*ssa.Function
	for _, g := range cands {
		if covered[g] {
			out = append(out, g)
		}
	}
	return out
}

// lensAccessorRules: the address term and the effect of the four accessor methods (shared by C01 and C02, whose
// "reads and writes stay inside that field" is the same mechanism). Returns the analysed accessor functions.
func lensAccessorRules(c *core.Ctx) map[*ssa.Function]bool {
	checked := map[*ssa.Function]bool{}
	nt := lensType(c)
	if nt == nil {
		c.Undecided("addr-term", "optics.lens", 0, "cannot discover the concrete lens type from NewLens")
		return nil
	}
	ms := methodsOf(c, nt)
	norm := map[string]string{}
	dispField := lensDispField(nt)
	usedDisp := false
	for _, mn := range []string{"Get", "Put", "Gett", "Putt"} {
		fn := ms[mn]
		name := "optics." + nt.Obj().Name() + "." + mn
		if fn == nil {
			c.Undecided("addr-term", name, 0, "method not found")
			continue
		}
		an := c.Analyze(fn)
		if problems(c, "addr-term", name, an) {
			continue
		}
		checked[fn] = true
		recv := &ir.Term{Op: "param", Aux: fn.Params[0].Name()}
		isWrite := mn == "Put" || mn == "Putt"
		dyn := mn == "Gett" || mn == "Putt"
		okAddr, okEff := true, true
		nDeref := 0
		for _, p := range an.AllPaths() {
			ds := unsafeDerefs(p)
			if p.Exit == ir.ExitPanic {
				if len(ds) != 0 || len(nonLocalStores(p)) != 0 {
					okEff = false
					c.Fail(effRule(isWrite), name, lastPos(p), "a panicking path touches memory through the unsafe pointer")
				}
				continue
			}
			if len(ds) != 1 {
				okAddr = false
				c.Fail("addr-term", name, fn.Pos(), "a returning path has %d unsafe dereference terms (want exactly 1)", len(ds))
				continue
			}
			nDeref++
			d := ds[0]
			base, viaDisp, why := lensAddrDisp(d, recv, dispField)
			if viaDisp {
				usedDisp = true
			}
			if why != "" {
				okAddr = false
				c.Fail("addr-term", name, fn.Pos(), "%s", why)
				continue
			}
			// pointer type *A with A the focus type parameter
			pt, _ := d.Typ.(*types.Pointer)
			if pt == nil {
				okAddr = false
				c.Fail("addr-term", name, fn.Pos(), "dereferenced pointer has no pointer type")
				continue
			}
			if _, isTP := pt.Elem().(*types.TypeParam); !isTP {
				okAddr = false
				c.Fail("addr-term", name, fn.Pos(), "the unsafe pointer is typed %s, expected a pointer to the focus type parameter", pt)
			}
			// base
			if !dyn {
				if !paramOf(base, fn, 1) {
					okAddr = false
					c.Fail("addr-term", name, fn.Pos(), "the base of the address is %s, expected the container pointer parameter", short(base))
				}
			} else {
				okBase := base.Op == "extract" && base.Aux == "0" && base.Args[0].Op == "tassert" && paramOf(base.Args[0].Args[0], fn, 1)
				if okBase {
					okBase = polarity(p, &ir.Term{Op: "extract", Aux: "1", Args: []*ir.Term{base.Args[0]}}) > 0
					// asserted type must be *S
					at, _ := base.Args[0].Typ.(*types.Pointer)
					if at == nil {
						okBase = false
					} else if _, isTP := at.Elem().(*types.TypeParam); !isTP {
						okBase = false
					}
				}
				if !okBase {
					okAddr = false
					c.Fail("addr-term", name, fn.Pos(), "the base of the address is %s, expected the value of a successful s.(*S) assertion of the argument", short(base))
				}
			}
			// normalised form for sibling agreement (base replaced)
			norm[mn] = strings.ReplaceAll(d.Key(), base.Key(), "BASE")
			// ... and the receiver, whatever each method calls it
			if len(fn.Params) > 0 {
				recv := &ir.Term{Op: "param", Aux: fn.Params[0].Name()}
				norm[mn] = strings.ReplaceAll(norm[mn], recv.Key(), "RECV")
			}
			// effects
			stores := nonLocalStores(p)
			if isWrite {
				good := len(stores) == 1 && stores[0].Kind == ir.KStore && ir.Same(stores[0].A[0], d) && paramOf(stores[0].A[1], fn, 2) &&
					len(p.Results) == 1 && paramOf(p.Results[0], fn, 1) && len(calls(p)) == 0
				if good {
					// the stored value's type is the pointee type
					if !sameTypeParamOf(nt, fn.Params[2].Type(), pt.Elem()) {
						good = false
					}
				}
				if !good {
					okEff = false
					c.Fail("put-effect", name, fn.Pos(), "Put must perform exactly one store, of its value parameter, through the field pointer and return the container argument unchanged (stores=%d, result=%v)", len(stores), p.Results)
				}
			} else {
				good := len(stores) == 0 && len(p.Results) == 1 && p.Results[0].Op == "load" && ir.Same(p.Results[0].Args[0], d) && len(calls(p)) == 0
				if !good {
					okEff = false
					c.Fail("get-effect", name, fn.Pos(), "Get must not store and must return the value loaded through the field pointer (stores=%d, result=%v)", len(stores), p.Results)
				}
			}
		}
		if nDeref == 0 {
			okAddr = false
			c.Fail("addr-term", name, fn.Pos(), "no returning path dereferences the field pointer")
		}
		if okAddr {
			c.Ok("addr-term", name, fn.Pos(), "uintptr(unsafe.Pointer(base)) + L.Offset + L.RootOffs as *A")
		}
		if okEff {
			c.Ok(effRule(isWrite), name, fn.Pos(), "")
		}
	}
	if usedDisp {
		// the displacement read by the accessors is Offset + RootOffs of the lens's own descriptor at every writer
		n, why := lensDispWriters(c, nt, dispField)
		c.Check(why == "", "addr-term", "optics."+nt.Obj().Name()+"#"+dispField, nt.Obj().Pos(), fmt.Sprintf("%d writers store Offset + RootOffs of the descriptor held", n), "%s", why)
	}
	agree := len(norm) == 4
	for _, v := range norm {
		if v != norm["Get"] {
			agree = false
		}
	}
	c.Check(agree, "addr-agree", "optics."+nt.Obj().Name(), nt.Obj().Pos(), "4 methods, one address term", "the accessor methods do not use the same address term: %v", norm)

	return checked
}

func runC01(c *core.Ctx) {
	c.Doc("addr-term", 4, "every unsafe dereference is base + L.Offset + L.RootOffs typed *A")
	c.Doc("addr-agree", 1, "the four accessor methods use the same address term")
	c.Doc("put-effect", 2, "Put/Putt: exactly one store, of a, through that pointer; container returned unchanged")
	c.Doc("get-effect", 2, "Get/Gett: no store; returns the loaded value")
	c.Doc("unsafe-census", 1, "every unsafe.Pointer conversion of every loaded package is part of a checked address term")
	c.Doc("offs-writers", 1, "RootOffs / StructField are written only by the unfolding function's literals")
	c.Doc("offs-term", 3, "RootOffs := offset parameter; StructField := cat.Field(i); recursion passes offset + cat.Field(i).Offset; root call passes 0")
	c.Doc("pairing", 36, "ForProductN / ForSpectrumN / NewN / FMapN positional consistency")

	checked := lensAccessorRules(c)
	if checked == nil {
		return
	}
	// ---- unsafe census over all packages --------------------------------------
	nConv, stray := 0, 0
	// a helper whose every use is a plain call from a checked method (or from another such helper) was analysed
	// as part of those methods' address terms: its conversions are covered by them
	for _, h := range addressHelpers(c, checked) {
		checked[h] = true
	}
	for _, pkg := range c.W.AllLogical() {
		for _, fn := range c.W.SourceFuncs(pkg) {
			for _, b := range fn.Blocks {
				for _, in := range b.Instrs {
					if call, isCall := in.(*ssa.Call); isCall && isUnsafeBuiltin(call) {
						nConv++
						if !checked[fn] {
							stray++
							c.Fail("unsafe-census", ir.FuncName(fn), call.Pos(), "unsafe pointer arithmetic outside the four checked accessor methods")
						}
						continue
					}
					cv, ok := in.(*ssa.Convert)
					if !ok {
						continue
					}
					if isUnsafePtr(cv.Type()) || isUnsafePtr(cv.X.Type()) {
						nConv++
						if !checked[fn] {
							stray++
							c.Fail("unsafe-census", ir.FuncName(fn), cv.Pos(), "unsafe.Pointer conversion outside the four checked accessor methods")
						}
					}
				}
			}
		}
		if p := c.W.Pkgs[pkg]; p != nil && pkg != "optics" {
			for ip := range p.Imports {
				if ip == "unsafe" {
					stray++
					c.Fail("unsafe-census", pkg, 0, "package %s imports unsafe", pkg)
				}
			}
		}
	}
	if stray == 0 {
		c.Check(nConv >= 2, "unsafe-census", "all-packages", 0, fmt.Sprintf("%d conversions, all inside the checked methods", nConv), "only %d unsafe conversions found: the census is blind", nConv)
	}
	c.Canary("unsafe-census", canaryUnsafe())

	offsRules(c)
	pairingRules(c)
	// the focus type equals the field type (so the typed store covers exactly the field): shared with C02
	// ... and nothing but those constructors makes or re-types a lens (shared with C02)
	c.Doc("construct-census", 1, "lens values are constructed only by NewLens / NewReflector")
	constructCensus(c)
	c.Doc("guard-dominates", 2, "every returning path of NewLens/NewReflector passed the type guard")
	c.Doc("guard-strength-B", 2, "the guard is type identity between the entry's field type and the focus type")
	guardRules(c)
	// derivation by name / by type resolves the first exactly matching entry: shared with C03
	c.Doc("first-match", 3, "lookups return the first element matching exactly")
	firstMatchRules(c)
	// derivation by names pairs the i-th name with the i-th lens: hseq.New(names...) keeps the requested order (shared
	// with C03)
	c.Doc("names-order", 1, "New(names...)[i] = ForName(listing, names[i])")
	namesOrderRule(c)
	// a selection the caller derives lenses from keeps the order the caller gave it (shared with C03)
	c.Doc("listing-immutable", 1, "no function of hseq writes into, sorts or copies onto a listing it was given")
	listingImmutable(c)
}

func effRule(w bool) string {
	if w {
		return "put-effect"
	}
	return "get-effect"
}

func isUnsafePtr(t types.Type) bool {
	b, ok := t.Underlying().(*types.Basic)
	return ok && b.Kind() == types.UnsafePointer
}

// unfoldFunc: the function hseq.New calls with (type, seq, 0).
// unfoldInfo describes the unfolding function - the function of package hseq that hseq.New calls and that takes the
// type to unfold (a reflect.Type) and the running offset (a uintptr). The listing is either threaded through it as a
// slice parameter and result (seqP >= 0) or kept in a field of a state object it is a method of (recvP, cellField).
type unfoldInfo struct {
	fn                      *ssa.Function
	rootCall                *ssa.Call
	catP, offP, seqP, recvP int
	cellField               string
	// closure form: the unfolding is a function literal that calls itself through the variable it is assigned to and
	// appends to a listing variable it captures (listFV / selfFV index its free variables)
	closure        bool
	listFV, selfFV int
}

func unfoldInfoOf(c *core.Ctx) *unfoldInfo {
	fn := c.W.Func("hseq", "New")
	if fn == nil {
		return nil
	}
	isSeqOfType := func(t types.Type) bool {
		sl, ok := t.Underlying().(*types.Slice)
		return ok && isHseqType(sl.Elem())
	}
	// the calls of New, and of the unexported functions of the package New delegates to (an internal `newSeq(how, names)`)
	type site struct {
		call   *ssa.Call
		callee *ssa.Function
	}
	var sites []site
	var collect func(f *ssa.Function, depth int, seen map[*ssa.Function]bool)
	collect = func(f *ssa.Function, depth int, seen map[*ssa.Function]bool) {
		if f == nil || seen[f] || depth > 3 {
			return
		}
		seen[f] = true
		for _, b := range f.Blocks {
			for _, in := range b.Instrs {
				call, ok := in.(*ssa.Call)
				if !ok {
					continue
				}
				callee := call.Call.StaticCallee()
				if callee == nil {
					continue
				}
				if callee.Origin() != nil {
					callee = callee.Origin()
				}
				if callee.Pkg != fn.Pkg || len(callee.Params) != len(call.Call.Args) {
					continue
				}
				sites = append(sites, site{call, callee})
				if o := callee.Object(); o != nil && !o.Exported() && callee != f {
					collect(callee, depth+1, seen)
				}
			}
		}
	}
	collect(fn, 0, map[*ssa.Function]bool{})
	for _, s := range sites {
		{
			call, callee := s.call, s.callee
			if call.Parent() != nil && call.Parent() == callee || call.Parent() != nil && call.Parent().Origin() == callee {
				continue // the recursive call inside the unfolding function is not the root call
			}
			ui := &unfoldInfo{fn: callee, rootCall: call, catP: -1, offP: -1, seqP: -1, recvP: -1}
			for i, p := range callee.Params {
				t := p.Type()
				switch {
				case types.TypeString(t, nil) == "reflect.Type":
					ui.catP = i
				case isBasicKind(t, types.Uintptr):
					ui.offP = i
				case isSeqOfType(t):
					ui.seqP = i
				default:
					if pt, isP := t.Underlying().(*types.Pointer); isP {
						if st, isS := pt.Elem().Underlying().(*types.Struct); isS {
							for k := 0; k < st.NumFields(); k++ {
								if isSeqOfType(st.Field(k).Type()) {
									ui.recvP, ui.cellField = i, st.Field(k).Name()
								}
							}
						}
					}
				}
			}
			if ui.catP >= 0 && ui.offP >= 0 && (ui.seqP >= 0) != (ui.recvP >= 0) {
				return ui
			}
		}
	}
	// closure form: `var walk func(reflect.Type, uintptr); walk = func(cat, offset) { ... walk(ft, offset+fv.Offset) ... }`
	// inside New (or a delegate), the listing a captured variable
	hosts := []*ssa.Function{fn}
	for _, s := range sites {
		if o := s.callee.Object(); o != nil && !o.Exported() {
			hosts = append(hosts, s.callee)
		}
	}
	for _, host := range hosts {
		for _, anon := range host.AnonFuncs {
			ui := &unfoldInfo{fn: anon, catP: -1, offP: -1, seqP: -1, recvP: -1, closure: true, listFV: -1, selfFV: -1}
			for i, p := range anon.Params {
				switch t := p.Type(); {
				case types.TypeString(t, nil) == "reflect.Type":
					ui.catP = i
				case isBasicKind(t, types.Uintptr):
					ui.offP = i
				}
			}
			for i, fv := range anon.FreeVars {
				pt, isP := fv.Type().(*types.Pointer)
				if !isP {
					continue
				}
				if isSeqOfType(pt.Elem()) {
					ui.listFV = i
				} else if sg, isSig := pt.Elem().Underlying().(*types.Signature); isSig && types.Identical(sg, anon.Signature) {
					ui.selfFV = i
				}
			}
			if ui.catP < 0 || ui.offP < 0 || ui.listFV < 0 || ui.selfFV < 0 {
				continue
			}
			// the variable holds this very closure and nothing else: one store, of the function literal
			var mk *ssa.MakeClosure
			for _, b := range host.Blocks {
				for _, in := range b.Instrs {
					if m, ok := in.(*ssa.MakeClosure); ok && m.Fn == ssa.Value(anon) {
						mk = m
					}
				}
			}
			if mk == nil || ui.selfFV >= len(mk.Bindings) {
				continue
			}
			cell, isAlloc := mk.Bindings[ui.selfFV].(*ssa.Alloc)
			if !isAlloc {
				continue
			}
			okCell, nStore, nRoot := true, 0, 0
			var root *ssa.Call
			for _, r := range *cell.Referrers() {
				switch r := r.(type) {
				case *ssa.Store:
					if r.Addr == ssa.Value(cell) && r.Val == ssa.Value(mk) {
						nStore++
					} else {
						okCell = false
					}
				case *ssa.MakeClosure:
					okCell = okCell && r == mk
				case *ssa.UnOp:
					for _, u := range *r.Referrers() {
						if call, isCall := u.(*ssa.Call); isCall && call.Call.Value == ssa.Value(r) && len(call.Call.Args) == len(anon.Params) {
							root = call
							nRoot++
						} else if _, isDbg := u.(*ssa.DebugRef); !isDbg {
							okCell = false
						}
					}
				case *ssa.DebugRef:
				default:
					okCell = false
				}
			}
			if okCell && nStore == 1 && nRoot == 1 { // one walk from the root: a second one would list every field again
				ui.rootCall = root
				return ui
			}
		}
	}
	return nil
}

func isBasicKind(t types.Type, k types.BasicKind) bool {
	b, ok := t.Underlying().(*types.Basic)
	return ok && b.Kind() == k
}

// unfoldAnalysis: the unfolding function analysed on its own - with any further parameter it has (a traversal
// policy handed down unchanged) bound to the closed value the exported constructor passes at the root call, so that
// a decision delegated to a strategy value (`how.inline(fv, ft)`) is followed into the one strategy in use.
func unfoldAnalysis(c *core.Ctx, ui *unfoldInfo) *ir.Analysis {
	uf := ui.fn
	var extra []int
	for i := range uf.Params {
		if i != ui.catP && i != ui.offP && i != ui.seqP && i != ui.recvP {
			extra = append(extra, i)
		}
	}
	root := c.W.Func("hseq", "New")
	if ui.closure {
		// the literal is analysed with the variable it is assigned to holding that very closure (so that the call through
		// it is the recursive call); the captured listing stays a symbolic cell
		bindings := make([]*ir.Term, len(uf.FreeVars))
		for i, fv := range uf.FreeVars {
			bindings[i] = &ir.Term{Op: "free", Aux: fv.Name(), Typ: fv.Type(), Src: fv}
		}
		mem := ir.NewState()
		mem.Poke(bindings[ui.selfFV], &ir.Term{Op: "closure", Fn: uf, Args: bindings, Typ: uf.Signature})
		return c.AnalyzeFrom(uf, ir.NewRootState(uf, nil, bindings, mem), "self-bound")
	}
	if len(extra) == 0 || root == nil {
		return c.Analyze(uf)
	}
	var args []*ir.Term
	for _, p := range c.AnalyzeLoops(root).AllPaths() {
		for i := range p.Steps {
			st := &p.Steps[i]
			if (st.Kind == ir.KCall || st.Kind == ir.KEnter) && st.Instr != nil && st.Instr.Pos() == ui.rootCall.Pos() && len(st.A) == len(uf.Params) {
				args = st.A
			}
		}
	}
	if args == nil {
		return c.Analyze(uf)
	}
	closed := func(t *ir.Term) bool {
		ok := true
		t.Walk(func(x *ir.Term) {
			switch x.Op {
			case "param", "phi", "alloc", "free", "call", "load":
				ok = false
			}
		})
		return ok
	}
	params := make([]*ir.Term, len(uf.Params))
	bound := false
	for _, i := range extra {
		if closed(args[i]) {
			params[i], bound = args[i], true
		}
	}
	if !bound {
		return c.Analyze(uf)
	}
	return c.AnalyzeFrom(uf, ir.NewRootState(uf, params, nil, nil), "policy-bound")
}

func unfoldFunc(c *core.Ctx) (*ssa.Function, *ssa.Call) {
	if ui := unfoldInfoOf(c); ui != nil {
		return ui.fn, ui.rootCall
	}
	return nil, nil
}

func isHseqType(t types.Type) bool {
	if p, ok := t.(*types.Pointer); ok {
		t = p.Elem()
	}
	nt, ok := t.(*types.Named)
	return ok && nt.Origin().Obj().Name() == "Type" && nt.Obj().Pkg() != nil && load.Logical(nt.Obj().Pkg().Path()) == "hseq"
}

func offsRules(c *core.Ctx) {
	// the listing (offsets included) is a function of the type: what hseq.New reaches keeps no state between calls
	// (shared by C01, C02 and C03 through this function)
	if c.Rules["unfold-pure"] == nil {
		c.Doc("unfold-pure", 1, "hseq.New and what it reaches touch no package state, except read-only tables, locks and memos obeying the memo discipline")
	}
	statePurity(c, "unfold-pure", "hseq", "New", "the listing")
	ui := unfoldInfoOf(c)
	if ui == nil {
		c.Undecided("offs-writers", "hseq.unfold", 0, "cannot discover the unfolding function from hseq.New")
		return
	}
	uf, rootCall := ui.fn, ui.rootCall
	// root call passes constant 0
	k, isK := rootCall.Call.Args[ui.offP].(*ssa.Const)
	c.Check(isK && k.Value != nil && k.Value.ExactString() == "0", "offs-term", "hseq.New#root-call", rootCall.Pos(), "unfold(type, seq, 0)", "the root call passes %v as offset, expected constant 0", rootCall.Call.Args[ui.offP])

	// writers census; a helper that builds entries and is used only by plain calls from the unfolding function
	// (a newType(fv, ft, root, id) constructor) is analysed as part of it by the term rules below
	writesSensitive := func(fn *ssa.Function) bool {
		for _, b := range fn.Blocks {
			for _, in := range b.Instrs {
				fa, ok := in.(*ssa.FieldAddr)
				if !ok {
					continue
				}
				fname := fieldNameOf(fa)
				if (isHseqType(fa.X.Type()) && (fname == "RootOffs" || fname == "StructField")) || (isReflectStructField(fa.X.Type()) && fname == "Offset") {
					for _, r := range *fa.Referrers() {
						if st, ok := r.(*ssa.Store); ok && st.Addr == ssa.Value(fa) {
							return true
						}
					}
				}
			}
		}
		return false
	}
	writers := map[*ssa.Function]bool{uf: true}
	for _, h := range coveredHelpers(c, writers, writesSensitive) {
		writers[h] = true
	}
	nLit, stray := 0, 0
	for _, pkg := range c.W.AllLogical() {
		for _, fn := range c.W.SourceFuncs(pkg) {
			for _, b := range fn.Blocks {
				for _, in := range b.Instrs {
					fa, ok := in.(*ssa.FieldAddr)
					if !ok {
						continue
					}
					fname := fieldNameOf(fa)
					written := false
					for _, r := range *fa.Referrers() {
						if st, ok := r.(*ssa.Store); ok && st.Addr == ssa.Value(fa) {
							written = true
						}
					}
					if !written {
						continue
					}
					sensitive := (isHseqType(fa.X.Type()) && (fname == "RootOffs" || fname == "StructField")) || (isReflectStructField(fa.X.Type()) && fname == "Offset")
					if !sensitive {
						continue
					}
					_, isAlloc := fa.X.(*ssa.Alloc)
					if writers[fn] && isAlloc {
						nLit++
						continue
					}
					stray++
					c.Fail("offs-writers", ir.FuncName(fn), fa.Pos(), "%s.%s is written outside the unfolding function's composite literals: a lens built from such an entry addresses arbitrary memory", shortTypeName(fa.X.Type()), fname)
				}
			}
		}
	}
	if stray == 0 {
		c.Check(nLit >= 2, "offs-writers", "hseq.Type", uf.Pos(), fmt.Sprintf("%d literal field writes, all in %s", nLit, uf.Name()), "no writer of RootOffs/StructField found at all: census is blind")
	}

	// literal terms and the recursive call
	an := unfoldAnalysis(c, ui)
	if problems(c, "offs-term", "hseq.unfold", an) {
		return
	}
	catP, offP := ui.catP, ui.offP
	okLit, okRec := true, true
	nLits, nRec := 0, 0
	for _, p := range an.AllPaths() {
		for _, st := range p.Events(ir.KStore) {
			v := st.A[1]
			if v.Op != "lit" {
				continue
			}
			var sf, ro *ir.Term
			for _, kv := range v.Args {
				switch kv.Aux {
				case "StructField":
					sf = kv.Args[0]
				case "RootOffs":
					ro = kv.Args[0]
				}
			}
			if sf == nil && ro == nil {
				continue
			}
			nLits++
			if !paramOf(ro, uf, offP) {
				okLit = false
				c.Fail("offs-term", "hseq.unfold#literal", st.Pos(), "an entry is built with RootOffs = %s, expected the running offset parameter (the entry's own offset is added by the lens)", short(ro))
			}
			if !(sf != nil && sf.Op == "pure" && strings.HasSuffix(sf.Aux, ".Field") && paramOf(sf.Args[0], uf, catP)) {
				okLit = false
				c.Fail("offs-term", "hseq.unfold#literal", st.Pos(), "an entry is built with StructField = %s, expected cat.Field(i)", short(sf))
			}
		}
		for _, st := range p.Events(ir.KCall) {
			if st.Static != uf {
				continue
			}
			nRec++
			// unfold(ft, seq', offset + cat.Field(i).Offset)
			off := st.A[offP]
			good := off.Op == "bin" && off.Aux == "+" && len(off.Args) == 2
			var fld *ir.Term
			if good {
				for i := 0; i < 2; i++ {
					if paramOf(off.Args[i], uf, offP) {
						fld = off.Args[1-i]
					}
				}
				good = fld != nil && fld.Op == "field" && fld.Aux == "Offset" && fld.Args[0].Op == "pure" && strings.HasSuffix(fld.Args[0].Aux, ".Field") && paramOf(fld.Args[0].Args[0], uf, catP)
			}
			if !good {
				okRec = false
				c.Fail("offs-term", "hseq.unfold#recursive-call", st.Pos(), "the recursion passes offset %s, expected offset + cat.Field(i).Offset", short(off))
				continue
			}
			// the type descended into is that same field's (pointer-stripped) type
			ty := st.A[catP]
			fieldT := &ir.Term{Op: "field", Aux: "Type", Args: []*ir.Term{fld.Args[0]}}
			if !(ir.Same(ty, fieldT) || (ty.Op == "pure" && strings.HasSuffix(ty.Aux, ".Elem") && ir.Same(ty.Args[0], fieldT))) {
				okRec = false
				c.Fail("offs-term", "hseq.unfold#recursive-call", st.Pos(), "the recursion descends into %s, which is not the type of the field whose offset is added", short(ty))
			}
		}
		// the running offset must not be modified in place
		for _, phi := range p.PhiOut {
			_ = phi
		}
	}
	// offset parameter is never reassigned (a captured/assigned parameter would be a cell with stores)
	for _, p := range an.AllPaths() {
		for _, st := range p.Events(ir.KStore) {
			if st.A[0].Op == "alloc" && strings.HasSuffix(st.A[0].Aux, ":"+uf.Params[offP].Name()) && !paramOf(st.A[1], uf, offP) {
				okLit = false
				c.Fail("offs-term", "hseq.unfold#literal", st.Pos(), "the running offset is modified in place (%s): entries after an embedded struct would inherit its offset", short(st.A[1]))
			}
		}
	}
	// offset as loop-carried phi (offset += ...) shows up as a non-param RootOffs above
	if okLit && nLits > 0 {
		c.Ok("offs-term", "hseq.unfold#literal", uf.Pos(), fmt.Sprintf("%d literal instances: RootOffs := offset, StructField := cat.Field(i)", nLits))
	} else if nLits == 0 {
		c.Fail("offs-term", "hseq.unfold#literal", uf.Pos(), "no entry literal found")
	}
	if okRec && nRec > 0 {
		c.Ok("offs-term", "hseq.unfold#recursive-call", uf.Pos(), fmt.Sprintf("%d recursive call paths: offset + cat.Field(i).Offset", nRec))
	} else if nRec == 0 {
		c.Fail("offs-term", "hseq.unfold#recursive-call", uf.Pos(), "no recursive descent found")
	}
}

func fieldNameOf(fa *ssa.FieldAddr) string {
	t := fa.X.Type()
	if p, ok := t.Underlying().(*types.Pointer); ok {
		t = p.Elem()
	}
	if st, ok := t.Underlying().(*types.Struct); ok && fa.Field < st.NumFields() {
		return st.Field(fa.Field).Name()
	}
	return ""
}

func isReflectStructField(t types.Type) bool {
	if p, ok := t.(*types.Pointer); ok {
		t = p.Elem()
	}
	nt, ok := t.(*types.Named)
	return ok && nt.Obj().Name() == "StructField" && nt.Obj().Pkg() != nil && nt.Obj().Pkg().Path() == "reflect"
}

func shortTypeName(t types.Type) string {
	return types.TypeString(t, func(p *types.Package) string { return p.Name() })
}

// ---------------------------------------------------------------------------
// positional pairing [Y]

// familyFuncs returns exported functions of pkg named prefix+digit(s), sorted by arity.
func familyFuncs(c *core.Ctx, pkg, prefix string) []*ssa.Function {
	var out []*ssa.Function
	for _, f := range exportedFuncs(c, pkg) {
		n := strings.TrimPrefix(f.Name(), prefix)
		if n == f.Name() || n == "" {
			continue
		}
		ok := true
		for _, ch := range n {
			if ch < '0' || ch > '9' {
				ok = false
			}
		}
		if ok {
			out = append(out, f)
		}
	}
	sort.Slice(out, func(i, j int) bool {
		return len(out[i].Signature.Results().String()) < len(out[j].Signature.Results().String())
	})
	return out
}

func typeParamsOf(fn *ssa.Function) []*types.TypeParam {
	var out []*types.TypeParam
	tps := fn.Signature.TypeParams()
	if tps == nil {
		tps = fn.TypeParams()
	}
	if tps == nil {
		return nil
	}
	for i := 0; i < tps.Len(); i++ {
		out = append(out, tps.At(i))
	}
	return out
}

func pairingRules(c *core.Ctx) {
	newLens, newRefl := c.W.Func("optics", "NewLens"), c.W.Func("optics", "NewReflector")
	// ---- optics.ForProductN / ForSpectrumN
	for _, fam := range []struct {
		prefix string
		ctor   *ssa.Function
		refl   bool
	}{{"ForProduct", newLens, false}, {"ForSpectrum", newRefl, true}} {
		for _, fn := range familyFuncs(c, "optics", fam.prefix) {
			name := "optics." + fn.Name()
			tps := typeParamsOf(fn)
			n := len(tps) - 1
			if n < 1 || fn.Signature.Results().Len() != n {
				c.Fail("pairing", name, fn.Pos(), "function has %d type parameters and %d results: not (T, A1..An) -> n optics", len(tps), fn.Signature.Results().Len())
				continue
			}
			ok := true
			why := ""
			// result types: Lens[T, Xi] / Reflector[Xi]
			for i := 0; i < n && ok; i++ {
				rt, _ := fn.Signature.Results().At(i).Type().(*types.Named)
				if rt == nil {
					ok, why = false, "result is not a named optic type"
					break
				}
				ta := rt.TypeArgs()
				if fam.refl {
					ok = ta.Len() == 1 && types.Identical(ta.At(0), tps[i+1])
				} else {
					ok = ta.Len() == 2 && types.Identical(ta.At(0), tps[0]) && types.Identical(ta.At(1), tps[i+1])
				}
				if !ok {
					why = fmt.Sprintf("result %d has type %s, expected the optic for type parameter %s", i+1, rt, tps[i+1])
				}
			}
			// on every returning path (helpers inlined): no names => hseq.NewN[T, A1..An](); names => hseq.New[T](the
			// first n names); then hseq.FMapN(that listing, ctor[T,A1], .., ctor[T,An]) whose results are returned in order
			if ok {
				ok, why = productPaths(c, fn, tps, n, fam.ctor)
			}
			c.Check(ok, "pairing", name, fn.Pos(), fmt.Sprintf("%d positions", n), "%s", why)
		}
	}
	// ---- hseq.NewN: i-th element is ForType[X_i, T](seq)
	forType := c.W.Func("hseq", "ForType")
	for _, fn := range familyFuncs(c, "hseq", "New") {
		name := "hseq." + fn.Name()
		tps := typeParamsOf(fn)
		n := len(tps) - 1
		ok := n >= 1
		why := "not a (T, A1..An) function"
		got := map[int64]types.Type{}
		for _, b := range fn.Blocks {
			for _, in := range b.Instrs {
				st, isSt := in.(*ssa.Store)
				if !isSt {
					continue
				}
				ia, isIA := st.Addr.(*ssa.IndexAddr)
				call, isCall := st.Val.(*ssa.Call)
				if !isIA || !isCall {
					continue
				}
				callee := call.Call.StaticCallee()
				if callee == nil || callee.Origin() != forType {
					continue
				}
				k, isK := ia.Index.(*ssa.Const)
				if !isK {
					continue
				}
				ta := callee.TypeArgs()
				if len(ta) == 2 {
					idx, _ := k.Int64(), 0
					got[idx] = ta[0]
					if !types.Identical(ta[1], tps[0]) {
						ok, why = false, "ForType is not instantiated with the container type parameter"
					}
				}
			}
		}
		if ok && len(got) != n {
			ok, why = false, fmt.Sprintf("%d positional ForType lookups found, expected %d", len(got), n)
		}
		for i := 0; i < n && ok; i++ {
			if got[int64(i)] == nil || !types.Identical(got[int64(i)], tps[i+1]) {
				ok, why = false, fmt.Sprintf("element %d is looked up by type %v, expected type parameter %s", i, got[int64(i)], tps[i+1])
			}
		}
		if !ok && n >= 1 {
			// not the literal form: the same statement on the value the function returns (helpers followed, a table of
			// selector functions applied by a loop unrolled)
			if pok, pwhy := newNPaths(c, fn, tps, n, forType); pok {
				ok = true
			} else if pwhy != "" {
				why += "; on the returned value: " + pwhy
			}
		}
		c.Check(ok, "pairing", name, fn.Pos(), fmt.Sprintf("%d positions", n), "%s", why)
	}
	// ---- hseq.FMapN: i-th result is f_i(ts[i-1])
	for _, fn := range familyFuncs(c, "hseq", "FMap") {
		name := "hseq." + fn.Name()
		// (an arity defined through the next lower one is followed all the way down)
		an := c.AnalyzeDeep(fn, ir.NewRootState(fn, nil, nil, nil), "fmap", 12)
		if problems(c, "pairing", name, an) {
			continue
		}
		aps := an.AllPaths()
		if len(aps) != 1 || aps[0].Exit != ir.ExitReturn {
			c.Fail("pairing", name, fn.Pos(), "expected one straight-line returning path, found %d paths", len(aps))
			continue
		}
		p := aps[0]
		n := len(fn.Params) - 1
		ok := len(p.Results) == n && len(calls(p)) == n
		why := fmt.Sprintf("%d results / %d calls for %d functions", len(p.Results), len(calls(p)), n)
		for i := 0; i < n && ok; i++ {
			_, callee, args, isC := callParts(p.Results[i])
			ok = isC && paramOf(callee, fn, i+1) && len(args) == 1
			if ok {
				a := args[0]
				// ts[i]: load(iaddr(param ts, const i)) or index(param ts, const i)
				var base, idx *ir.Term
				switch {
				case a.Op == "load" && a.Args[0].Op == "iaddr":
					base, idx = a.Args[0].Args[0], a.Args[0].Args[1]
				case a.Op == "index":
					base, idx = a.Args[0], a.Args[1]
				}
				k, isK := idx.IntConst()
				ok = base != nil && paramOf(base, fn, 0) && isK && k == int64(i)
			}
			if !ok {
				why = fmt.Sprintf("result %d is %s, expected f%d(ts[%d])", i+1, short(p.Results[i]), i+1, i)
			}
		}
		c.Check(ok, "pairing", name, fn.Pos(), fmt.Sprintf("%d positions", n), "%s", why)
	}
}

// newNPaths: NewN[T, A1..An]() returns a fresh n-element listing whose i-th element is ForType[Ai, T](New[T]()).
func newNPaths(c *core.Ctx, fn *ssa.Function, tps []*types.TypeParam, n int, forType *ssa.Function) (bool, string) {
	newFn := c.W.Func("hseq", "New")
	if newFn == nil || forType == nil {
		return false, "hseq.New / hseq.ForType not found"
	}
	an := c.AnalyzeLoopsExcept(fn, forType, newFn)
	if len(an.Problems) > 0 || len(an.Headers) > 0 {
		return false, "loops remain or the function could not be modelled"
	}
	nRet := 0
	for _, p := range an.AllPaths() {
		if p.Exit != ir.ExitReturn {
			continue
		}
		nRet++
		if len(p.Results) != 1 {
			return false, "not a single result"
		}
		r := p.Results[0]
		base := r
		switch {
		case r.Op == "mkslice":
			if k, isK := r.Args[0].IntConst(); !isK || k != int64(n) {
				return false, fmt.Sprintf("the result has length %s, expected %d", short(r.Args[0]), n)
			}
		case r.Op == "slice" && r.Args[0].Op == "alloc":
			if k, _, isArr := freshArrayLen(r); !isArr || k != int64(n) {
				return false, fmt.Sprintf("the result is not a fresh %d-element listing", n)
			}
			base = r.Args[0]
		default:
			return false, "the result is not a fresh listing: " + short(r)
		}
		// the full listing: New[T]() without names
		var full *ir.Term
		for _, st := range p.Events(ir.KCall) {
			if st.Static != nil && originOf(st.Static) == newFn {
				if full != nil {
					return false, "the type is unfolded more than once"
				}
				if len(st.InstArgs) != 1 || !types.Identical(st.InstArgs[0], tps[0]) {
					return false, "hseq.New is not instantiated with the container type parameter"
				}
				if len(st.A) != 1 || !(st.A[0].IsNil() || st.A[0].Op == "const") {
					return false, "hseq.New is given names"
				}
				full = st.R
			}
		}
		if full == nil {
			return false, "the type is not unfolded by hseq.New"
		}
		for i := 0; i < n; i++ {
			el := p.End.MemAt(&ir.Term{Op: "iaddr", Args: []*ir.Term{base, ir.Const(fmt.Sprint(i))}})
			var call *ir.Step
			for _, st := range p.Events(ir.KCall) {
				if st.Static != nil && originOf(st.Static) == forType && el != nil && ir.Same(st.R, el) {
					call = st
				}
			}
			if call == nil {
				return false, fmt.Sprintf("element %d is %s, not the result of a ForType lookup", i, short(el))
			}
			if len(call.InstArgs) != 2 || !types.Identical(call.InstArgs[0], tps[i+1]) || !types.Identical(call.InstArgs[1], tps[0]) {
				return false, fmt.Sprintf("element %d is looked up as ForType%v, expected [%s, %s]", i, call.InstArgs, tps[i+1], tps[0])
			}
			if len(call.A) != 1 || !ir.Same(call.A[0], full) {
				return false, fmt.Sprintf("element %d is looked up in %s, not in the full listing", i, short(call.A[0]))
			}
		}
	}
	if nRet != 1 {
		return false, fmt.Sprintf("%d returning paths, expected one", nRet)
	}
	return true, ""
}

// returnsInOrder: fn returns exactly the results of call, in order.
// productPaths: the path-level half of the pairing rule for ForProductN / ForSpectrumN.
func productPaths(c *core.Ctx, fn *ssa.Function, tps []*types.TypeParam, n int, ctor *ssa.Function) (bool, string) {
	an := c.AnalyzeKeeping(fn, "hseq-opaque", func(f *ssa.Function) bool {
		return f != nil && f.Pkg != nil && load.Logical(f.Pkg.Pkg.Path()) == "hseq"
	})
	if len(an.Problems) > 0 || len(an.Headers) > 0 {
		return false, "the function has loops or could not be modelled"
	}
	attr := &ir.Term{Op: "param", Aux: fn.Params[0].Name()}
	noNames := &ir.Term{Op: "bin", Aux: "==", Args: sorted2(ir.Const("0"), &ir.Term{Op: "len", Args: []*ir.Term{attr}})}
	inHseq := func(f *ssa.Function) bool {
		return f != nil && f.Pkg != nil && load.Logical(f.Pkg.Pkg.Path()) == "hseq"
	}
	sawType, sawName := false, false
	for _, p := range an.AllPaths() {
		if p.Exit != ir.ExitReturn {
			continue
		}
		var listing, fmap *ir.Step
		for _, st := range p.Events(ir.KCall) {
			if !inHseq(st.Static) {
				continue
			}
			switch {
			case len(st.A) == n+1 && n+1 != 1 && fmap == nil && listing != nil:
				fmap = st
			case listing == nil && (len(st.A) == 0 || len(st.A) == 1):
				listing = st
			default:
				return false, "unexpected call of hseq." + st.Static.Name()
			}
		}
		if listing == nil || fmap == nil {
			return false, "expected a listing (hseq.NewN by type / hseq.New by name) followed by hseq.FMapN on every path"
		}
		cond := polarity(p, noNames)
		switch {
		case cond > 0:
			sawType = true
			if len(listing.A) != 0 || len(listing.InstArgs) != n+1 {
				return false, fmt.Sprintf("without names the listing must come from hseq.NewN with %d type arguments (found hseq.%s with %d)", n+1, listing.Static.Name(), len(listing.InstArgs))
			}
			for i, ta := range listing.InstArgs {
				if !types.Identical(ta, tps[i]) {
					return false, fmt.Sprintf("by-type branch: type argument %d of hseq.%s is %s, expected %s", i+1, listing.Static.Name(), ta, tps[i])
				}
			}
		case cond < 0:
			sawName = true
			if len(listing.A) != 1 || len(listing.InstArgs) != 1 || !types.Identical(listing.InstArgs[0], tps[0]) {
				return false, "by-name branch does not unfold the container type parameter with the names"
			}
			names := listing.A[0]
			good := false
			if names.Op == "slice" && len(names.Args) == 4 && ir.Same(names.Args[0], attr) {
				lo := names.Args[1].Aux == "_" || names.Args[1].Aux == "0"
				hi, isK := names.Args[2].IntConst()
				good = lo && isK && hi == int64(n)
			}
			if !good && n == 1 {
				// a fresh one-element slice holding attr[0]
				if x := appendedOne(p, names); x != nil {
					good = x.Op == "load" && x.Args[0].Op == "iaddr" && ir.Same(x.Args[0].Args[0], attr) && x.Args[0].Args[1].Aux == "0"
				}
			}
			if !good {
				return false, fmt.Sprintf("by-name branch passes %s, expected exactly the first %d names", short(names), n)
			}
		default:
			return false, "a path chooses between names and types without testing len(attr) == 0"
		}
		if !ir.Same(fmap.A[0], listing.R) {
			return false, "the positional map is not applied to the listing just derived"
		}
		for i := 1; i <= n; i++ {
			f := fmap.A[i]
			if f.Op != "fn" || f.Fn == nil || originOf(f.Fn) != ctor {
				return false, fmt.Sprintf("argument %d of hseq.%s is not %s", i, fmap.Static.Name(), ctor.Name())
			}
			ft := f.Fn.TypeArgs()
			if len(ft) != 2 || !types.Identical(ft[0], tps[0]) || !types.Identical(ft[1], tps[i]) {
				return false, fmt.Sprintf("argument %d of hseq.%s is %s[%v], expected focus type parameter %s (position %d)", i, fmap.Static.Name(), ctor.Name(), ft, tps[i], i)
			}
		}
		if len(p.Results) != n {
			return false, "wrong number of results"
		}
		for i, r := range p.Results {
			want := fmap.R
			if n > 1 {
				want = &ir.Term{Op: "extract", Aux: fmt.Sprint(i), Args: []*ir.Term{fmap.R}}
			}
			if !ir.Same(r, want) {
				return false, "results of the positional map are not returned in order"
			}
		}
	}
	if !sawType || !sawName {
		return false, fmt.Sprintf("expected a by-type and a by-name path (found %v / %v)", sawType, sawName)
	}
	return true, ""
}

func returnsInOrder(fn *ssa.Function, call *ssa.Call) bool {
	found := false
	for _, b := range fn.Blocks {
		ret, ok := b.Instrs[len(b.Instrs)-1].(*ssa.Return)
		if !ok {
			continue
		}
		found = true
		for i, r := range ret.Results {
			if len(ret.Results) == 1 {
				if r != ssa.Value(call) {
					return false
				}
				continue
			}
			ex, isEx := r.(*ssa.Extract)
			if !isEx || ex.Tuple != ssa.Value(call) || ex.Index != i {
				return false
			}
		}
	}
	return found
}
