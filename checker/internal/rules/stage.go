package rules

import (
	"fmt"
	"go/token"
	"go/types"
	"sort"
	"strings"

	"golang.org/x/tools/go/ssa"

	"verif/checker/internal/core"
	"verif/checker/internal/ir"
)

// A Stage is the static model of one exported stage function of pipe / fork:
// its own paths, the channels it makes and returns, and every goroutine it
// (transitively) spawns, each analysed with the memory snapshot of its go
// statement (so captured cells resolve to the outer function's terms).
type Stage struct {
	Pkg      string
	Name     string // e.g. "pipe.Map"
	Fn       *ssa.Function
	Outer    *ir.Analysis
	Gos      []*Goroutine
	Returned []*ir.Term
	Problems []string
}

type Goroutine struct {
	Name   string // e.g. "pipe.Map#go1"
	Fn     *ssa.Function
	An     *ir.Analysis
	Spawn  *ir.Step
	InLoop bool       // go statement sits in a loop of its parent: many instances
	Trip   *ir.Term   // symbolic number of instances when InLoop (nil = unknown)
	Parent *Goroutine // nil = spawned by the stage function itself
}

func pkgShort(pkg string) string {
	if i := strings.LastIndex(pkg, "/"); i >= 0 {
		return pkg[i+1:]
	}
	return pkg
}

func buildStage(c *core.Ctx, pkg string, fn *ssa.Function) *Stage {
	s := &Stage{Pkg: pkg, Name: pkgShort(pkg) + "." + fn.Name(), Fn: fn}
	s.Outer = c.AnalyzeLoops(fn)
	s.Problems = append(s.Problems, s.Outer.Problems...)
	retSeen := map[string]bool{}
	for _, p := range s.Outer.AllPaths() {
		if p.Exit == ir.ExitReturn {
			for _, r := range p.Results {
				if !retSeen[r.Key()] {
					retSeen[r.Key()] = true
					s.Returned = append(s.Returned, r)
				}
			}
		}
	}
	n := 0
	var rec func(an *ir.Analysis, parent *Goroutine)
	rec = func(an *ir.Analysis, parent *Goroutine) {
		seen := map[ssa.Instruction]bool{}
		for _, p := range an.AllPaths() {
			for _, st := range p.Events(ir.KGo) {
				if seen[st.Instr] {
					continue
				}
				seen[st.Instr] = true
				n++
				g := &Goroutine{Name: fmt.Sprintf("%s#go%d", s.Name, n), Spawn: st, Parent: parent}
				g.InLoop = inLoop(st.Instr)
				if g.InLoop {
					g.Trip = tripCountOf(an, st.Instr.Block())
				}
				// reached on several paths of the parent with different contents of the variables: analysed from what
				// the paths agree on
				{
					var snaps []*ir.State
					for _, p2 := range an.AllPaths() {
						for _, st2 := range p2.Events(ir.KGo) {
							if st2.Instr == st.Instr && st2.Chain == st.Chain {
								snaps = append(snaps, st2.Snap)
							}
						}
					}
					if len(snaps) > 1 {
						cp := *st
						cp.Snap = ir.JoinSnapshots(snaps)
						st = &cp
					}
				}
				gfn, gan := c.AnalyzeSpawnLoops(st)
				if gfn == nil {
					s.Problems = append(s.Problems, "go statement with unresolved target at "+c.W.Pos(st.Pos()))
					continue
				}
				g.Fn, g.An = gfn, gan
				s.Problems = append(s.Problems, gan.Problems...)
				s.Gos = append(s.Gos, g)
				rec(gan, g)
			}
		}
	}
	rec(s.Outer, nil)
	return s
}

func inLoop(in ssa.Instruction) bool {
	b := in.Block()
	for _, h := range ir.LoopHeaders(in.Parent()) {
		if ir.LoopBlocks(h)[b] {
			return true
		}
	}
	return false
}

// innermostHeader returns the header of the innermost natural loop containing b.
func innermostHeader(b *ssa.BasicBlock) *ssa.BasicBlock {
	var best *ssa.BasicBlock
	bestN := 1 << 30
	for _, h := range ir.LoopHeaders(b.Parent()) {
		lb := ir.LoopBlocks(h)
		if lb[b] && len(lb) < bestN {
			best, bestN = h, len(lb)
		}
	}
	return best
}

// Loop describes a canonical counted loop recognised on the path segments of
// a header: one integer phi, constant start, step +1/-1, one bound test.
type Loop struct {
	Header *ssa.BasicBlock
	Phi    *ssa.Phi
	Start  *ir.Term
	Step   int64
	// the loop continues while  Phi <op> Bound  (op in "<", "<=", ">", ">=")
	Op    string
	Bound *ir.Term
	// Trip is the symbolic trip count when it can be expressed (nil otherwise)
	Trip *ir.Term
	// RangeOver is set for loops visiting every element of a slice in ascending order: `range slice`
	// (index from -1, i+1 < len(x)) or `for i := 0; i < len(x); i++`: the slice term
	RangeOver *ir.Term
	// indexForm: the element index of the current iteration is the phi itself (index loop), not phi+1 (range)
	indexForm bool
	// tailForm: `for rest := xs; len(rest) > 0; rest = rest[1:]` - the phi is the remaining slice, the current element
	// is rest[0]; there is no index
	tailForm bool
	// Descending: the counter runs Trip-1 .. 0
	Descending bool
}

// Rotated: the loop is bottom-tested (the body runs before the bound test; exit paths carry a full iteration).
func (l *Loop) Rotated() bool { return l.Op == "rot<" }

// Index returns the term of the current element's index inside an iteration of a slice loop.
func (l *Loop) Index(an *ir.Analysis) *ir.Term {
	sym := an.Start[l.Header].Reg(l.Phi)
	if l.tailForm {
		return &ir.Term{Op: "noindex"}
	}
	if l.indexForm {
		return sym
	}
	return &ir.Term{Op: "bin", Aux: "+", Args: sorted2(sym, ir.Const("1"))}
}

// Elem returns the canonical term of the current element of a slice loop.
func (l *Loop) Elem(an *ir.Analysis) *ir.Term {
	if l.tailForm {
		return &ir.Term{Op: "load", Aux: "0", Args: []*ir.Term{{Op: "iaddr", Args: []*ir.Term{an.Start[l.Header].Reg(l.Phi), ir.Const("0")}}}}
	}
	return &ir.Term{Op: "load", Aux: "0", Args: []*ir.Term{{Op: "iaddr", Args: []*ir.Term{l.RangeOver, l.Index(an)}}}}
}

// IsElem: t denotes the current element (address-load or value-index form).
func (l *Loop) IsElem(an *ir.Analysis, t *ir.Term) bool {
	if t == nil {
		return false
	}
	if l.tailForm {
		return ir.Same(t, l.Elem(an)) || ir.Same(t, &ir.Term{Op: "index", Args: []*ir.Term{an.Start[l.Header].Reg(l.Phi), ir.Const("0")}})
	}
	return ir.Same(t, l.Elem(an)) || ir.Same(t, &ir.Term{Op: "index", Args: []*ir.Term{l.RangeOver, l.Index(an)}})
}

// ContinueAtom: the atom whose truth means "another element follows".
func (l *Loop) ContinueAtom(an *ir.Analysis) *ir.Term {
	return &ir.Term{Op: "bin", Aux: "<", Args: []*ir.Term{l.Index(an), l.Bound}}
}

// countedLoop recognises the loop at header h from the analysis segments.
func countedLoop(an *ir.Analysis, h *ssa.BasicBlock) *Loop {
	if h == nil {
		return nil
	}
	segs := an.Segs[h]
	if len(segs) == 0 {
		return nil
	}
	start := an.Start[h]
	if start == nil {
		return nil
	}
	for _, in := range h.Instrs {
		phi, ok := in.(*ssa.Phi)
		if !ok {
			break
		}
		if b, ok := phi.Type().Underlying().(*types.Basic); !ok || b.Info()&types.IsInteger == 0 {
			continue
		}
		// start value: the incoming value on the (unique) non-back edge
		var startT *ir.Term
		for i, pred := range h.Preds {
			if !h.Dominates(pred) {
				if k, ok := phi.Edges[i].(*ssa.Const); ok {
					startT = ir.Const(k.Value.ExactString())
				} else {
					startT = &ir.Term{Op: "sym", Aux: phi.Edges[i].Name()}
				}
			}
		}
		lb := ir.LoopBlocks(h)
		for _, ps := range an.Segs {
			for _, p := range ps {
				if p.To == h && (p.From == nil || !lb[p.From]) {
					if v := p.PhiOut[phi]; v != nil {
						startT = v
					}
				}
			}
		}
		// step: every back-edge path assigns phi := phi + c
		sym := phiSym(an, h, phi)
		var step int64
		okStep := true
		nBack := 0
		for _, p := range segs {
			if p.To != h {
				continue
			}
			nBack++
			v := p.PhiOut[phi]
			d, ok := plusConst(v, sym)
			if !ok || (step != 0 && d != step) {
				okStep = false
			}
			step = d
		}
		if !okStep || nBack == 0 || (step != 1 && step != -1) {
			continue
		}
		l := &Loop{Header: h, Phi: phi, Start: startT, Step: step}
		// bound test: a branch comparing phi (or phi+1) with a bound; its continuing polarity is read off a
		// path that goes round the loop (a path that leaves for another reason says nothing about it)
		ordered := append([]*ir.Path{}, segs...)
		sort.SliceStable(ordered, func(i, j int) bool { return (ordered[i].To == h) && (ordered[j].To != h) })
		// a bottom-tested loop (`for i := range n`) is told by the test that ends every way round it: phi+1 < n, with
		// the entry guarded by start < n. Comparisons of the counter inside its body are not its bound.
		if step == 1 {
			var rb *ir.Term
			nRound, okRot := 0, true
			for _, p := range ordered {
				if p.To != h {
					continue
				}
				nRound++
				brs := p.Events(ir.KBranch)
				if len(brs) == 0 {
					okRot = false
					break
				}
				last := brs[len(brs)-1]
				at := last.Atom
				if !(at.Op == "bin" && at.Aux == "<" && len(at.Args) == 2 && last.Pol) {
					okRot = false
					break
				}
				if d, isP := plusConst(at.Args[0], sym); !isP || d != 1 || mentions(at.Args[1], sym) || rb != nil && !ir.Same(rb, at.Args[1]) {
					okRot = false
					break
				}
				rb = at.Args[1]
			}
			if okRot && nRound > 0 && rb != nil && entryGuard(an, h, startT, rb) {
				l.Op, l.Bound = "rot<", rb
			}
		}
		for _, p := range ordered {
			if l.Op != "" {
				break
			}
			if !continuesLoop(p, h) {
				continue
			}
			for si, s := range p.Events(ir.KBranch) {
				at := s.Atom
				if at.Op == "bin" && at.Aux == "==" && len(at.Args) == 2 && !s.Pol && step == 1 {
					// for i := S; i != n; i++   (n non-negative: otherwise the loop would not stop at n)
					var b *ir.Term
					if ir.Same(at.Args[0], sym) {
						b = at.Args[1]
					} else if ir.Same(at.Args[1], sym) {
						b = at.Args[0]
					}
					if b != nil && (nonNegTerm(b) || sizeOfSomethingMade(an, h, b)) && !mentions(b, sym) {
						l.Op, l.Bound = "!=", b
						break
					}
				}
				if at.Op != "bin" || at.Aux != "<" || len(at.Args) != 2 {
					continue
				}
				x, y := at.Args[0], at.Args[1]
				switch {
				case ir.Same(x, sym):
					l.Op, l.Bound = "<", y
				case ir.Same(y, sym):
					l.Op, l.Bound = ">", x
				default:
					d, ok := plusConst(x, sym)
					s0, isK := startT.IntConst()
					if ok && d == 1 && y.Op == "len" && isK && s0 == -1 {
						l.Op, l.Bound, l.RangeOver = "range", y, y.Args[0]
					} else if ok && d == 1 && isK && s0 == -1 && s.Pol && !mentions(y, sym) {
						// a range loop whose length the engine already resolved (range over a slice it saw being made)
						l.Op, l.Bound = "range", y
					} else if ok && d == 1 && s.Pol && p.To == h && entryGuard(an, h, startT, y) {
						// bottom-tested (rotated) loop `for i := range n`: the body runs for phi, then continues iff
						// phi+1 < n; the entry is guarded by start < n
						l.Op, l.Bound = "rot<", y
					}
				}
				if l.Op != "" {
					_ = si
					if l.Op != "range" && !s.Pol {
						// the loop continues when the atom is false:  !(phi < B) => phi >= B ; !(B < phi) => phi <= B
						if l.Op == "<" {
							l.Op = ">="
						} else {
							l.Op = "<="
						}
					}
					break
				}
			}
			if l.Op != "" {
				break
			}
		}
		if l.Op == "" {
			continue
		}
		// trip count for ascending loops
		if s0, ok := l.Start.IntConst(); ok && l.Step == 1 {
			switch {
			case (l.Op == "<" || l.Op == "!=" || l.Op == "rot<") && s0 == 0:
				l.Trip = l.Bound
			case l.Op == "<=" && s0 == 1:
				l.Trip = l.Bound
			case l.Op == "range" && s0 == -1:
				l.Trip = l.Bound // len(x)
			}
			if (l.Op == "<" || l.Op == "!=" || l.Op == "rot<") && s0 == 0 && l.Bound.Op == "len" {
				l.RangeOver, l.indexForm = l.Bound.Args[0], true
			}
		}
		if l.Step == -1 && l.Op == ">" {
			// for x := S; x > 0; x--  runs S times
			if b, ok := l.Bound.IntConst(); ok && b == 0 {
				l.Trip = l.Start
			}
		}
		if l.Step == -1 && l.Trip == nil {
			// for i := N-1; i >= 0; i--  (or i > -1) visits N-1 .. 0: N passes, the index is the counter itself
			b, isK := l.Bound.IntConst()
			if isK && (l.Op == ">=" && b == 0 || l.Op == ">" && b == -1) {
				if n := plusOne(l.Start); n != nil {
					l.Trip, l.Descending = n, true
				}
			}
		}
		return l
	}
	// head/tail form over a slice
	for _, in := range h.Instrs {
		phi, ok := in.(*ssa.Phi)
		if !ok {
			break
		}
		if _, isSl := phi.Type().Underlying().(*types.Slice); !isSl {
			continue
		}
		sym := start.Reg(phi)
		lb := ir.LoopBlocks(h)
		var over *ir.Term
		good, nBack := true, 0
		for _, ps := range an.Segs {
			for _, p := range ps {
				if p.To != h {
					continue
				}
				v := p.PhiOut[phi]
				if p.From == nil || !lb[p.From] {
					if over != nil && !ir.Same(over, v) {
						good = false
					}
					over = v
					continue
				}
				nBack++
				// rest = rest[1:]
				if !(v != nil && v.Op == "slice" && len(v.Args) == 4 && ir.Same(v.Args[0], sym) && v.Args[1].Aux == "1" && v.Args[2].Aux == "_" && v.Args[3].Aux == "_") {
					good = false
				}
				// taken only while len(rest) > 0
				if polarity(p, &ir.Term{Op: "bin", Aux: "==", Args: sorted2(ir.Const("0"), &ir.Term{Op: "len", Args: []*ir.Term{sym}})}) >= 0 {
					good = false
				}
			}
		}
		if good && nBack > 0 && over != nil {
			return &Loop{Header: h, Phi: phi, Start: ir.Const("0"), Step: 1, Op: "tail", Bound: &ir.Term{Op: "len", Args: []*ir.Term{over}}, Trip: &ir.Term{Op: "len", Args: []*ir.Term{over}}, RangeOver: over, tailForm: true}
		}
	}
	return nil
}

// plusOne: the term X when t is X-1 (nil otherwise).
func plusOne(t *ir.Term) *ir.Term {
	if t == nil || t.Op != "bin" {
		return nil
	}
	if t.Aux == "-" && len(t.Args) == 2 {
		if k, ok := t.Args[1].IntConst(); ok && k == 1 {
			return t.Args[0]
		}
	}
	if t.Aux == "+" && len(t.Args) == 2 {
		for i := 0; i < 2; i++ {
			if k, ok := t.Args[i].IntConst(); ok && k == -1 {
				return t.Args[1-i]
			}
		}
	}
	return nil
}

// entryGuard: every path entering the loop at h from outside establishes start < bound.
func entryGuard(an *ir.Analysis, h *ssa.BasicBlock, start, bound *ir.Term) bool {
	if start == nil {
		return false
	}
	lb := ir.LoopBlocks(h)
	atom := &ir.Term{Op: "bin", Aux: "<", Args: []*ir.Term{start, bound}}
	n := 0
	for _, ps := range an.Segs {
		for _, p := range ps {
			if p.To == h && (p.From == nil || !lb[p.From]) {
				n++
				if polarity(p, atom) <= 0 {
					// 0 < bound also follows from bound != 0 when the bound cannot be negative (a length)
					if k, isK := start.IntConst(); isK && k == 0 && nonNegTerm(bound) &&
						polarity(p, &ir.Term{Op: "bin", Aux: "==", Args: sorted2(ir.Const("0"), bound)}) < 0 {
						continue
					}
					return false
				}
			}
		}
	}
	return n > 0
}

// nonNegTerm: the term denotes a value that is never negative.
func nonNegTerm(t *ir.Term) bool {
	if k, ok := t.IntConst(); ok {
		return k >= 0
	}
	switch t.Op {
	case "len", "cap":
		return true
	case "pure":
		return strings.HasSuffix(t.Aux, ".NumField") || strings.HasSuffix(t.Aux, ".Len") || strings.HasSuffix(t.Aux, ".NumMethod")
	}
	return false
}

func mentions(t, sub *ir.Term) bool {
	if t == nil {
		return false
	}
	if ir.Same(t, sub) {
		return true
	}
	for _, a := range t.Args {
		if mentions(a, sub) {
			return true
		}
	}
	return false
}

func continuesLoop(p *ir.Path, h *ssa.BasicBlock) bool {
	// a segment that does not leave the natural loop of h continues it
	if p.To == nil {
		return false
	}
	return ir.LoopBlocks(h)[p.To]
}

func phiSym(an *ir.Analysis, h *ssa.BasicBlock, phi *ssa.Phi) *ir.Term {
	// the value the phi has at the start of segments from h
	for _, p := range an.Segs[h] {
		_ = p
		break
	}
	return an.Start[h].Reg(phi)
}

// plusConst: v == base + c ?
func plusConst(v, base *ir.Term) (int64, bool) {
	if v == nil || base == nil {
		return 0, false
	}
	if ir.Same(v, base) {
		return 0, true
	}
	if v.Op == "bin" && v.Aux == "+" && len(v.Args) == 2 {
		for i := 0; i < 2; i++ {
			if ir.Same(v.Args[i], base) {
				if k, ok := v.Args[1-i].IntConst(); ok {
					return k, true
				}
			}
		}
	}
	if v.Op == "bin" && v.Aux == "-" && len(v.Args) == 2 && ir.Same(v.Args[0], base) {
		if k, ok := v.Args[1].IntConst(); ok {
			return -k, true
		}
	}
	return 0, false
}

// tripCountOf: symbolic trip count of the innermost loop containing block b.
func tripCountOf(an *ir.Analysis, b *ssa.BasicBlock) *ir.Term {
	l := countedLoop(an, innermostHeader(b))
	if l == nil {
		return nil
	}
	return l.Trip
}

// ---------------------------------------------------------------------------
// classification of terms and steps

func isChanType(t types.Type) bool {
	if t == nil {
		return false
	}
	_, ok := t.Underlying().(*types.Chan)
	return ok
}

func isContextType(t types.Type) bool {
	if t == nil {
		return false
	}
	n, ok := t.(*types.Named)
	return ok && n.Obj().Pkg() != nil && n.Obj().Pkg().Path() == "context" && n.Obj().Name() == "Context"
}

// isDoneOfCtx: t is X.Done() with X a context-typed parameter of the stage.
func isDoneOfCtx(t *ir.Term) bool {
	m, _, args, ok := callParts(t)
	if !ok || m != "Done" || len(args) != 1 {
		return false
	}
	x := args[0]
	return x.Op == "param" && isContextType(x.Typ)
}

// doneArm returns the index of the select arm receiving from ctx.Done(), or -1.
func doneArm(s *ir.Step) int {
	for i, a := range s.Arms {
		if !a.Send && isDoneOfCtx(a.Chan) {
			return i
		}
	}
	return -1
}

// isInputChan: the channel term derives from a parameter of the stage function
// (a channel parameter, or an element of a slice-of-channels parameter).
func isInputChan(t *ir.Term) bool {
	if t == nil {
		return false
	}
	switch t.Op {
	case "param":
		return true
	case "index", "load", "iaddr", "extract":
		return len(t.Args) > 0 && isInputChan(t.Args[0])
	}
	return false
}

// isMadeChan: a channel created by the stage (make, or the errch role).
func isMadeChan(t *ir.Term) bool {
	if t == nil {
		return false
	}
	if t.Op == "mkchan" {
		return true
	}
	return isErrchCall(t)
}

// isErrchCall: t is the result of the errch role (interface method (int) chan error), whatever it is called.
func isErrchCall(t *ir.Term) bool {
	if t == nil || t.Op != "call" || len(t.Args) == 0 || t.Args[0].Op != "method" || t.Args[0].Meth == nil {
		return false
	}
	return sigIsErrch(t.Args[0].Meth.Type().(*types.Signature))
}

func chanCap(t *ir.Term) *ir.Term {
	if t != nil && t.Op == "mkchan" {
		return t.Args[0]
	}
	return nil
}

func isMethodCall(s *ir.Step, full string) bool {
	if s.Kind != ir.KCall {
		return false
	}
	if s.Method != nil {
		return s.Method.FullName() == full
	}
	if s.Static != nil {
		return s.Static.String() == full
	}
	return false
}

func isWgWait(s *ir.Step) bool { return isMethodCall(s, "(*sync.WaitGroup).Wait") }
func isWgDone(s *ir.Step) bool { return isMethodCall(s, "(*sync.WaitGroup).Done") }
func isWgAdd(s *ir.Step) bool  { return isMethodCall(s, "(*sync.WaitGroup).Add") }
func isSleep(s *ir.Step) bool  { return isMethodCall(s, "time.Sleep") }
func isTimeAfter(t *ir.Term) bool {
	_, callee, _, ok := callParts(t)
	return ok && callee != nil && callee.Op == "fn" && callee.Fn != nil && (callee.Fn.String() == "time.After" || callee.Fn.String() == "time.NewTimer")
}

// timerCall: ch is the channel of a one-shot timer - time.After(d) itself or the C field of time.NewTimer(d);
// returns the arming call's result term (nil otherwise).
func timerCall(ch *ir.Term) *ir.Term {
	if ch == nil {
		return nil
	}
	if isTimeAfter(ch) {
		if _, callee, _, _ := callParts(ch); callee.Fn.String() == "time.After" {
			return ch
		}
		return nil
	}
	x := ch
	if x.Op == "load" && len(x.Args) == 1 && x.Args[0].Op == "faddr" && x.Args[0].Aux == "C" && len(x.Args[0].Args) == 1 {
		x = x.Args[0].Args[0]
	} else if x.Op == "field" && x.Aux == "C" && len(x.Args) == 1 {
		x = x.Args[0]
	} else {
		return nil
	}
	if isTimeAfter(x) {
		if _, callee, _, _ := callParts(x); callee.Fn.String() == "time.NewTimer" {
			return x
		}
	}
	return nil
}

// catchRole: an interface method with signature (context.Context, error, chan<- error) bool.
func isCatchRole(s *ir.Step) bool {
	if s.Kind != ir.KCall || s.Method == nil {
		return false
	}
	return sigIsCatch(s.Method.Type().(*types.Signature))
}

func sigIsCatch(sig *types.Signature) bool {
	if sig.Params().Len() != 3 || sig.Results().Len() != 1 {
		return false
	}
	if !isContextType(sig.Params().At(0).Type()) {
		return false
	}
	if !types.Identical(sig.Params().At(1).Type(), types.Universe.Lookup("error").Type()) {
		return false
	}
	ch, ok := sig.Params().At(2).Type().Underlying().(*types.Chan)
	if !ok || !types.Identical(ch.Elem(), types.Universe.Lookup("error").Type()) {
		return false
	}
	if ir.IsBoolEnum(sig.Results().At(0).Type()) {
		// the verdict re-represented as a two-valued enum (abort / resume): read as false / true
		return true
	}
	b, ok := sig.Results().At(0).Type().Underlying().(*types.Basic)
	return ok && b.Kind() == types.Bool
}

// errchRole: interface method (int) chan error.
func sigIsErrch(sig *types.Signature) bool {
	if sig.Params().Len() != 1 || sig.Results().Len() != 1 {
		return false
	}
	b, ok := sig.Params().At(0).Type().Underlying().(*types.Basic)
	if !ok || b.Kind() != types.Int {
		return false
	}
	ch, ok := sig.Results().At(0).Type().Underlying().(*types.Chan)
	return ok && types.Identical(ch.Elem(), types.Universe.Lookup("error").Type())
}

// isApplyRole: a call of the user function through the stage's function
// parameter: interface method named Apply on a parameter of the stage.
func isApplyRole(s *ir.Step) bool {
	return s.Kind == ir.KCall && s.Method != nil && s.Method.Name() == "Apply" && len(s.A) > 0 && s.A[0].Op == "param"
}

// blocking reports whether the step may block, and a short description.
func blockingKind(s *ir.Step) string {
	switch s.Kind {
	case ir.KSend:
		return "send"
	case ir.KRecv:
		return "recv"
	case ir.KSelect:
		if s.Blocking {
			return "select"
		}
	case ir.KCall:
		if isWgWait(s) {
			return "wait"
		}
	}
	return ""
}

func posOf(c *core.Ctx, s *ir.Step) token.Pos { return s.Pos() }

// stageFuncs: exported functions of the package that spawn goroutines or
// make channels (the stage constructors), sorted by position.
func stageFuncs(c *core.Ctx, pkg string) []*ssa.Function {
	var out []*ssa.Function
	// a stage constructor spawns a goroutine or makes a channel - itself, or in an unexported function of the
	// package it delegates to (an exported wrapper over an internal `...With(cfg)` constructor)
	var spawns func(f *ssa.Function, depth int, seen map[*ssa.Function]bool) bool
	spawns = func(f *ssa.Function, depth int, seen map[*ssa.Function]bool) bool {
		if f == nil || seen[f] || depth > 4 {
			return false
		}
		seen[f] = true
		for _, b := range f.Blocks {
			for _, in := range b.Instrs {
				switch in := in.(type) {
				case *ssa.Go, *ssa.MakeChan:
					return true
				case *ssa.Call:
					callee := in.Call.StaticCallee()
					if callee != nil && callee.Origin() != nil {
						callee = callee.Origin() // the generic function an instance was made of
					}
					if callee != nil && callee.Pkg != nil && callee.Pkg == f.Pkg && callee.Parent() == nil {
						if o := callee.Object(); o == nil || !o.Exported() {
							if spawns(callee, depth+1, seen) {
								return true
							}
						}
					}
				}
			}
		}
		return false
	}
	for _, f := range exportedFuncs(c, pkg) {
		if spawns(f, 0, map[*ssa.Function]bool{}) {
			out = append(out, f)
		}
	}
	return out
}

func sortedKeys[V any](m map[string]V) []string {
	var ks []string
	for k := range m {
		ks = append(ks, k)
	}
	sort.Strings(ks)
	return ks
}

// loopsProgress: no loop of the package's functions can go round without changing anything - a cycle from a loop head
// back to itself that leaves every loop-carried register at its value, stores nothing and calls / receives / sends
// nothing repeats forever once it is entered (a deleted increment, a lost advance). One obligation per function with
// loops. Cycles with calls are not judged (the callee may be what makes progress).
func loopsProgress(c *core.Ctx, rule string, pkgs ...string) {
	for _, pkg := range pkgs {
		nLoops, nFuncs := 0, 0
		defer func(pkg string) {
			// how many functions carry loops changes with every refactoring (a loop moved into an iterator of the
			// standard library leaves none behind): the package is always reported, with what was examined
			c.Ok(rule, pkgShort(pkg)+"#package", 0, fmt.Sprintf("%d functions, %d with loops", nFuncs, nLoops))
		}(pkg)
		for _, fn := range c.W.SourceFuncs(pkg) {
			nFuncs++
			if !ir.HasLoop(fn) {
				continue
			}
			nLoops++
			name := pkgShort(pkg) + "." + fnLabel(fn)
			an := c.Analyze(fn)
			if len(an.Problems) > 0 {
				continue // the pack's own rules report functions the engine cannot model
			}
			var bad *ir.Path
			for _, h := range an.Headers {
				start := an.Start[h]
				for _, p := range an.Segs[h] {
					if p.To != h || start == nil {
						continue
					}
					still := true
					for phi, v := range p.PhiOut {
						if phi.Block() != h {
							continue
						}
						if s := start.Reg(phi); s == nil || !ir.Same(s, v) {
							still = false
						}
					}
					for i := range p.Steps {
						switch p.Steps[i].Kind {
						case ir.KStore, ir.KCall, ir.KRecv, ir.KSend, ir.KSelect, ir.KGo, ir.KMapUpdate, ir.KClose, ir.KDefer:
							still = false
						}
					}
					if still {
						bad = p
					}
				}
			}
			if bad != nil {
				c.Fail(rule, name, lastPos(bad), "a pass of this loop changes nothing (no loop-carried value moves, nothing is stored, called, sent or received): once entered it never ends:\n%s", bad)
			} else {
				c.Ok(rule, name, fn.Pos(), "every cycle moves a loop-carried value or has an effect")
			}
		}
	}
}

// earlyExit: a path that enters the body of the (top-tested) loop at h and then leaves the loop instead of coming back
// to its head - a `break` / `return` in the middle of a loop that is supposed to visit every index. nil when the only
// way out is the loop's own test.
func earlyExit(an *ir.Analysis, h *ssa.BasicBlock) *ir.Path {
	lb := ir.LoopBlocks(h)
	for _, p := range an.Segs[h] {
		if p.To != nil && lb[p.To] {
			continue
		}
		for i := range p.Steps {
			in := p.Steps[i].Instr
			if in == nil || in.Parent() != h.Parent() {
				continue
			}
			if b := in.Block(); b != h && lb[b] {
				return p
			}
		}
	}
	return nil
}

// loopSegments presents the segments that start at loop header h in the shape of a top-tested loop: iterations (one
// pass over the body, ending where the next pass would begin) and exits (what follows the end of the loop, without any
// step of the body). For a bottom-tested (rotated) loop - `for i := range n` - every segment from the header carries
// one full pass followed by the bound test `i+1 < n`; it is cut behind that test. early is a segment that leaves the
// loop from inside its body (before the bound test), nil if there is none.
func loopSegments(an *ir.Analysis, h *ssa.BasicBlock, l *Loop) (iters, exits []*ir.Path, early *ir.Path) {
	if l == nil || !l.Rotated() {
		for _, p := range an.Segs[h] {
			if p.To == h {
				iters = append(iters, p)
			} else {
				exits = append(exits, p)
			}
		}
		return iters, exits, earlyExit(an, h)
	}
	sym := an.Start[h].Reg(l.Phi)
	test := &ir.Term{Op: "bin", Aux: "<", Args: []*ir.Term{{Op: "bin", Aux: "+", Args: sorted2(sym, ir.Const("1"))}, l.Bound}}
	seen := map[string]bool{}
	for _, p := range an.Segs[h] {
		k := -1
		for i := range p.Steps {
			if st := &p.Steps[i]; st.Kind == ir.KBranch && ir.Same(st.Atom, test) {
				k = i
			}
		}
		if k < 0 {
			if early == nil {
				early = p
			}
			continue
		}
		it := &ir.Path{From: h, To: h, Steps: p.Steps[:k]}
		if key := it.String(); !seen[key] {
			seen[key] = true
			iters = append(iters, it)
		}
		if p.To != h {
			exits = append(exits, &ir.Path{From: h, To: p.To, Exit: p.Exit, Steps: p.Steps[k+1:], PhiOut: p.PhiOut, Results: p.Results, End: p.End})
		}
	}
	return iters, exits, early
}

// zeroTrip: p is a path from the function entry that skips the bottom-tested loop l altogether (its guard
// `start < bound` failed): nothing of the loop is missing on it.
func zeroTrip(an *ir.Analysis, p *ir.Path, l *Loop) bool {
	if l == nil || !l.Rotated() || l.Start == nil || l.Bound == nil {
		return false
	}
	for _, form := range []*ir.Term{
		{Op: "bin", Aux: "<", Args: []*ir.Term{l.Start, l.Bound}},
	} {
		if polarity(p, form) < 0 {
			return true
		}
	}
	if l.Bound.Op == "len" {
		if s0, ok := l.Start.IntConst(); ok && s0 == 0 {
			return polarity(p, &ir.Term{Op: "bin", Aux: "==", Args: sorted2(ir.Const("0"), l.Bound)}) > 0
		}
	}
	return false
}

// lockstepRewrite: integer memory cells that advance in lock-step with the loop's counter (a cursor object whose
// position is bumped once per iteration, `at.next()`) are related to the counter by an invariant - on every way into
// the loop the cell holds a constant c0 while the counter starts at a constant k0, and every way round the loop adds
// the loop's step to both - so that at the loop head cell = counter + (c0 - k0). The returned function rewrites the
// head value of such cells in a term to that expression of the counter (other terms are returned unchanged).
func lockstepRewrite(an *ir.Analysis, l *Loop) func(*ir.Term) *ir.Term {
	id := func(t *ir.Term) *ir.Term { return t }
	if l == nil || l.Header == nil || l.Phi == nil || l.Start == nil {
		return id
	}
	h := l.Header
	k0, isK := l.Start.IntConst()
	if !isK {
		return id
	}
	sym := phiSym(an, h, l.Phi)
	// candidate cells: loads of the head's memory version seen on the paths from the head
	cells := map[string]*ir.Term{}
	collect := func(t *ir.Term) {
		if t == nil {
			return
		}
		t.Walk(func(x *ir.Term) {
			if x.Op == "load" && strings.HasPrefix(x.Aux, "@") && len(x.Args) == 1 && an.Start[h] != nil {
				if hv := an.Start[h].MemAt(x.Args[0]); hv != nil && ir.Same(hv, x) {
					cells[x.Key()] = x
				}
			}
		})
	}
	for _, p := range an.Segs[h] {
		for i := range p.Steps {
			st := &p.Steps[i]
			for _, a := range st.A {
				collect(a)
			}
			collect(st.R)
			collect(st.Atom)
		}
	}
	type rel struct {
		cell *ir.Term
		off  int64
	}
	var rels []rel
	lb := ir.LoopBlocks(h)
	for _, cell := range cells {
		addr := cell.Args[0]
		ok, nBack, nIn := true, 0, 0
		var c0 int64
		for _, ps := range an.Segs {
			for _, p := range ps {
				if p.To != h || p.End == nil {
					continue
				}
				v := p.End.MemAt(addr)
				if p.From != nil && lb[p.From] {
					nBack++
					if p.From != h {
						ok = false // nested heads: not handled
						continue
					}
					if d, isD := plusConst(v, cell); !isD || d != l.Step {
						ok = false
					}
				} else {
					k, isC := v.IntConst()
					if !isC || (nIn > 0 && k != c0) {
						ok = false
					}
					c0 = k
					nIn++
				}
			}
		}
		if ok && nBack > 0 && nIn > 0 {
			rels = append(rels, rel{cell, c0 - k0})
		}
	}
	if len(rels) == 0 {
		return id
	}
	return func(t *ir.Term) *ir.Term {
		for _, r := range rels {
			t = substTerm(t, r.cell, ir.MkBin("+", ir.Const(fmt.Sprint(r.off)), sym))
		}
		return ir.Rebuild(t)
	}
}


// sizeOfSomethingMade: on every way into the loop at h, b was the size of a channel or slice made before (make panics
// for a negative size), so b is not negative when the loop is reached.
func sizeOfSomethingMade(an *ir.Analysis, h *ssa.BasicBlock, b *ir.Term) bool {
	n := 0
	for _, ps := range an.Segs {
		for _, p := range ps {
			if p.To != h || p.From == h {
				continue
			}
			if p.From != nil {
				return false // reached from another loop: not followed
			}
			n++
			found := false
			for i := range p.Steps {
				st := &p.Steps[i]
				visit := func(t *ir.Term) {
					if t == nil || found {
						return
					}
					t.Walk(func(x *ir.Term) {
						if (x.Op == "mkchan" || x.Op == "mkslice") && len(x.Args) > 0 && ir.Same(x.Args[0], b) {
							found = true
						}
					})
				}
				for _, a := range st.A {
					visit(a)
				}
				visit(st.R)
			}
			if !found {
				return false
			}
		}
	}
	return n > 0
}
