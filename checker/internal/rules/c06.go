package rules

import (
	"fmt"
	"go/token"
	"go/types"
	"strings"

	"golang.org/x/tools/go/ssa"

	"verif/checker/internal/core"
	"verif/checker/internal/ir"
)

func init() {
	register(&Pack{ID: "C06", Run: runC06, Meta: core.Meta{
		Level:       "other",
		Explanation: "Pairing / typestate / ownership rules over the cut-point paths (engine P) of every goroutine a pipe stage spawns, each analysed with the memory snapshot of its go statement: every made channel has exactly one closing goroutine and is closed exactly once on every exit path after the last send (or after wg.Wait in the worker-pool form, with wg.Done after the last send of each counted sender and wg.Add equal to the number of spawned senders); every blocking operation is the range over the stage's input, an arm of a select that has a <-ctx.Done() arm of the stage's own context whose continuation exits without blocking again, a send with a capacity proof, or wg.Wait; every loop iteration passes a cancellation point and has an exit; the false edge of the catch role exits; no goroutine panics, closes twice or closes a foreign channel; nothing is delivered on a stage output after a cancellation was observed. The behavioural claim (termination and closure for every interleaving) follows on paper from these shape facts; it is not observed at run time. caller-slice-read: no goroutine of a stage indexes or ranges over a slice parameter of the stage function (the caller owns it again after the call). no-panic-source also rejects an integer division whose divisor is not excluded from being zero by an earlier branch (of the path, of the segments before its loop head, or of the spawning function). errch-request: the capacity requested from errch derives from cap(in) / the capacity parameter, never from len of a channel.",
		RuleText:    "one obligation per (rule, goroutine/channel/blocking site); all sites of all stage constructors of package pipe are enumerated",
		Assumptions: []string{"inputs are eventually closed (premise of the property)", "pipe.New (unbounded channel) is covered by C08, not here"},
		TrustedBase: []string{"go/ssa", "path engine P", "Go channel/select/defer semantics"},
	}})
}

// proc is a unit of sequential execution of a stage: the constructor itself or a goroutine.
type proc struct {
	name string
	fn   *ssa.Function
	an   *ir.Analysis
	g    *Goroutine // nil for the constructor
}

func procsOf(s *Stage) []*proc {
	ps := []*proc{{name: s.Name + "#ctor", fn: s.Fn, an: s.Outer}}
	for _, g := range s.Gos {
		ps = append(ps, &proc{name: g.Name, fn: g.Fn, an: g.An, g: g})
	}
	return ps
}

// sendsOn lists (plain send | chosen select send arm) steps on channel key k in path p, with their index.
type chanEv struct {
	idx   int
	step  *ir.Step
	plain bool
	val   *ir.Term
}

func sendsOn(p *ir.Path, k string) []chanEv {
	var out []chanEv
	for i := range p.Steps {
		s := &p.Steps[i]
		switch s.Kind {
		case ir.KSend:
			if s.A[0].Key() == k {
				out = append(out, chanEv{i, s, true, s.A[1]})
			}
		case ir.KSelect:
			if s.Chosen >= 0 && s.Arms[s.Chosen].Send && s.Arms[s.Chosen].Chan.Key() == k {
				out = append(out, chanEv{i, s, false, s.Arms[s.Chosen].Val})
			}
		}
	}
	return out
}

func closesOn(p *ir.Path, k string) []chanEv {
	var out []chanEv
	for i := range p.Steps {
		s := &p.Steps[i]
		if s.Kind == ir.KClose && s.A[0].Key() == k {
			out = append(out, chanEv{i, s, true, nil})
		}
	}
	return out
}

// madeChans collects every channel term created by the stage (make / errch) that is stored, sent on, closed or returned anywhere.
func madeChans(s *Stage) map[string]*ir.Term {
	m := map[string]*ir.Term{}
	add := func(t *ir.Term) {
		if isMadeChan(t) {
			m[t.Key()] = t
		}
	}
	for _, r := range s.Returned {
		add(r)
	}
	for _, pr := range procsOf(s) {
		for _, p := range pr.an.AllPaths() {
			for i := range p.Steps {
				st := &p.Steps[i]
				switch st.Kind {
				case ir.KSend, ir.KClose, ir.KRecv:
					add(st.A[0])
				case ir.KSelect:
					for _, a := range st.Arms {
						add(a.Chan)
					}
				case ir.KStore:
					add(st.A[1])
				}
			}
		}
	}
	return m
}

func chanLabel(s *Stage, t *ir.Term) string {
	// name channels by what the constructor stores them into / returns them as: stable and readable
	for _, p := range s.Outer.AllPaths() {
		for _, st := range p.Events(ir.KStore) {
			if ir.Same(st.A[1], t) && st.A[0].Op == "alloc" {
				if i := strings.LastIndex(st.A[0].Aux, ":"); i >= 0 && st.A[0].Aux[i+1:] != "" {
					return st.A[0].Aux[i+1:]
				}
			}
		}
	}
	for i, r := range s.Returned {
		if ir.Same(r, t) {
			return fmt.Sprintf("result%d", i)
		}
	}
	if t.Op == "mkchan" {
		if mc, ok := t.Src.(*ssa.MakeChan); ok {
			return "chan@" + mc.Name()
		}
	}
	return "chan"
}

func runC06(c *core.Ctx) {
	c.Doc("single-closer", 15, "every made channel has exactly one closing goroutine")
	c.Doc("close-on-every-exit", 15, "the owner closes it exactly once on every exit path, after its last send, never inside a loop")
	c.Doc("no-send-after-close", 15, "every sender is the closer itself or is counted by the WaitGroup the closer waits for, with Done after its last send")
	c.Doc("cancellable-blocking", 20, "each blocking operation is range-over-input, a select with a ctx.Done arm that exits, an accounted send, or wg.Wait")
	c.Doc("accounted-send", 2, "plain sends have a capacity proof")
	c.Doc("catch-false-exits", 4, "the false edge of the catch role reaches exit without further events")
	c.Doc("cycles-have-exit", 14, "every loop iteration passes a cancellation point (or is a counted loop) and the loop has an exit")
	c.Doc("no-panic-source", 14, "no explicit panic, double close, or close of a foreign/nil channel in a library goroutine")
	c.Doc("no-delivery-after-cancel", 14, "after an observed ctx.Done nothing is sent on a stage output")
	c.Doc("stages", 14, "stage constructors of package pipe analysed")

	// the monoid a caller builds with the library's own constructors is the one Fold folds with: From(e, op).Empty() is e and
	// its Combine is op itself - not a method of the instance type that shadows the promoted one (shared with C10 / C17)
	c.Doc("monoid-literal", 2, "monoid.From/FromOp build {Semigroup: combine, empty: empty}")
	c.Doc("monoid-empty", 1, "Empty returns the stored element")
	c.Doc("monoid-combine-promoted", 1, "Combine resolves to the stored semigroup's Combine")
	monoidRules(c)

	n := 0
	for _, fn := range stageFuncs(c, "pipe") {
		if isUnboundCtor(fn) {
			continue
		}
		s := buildStage(c, "pipe", fn)
		if len(s.Problems) > 0 {
			c.Undecided("stages", s.Name, fn.Pos(), "engine could not model the stage: %s", strings.Join(s.Problems, "; "))
			continue
		}
		c.Ok("stages", s.Name, fn.Pos(), fmt.Sprintf("%d goroutines", len(s.Gos)))
		n++
		stageLifecycleRules(c, s, lifecycleOpts{})
		exxProvenance(c, "C06", s)
		// goroutines started once per input (Join's copiers) run concurrently: a variable they share makes what is
		// delivered depend on the schedule (an element sent twice, another lost - no longer a prefix of anything)
		for _, g := range s.Gos {
			if g.InLoop {
				if c.Rules["worker-local-state"] == nil {
					c.Doc("worker-local-state", 1, "a goroutine started several times concurrently stores to no variable shared between its instances")
				}
				workerLocalState(c, g.Name, s, g)
			}
		}
	}
	catchImplBlocking(c, "pipe")
	stdErrDrains(c)
}

// stdErrDrains: the error logger must keep receiving until the error channel is closed -
// a Try stage blocks on its error channel otherwise (the property's premise "provided the error channel is read").
func stdErrDrains(c *core.Ctx) {
	c.Doc("stderr-drains", 1, "StdErr ranges over the error channel until it is closed and returns the value channel unchanged")
	fn := c.W.Func("pipe", "StdErr")
	if fn == nil {
		c.Undecided("stderr-drains", "pipe.StdErr", 0, "anchor not found")
		return
	}
	s := buildStage(c, "pipe", fn)
	if len(s.Problems) > 0 || len(s.Gos) != 1 || len(s.Gos[0].An.Headers) != 1 {
		c.Fail("stderr-drains", "pipe.StdErr", fn.Pos(), "StdErr does not spawn exactly one goroutine with one receive loop (goroutines=%d)", len(s.Gos))
		return
	}
	g := s.Gos[0]
	h := g.An.Headers[0]
	ok := true
	elem, other := elementPaths(g, h)
	if len(elem) == 0 {
		ok = false
		c.Fail("stderr-drains", "pipe.StdErr", g.Fn.Pos(), "the logger never receives from the error channel in its loop")
	}
	for _, f := range elem {
		if f.p.To != h {
			ok = false
			c.Fail("stderr-drains", "pipe.StdErr", f.recv.Pos(), "the logger stops after an error although the channel is still open")
		}
		if !(f.recv.A[0].Op == "param" && f.recv.A[0].Src == ssa.Value(fn.Params[1])) {
			ok = false
			c.Fail("stderr-drains", "pipe.StdErr", f.recv.Pos(), "the logger does not read its error-channel parameter")
		}
	}
	for _, f := range other {
		if f.p.Exit == ir.ExitReturn && !f.closed {
			ok = false
			c.Fail("stderr-drains", "pipe.StdErr", lastPos(f.p), "the logger exits without the error channel being closed")
		}
	}
	for _, p := range g.An.Segs[nil] {
		if p.To != h {
			ok = false
			c.Fail("stderr-drains", "pipe.StdErr", lastPos(p), "a path bypasses the receive loop")
		}
	}
	// returns its first parameter unchanged
	for _, p := range s.Outer.AllPaths() {
		if p.Exit == ir.ExitReturn && !(len(p.Results) == 1 && paramOf(p.Results[0], fn, 0)) {
			ok = false
			c.Fail("stderr-drains", "pipe.StdErr", fn.Pos(), "StdErr does not return the value channel it was given")
		}
	}
	if ok {
		c.Ok("stderr-drains", "pipe.StdErr", fn.Pos(), "range exx until closed; out returned unchanged")
	}
}

// catchImplBlocking: the blocking operations inside the closed-world catch implementations.
func catchImplBlocking(c *core.Ctx, pkg string) {
	c.Doc("catch-impl-blocking", 4, "a catch implementation either selects {exx<-err | <-ctx.Done()} or sends once, returns false, and its errch has constant capacity >= 1")
	for _, ci := range catchImpls(c, pkg) {
		if ci.Catch == nil {
			continue
		}
		name := ci.TypeName + ".catch"
		switch ci.Kind {
		case "try":
			c.Ok("catch-impl-blocking", name, ci.Catch.Pos(), "select {exx <- err | <-ctx.Done()}: cancellable")
		case "fail-fast":
			if pkg == "pipe" && ci.PlainSends == 0 {
				c.Ok("catch-impl-blocking", name, ci.Catch.Pos(), "select {exx <- err | <-ctx.Done()}, constant false: cancellable")
			} else if pkg == "pipe" {
				c.Check(ci.Errch != nil && ci.CapConst >= 1, "catch-impl-blocking", name, ci.Catch.Pos(),
					fmt.Sprintf("one plain send, constant false (every call site exits on false), errch capacity %d >= 1", ci.CapConst),
					"fail-fast catch sends plainly but its errch does not return a channel of constant capacity >= 1 (capacity %d, param-capacity %v): the send can block forever", ci.CapConst, ci.CapParam)
			} else {
				c.Ok("catch-impl-blocking", name, ci.Catch.Pos(), "one plain send, constant false; capacity accounted per stage (exx-capacity)")
			}
		default:
			c.Fail("catch-impl-blocking", name, ci.Catch.Pos(), "catch is neither the fail-fast nor the try form: %s", ci.Why)
		}
	}
}

// exxProvenance: every call of the catch role passes the stage's context and
// the error channel obtained from errch of the same F value (pipe) or made with capacity par (fork).
func exxProvenance(c *core.Ctx, prop string, s *Stage) {
	if c.Rules["exx-provenance"] == nil {
		c.Doc("exx-provenance", 2, "catch is called with (ctx of the stage, the error, the stage's own error channel)")
	}
	for _, pr := range procsOf(s) {
		done := map[ssa.Instruction]bool{}
		for _, p := range pr.an.AllPaths() {
			for i := range p.Steps {
				st := &p.Steps[i]
				if !isCatchRole(st) || done[st.Instr] {
					continue
				}
				done[st.Instr] = true
				site := fmt.Sprintf("%s/catch@%s", pr.name, siteID(c, st))
				recv, ctxA, exx := st.A[0], st.A[1], st.A[3]
				ok := ctxA.Op == "param" && isContextType(ctxA.Typ)
				why := "first argument is not the stage's context"
				if ok {
					if _, _, args, isC := callParts(exx); isC && isErrchCall(exx) {
						ok = ir.Same(args[0], recv)
						why = "the error channel comes from errch of a different function value than the one whose catch is called"
						if len(args) > 1 {
							errchRequest(c, pr.name, st.Pos(), args[1])
						}
						if inst := instancesOf(pr); ok && (inst == nil || !(inst.IsConst() && inst.Aux == "1")) {
							ok = false
							why = fmt.Sprintf("the error channel comes from errch, whose capacity is chosen by the function kind (1 for fail-fast), but %s workers may each hand over one error with a plain send: the second failing worker blocks forever", short(inst))
						}
					} else if exx.Op == "mkchan" {
						inst := instancesOf(pr)
						ok = inst != nil && ir.Same(exx.Args[0], inst)
						why = fmt.Sprintf("error channel capacity %s differs from the number of workers %s (a fail-fast worker sends once without select)", short(exx.Args[0]), short(inst))
					} else {
						ok, why = false, "error channel is neither f.errch(...) nor made by the stage: "+short(exx)
					}
				}
				returned := false
				for _, r := range s.Returned {
					if ir.Same(r, exx) {
						returned = true
					}
				}
				if ok && !returned {
					ok, why = false, "the error channel passed to catch is not the one the stage returns"
				}
				c.Check(ok, "exx-provenance", site, st.Pos(), "catch(ctx, err, stage's exx)", "%s", why)
			}
		}
	}
}

// errchRequest: the capacity a stage asks its error channel to have is a function of the stage's own capacity
// (cap of an input channel, or the capacity parameter) - never of len(ch), which is whatever happened to be
// queued when the stage was built, and never a constant that forgets the input's capacity.
func errchRequest(c *core.Ctx, name string, pos token.Pos, q *ir.Term) {
	if c.Rules["errch-request"] == nil {
		c.Doc("errch-request", 2, "the capacity requested from errch derives from cap(in) / the capacity parameter, never from len of a channel")
	}
	var vol, base *ir.Term
	var walk func(t *ir.Term)
	walk = func(t *ir.Term) {
		if t == nil {
			return
		}
		switch t.Op {
		case "len":
			if len(t.Args) > 0 && t.Args[0].Typ != nil {
				if _, isCh := t.Args[0].Typ.Underlying().(*types.Chan); isCh && vol == nil {
					vol = t
				}
			}
		case "cap":
			if len(t.Args) > 0 && isInputChan(t.Args[0]) && base == nil {
				base = t
			}
		case "param":
			if b, isB := t.Typ.Underlying().(*types.Basic); isB && b.Info()&types.IsInteger != 0 && base == nil {
				base = t
			}
		}
		for _, a := range t.Args {
			walk(a)
		}
	}
	walk(q)
	switch {
	case vol != nil:
		c.Fail("errch-request", name, pos, "the error channel is requested with capacity %s: %s is the number of elements queued at the moment the stage is built (0 behind another stage), so a try stage cannot hold its errors and blocks once the value consumer reads first", short(q), short(vol))
	case base == nil:
		c.Fail("errch-request", name, pos, "the error channel is requested with capacity %s, which does not derive from the stage's own capacity (cap of its input / its capacity parameter)", short(q))
	default:
		c.Check(true, "errch-request", name, pos, "errch("+short(q)+")", "")
	}
}

// isUnboundCtor: a constructor returning both directions of channels it makes (pipe.New): (<-chan T, chan<- T).
func isUnboundCtor(fn *ssa.Function) bool {
	res := fn.Signature.Results()
	if res.Len() != 2 {
		return false
	}
	return strings.HasPrefix(res.At(0).Type().String(), "<-chan") && strings.HasPrefix(res.At(1).Type().String(), "chan<-")
}

type lifecycleOpts struct {
	panics                  bool // with only == "closing": also the panic-source section
	skipDeliveryAfterCancel bool
	only                    string // "" = all sections; "closing" = ownership/closing rules only
	catchExit               bool   // with only == "closing": also the catch-false-exits section
}

// stageLifecycleRules applies the C06 rule set to one stage model (shared with C09/C12 for fork and Join).
func stageLifecycleRules(c *core.Ctx, s *Stage, o lifecycleOpts) {
	procs := procsOf(s)
	made := madeChans(s)
	returned := map[string]bool{}
	for _, r := range s.Returned {
		returned[r.Key()] = true
	}

	// ---- ownership and closing -------------------------------------------------
	for _, k := range sortedKeys(made) {
		ch := made[k]
		label := s.Name + "/" + chanLabel(s, ch)
		var closers []*proc
		for _, pr := range procs {
			for _, p := range pr.an.AllPaths() {
				if len(closesOn(p, k)) > 0 {
					closers = append(closers, pr)
					break
				}
			}
		}
		// a shortcut of the constructor ("nothing to do": no inputs, nothing to take) may close the channel itself and
		// return without starting the goroutine that closes it otherwise: on every returning path of the constructor
		// exactly one of the two happens
		if len(closers) == 2 && (closers[0].g == nil) != (closers[1].g == nil) {
			ctor, gor := closers[0], closers[1]
			if ctor.g != nil {
				ctor, gor = gor, ctor
			}
			top := gor.g
			for top.Parent != nil {
				top = top.Parent
			}
			good := top.Spawn != nil && top.Spawn.Instr != nil
			for _, p := range ctor.an.AllPaths() {
				if !good {
					break
				}
				nClose := len(closesOn(p, k))
				if p.Exit != ir.ExitReturn {
					if nClose != 0 {
						good = false // a close on the way round a loop of the constructor
					}
					continue
				}
				// the go statement lies on the way to this return (it dominates the returning block)
				starts := false
				for i := len(p.Steps) - 1; i >= 0; i-- {
					if in := p.Steps[i].Instr; in != nil && in.Parent() == s.Fn && in.Block() != nil {
						sb := top.Spawn.Instr.Block()
						starts = sb == in.Block() || sb.Dominates(in.Block())
						if sb == in.Block() {
							// same block: the go statement must come first
							starts = false
							for _, x := range sb.Instrs {
								if x == top.Spawn.Instr {
									starts = true
									break
								}
								if x == in {
									break
								}
							}
						}
						break
					}
				}
				switch {
				case nClose == 1 && !starts && p.From == nil && len(sendsOn(p, k)) == 0:
				case nClose == 0 && starts:
				default:
					good = false
				}
			}
			if good {
				c.Ok("single-closer", label+"#shortcut", ctor.fn.Pos(), "the constructor closes the channel itself exactly on the paths that do not start "+top.Name)
				closers = []*proc{gor}
			}
		}
		if len(closers) != 1 {
			if len(closers) == 0 && !returned[k] {
				// an internal channel nobody closes is not a leak by itself (nobody ranges over it) – but check it is not ranged over
				c.Ok("single-closer", label, s.Fn.Pos(), "internal channel, never closed, not returned")
				continue
			}
			var names []string
			for _, pr := range closers {
				names = append(names, pr.name)
			}
			c.Fail("single-closer", label, s.Fn.Pos(), "channel is closed by %d goroutines %v, expected exactly one", len(closers), names)
			continue
		}
		owner := closers[0]
		c.Ok("single-closer", label, owner.fn.Pos(), "closed by "+owner.name)
		// the closer is started on every way out of the constructor that hands the channel out: a return ahead of the
		// `go` statement (a shortcut for "nothing to do") leaves the caller with a channel nobody will ever close
		if returned[k] && owner.g != nil {
			top := owner.g
			for top.Parent != nil {
				top = top.Parent
			}
			if top.Spawn != nil && top.Spawn.Instr != nil && top.Spawn.Instr.Parent() == s.Fn {
				if c.Rules["closer-started"] == nil {
					c.Doc("closer-started", 1, "every return of the constructor is preceded by the go statement of the goroutine that closes the returned channel")
				}
				sp := top.Spawn.Instr
				bad := token.NoPos
				for _, b := range s.Fn.Blocks {
					ret, isRet := b.Instrs[len(b.Instrs)-1].(*ssa.Return)
					if !isRet {
						continue
					}
					if b == sp.Block() || sp.Block().Dominates(b) {
						continue
					}
					// a return that hands out other channels only (a shortcut returning a channel it closed itself)
					mayBeThis := false
					for _, r := range ret.Results {
						for {
							if ct, isCT := r.(*ssa.ChangeType); isCT {
								r = ct.X
								continue
							}
							break
						}
						if ld, isLd := r.(*ssa.UnOp); isLd && ld.Op == token.MUL {
							// a load of the variable the channel is kept in (assigned once, with the made channel)
							if al, isAl := ld.X.(*ssa.Alloc); isAl {
								var only ssa.Value
								n := 0
								for _, r2 := range *al.Referrers() {
									if st2, isSt := r2.(*ssa.Store); isSt && st2.Addr == ssa.Value(al) {
										n++
										only = st2.Val
									}
								}
								if mc2, isMC := only.(*ssa.MakeChan); isMC && n == 1 {
									r = mc2
								}
							}
						}
						if mc, isMC := r.(*ssa.MakeChan); isMC && ch.Src != ssa.Value(mc) {
							continue
						}
						// handed out closed: a close of this very channel in the constructor dominates the return
						if mc, isMC := r.(*ssa.MakeChan); isMC && ctorClosedBefore(mc, b) {
							continue
						}
						if _, isCh := r.Type().Underlying().(*types.Chan); isCh {
							mayBeThis = true
						}
					}
					if !mayBeThis {
						continue
					}
					bad = ret.Pos()
					if !bad.IsValid() {
						bad = s.Fn.Pos()
					}
				}
				if bad.IsValid() {
					c.Fail("closer-started", label, bad, "the constructor returns on a path that has not started %s, the goroutine that closes this channel: the caller would wait for a close that never comes", top.Name)
				} else {
					c.Ok("closer-started", label, sp.Pos(), "the go statement of "+top.Name+" dominates every return")
				}
			}
		}
		// exactly once on every exit, after the owner's last send, never on a looping segment
		okClose := true
		// close-then-drain: the owner closes the channel once on its way into a loop (after wg.Wait - the ordering of
		// the senders is the business of no-send-after-close) and afterwards only receives from it
		drain := false
		{
			nIn, good := 0, true
			for _, p := range owner.an.AllPaths() {
				cl, sd := closesOn(p, k), sendsOn(p, k)
				if p.From == nil && p.Exit == ir.ExitNone {
					if len(cl) == 1 {
						nIn++
						for _, e := range sd {
							if e.idx > cl[0].idx {
								good = false
							}
						}
					} else if len(cl) > 1 {
						good = false
					}
				}
				if p.From != nil && (len(cl) > 0 || len(sd) > 0) {
					good = false
				}
			}
			if good && nIn > 0 {
				// every way into a loop carries the close
				for _, p := range owner.an.AllPaths() {
					if p.From == nil && p.Exit == ir.ExitNone && len(closesOn(p, k)) != 1 {
						good = false
					}
				}
				drain = good
			}
		}
		for _, p := range owner.an.AllPaths() {
			cl := closesOn(p, k)
			sd := sendsOn(p, k)
			if drain && (p.From != nil || p.Exit == ir.ExitNone) {
				continue // closed on the way in; nothing but receives afterwards (established above)
			}
			if p.Exit == ir.ExitReturn {
				if len(cl) != 1 {
					okClose = false
					c.Fail("close-on-every-exit", label, lastPos(p), "an exit path of %s closes the channel %d times (want exactly 1):\n%s", owner.name, len(cl), p)
					break
				}
				for _, e := range sd {
					if e.idx > cl[0].idx {
						okClose = false
						c.Fail("close-on-every-exit", label, e.step.Pos(), "send on the channel after it was closed on the same path of %s", owner.name)
					}
				}
			} else if p.Exit == ir.ExitNone && len(cl) > 0 {
				okClose = false
				c.Fail("close-on-every-exit", label, cl[0].step.Pos(), "%s closes the channel on a path that continues (before or inside a loop): later sends would panic", owner.name)
				break
			}
			if !okClose {
				break
			}
		}
		if okClose {
			c.Ok("close-on-every-exit", label, owner.fn.Pos(), "exactly one close on each exit path of "+owner.name)
		}
		// other senders must be ordered before the close by a WaitGroup
		okSend := true
		detail := "only the closer sends"
		for _, pr := range procs {
			if pr == owner {
				continue
			}
			sends := false
			for _, p := range pr.an.AllPaths() {
				if len(sendsOn(p, k)) > 0 || passesChanToUser(p, k) {
					sends = true
				}
			}
			if !sends {
				// a worker of a pool that sends nothing on this channel: when the channel is handed to the caller
				// and closed by another goroutine, its close is the stage's completion signal (ForEach / Void: done)
				// and must still be ordered after every worker's last piece of work
				if returned[k] && pr.g != nil && pr.g.InLoop && owner.g != nil && doesStageWork(s, pr) {
					if why := waitGroupOrders(s, owner, pr, k); why != "" {
						okSend = false
						c.Fail("no-send-after-close", label, pr.fn.Pos(), "the channel is closed by %s as the completion signal, but worker %s is not ordered before that close: %s", owner.name, pr.name, why)
					} else {
						detail = "workers are counted by the WaitGroup the closer waits for; Done after their last work"
					}
				}
				continue
			}
			why := waitGroupOrders(s, owner, pr, k)
			if why != "" {
				okSend = false
				c.Fail("no-send-after-close", label, pr.fn.Pos(), "%s sends on the channel but is not ordered before the close in %s: %s", pr.name, owner.name, why)
			} else {
				detail = "senders are counted by the WaitGroup the closer waits for; Done after last send"
			}
		}
		if okSend {
			c.Ok("no-send-after-close", label, owner.fn.Pos(), detail)
		}
	}

	// ---- what is handed to the caller is only ever sent on -----------------------------
	// A channel the stage returns belongs to the caller's side for receiving. A library goroutine that receives from
	// it (to "make room" in a full error channel, to peek) takes a value the caller was to get.
	{
		if c.Rules["outputs-send-only"] == nil {
			c.Doc("outputs-send-only", 1, "no goroutine of a stage receives from a channel the stage returns to its caller")
		}
		bad := false
		for _, pr := range procs {
			for _, p := range pr.an.AllPaths() {
				for i := range p.Steps {
					st := &p.Steps[i]
					var ch *ir.Term
					switch {
					case st.Kind == ir.KRecv && len(st.A) > 0:
						ch = st.A[0]
					case st.Kind == ir.KSelect:
						for _, a := range st.Arms {
							if !a.Send && returned[a.Chan.Key()] {
								ch = a.Chan
							}
						}
					}
					if ch != nil && returned[ch.Key()] && !bad {
						bad = true
						c.Fail("outputs-send-only", pr.name, st.Pos(), "the goroutine receives from %s, a channel the stage hands to its caller: a value (an error report) the caller was to receive is taken back and dropped", chanLabel(s, ch))
					}
				}
			}
		}
		if !bad {
			c.Ok("outputs-send-only", s.Name, s.Fn.Pos(), "")
		}
	}

	// ---- the stage function itself leaves its inputs alone --------------------------
	// Elements are taken from an input by the goroutine whose element loop hands them on. A receive in the stage
	// function itself (a probe "is this input already closed?", however non-blocking) takes an element that no loop
	// will ever see.
	{
		if c.Rules["ctor-leaves-inputs"] == nil {
			c.Doc("ctor-leaves-inputs", 1, "the stage function performs no receive on its input channels: every element is received by the goroutine that processes it")
		}
		bad := false
		for _, p := range s.Outer.AllPaths() {
			for i := range p.Steps {
				st := &p.Steps[i]
				switch {
				case st.Kind == ir.KRecv && len(st.A) > 0 && isInputChan(st.A[0]):
					bad = true
					c.Fail("ctor-leaves-inputs", s.Name+"#ctor", st.Pos(), "the stage function receives from its input %s before any goroutine runs: an element a sender had ready is taken and dropped", short(st.A[0]))
				case st.Kind == ir.KSelect:
					for _, a := range st.Arms {
						if !a.Send && isInputChan(a.Chan) && !isDoneOfCtx(a.Chan) {
							bad = true
							c.Fail("ctor-leaves-inputs", s.Name+"#ctor", st.Pos(), "the stage function has a select arm receiving from its input %s: an element a sender had ready is taken and dropped", short(a.Chan))
						}
					}
				}
				if bad {
					break
				}
			}
			if bad {
				break
			}
		}
		if !bad {
			c.Ok("ctor-leaves-inputs", s.Name+"#ctor", s.Fn.Pos(), "")
		}
	}

	if o.only == "closing" {
		if o.catchExit {
			if c.Rules["catch-false-exits"] == nil {
				c.Doc("catch-false-exits", 4, "the false edge of the catch role reaches exit without further events")
			}
			catchFalseExits(c, procs)
		}
		if o.panics {
			panicSources(c, s, procs)
		}
		return
	}
	// ---- blocking operations ---------------------------------------------------
	for _, pr := range procs {
		seen := map[string]bool{}
		for _, p := range pr.an.AllPaths() {
			for i := range p.Steps {
				st := &p.Steps[i]
				bk := blockingKind(st)
				if bk == "" {
					// a cancel poll - select { case <-ctx.Done(): ...; default: } - states the belief that the goroutine
					// stops when the context is cancelled: its Done arm must not run on into the loop it polls in
					// (a `break` there leaves only the select and makes the poll a no-op)
					if st.Kind == ir.KSelect && !st.Blocking {
						if d := doneArm(st); d >= 0 && st.Chosen == d {
							if c.Rules["cancel-poll-exits"] == nil {
								c.Doc("cancel-poll-exits", 0, "the Done arm of a cancel poll leaves the loop it polls in (a poll that changes nothing is a contradiction)")
							}
							site := fmt.Sprintf("%s/poll@%s", pr.name, siteID(c, st))
							if p.To != nil && ir.LoopBlocks(p.To)[st.Instr.Block()] {
								c.Fail("cancel-poll-exits", site, st.Pos(), "after the poll observed ctx.Done the goroutine continues with the next iteration of the loop it polls in - the poll has no effect (a `break` inside select leaves only the select):\n%s", p)
							} else {
								c.Ok("cancel-poll-exits", site, st.Pos(), "the Done arm leaves the loop")
							}
						}
					}
					continue
				}
				site := fmt.Sprintf("%s/%s@%s", pr.name, bk, siteID(c, st))
				verdict, why := classifyBlocking(c, s, pr, p, i)
				key := site + "|" + verdict + "|" + why
				if seen[key] {
					continue
				}
				seen[key] = true
				switch verdict {
				case "ok":
					c.Ok("cancellable-blocking", site, st.Pos(), why)
				case "accounted":
					c.Ok("cancellable-blocking", site, st.Pos(), "accounted send: "+why)
					c.Ok("accounted-send", site, st.Pos(), why)
				case "unaccounted":
					c.Fail("accounted-send", site, st.Pos(), "plain send without a capacity proof: %s", why)
				default:
					c.Fail("cancellable-blocking", site, st.Pos(), "%s", why)
				}
			}
		}
	}

	// ---- catch false edge exits ------------------------------------------------
	catchFalseExits(c, procs)

	// ---- loops -----------------------------------------------------------------
	for _, pr := range procs {
		for _, h := range pr.an.Headers {
			hn := 0
			for i, hh := range pr.an.Headers {
				if hh == h {
					hn = i + 1
				}
			}
			site := fmt.Sprintf("%s/loop#%d", pr.name, hn)
			segs := pr.an.Segs[h]
			hasExit := false
			bad := ""
			cl := countedLoop(pr.an, h)
			lb := ir.LoopBlocks(h)
			// exits of the loop: segments starting at any header inside it that leave it
			for _, hh := range pr.an.Headers {
				if !lb[hh] {
					continue
				}
				for _, p := range pr.an.Segs[hh] {
					if p.Exit == ir.ExitReturn || (p.To != nil && !lb[p.To]) {
						hasExit = true
					}
				}
			}
			_ = segs
			_ = cl
			// cancellation-free cycle through h?  nodes = headers, edges = segments without a cancellation
			// point that are not the back edge of a counted loop
			free := map[*ssa.BasicBlock][]*ir.Path{}
			for _, hh := range pr.an.Headers {
				clh := countedLoop(pr.an, hh)
				for _, p := range pr.an.Segs[hh] {
					if p.To == nil || hasCancellationPoint(p) {
						continue
					}
					if clh != nil && p.To == hh {
						continue
					}
					free[hh] = append(free[hh], p)
				}
			}
			var dfs func(x *ssa.BasicBlock, seen map[*ssa.BasicBlock]bool) *ir.Path
			dfs = func(x *ssa.BasicBlock, seen map[*ssa.BasicBlock]bool) *ir.Path {
				for _, p := range free[x] {
					if p.To == h {
						return p
					}
					if !seen[p.To] {
						seen[p.To] = true
						if q := dfs(p.To, seen); q != nil {
							return q
						}
					}
				}
				return nil
			}
			if q := dfs(h, map[*ssa.BasicBlock]bool{}); q != nil {
				bad = q.String()
			}
			switch {
			case !hasExit:
				c.Fail("cycles-have-exit", site, headerPos(h), "loop has no exit path at all")
			case bad != "":
				c.Fail("cycles-have-exit", site, headerPos(h), "an iteration path passes no cancellation point (range over input, select with ctx.Done arm, catch role) and the loop is not counted:\n%s", bad)
			default:
				c.Ok("cycles-have-exit", site, headerPos(h), "every iteration path has a cancellation point or the loop is counted")
			}
		}
	}

	// ---- the caller's slice is read before the stage function returns ------------
	if c.Rules["caller-slice-read"] == nil {
		c.Doc("caller-slice-read", 1, "no goroutine of a stage reads an element of a slice argument: the caller owns that slice again once the stage function has returned")
	}
	for _, pr := range procs {
		if pr.g == nil {
			continue
		}
		bad, what := callerSliceRead(pr.fn, s.Fn)
		if bad != nil {
			c.Fail("caller-slice-read", pr.name, bad.Pos(), "the goroutine reads an element of %s, the caller's slice, after the stage function may have returned: a caller that reuses or clears its slice redirects or strands the goroutine (elements must be read in the stage function and handed over by value)", what)
		} else {
			c.Ok("caller-slice-read", pr.name, pr.fn.Pos(), "")
		}
	}

	// ---- channels a goroutine is started with ------------------------------------
	// A goroutine is analysed from the state of the first path that starts it. What that leaves out: another path of
	// its parent on which a channel variable the goroutine captures (or a channel argument) is still nil at the `go`
	// statement - every operation on it blocks for ever there (in a select: the arm is never ready), so elements
	// stop flowing for that configuration. A goroutine that itself compares the variable with nil is left alone.
	{
		parents := []*ir.Analysis{s.Outer}
		for _, g := range s.Gos {
			parents = append(parents, g.An)
		}
		seenGo := map[ssa.Instruction]bool{}
		for _, pan := range parents {
			for _, p := range pan.AllPaths() {
				for _, st := range p.Events(ir.KGo) {
					if st.Snap == nil || st.Static == nil || st.Instr == nil {
						continue
					}
					var gname string
					for _, g := range s.Gos {
						if g.Spawn != nil && g.Spawn.Instr == st.Instr {
							gname = g.Name
						}
					}
					if gname == "" {
						continue
					}
					if c.Rules["spawn-channels"] == nil {
						c.Doc("spawn-channels", 1, "no goroutine is started, on any path of its parent, with a channel variable it uses still nil")
					}
					bad := ""
					if st.Callee != nil && st.Callee.Op == "closure" {
						for i, b := range st.Callee.Args {
							if i >= len(st.Static.FreeVars) || b == nil {
								continue
							}
							fv := st.Static.FreeVars[i]
							pt, isP := fv.Type().(*types.Pointer)
							if !isP {
								continue
							}
							if _, isCh := pt.Elem().Underlying().(*types.Chan); !isCh {
								continue
							}
							v := st.Snap.MemAt(b)
							if v == nil || !(v.IsNil() || v.Op == "const" && strings.HasPrefix(v.Aux, "zero")) {
								continue
							}
							if freeVarNilTested(st.Static, fv) || freeVarStored(st.Static, fv) || !freeVarDirectChanUse(st.Static, fv) {
								continue
							}
							bad = fv.Name()
						}
					}
					for i, a := range st.A {
						if a != nil && a.IsNil() && i < len(st.Static.Params) {
							if _, isCh := st.Static.Params[i].Type().Underlying().(*types.Chan); isCh {
								bad = st.Static.Params[i].Name()
							}
						}
					}
					if bad != "" {
						c.Fail("spawn-channels", gname, st.Pos(), "on one path of %s this goroutine is started while the channel variable %s is still nil: every receive from / send to it blocks for ever on that path (a select arm on it is never ready), so nothing flows for that configuration", ir.FuncName(st.Instr.Parent()), bad)
						seenGo[st.Instr] = true
					} else if !seenGo[st.Instr] {
						seenGo[st.Instr] = true
						c.Ok("spawn-channels", gname, st.Pos(), "")
					}
				}
			}
		}
	}

	panicSources(c, s, procs)

	// ---- no delivery after an observed cancellation ------------------------------
	if !o.skipDeliveryAfterCancel {
		for _, pr := range procs {
			ok := true
			for _, p := range pr.an.AllPaths() {
				cancelled := -1
				for i := range p.Steps {
					st := &p.Steps[i]
					if st.Kind == ir.KSelect && st.Chosen >= 0 && st.Chosen == doneArm(st) {
						cancelled = i
					}
					if cancelled < 0 {
						continue
					}
					var ch *ir.Term
					switch {
					case st.Kind == ir.KSend:
						ch = st.A[0]
					case st.Kind == ir.KSelect && i > cancelled && st.Chosen >= 0 && st.Arms[st.Chosen].Send:
						ch = st.Arms[st.Chosen].Chan
					}
					if ch != nil && returned[ch.Key()] && ok {
						ok = false
						c.Fail("no-delivery-after-cancel", pr.name, st.Pos(), "a value is sent on stage output %s after ctx.Done was observed on the same path: what is delivered is then not a prefix of the uncancelled result", chanLabel(s, ch))
					}
				}
			}
			if ok {
				c.Ok("no-delivery-after-cancel", pr.name, pr.fn.Pos(), "no send on an output after an observed cancellation")
			}
		}
	}
}

func passesChanToUser(p *ir.Path, k string) bool {
	for _, st := range p.Events(ir.KCall) {
		if st.Method != nil && st.Method.Name() == "Apply" {
			for _, a := range st.A[1:] {
				if a.Key() == k {
					return true
				}
			}
		}
	}
	return false
}

func headerPos(h *ssa.BasicBlock) (pos token.Pos) {
	for _, in := range h.Instrs {
		if in.Pos().IsValid() {
			return in.Pos()
		}
	}
	for _, b := range []*ssa.BasicBlock{h} {
		for _, s := range b.Succs {
			for _, in := range s.Instrs {
				if in.Pos().IsValid() {
					return in.Pos()
				}
			}
		}
	}
	return h.Parent().Pos()
}

func lastPos(p *ir.Path) token.Pos {
	for i := len(p.Steps) - 1; i >= 0; i-- {
		if ps := p.Steps[i].Pos(); ps.IsValid() {
			return ps
		}
	}
	return 0
}

// siteID: a line-free identifier of an instruction: function-relative ordinal of its kind.
func siteID(c *core.Ctx, st *ir.Step) string {
	in := st.Instr
	if in == nil {
		return "?"
	}
	fn := in.Parent()
	n := 0
	for _, b := range fn.Blocks {
		for _, x := range b.Instrs {
			if sameKind(x, in) {
				n++
				if x == in {
					return fmt.Sprintf("%s#%d", kindName(in), n)
				}
			}
		}
	}
	return kindName(in)
}

func kindName(in ssa.Instruction) string {
	switch in.(type) {
	case *ssa.Select:
		return "select"
	case *ssa.Send:
		return "send"
	case *ssa.UnOp:
		return "recv"
	case *ssa.Call:
		return "call"
	case *ssa.Defer:
		return "defer"
	case *ssa.Go:
		return "go"
	}
	return fmt.Sprintf("%T", in)
}

func sameKind(a, b ssa.Instruction) bool { return kindName(a) == kindName(b) }

func hasCancellationPoint(p *ir.Path) bool {
	for i := range p.Steps {
		st := &p.Steps[i]
		switch {
		case st.Kind == ir.KRecv && st.CommaOk && isInputChan(st.A[0]):
			return true
		case st.Kind == ir.KRecv && st.CommaOk && closedBeforeLoop[st.Instr]:
			return true // range over a channel the goroutine itself closed ahead of the loop: ends when drained
		case st.Kind == ir.KSelect && doneArm(st) >= 0:
			return true
		case isCatchRole(st):
			return true
		}
	}
	return false
}

// classifyBlocking decides one blocking step of path p of process pr.
func classifyBlocking(c *core.Ctx, s *Stage, pr *proc, p *ir.Path, i int) (verdict, why string) {
	st := &p.Steps[i]
	switch st.Kind {
	case ir.KRecv:
		if isInputChan(st.A[0]) {
			return "ok", "receive from the stage's input (ends when the input closes)"
		}
		if closedBefore(pr.an, st) {
			return "ok", "receive from a channel this goroutine has closed before (drains what is buffered, then ends)"
		}
		if why := accountedReceive(s, pr, st); why == "" {
			return "ok", "accounted receive: as many sends completed before (ordered by wg.Wait) as receives follow"
		} else {
			return "bad", "receive from " + short(st.A[0]) + " outside a select with a ctx.Done arm: " + why
		}
	case ir.KSelect:
		d := doneArm(st)
		if d < 0 {
			return "bad", "blocking select without a <-ctx.Done() arm of the stage's context"
		}
		live := 0
		for ai, a := range st.Arms {
			if ai != d && a.Chan != nil && !a.Chan.IsNil() {
				live++
			}
		}
		if live == 0 && len(st.Arms) > 1 {
			return "bad", "on this path every arm of the blocking select but <-ctx.Done() is a nil channel: the goroutine parks until cancellation (its input is no longer consumed and its outputs never close without a cancel)"
		}
		if st.Chosen == d {
			// continuation must exit without blocking again (accounted sends allowed)
			if p.Exit != ir.ExitReturn {
				return "bad", "after ctx.Done was selected the goroutine keeps running instead of exiting:\n" + p.String()
			}
			for j := i + 1; j < len(p.Steps); j++ {
				if bk := blockingKind(&p.Steps[j]); bk != "" {
					if bk == "send" {
						if v, _ := accountedSend(s, pr, &p.Steps[j]); v {
							continue
						}
					}
					return "bad", "after ctx.Done was selected the goroutine blocks again (" + bk + ") before exiting"
				}
			}
		}
		return "ok", "select with <-ctx.Done() arm"
	case ir.KSend:
		if v, why := accountedSend(s, pr, st); v {
			return "accounted", why
		} else {
			return "unaccounted", why
		}
	case ir.KCall:
		if isWgWait(st) {
			return "ok", "wg.Wait: the counted goroutines are checked by this same table"
		}
	}
	return "bad", "unclassified blocking operation"
}

// instancesOf returns the number of instances of a process as a term (const 1 when spawned once).
func instancesOf(pr *proc) *ir.Term {
	if pr.g == nil {
		return ir.Const("1")
	}
	n := ir.Const("1")
	for g := pr.g; g != nil; g = g.Parent {
		if g.InLoop {
			if g.Trip == nil {
				return nil
			}
			if !n.IsConst() {
				return nil
			}
			n = g.Trip
		}
	}
	return n
}

// accountedSend: capacity(ch) >= sends per instance * instances, sends not in a loop.
func accountedSend(s *Stage, pr *proc, st *ir.Step) (bool, string) {
	ch := st.A[0]
	k := ch.Key()
	capT := chanCap(ch)
	if capT == nil {
		return false, "channel capacity unknown (" + short(ch) + ")"
	}
	// sends of this process on k: none on looping segments unless the loop is counted with the capacity as trip count
	perInstance := 0
	for _, p := range pr.an.AllPaths() {
		n := 0
		for _, e := range sendsOn(p, k) {
			if e.plain {
				n++
			}
		}
		if n == 0 {
			continue
		}
		if p.To != nil && p.From != nil {
			// inside a loop: accept only the counted loop whose trip count equals the capacity (pipe.Seq)
			cl := countedLoop(pr.an, p.From)
			if cl != nil && cl.Trip != nil && n == 1 && ir.Same(cl.Trip, capT) && pr.g == nil {
				return true, fmt.Sprintf("one send per iteration of a loop with trip count %s = cap", short(cl.Trip))
			}
			return false, "plain send inside a loop"
		}
		if n > perInstance {
			perInstance = n
		}
	}
	// other processes sending plainly on the same channel
	total := []*ir.Term{}
	for _, q := range procsOf(s) {
		cnt := 0
		for _, p := range q.an.AllPaths() {
			n := 0
			for _, e := range sendsOn(p, k) {
				if e.plain {
					n++
				}
			}
			if n > 0 && p.To != nil && p.From != nil {
				return false, "another goroutine sends on it inside a loop"
			}
			if n > cnt {
				cnt = n
			}
		}
		if cnt == 0 {
			continue
		}
		inst := instancesOf(q)
		if inst == nil {
			return false, "number of sender instances unknown"
		}
		if cnt > 1 {
			return false, fmt.Sprintf("%d plain sends per instance", cnt)
		}
		total = append(total, inst)
	}
	// capacity >= sum of instances
	if len(total) == 1 {
		if ir.Same(total[0], capT) {
			return true, fmt.Sprintf("cap %s = %s sender instances x 1 send", short(capT), short(total[0]))
		}
		if a, ok := total[0].IntConst(); ok {
			if b, ok2 := capT.IntConst(); ok2 && b >= a {
				return true, fmt.Sprintf("cap %d >= %d send", b, a)
			}
		}
	}
	return false, fmt.Sprintf("cannot prove cap %s >= number of sends", short(capT))
}

// accountedReceive: plain receive from a made channel after wg.Wait, with at
// least as many completed sends as receives (fork.Fold collector).
func accountedReceive(s *Stage, pr *proc, st *ir.Step) string {
	ch := st.A[0]
	k := ch.Key()
	if !isMadeChan(ch) {
		return "not a channel of the stage"
	}
	// Wait dominates the receive
	var wait *ir.Step
	for _, p := range pr.an.AllPaths() {
		for i := range p.Steps {
			if isWgWait(&p.Steps[i]) {
				wait = &p.Steps[i]
			}
		}
	}
	if wait == nil || !(instrDominates(wait.Instr, st.Instr) || wait.Instr.Parent() != st.Instr.Parent() && precededOnPaths(pr.an, st.Instr, isWgWait)) {
		return "no wg.Wait dominating the receive"
	}
	// number of receives: trip count of the innermost loop (or 1) - or "until drained" when this goroutine closed the
	// channel before (after the Wait): then exactly what was sent is received, however many that is
	var nRecv *ir.Term = ir.Const("1")
	drain := drainsByClose(pr.an, st)
	if h := innermostHeader(st.Instr.Block()); h != nil && !drain {
		cl := countedLoop(pr.an, h)
		if cl == nil || cl.Trip == nil {
			return "receive inside a loop that is not counted"
		}
		nRecv = cl.Trip
	}
	// senders: every other process sending on k sends exactly once per exit path, before wg.Done of the waited group
	var sent *ir.Term
	for _, q := range procsOf(s) {
		if q == pr {
			continue
		}
		any := false
		for _, p := range q.an.AllPaths() {
			n := len(sendsOn(p, k))
			if n == 0 {
				if p.Exit == ir.ExitReturn && any {
					return q.name + " has an exit path without its send"
				}
				continue
			}
			any = true
			if p.Exit != ir.ExitReturn || n != 1 {
				return q.name + " sends inside a loop or more than once"
			}
		}
		if !any {
			continue
		}
		for _, p := range q.an.AllPaths() {
			if p.Exit == ir.ExitReturn && len(sendsOn(p, k)) != 1 {
				return q.name + " does not send exactly once on every exit path"
			}
		}
		if why := waitGroupOrders(s, pr, q, k); why != "" {
			return why
		}
		inst := instancesOf(q)
		if inst == nil || sent != nil {
			return "number of senders unknown"
		}
		sent = inst
	}
	if sent == nil {
		return "nobody sends on the channel"
	}
	if drain {
		return ""
	}
	if !ir.Same(sent, nRecv) {
		if a, ok := sent.IntConst(); ok {
			if b, ok2 := nRecv.IntConst(); ok2 && b <= a {
				return ""
			}
		}
		return fmt.Sprintf("%s receives but %s sends", short(nRecv), short(sent))
	}
	return ""
}

// waitGroupOrders checks that sender's sends on channel k are ordered before
// the closer's close by a WaitGroup: closer: Wait precedes close (or the
// receive); parent: Add(n) with n = number of sender instances, before the go
// statements; sender: on every exit path exactly one Done, after its last send.
// Returns "" when the ordering holds.
func waitGroupOrders(s *Stage, closer, sender *proc, k string) string {
	// closer: wg.Wait before close on each path with a close (or the process waits at entry)
	var wg *ir.Term
	for _, p := range closer.an.AllPaths() {
		cl := closesOn(p, k)
		var waitIdx = -1
		for i := range p.Steps {
			if isWgWait(&p.Steps[i]) {
				waitIdx = i
				wg = p.Steps[i].A[0]
			}
		}
		for _, e := range cl {
			if waitIdx < 0 || waitIdx > e.idx {
				// the Wait may sit on an earlier segment (entry) that dominates
				dom := false
				for _, q := range closer.an.AllPaths() {
					for j := range q.Steps {
						if isWgWait(&q.Steps[j]) && q.Steps[j].Instr != e.step.Instr && instrDominates(q.Steps[j].Instr, e.step.Instr) {
							dom = true
							wg = q.Steps[j].A[0]
						}
					}
				}
				if !dom {
					// the Wait and the close live in different functions (a `closeAfter(wg, closer)` helper running
					// the closing closure): decided on the paths instead of by block dominance
					var w *ir.Term
					if precededOnPaths(closer.an, e.step.Instr, func(x *ir.Step) bool {
						if isWgWait(x) {
							w = x.A[0]
							return true
						}
						return false
					}) {
						dom, wg = true, w
					}
				}
				if !dom {
					return "the close is not preceded by wg.Wait"
				}
			}
		}
	}
	if wg == nil {
		for _, q := range closer.an.AllPaths() {
			for j := range q.Steps {
				if isWgWait(&q.Steps[j]) {
					wg = q.Steps[j].A[0]
				}
			}
		}
	}
	if wg == nil {
		return "the closer never waits"
	}
	// sender: Done exactly once on every exit path, after last send
	for _, p := range sender.an.AllPaths() {
		if p.Exit != ir.ExitReturn {
			// looping segments must not call Done
			for i := range p.Steps {
				if isWgDone(&p.Steps[i]) && ir.Same(p.Steps[i].A[0], wg) {
					return sender.name + " calls wg.Done on a path that continues"
				}
			}
			continue
		}
		nDone, doneIdx := 0, -1
		for i := range p.Steps {
			if isWgDone(&p.Steps[i]) && ir.Same(p.Steps[i].A[0], wg) {
				nDone++
				doneIdx = i
			}
		}
		if nDone != 1 {
			return fmt.Sprintf("%s calls wg.Done %d times on an exit path (want 1)", sender.name, nDone)
		}
		for _, e := range sendsOn(p, k) {
			if e.idx > doneIdx {
				return sender.name + " sends after wg.Done"
			}
		}
		for i := doneIdx + 1; i < len(p.Steps); i++ {
			if isApplyRole(&p.Steps[i]) {
				return sender.name + " calls the user function after wg.Done"
			}
		}
	}
	// parent: Add(n) with n == instances of sender, before the go statements
	if sender.g == nil {
		return "sender is the constructor itself"
	}
	inst := instancesOf(sender)
	if inst == nil {
		return "number of sender instances unknown"
	}
	var parent *ir.Analysis = s.Outer
	if sender.g.Parent != nil {
		parent = sender.g.Parent.An
	}
	// several go statements, each starting one goroutine counted by the same WaitGroup (`wg.Add(2); go copy(lhs);
	// go copy(rhs)`): the Add accounts for all of them together
	if one, isOne := inst.IntConst(); isOne && one == 1 && !sender.g.InLoop && wg != nil {
		n := int64(0)
		for _, g := range s.Gos {
			if g.InLoop || g.Parent != sender.g.Parent || g.An == nil {
				continue
			}
			calls := false
			for _, p := range g.An.AllPaths() {
				for i := range p.Steps {
					if isWgDone(&p.Steps[i]) && len(p.Steps[i].A) > 0 && ir.Same(p.Steps[i].A[0], wg) {
						calls = true
					}
				}
			}
			if calls {
				n++
			}
		}
		if n > 1 {
			inst = ir.Const(fmt.Sprint(n))
		}
	}
	add, why := addAccounts(parent, wg, sender.g, inst)
	if why != "" {
		return why
	}
	// the closer must be spawned after Add too (or be ordered) – Wait before Add would return early
	if closer.g != nil && closer.g.Spawn != nil && closer.g.Parent == sender.g.Parent {
		before := instrBefore(add.Instr, closer.g.Spawn.Instr)
		if !before && inLoop(add.Instr) {
			// Add(1) per iteration of the spawn loop: the closer must start after that loop
			h := innermostHeader(add.Instr.Block())
			before = h != nil && !ir.LoopBlocks(h)[closer.g.Spawn.Instr.Block()] && h.Dominates(closer.g.Spawn.Instr.Block())
		}
		if !before {
			return "the closer may run wg.Wait before wg.Add"
		}
	}
	return ""
}

// instrBefore: a is executed before b on every path reaching b (same function).
func instrBefore(a, b ssa.Instruction) bool {
	if a.Block() == b.Block() {
		for _, in := range a.Block().Instrs {
			if in == a {
				return true
			}
			if in == b {
				return false
			}
		}
		return false
	}
	return a.Block().Dominates(b.Block())
}

// addAccounts: the WaitGroup wg is incremented by exactly the number of instances of goroutine g before they
// start: either one wg.Add(n) with n = instances ahead of the spawn loop, or wg.Add(1) once per iteration of
// the spawn loop ahead of the go statement. Returns the Add step.
func addAccounts(parent *ir.Analysis, wg *ir.Term, g *Goroutine, inst *ir.Term) (*ir.Step, string) {
	var add *ir.Step
	for _, p := range parent.AllPaths() {
		for i := range p.Steps {
			st := &p.Steps[i]
			if isWgAdd(st) && ir.Same(st.A[0], wg) {
				if add != nil && add.Instr != st.Instr {
					return nil, "several wg.Add calls"
				}
				add = st
			}
		}
	}
	if add == nil {
		return nil, "no wg.Add for the WaitGroup the closer waits on"
	}
	if inLoop(add.Instr) {
		one, isK := add.A[1].IntConst()
		sameLoop := g.InLoop && innermostHeader(add.Instr.Block()) == innermostHeader(g.Spawn.Instr.Block())
		if !(isK && one == 1 && sameLoop) {
			return nil, "wg.Add inside a loop that is not Add(1) in the spawn loop itself"
		}
		if !instrBefore(add.Instr, g.Spawn.Instr) {
			return nil, "wg.Add(1) does not precede the go statement of the same iteration"
		}
		return add, ""
	}
	if !ir.Same(add.A[1], inst) {
		return nil, fmt.Sprintf("wg.Add(%s) but %s sender instances are spawned", short(add.A[1]), short(inst))
	}
	if !instrBefore(add.Instr, g.Spawn.Instr) {
		return nil, "wg.Add does not precede the go statement"
	}
	return add, ""
}

// instrDominates: instruction a is executed before instruction b on every path that reaches b (same function): a's
// block strictly dominates b's, or both sit in one block with a first.
func instrDominates(a, b ssa.Instruction) bool {
	if a == nil || b == nil || a.Parent() != b.Parent() {
		return false
	}
	ba, bb := a.Block(), b.Block()
	if ba != bb {
		return ba.Dominates(bb)
	}
	for _, in := range ba.Instrs {
		if in == a {
			return true
		}
		if in == b {
			return false
		}
	}
	return false
}

// doesStageWork: the goroutine applies the user's function or receives from a channel parameter of the stage.
func doesStageWork(s *Stage, pr *proc) bool {
	for _, p := range pr.an.AllPaths() {
		for i := range p.Steps {
			st := &p.Steps[i]
			if isApplyRole(st) {
				return true
			}
			if st.Kind == ir.KRecv && len(st.A) > 0 && st.A[0].Op == "param" {
				return true
			}
		}
	}
	return false
}

// precededOnPaths: on every analysed path, the instruction target is preceded by a step satisfying pred - on the same
// segment, or on every chain of segments leading to the loop head the segment starts from (used when the two
// instructions live in different functions, one of them inlined, so that block dominance does not apply).
func precededOnPaths(an *ir.Analysis, target ssa.Instruction, pred func(*ir.Step) bool) bool {
	has := func(p *ir.Path, upto int) bool {
		for i := 0; i < upto && i < len(p.Steps); i++ {
			if pred(&p.Steps[i]) {
				return true
			}
		}
		return false
	}
	// greatest fixpoint: a head is covered when every arrival is covered
	covered := map[*ssa.BasicBlock]bool{}
	for _, h := range an.Headers {
		covered[h] = true
	}
	for changed := true; changed; {
		changed = false
		for _, h := range an.Headers {
			if !covered[h] {
				continue
			}
			for _, ps := range an.Segs {
				for _, q := range ps {
					if q.To != h {
						continue
					}
					if has(q, len(q.Steps)) || q.From != nil && covered[q.From] {
						continue
					}
					covered[h] = false
					changed = true
				}
			}
		}
	}
	found := false
	for _, p := range an.AllPaths() {
		for i := range p.Steps {
			if p.Steps[i].Instr != target {
				continue
			}
			found = true
			if has(p, i) || p.From != nil && covered[p.From] {
				continue
			}
			return false
		}
	}
	return found
}

// constIndexWithoutBound: the path reads xs[k] (k a constant, xs a slice parameter - e.g. a variadic argument list)
// without a preceding branch that excludes len(xs) <= k. Returns the first offending step.
func constIndexWithoutBound(p *ir.Path) *ir.Step {
	type need struct {
		base *ir.Term
		k    int64
	}
	bounded := func(n need, upto int) bool {
		l := &ir.Term{Op: "len", Args: []*ir.Term{n.base}}
		for i := 0; i < upto && i < len(p.Steps); i++ {
			st := &p.Steps[i]
			if st.Kind != ir.KBranch || !mentions(st.Atom, l) {
				continue
			}
			// the branch taken must be impossible for len == k (and so for every shorter slice of the usual guards)
			at := ir.Rebuild(substTerm(st.Atom, l, ir.Const(fmt.Sprint(n.k))))
			if at.IsConst() && (at.Aux == "true" || at.Aux == "false") && (at.Aux == "true") != st.Pol {
				return true
			}
		}
		return false
	}
	for i := range p.Steps {
		st := &p.Steps[i]
		var found *need
		visit := func(t *ir.Term) {
			if t == nil || found != nil {
				return
			}
			t.Walk(func(x *ir.Term) {
				if found != nil || x.Op != "iaddr" || len(x.Args) != 2 {
					return
				}
				k, isK := x.Args[1].IntConst()
				if !isK || x.Args[0].Op != "param" || x.Args[0].Typ == nil {
					return
				}
				if _, isSlice := x.Args[0].Typ.Underlying().(*types.Slice); !isSlice {
					return
				}
				found = &need{x.Args[0], k}
			})
		}
		for _, a := range st.A {
			visit(a)
		}
		visit(st.R)
		visit(st.Atom)
		if found != nil && !bounded(*found, i) {
			return st
		}
	}
	return nil
}

// excludesZero: a branch among the first upto steps of p can only have been taken with d != 0.
func excludesZero(p *ir.Path, upto int, d *ir.Term) bool {
	for i := 0; i < upto && i < len(p.Steps); i++ {
		st := &p.Steps[i]
		if st.Kind != ir.KBranch || !mentions(st.Atom, d) {
			continue
		}
		at := ir.Rebuild(substTerm(st.Atom, d, ir.Const("0")))
		if at.IsConst() && (at.Aux == "true" || at.Aux == "false") && (at.Aux == "true") != st.Pol {
			return true
		}
	}
	return false
}

// excludesZeroBefore: as excludesZero, looking also through the segments that lead to the loop head p starts at
// (every way into that head must have excluded d == 0; a way round the loop is assumed to, coinductively).
func excludesZeroBefore(an *ir.Analysis, p *ir.Path, upto int, d *ir.Term, seen map[*ir.Path]bool) bool {
	if excludesZero(p, upto, d) {
		return true
	}
	if p.From == nil || an == nil {
		return false
	}
	seen[p] = true
	n := 0
	for _, qs := range an.Segs {
		for _, q := range qs {
			if q.To != p.From {
				continue
			}
			n++
			if seen[q] {
				continue
			}
			if !excludesZeroBefore(an, q, len(q.Steps), d, seen) {
				return false
			}
		}
	}
	return n > 0
}

// divisionWithoutGuard: the path evaluates an integer x / d or x % d whose divisor is not a non-zero constant
// and no earlier branch of the path (nor of the spawning paths, asked through outer) excludes d == 0.
func divisionWithoutGuard(an *ir.Analysis, p *ir.Path, outer func(d *ir.Term) bool) (*ir.Step, *ir.Term) {
	for i := range p.Steps {
		st := &p.Steps[i]
		var div *ir.Term
		visit := func(t *ir.Term) {
			if t == nil || div != nil {
				return
			}
			t.Walk(func(x *ir.Term) {
				if div != nil || x.Op != "bin" || (x.Aux != "/" && x.Aux != "%") || len(x.Args) != 2 {
					return
				}
				ty := x.Typ
				if ty == nil {
					ty = x.Args[1].Typ
				}
				if ty == nil {
					ty = x.Args[0].Typ
				}
				isLenCap := func(t *ir.Term) bool {
					for t.Op == "conv" && len(t.Args) == 1 {
						t = t.Args[0]
					}
					return t.Op == "len" || t.Op == "cap"
				}
				if ty == nil && !isLenCap(x.Args[1]) && !isLenCap(x.Args[0]) {
					return
				}
				if ty != nil {
					if b, isB := ty.Underlying().(*types.Basic); !isB || b.Info()&types.IsInteger == 0 {
						return
					}
				}
				d := x.Args[1]
				for d.Op == "conv" && len(d.Args) == 1 {
					d = d.Args[0]
				}
				if k, isK := d.IntConst(); isK && k != 0 {
					return
				}
				div = d
			})
		}
		for _, a := range st.A {
			visit(a)
		}
		visit(st.R)
		visit(st.Atom)
		for _, arm := range st.Arms {
			visit(arm.Chan)
			visit(arm.Val)
		}
		if div != nil && !excludesZeroBefore(an, p, i, div, map[*ir.Path]bool{}) && !(outer != nil && outer(div)) {
			return st, div
		}
	}
	return nil, nil
}

// spawnGuardsNonZero: every path of the spawning function that reaches the go statement of pr excluded d == 0 before it.
func spawnGuardsNonZero(s *Stage, pr *proc, d *ir.Term) bool {
	if pr.g == nil || pr.g.Spawn == nil {
		return false
	}
	parent := s.Outer
	if pr.g.Parent != nil {
		parent = pr.g.Parent.An
	}
	if parent == nil {
		return false
	}
	n := 0
	for _, p := range parent.AllPaths() {
		for i := range p.Steps {
			if p.Steps[i].Instr == pr.g.Spawn.Instr {
				n++
				if !excludesZeroBefore(parent, p, i, d, map[*ir.Path]bool{}) {
					return false
				}
			}
		}
	}
	return n > 0
}

// callerSliceRead: fn (a goroutine body, possibly a closure inside the stage function) indexes a slice that is a
// parameter of the stage function, reached through its captured variables.
func callerSliceRead(fn, stage *ssa.Function) (ssa.Instruction, string) {
	var origin func(f *ssa.Function, v ssa.Value, depth int) *ssa.Parameter
	origin = func(f *ssa.Function, v ssa.Value, depth int) *ssa.Parameter {
		if depth > 6 {
			return nil
		}
		switch x := v.(type) {
		case *ssa.UnOp:
			if x.Op == token.MUL {
				return origin(f, x.X, depth+1)
			}
		case *ssa.Slice:
			return origin(f, x.X, depth+1)
		case *ssa.Parameter:
			if f == stage {
				if _, isSlice := x.Type().Underlying().(*types.Slice); isSlice {
					return x
				}
			}
		case *ssa.Alloc:
			// a spilled parameter
			for _, r := range *x.Referrers() {
				if st, isSt := r.(*ssa.Store); isSt && st.Addr == ssa.Value(x) {
					if p := origin(f, st.Val, depth+1); p != nil {
						return p
					}
				}
			}
		case *ssa.FreeVar:
			par := f.Parent()
			if par == nil {
				return nil
			}
			idx := -1
			for i, fv := range f.FreeVars {
				if fv == x {
					idx = i
				}
			}
			for _, b := range par.Blocks {
				for _, in := range b.Instrs {
					if mc, isMC := in.(*ssa.MakeClosure); isMC && mc.Fn == ssa.Value(f) && idx >= 0 && idx < len(mc.Bindings) {
						if p := origin(par, mc.Bindings[idx], depth+1); p != nil {
							return p
						}
					}
				}
			}
		}
		return nil
	}
	var visit func(f *ssa.Function) (ssa.Instruction, string)
	visit = func(f *ssa.Function) (ssa.Instruction, string) {
		for _, b := range f.Blocks {
			for _, in := range b.Instrs {
				var x ssa.Value
				switch in := in.(type) {
				case *ssa.IndexAddr:
					x = in.X
				case *ssa.Index:
					x = in.X
				case *ssa.Range:
					x = in.X
				}
				if x == nil {
					continue
				}
				if p := origin(f, x, 0); p != nil {
					return in, p.Name()
				}
			}
		}
		for _, a := range f.AnonFuncs {
			if in, w := visit(a); in != nil {
				return in, w
			}
		}
		return nil, ""
	}
	if fn == stage {
		return nil, ""
	}
	return visit(fn)
}

// catchFalseExits: after the catch role answered false the goroutine leaves at once - nothing is received, sent,
// started or called any more, deferred functions included.
func catchFalseExits(c *core.Ctx, procs []*proc) {
	for _, pr := range procs {
		done := map[ssa.Instruction]bool{}
		for _, p := range pr.an.AllPaths() {
			for i := range p.Steps {
				st := &p.Steps[i]
				if !isCatchRole(st) {
					continue
				}
				site := fmt.Sprintf("%s/catch@%s", pr.name, siteID(c, st))
				// find the branch on its result
				var br *ir.Step
				bi := -1
				for j := i + 1; j < len(p.Steps); j++ {
					if p.Steps[j].Kind == ir.KBranch && ir.Same(p.Steps[j].Atom, st.R) {
						br, bi = &p.Steps[j], j
						break
					}
				}
				if br == nil {
					if !done[st.Instr] {
						done[st.Instr] = true
						c.Fail("catch-false-exits", site, st.Pos(), "the result of the catch role is not tested: a fail-fast stage would continue after its error")
					}
					continue
				}
				if br.Pol {
					continue
				}
				ok := p.Exit == ir.ExitReturn
				for j := bi + 1; j < len(p.Steps) && ok; j++ {
					switch p.Steps[j].Kind {
					case ir.KClose, ir.KReturn, ir.KBranch, ir.KEnter, ir.KLeave:
					case ir.KStore:
						// a write to a local variable of the goroutine (a flag, the state cell of a range-over-func
						// body) is not an event anybody else can observe
						if !cellAddr(p.Steps[j].A[0]) {
							ok = false
						}
					case ir.KCall:
						if !isWgDone(&p.Steps[j]) {
							ok = false
						}
					default:
						ok = false
					}
				}
				if !ok {
					c.Fail("catch-false-exits", site, st.Pos(), "after catch returned false the goroutine does not exit at once:\n%s", p)
					done[st.Instr] = true
				} else if !done[st.Instr] {
					done[st.Instr] = true
					c.Ok("catch-false-exits", site, st.Pos(), "false => exit")
				}
			}
		}
	}
}

// closedBeforeLoop: receive instructions found (by closedBefore) to read a channel their goroutine closed earlier.
var closedBeforeLoop = map[ssa.Instruction]bool{}

// closedBefore: on every path to the receive st, the same goroutine closed that very channel before.
func closedBefore(an *ir.Analysis, st *ir.Step) bool {
	if st == nil || st.Instr == nil || len(st.A) == 0 {
		return false
	}
	ch := st.A[0]
	ok := precededOnPaths(an, st.Instr, func(x *ir.Step) bool { return x.Kind == ir.KClose && len(x.A) > 0 && ir.Same(x.A[0], ch) })
	if ok {
		closedBeforeLoop[st.Instr] = true
	}
	return ok
}

// drainsByClose: the receive st reads a channel its goroutine closed before, with comma-ok (a `range`), and the loop
// around it ends exactly when the channel reports closed: every path through the receive tests ok, and the path on
// which ok is false does not come back for another receive. A counted loop reading a closed channel blindly is not
// a drain - past the buffered values it receives zero values.
func drainsByClose(an *ir.Analysis, st *ir.Step) bool {
	if st == nil || !st.CommaOk || !closedBefore(an, st) {
		return false
	}
	h := innermostHeader(st.Instr.Block())
	if h == nil {
		return false
	}
	okT := &ir.Term{Op: "extract", Aux: "1", Args: []*ir.Term{st.R}}
	n := 0
	for _, p := range an.AllPaths() {
		has := false
		for i := range p.Steps {
			if p.Steps[i].Instr == st.Instr && p.Steps[i].Kind == ir.KRecv {
				has = true
			}
		}
		if !has {
			continue
		}
		n++
		switch polarity(p, okT) {
		case 0:
			return false
		case -1:
			if p.To == h {
				return false
			}
		}
	}
	return n > 0
}


// freeVarNilTested: the function compares (a load of) its captured variable with nil somewhere.
func freeVarNilTested(fn *ssa.Function, fv *ssa.FreeVar) bool {
	for _, r := range *fv.Referrers() {
		ld, ok := r.(*ssa.UnOp)
		if !ok {
			continue
		}
		for _, u := range *ld.Referrers() {
			if bo, isB := u.(*ssa.BinOp); isB && (bo.Op == token.EQL || bo.Op == token.NEQ) {
				if k, isK := bo.X.(*ssa.Const); isK && k.IsNil() {
					return true
				}
				if k, isK := bo.Y.(*ssa.Const); isK && k.IsNil() {
					return true
				}
			}
		}
	}
	return false
}

// freeVarStored: the function assigns its captured variable itself.
func freeVarStored(fn *ssa.Function, fv *ssa.FreeVar) bool {
	for _, r := range *fv.Referrers() {
		if st, ok := r.(*ssa.Store); ok && st.Addr == ssa.Value(fv) {
			return true
		}
	}
	return false
}


// freeVarDirectChanUse: the function operates on (a load of) its captured channel variable directly - a send, a
// receive, a range or a select arm on it - rather than handing it on (to a selector that may answer nil on purpose).
func freeVarDirectChanUse(fn *ssa.Function, fv *ssa.FreeVar) bool {
	for _, r := range *fv.Referrers() {
		ld, ok := r.(*ssa.UnOp)
		if !ok || ld.Op != token.MUL {
			continue
		}
		for _, u := range *ld.Referrers() {
			switch x := u.(type) {
			case *ssa.Send:
				if x.Chan == ssa.Value(ld) {
					return true
				}
			case *ssa.UnOp:
				if x.Op == token.ARROW && x.X == ssa.Value(ld) {
					return true
				}
			case *ssa.Range:
				return true
			case *ssa.Select:
				for _, stt := range x.States {
					if stt.Chan == ssa.Value(ld) {
						return true
					}
				}
			}
		}
	}
	return false
}


// panicsOnNilArgument: the path ends in an explicit panic, has found a parameter of fn nil, and has started no
// goroutine and performed no channel operation before.
func panicsOnNilArgument(p *ir.Path, fn *ssa.Function) bool {
	found := false
	for i := range p.Steps {
		st := &p.Steps[i]
		switch st.Kind {
		case ir.KGo, ir.KSend, ir.KRecv, ir.KSelect, ir.KClose:
			return false
		case ir.KBranch:
			at := st.Atom
			if at.Op == "bin" && at.Aux == "==" && len(at.Args) == 2 && st.Pol {
				for j := 0; j < 2; j++ {
					if at.Args[j].IsNil() && at.Args[1-j].Op == "param" {
						for k := range fn.Params {
							if paramOf(at.Args[1-j], fn, k) {
								found = true
							}
						}
					}
				}
			}
		}
	}
	return found
}

// panicSources: no explicit panic, unguarded integer division, constant index into a possibly shorter argument
// slice, double close or close of a foreign channel in the stage's goroutines (shared with C05: a stage that dies on
// an unbuffered input delivers nothing).
func panicSources(c *core.Ctx, s *Stage, procs []*proc) {
	if c.Rules["no-panic-source"] == nil {
		c.Doc("no-panic-source", 1, "no explicit panic, division by a possibly zero value, double close, or close of a foreign/nil channel in a library goroutine")
	}
	for _, pr := range procs {
		ok := true
		for _, p := range pr.an.AllPaths() {
			if p.Exit == ir.ExitPanic {
				// argument validation in the stage function itself - `if ctx == nil { panic(...) }`, `if f == nil ...` -
				// runs on the caller's goroutine before anything is started and fires only for a nil argument
				if pr.g == nil && panicsOnNilArgument(p, s.Fn) {
					continue
				}
				// an assertion on a loop-carried integer initialised from an integer parameter (`n--; if n < 0 { panic }`
				// in Take): unreachable when the interval analysis of that quantity never finds the segment feasible
				if panicUnreachableByIntervals(s, pr, p) {
					continue
				}
				ok = false
				c.Fail("no-panic-source", pr.name, lastPos(p), "explicit panic reachable in a library goroutine")
				break
			}
			if st, d := divisionWithoutGuard(pr.an, p, func(d *ir.Term) bool { return spawnGuardsNonZero(s, pr, d) }); st != nil {
				ok = false
				c.Fail("no-panic-source", pr.name, st.Pos(), "an integer division by %s is executed although the path has not excluded %s == 0 (the goroutine dies with 'integer divide by zero')", short(d), short(d))
				break
			}
			if st := constIndexWithoutBound(p); st != nil {
				ok = false
				c.Fail("no-panic-source", pr.name, st.Pos(), "an element of a slice argument is read at a constant index although the path has not established that the slice is that long (an empty argument list panics with index out of range)")
				break
			}
			closed := map[string]bool{}
			for i := range p.Steps {
				st := &p.Steps[i]
				if st.Kind != ir.KClose {
					continue
				}
				k := st.A[0].Key()
				if closed[k] {
					ok = false
					c.Fail("no-panic-source", pr.name, st.Pos(), "channel closed twice on one path")
				}
				closed[k] = true
				if !isMadeChan(st.A[0]) {
					ok = false
					c.Fail("no-panic-source", pr.name, st.Pos(), "close of a channel the stage did not make (%s): closing a foreign or nil channel can panic", short(st.A[0]))
				}
			}
			if !ok {
				break
			}
		}
		if ok {
			c.Ok("no-panic-source", pr.name, pr.fn.Pos(), "no panic / double close / foreign close")
		}
	}

}


// ctorClosedBefore: a call of the builtin close on the channel made by mc sits in a block of the same function that
// dominates b (or in b itself).
func ctorClosedBefore(mc *ssa.MakeChan, b *ssa.BasicBlock) bool {
	var vals []ssa.Value
	vals = append(vals, mc)
	for _, r := range *mc.Referrers() {
		switch x := r.(type) {
		case *ssa.ChangeType:
			vals = append(vals, x)
		case *ssa.Store:
			// kept in a variable a closure captures: the loads of that variable (it is assigned once)
			if al, isAl := x.Addr.(*ssa.Alloc); isAl && x.Val == ssa.Value(mc) {
				nStore := 0
				for _, r2 := range *al.Referrers() {
					if st2, isSt := r2.(*ssa.Store); isSt && st2.Addr == ssa.Value(al) {
						nStore++
					}
				}
				if nStore == 1 {
					for _, r2 := range *al.Referrers() {
						if ld, isLd := r2.(*ssa.UnOp); isLd && ld.Op == token.MUL {
							vals = append(vals, ld)
						}
					}
				}
			}
		}
	}
	for _, v := range vals {
		if v.Referrers() == nil {
			continue
		}
		for _, r := range *v.Referrers() {
			call, ok := r.(*ssa.Call)
			if !ok {
				continue
			}
			if bi, isB := call.Call.Value.(*ssa.Builtin); isB && bi.Name() == "close" && call.Parent() == b.Parent() {
				if call.Block() == b || call.Block().Dominates(b) {
					return true
				}
			}
		}
	}
	return false
}

// panicUnreachableByIntervals: some loop-carried integer of the process that enters its loop with the value of an int
// parameter of the stage (a budget, a countdown) has, at the fixpoint of the interval analysis over the process's
// segments (branch refinement, widening), no interval under which every branch of segment p holds: p is never executed.
func panicUnreachableByIntervals(s *Stage, pr *proc, p *ir.Path) bool {
	if pr.an == nil || len(pr.an.Headers) == 0 {
		return false
	}
	for _, prm := range paramNamedType(s.Fn, "int") {
		nT := &ir.Term{Op: "param", Aux: prm.Name()}
		for _, h := range pr.an.Headers {
			q, _, found := loopQuantity(pr.an, h, nT)
			if !found {
				continue
			}
			res := runIntervals(pr.an, Itv{NegInf, PosInf}, q, nil)
			if !res.Feasible[p] {
				return true
			}
		}
	}
	return false
}
