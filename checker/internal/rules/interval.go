package rules

import (
	"fmt"
	"math"

	"golang.org/x/tools/go/ssa"

	"verif/checker/internal/ir"
)

// Engine D-iii: interval analysis of ONE integer quantity over the cut-point
// segments of a function, with branch refinement and widening at loop heads.
// The quantity is given by `match`: it recognises terms of the form q+k and
// returns k. Stores to the quantity's cell are seen through the path-end memory.

type Itv struct{ Lo, Hi int64 }

const (
	NegInf = math.MinInt64 / 4
	PosInf = math.MaxInt64 / 4
)

func (i Itv) Empty() bool { return i.Lo > i.Hi }
func (i Itv) String() string {
	lo, hi := fmt.Sprint(i.Lo), fmt.Sprint(i.Hi)
	if i.Lo <= NegInf {
		lo = "-inf"
	}
	if i.Hi >= PosInf {
		hi = "+inf"
	}
	return "[" + lo + "," + hi + "]"
}
func (i Itv) Add(k int64) Itv {
	r := i
	if r.Lo > NegInf {
		r.Lo += k
	}
	if r.Hi < PosInf {
		r.Hi += k
	}
	return r
}
func join(a, b Itv) Itv {
	if a.Empty() {
		return b
	}
	if b.Empty() {
		return a
	}
	r := a
	if b.Lo < r.Lo {
		r.Lo = b.Lo
	}
	if b.Hi > r.Hi {
		r.Hi = b.Hi
	}
	return r
}
func widen(old, new Itv) Itv {
	if old.Empty() {
		return new
	}
	r := old
	if new.Lo < old.Lo {
		r.Lo = NegInf
	}
	if new.Hi > old.Hi {
		r.Hi = PosInf
	}
	return r
}

// refineItv refines the interval of q given that (atom == pol) holds, where
// atom is a comparison between q+k and an integer constant.
func refineItv(q Itv, atom *ir.Term, pol bool, match func(*ir.Term) (int64, bool)) Itv {
	if atom.Op != "bin" || len(atom.Args) != 2 {
		return q
	}
	x, y := atom.Args[0], atom.Args[1]
	kx, okx := match(x)
	ky, oky := match(y)
	cx, cokx := x.IntConst()
	cy, coky := y.IntConst()
	switch atom.Aux {
	case "==":
		var k, c int64
		switch {
		case okx && coky:
			k, c = kx, cy
		case oky && cokx:
			k, c = ky, cx
		default:
			return q
		}
		v := c - k // q == v
		if pol {
			if v < q.Lo || v > q.Hi {
				return Itv{1, 0}
			}
			return Itv{v, v}
		}
		if q.Lo == v {
			q.Lo++
		}
		if q.Hi == v {
			q.Hi--
		}
		return q
	case "<":
		switch {
		case okx && coky: // q+k < c
			if pol {
				if q.Hi > cy-kx-1 {
					q.Hi = cy - kx - 1
				}
			} else if q.Lo < cy-kx {
				q.Lo = cy - kx
			}
		case oky && cokx: // c < q+k
			if pol {
				if q.Lo < cx-ky+1 {
					q.Lo = cx - ky + 1
				}
			} else if q.Hi > cx-ky {
				q.Hi = cx - ky
			}
		}
	}
	return q
}

// IntervalResult: the interval of the quantity at the start of each cut point
// and at chosen observation steps.
type IntervalResult struct {
	AtHeader map[*ssa.BasicBlock]Itv
	// AtStep: interval of the quantity's *current value* immediately before each step selected by observe
	AtStep map[*ir.Step]Itv
	// Feasible: the segments on which, for some interval the fixpoint iteration reached at their start, every branch
	// was consistent with the quantity's interval. A segment that is not in the map cannot be executed.
	Feasible map[*ir.Path]bool
}

// Quantity describes the integer quantity being tracked.
type Quantity struct {
	// StartSym: the term denoting the quantity at the start of path p
	StartSym func(p *ir.Path) *ir.Term
	// ValueAt: the term of the quantity just before step i of p (i == len(p.Steps): at the end)
	ValueAt func(p *ir.Path, i int) *ir.Term
	// Atom (optional): a branch condition of p restated on the quantity (for derived quantities)
	Atom func(p *ir.Path, atom *ir.Term) *ir.Term
}

// RemainingQuantity: the budget n - counter, for a counter that counts up from 0 towards the bound n (the other
// representation of a budget that is counted down from n). Its start symbol is one synthetic term B; its value is
// B minus what the counter gained on the path; comparisons of the counter with n are restated on B:
// counter+k == n is B-k == 0, counter+k < n is 0 < B-k, n < counter+k is B-k < 0; before the loop (counter still 0)
// n itself is B.
func RemainingQuantity(counter Quantity, n *ir.Term) Quantity {
	b := &ir.Term{Op: "sym", Aux: "remaining(" + n.Key() + ")"}
	gained := func(p *ir.Path, i int) (int64, bool) {
		return plusConst(counter.ValueAt(p, i), counter.StartSym(p))
	}
	return Quantity{
		StartSym: func(*ir.Path) *ir.Term { return b },
		ValueAt: func(p *ir.Path, i int) *ir.Term {
			d, ok := gained(p, i)
			if !ok {
				return &ir.Term{Op: "sym", Aux: "unknown"}
			}
			return ir.MkBin("+", ir.Const(fmt.Sprint(-d)), b)
		},
		Atom: func(p *ir.Path, atom *ir.Term) *ir.Term {
			if atom.Op != "bin" || len(atom.Args) != 2 {
				return atom
			}
			sym := counter.StartSym(p)
			x, y := atom.Args[0], atom.Args[1]
			minus := func(k int64) *ir.Term { return ir.MkBin("+", ir.Const(fmt.Sprint(-k)), b) }
			zero := ir.Const("0")
			if k, ok := plusConst(x, sym); ok && ir.Same(y, n) && sym != nil {
				switch atom.Aux {
				case "==":
					return &ir.Term{Op: "bin", Aux: "==", Args: []*ir.Term{minus(k), zero}}
				case "<": // counter+k < n
					return &ir.Term{Op: "bin", Aux: "<", Args: []*ir.Term{zero, minus(k)}}
				}
			}
			if k, ok := plusConst(y, sym); ok && ir.Same(x, n) && sym != nil {
				switch atom.Aux {
				case "==":
					return &ir.Term{Op: "bin", Aux: "==", Args: []*ir.Term{minus(k), zero}}
				case "<": // n < counter+k
					return &ir.Term{Op: "bin", Aux: "<", Args: []*ir.Term{minus(k), zero}}
				}
			}
			if p.From == nil && mentions(atom, n) {
				return substTerm(atom, n, b)
			}
			return atom
		},
	}
}

// CellQuantity tracks the integer stored in the memory cell addr.
func CellQuantity(an *ir.Analysis, addr *ir.Term) Quantity {
	start := func(p *ir.Path) *ir.Term {
		st := an.Start[p.From]
		if st == nil {
			return nil
		}
		return st.MemAt(addr)
	}
	return Quantity{
		StartSym: start,
		ValueAt: func(p *ir.Path, i int) *ir.Term {
			if i >= len(p.Steps) && p.End != nil {
				// at the end of the path the engine's own memory is authoritative (a cell may have been written as
				// part of a whole-struct store)
				if v := p.End.MemAt(addr); v != nil {
					return v
				}
			}
			v := start(p)
			for j := 0; j < i && j < len(p.Steps); j++ {
				s := &p.Steps[j]
				if s.Kind == ir.KStore && ir.Same(s.A[0], addr) {
					v = s.A[1]
				}
			}
			return v
		},
	}
}

// PhiQuantity tracks the loop-carried register phi of header h; before the loop its value is init.
func PhiQuantity(an *ir.Analysis, h *ssa.BasicBlock, phi *ssa.Phi, init *ir.Term) Quantity {
	sym := func() *ir.Term { return an.Start[h].Reg(phi) }
	return Quantity{
		StartSym: func(p *ir.Path) *ir.Term {
			if p.From == h {
				return sym()
			}
			return init
		},
		ValueAt: func(p *ir.Path, i int) *ir.Term {
			if i >= len(p.Steps) && p.To == h {
				if v := p.PhiOut[phi]; v != nil {
					return v
				}
			}
			if p.From == h {
				return sym()
			}
			return init
		},
	}
}

// loopQuantity finds the loop-carried integer of header h whose value on entering the loop is init:
// a phi of h, or a memory cell. Returns ok=false when there is none (or more than one).
func loopQuantity(an *ir.Analysis, h *ssa.BasicBlock, init *ir.Term) (Quantity, string, bool) {
	var found []Quantity
	var names []string
	for _, in := range h.Instrs {
		phi, isPhi := in.(*ssa.Phi)
		if !isPhi {
			break
		}
		ok := false
		for _, p := range an.Segs[nil] {
			if p.To == h && ir.Same(p.PhiOut[phi], init) {
				ok = true
			}
		}
		if ok {
			found = append(found, PhiQuantity(an, h, phi, init))
			names = append(names, "register "+phi.Comment)
		}
	}
	for _, p := range an.Segs[nil] {
		if p.To != h {
			continue
		}
		p.End.EachMem(func(addr, val *ir.Term) {
			if cellAddr(addr) && ir.Same(val, init) {
				// the cell must be modified somewhere in the loop, otherwise it is just a copy of the parameter
				modified := false
				for _, q := range an.Segs[h] {
					for _, st := range q.Events(ir.KStore) {
						if ir.Same(st.A[0], addr) {
							modified = true
						}
					}
				}
				if modified {
					found = append(found, CellQuantity(an, addr))
					names = append(names, "cell "+addr.Aux)
				}
			}
		})
		break
	}
	if len(found) != 1 {
		return Quantity{}, fmt.Sprintf("%d candidates %v", len(found), names), false
	}
	return found[0], names[0], true
}

// ConstQuantity tracks an immutable term (e.g. len(param)).
func ConstQuantity(t *ir.Term) Quantity {
	return Quantity{StartSym: func(*ir.Path) *ir.Term { return t }, ValueAt: func(*ir.Path, int) *ir.Term { return t }}
}

// runIntervals computes the interval of the quantity at every cut point and
// immediately before every observed step, from the entry interval init.
func runIntervals(an *ir.Analysis, init Itv, q Quantity, observe func(s *ir.Step) bool) *IntervalResult {
	res := &IntervalResult{AtHeader: map[*ssa.BasicBlock]Itv{}, AtStep: map[*ir.Step]Itv{}, Feasible: map[*ir.Path]bool{}}
	start := map[*ssa.BasicBlock]Itv{nil: init}
	for _, h := range an.Headers {
		start[h] = Itv{1, 0}
	}
	visits := map[*ssa.BasicBlock]int{}
	work := []*ssa.BasicBlock{nil}
	rounds := 0
	for len(work) > 0 && rounds < 1000 {
		rounds++
		c := work[0]
		work = work[1:]
		for _, p := range an.Segs[c] {
			iv := start[c]
			if iv.Empty() {
				continue
			}
			sym := q.StartSym(p)
			match := func(t *ir.Term) (int64, bool) { return plusConst(t, sym) }
			feasible := true
			for i := range p.Steps {
				st := &p.Steps[i]
				if observe != nil && observe(st) {
					if k, ok := plusConst(q.ValueAt(p, i), sym); ok {
						if old, seen := res.AtStep[st]; seen {
							res.AtStep[st] = join(old, iv.Add(k))
						} else {
							res.AtStep[st] = iv.Add(k)
						}
					} else {
						res.AtStep[st] = Itv{NegInf, PosInf}
					}
				}
				if st.Kind == ir.KBranch {
					at := st.Atom
					if q.Atom != nil {
						at = q.Atom(p, at)
					}
					iv = refineItv(iv, at, st.Pol, match)
					if iv.Empty() {
						feasible = false
						break
					}
				}
			}
			if feasible {
				res.Feasible[p] = true
			}
			if !feasible || p.To == nil {
				continue
			}
			var nv Itv
			if k, ok := plusConst(q.ValueAt(p, len(p.Steps)), sym); ok {
				nv = iv.Add(k)
			} else {
				nv = Itv{NegInf, PosInf}
			}
			old := start[p.To]
			j := join(old, nv)
			if j != old {
				visits[p.To]++
				if visits[p.To] > 3 {
					j = widen(old, j)
				}
				start[p.To] = j
				work = append(work, p.To)
			}
		}
	}
	for h, v := range start {
		if h != nil {
			res.AtHeader[h] = v
		}
	}
	return res
}

// cellAddr: the address of a variable of the stage - a local / captured variable (alloc) or a field of a state
// object the stage allocates (closures turned into methods keep their counters there).
func cellAddr(a *ir.Term) bool {
	for a != nil {
		switch a.Op {
		case "alloc":
			return true
		case "faddr":
			if len(a.Args) != 1 {
				return false
			}
			a = a.Args[0]
		default:
			return false
		}
	}
	return false
}
