package rules

import (
	"fmt"
	"go/types"
	"strings"

	"golang.org/x/tools/go/ssa"

	"verif/checker/internal/core"
	"verif/checker/internal/ir"
)

func init() {
	register(&Pack{ID: "C03", Run: runC03, Meta: core.Meta{
		Level:       "other",
		Explanation: "Shape of the unfolding and of the lookups, each a necessary condition of the listing the property describes. loop-canonical: the unfold loop is i = 0 .. cat.NumField()-1 step 1 and every use of a field is cat.Field(i) of that i. append-once: every loop-iteration path appends exactly one entry whose StructField is cat.Field(i); on the descending path the append precedes the recursive call, the call receives the appended slice and its result becomes the loop-carried listing. id-consecutive: ID is len of the pre-append slice. descend-cond: recursion iff Anonymous and kind(pointer-stripped field type) == Struct. true-offset: = C01 offs-writers/offs-term. puretype: PureType is the field's type, pointer-stripped exactly when its kind is Ptr. fieldkey: FieldKey is the first comma-separated part of the hseq tag when non-empty, else the field name. first-match: ForName/ForNameMaybe/ForType scan ascending and return the current element directly under the match (exact key equality / type identity-or-String+AssignableTo), no remember-and-continue, no reverse scan. names-order: New(names...) stores ForName(seq, names[i]) at index i for the same i; no names returns the full listing. positional: New1..9 / FMap1..9 (as C01) and FMap: val[i] = f(seq[i]). reflect's own field order is trusted; a struct embedding a pointer to itself makes the listing infinite (no cycle guard) - outside what the property can mean, recorded as an assumption. unfold-pure as in C01.",
		RuleText:    "one obligation per (rule, function / path family)",
		Assumptions: []string{"reflect.Type.Field(i) enumerates fields in declaration order with true offsets", "no struct embeds a pointer to itself"},
		TrustedBase: []string{"go/types", "go/ssa", "path engine P", "term normaliser T"},
	}})
}

func runC03(c *core.Ctx) {
	c.Doc("loop-canonical", 1, "unfold: for i := 0; i < cat.NumField(); i++ over cat.Field(i)")
	c.Doc("append-once", 1, "exactly one append per iteration; descent after the append, on the appended slice")
	c.Doc("id-consecutive", 1, "ID := len(listing before the append)")
	c.Doc("descend-cond", 1, "recursion iff Anonymous && kind(stripped type) == Struct")
	c.Doc("puretype", 1, "PureType := field type, pointer-stripped iff kind == Ptr")
	c.Doc("fieldkey", 1, "FieldKey: first part of the hseq tag if non-empty, else Name")
	c.Doc("first-match", 3, "lookups return the first element matching exactly")
	c.Doc("names-order", 1, "New(names...)[i] = ForName(listing, names[i])")
	c.Doc("listing-immutable", 1, "no function of hseq writes into, sorts or copies onto a listing it was given")
	listingImmutable(c)
	c.Doc("positional", 1, "FMap: val[i] = f(seq[i])")
	c.Doc("offs-term", 3, "true offsets (shared with C01)")

	unfoldRules(c)
	fieldKeyRule(c)
	firstMatchRules(c)
	namesOrderRule(c)
	c.Doc("loops-progress", 1, "no loop of the package can go round without changing anything")
	loopsProgress(c, "loops-progress", "hseq")
	fmapRule(c)
	offsRules(c)
	// positional families
	c.Doc("pairing", 18, "New1..9 / FMap1..9 positional consistency (shared with C01)")
	pairingHseq(c)
}

func isFieldCall(t *ir.Term, uf *ssa.Function, catP int, idx *ir.Term) bool {
	return t != nil && t.Op == "pure" && strings.HasSuffix(t.Aux, ".Field") && len(t.Args) == 2 && paramOf(t.Args[0], uf, catP) && ir.Same(t.Args[1], idx)
}

func unfoldRules(c *core.Ctx) {
	ui := unfoldInfoOf(c)
	if ui == nil {
		c.Undecided("loop-canonical", "hseq.unfold", 0, "unfolding function not found")
		return
	}
	uf := ui.fn
	an := unfoldAnalysis(c, ui)
	if problems(c, "loop-canonical", "hseq.unfold", an) {
		return
	}
	catP := ui.catP
	if len(an.Headers) != 1 {
		c.Undecided("loop-canonical", "hseq.unfold", uf.Pos(), "expected exactly one loop, found %d", len(an.Headers))
		return
	}
	h := an.Headers[0]
	l := countedLoop(an, h)
	okLoop := l != nil && l.Step == 1 && (l.Op == "<" || l.Op == "!=" || l.Op == "rot<")
	why := "the field loop is not a canonical ascending counted loop"
	if okLoop {
		s0, isK := l.Start.IntConst()
		okLoop = isK && s0 == 0 && l.Trip != nil && l.Trip.Op == "pure" && strings.HasSuffix(l.Trip.Aux, ".NumField") && paramOf(l.Trip.Args[0], uf, catP)
		why = fmt.Sprintf("the loop runs from %s while i %s %s, expected 0 .. cat.NumField()", short(l.Start), l.Op, short(l.Bound))
	}
	c.Check(okLoop, "loop-canonical", "hseq.unfold", uf.Pos(), "i = 0 .. cat.NumField()-1", "%s", why)
	if !okLoop {
		return
	}
	idx := an.Start[h].Reg(l.Phi)
	// the listing: a loop-carried value threaded through the recursion (functional style, seq = unfold(cat, seq, off))
	// or a cell of a state object that the unfolding method updates in place (u.seq = append(u.seq, ...))
	var seqPhi *ssa.Phi
	var cell *ir.Term
	if ui.seqP >= 0 {
		for _, in := range h.Instrs {
			if phi, ok := in.(*ssa.Phi); ok && phi != l.Phi {
				seqPhi = phi
			}
		}
		if seqPhi == nil {
			c.Undecided("append-once", "hseq.unfold", uf.Pos(), "no loop-carried listing")
			return
		}
	} else if ui.closure {
		fv := uf.FreeVars[ui.listFV]
		cell = &ir.Term{Op: "free", Aux: fv.Name(), Typ: fv.Type(), Src: fv}
	} else {
		cell = &ir.Term{Op: "faddr", Aux: ui.cellField, Args: []*ir.Term{{Op: "param", Aux: uf.Params[ui.recvP].Name()}}}
	}
	storesToCell := func(p *ir.Path) []*ir.Step {
		var out []*ir.Step
		for _, st := range p.Events(ir.KStore) {
			if cell != nil && ir.Same(st.A[0], cell) {
				out = append(out, st)
			}
		}
		return out
	}
	var cur *ir.Term
	if seqPhi != nil {
		cur = an.Start[h].Reg(seqPhi)
	} else {
		cur = an.Start[h].MemAt(cell)
		if cur == nil {
			c.Undecided("append-once", "hseq.unfold", uf.Pos(), "the listing cell has no value at the loop head")
			return
		}
	}
	// the root call starts from an empty listing (a pre-filled one shifts every ID and invents entries)
	{
		root := ui.rootCall
		startsEmpty := func(v ssa.Value) bool {
			switch x := v.(type) {
			case *ssa.MakeSlice:
				k, isK := x.Len.(*ssa.Const)
				return isK && k.Value != nil && k.Value.ExactString() == "0"
			case *ssa.Const:
				return x.IsNil()
			case *ssa.Slice:
				// make([]T, 0) with constant bounds, or []T{}: a fresh array resliced to length 0
				if al, isAl := x.X.(*ssa.Alloc); isAl {
					if hk, isK := x.High.(*ssa.Const); isK && hk.Value != nil && hk.Value.ExactString() == "0" {
						return true
					}
					if at, isArr := al.Type().(*types.Pointer).Elem().Underlying().(*types.Array); isArr && at.Len() == 0 {
						return true
					}
				}
			}
			return false
		}
		okRoot := false
		why := "the listing handed to the unfolding is not known to be empty"
		if ui.seqP >= 0 {
			v := root.Call.Args[ui.seqP]
			for {
				if ct, isCT := v.(*ssa.ChangeType); isCT {
					v = ct.X
					continue
				}
				break
			}
			okRoot = startsEmpty(v)
			why = fmt.Sprintf("the root call passes %v as the initial listing, expected an empty slice", v)
		} else {
			// state object: the listing cell must be initialised empty (or left at its zero value) before the root call
			newFn := c.W.Func("hseq", "New")
			nan := c.AnalyzeLoopsExcept(newFn, uf, c.W.Func("hseq", "ForName"))
			okRoot = len(nan.Problems) == 0
			for _, p := range nan.AllPaths() {
				for i := range p.Steps {
					st := &p.Steps[i]
					if st.Kind != ir.KCall || st.Static != uf {
						continue
					}
					var cellAt, obj *ir.Term
					if ui.closure {
						if st.Callee == nil || st.Callee.Op != "closure" || ui.listFV >= len(st.Callee.Args) {
							okRoot = false
							why = "the listing variable the function literal captures cannot be identified at the root call"
							continue
						}
						cellAt = st.Callee.Args[ui.listFV]
					} else {
						obj = st.A[ui.recvP]
						cellAt = &ir.Term{Op: "faddr", Aux: ui.cellField, Args: []*ir.Term{obj}}
					}
					var last *ir.Term
					for _, s2 := range p.Steps[:i] {
						if s2.Kind == ir.KStore && ir.Same(s2.A[0], cellAt) {
							last = s2.A[1]
						}
						if obj != nil && s2.Kind == ir.KStore && ir.Same(s2.A[0], obj) && s2.A[1].Op == "lit" {
							last = ir.FieldOf(s2.A[1], ui.cellField)
						}
					}
					empty := last == nil || last.IsNil() || last.Op == "const" && strings.HasPrefix(last.Aux, "zero")
					if last != nil && last.Op == "mkslice" && len(last.Args) > 0 {
						if k, isK := last.Args[0].IntConst(); isK && k == 0 {
							empty = true
						}
					}
					if last != nil && last.Op == "slice" && len(last.Args) == 4 {
						if k, isK := last.Args[2].IntConst(); isK && k == 0 {
							empty = true
						}
					}
					if !empty {
						okRoot = false
						why = "the listing of the state object is initialised with " + short(last) + ", expected an empty slice"
					}
				}
			}
		}
		c.Check(okRoot, "append-once", "hseq.New#root-call", root.Pos(), "the unfolding starts from an empty listing", "%s", why)
	}
	for _, p := range an.Segs[nil] {
		if p.To == nil {
			// no field at all: the listing stays as it is
			bad := p.Exit != ir.ExitReturn || len(p.Events(ir.KCall)) > 0
			if seqPhi != nil {
				bad = bad || len(p.Results) != 1 || !paramOf(p.Results[0], uf, ui.seqP)
			} else {
				bad = bad || len(storesToCell(p)) > 0
			}
			if bad {
				c.Fail("append-once", "hseq.unfold", lastPos(p), "a type without fields must leave the listing as it is")
			}
			continue
		}
		if seqPhi != nil {
			if !paramOf(p.PhiOut[seqPhi], uf, ui.seqP) {
				c.Fail("append-once", "hseq.unfold", uf.Pos(), "the listing does not start from the sequence argument")
			}
		} else if len(storesToCell(p)) > 0 {
			c.Fail("append-once", "hseq.unfold", uf.Pos(), "the listing is modified before the field loop")
		}
	}
	fieldT := &ir.Term{Op: "pure", Aux: "(reflect.Type).Field", Args: []*ir.Term{{Op: "param", Aux: uf.Params[catP].Name()}, idx}}
	fType := &ir.Term{Op: "field", Aux: "Type", Args: []*ir.Term{fieldT}}
	okApp, okID, okDesc, okPure := true, true, true, true
	nIter := 0
	for _, p := range an.Segs[h] {
		var next *ir.Term
		if seqPhi != nil {
			next = p.PhiOut[seqPhi]
		}
		if p.To != h {
			// exit: returns the listing
			if p.Exit != ir.ExitReturn || (seqPhi != nil && len(p.Results) != 1) {
				okApp = false
				c.Fail("append-once", "hseq.unfold", lastPos(p), "the loop exit does not return the accumulated listing")
				continue
			}
			if !l.Rotated() {
				bad := len(p.Events(ir.KCall)) > 0
				if seqPhi != nil {
					bad = bad || !ir.Same(p.Results[0], cur)
				} else {
					bad = bad || len(storesToCell(p)) > 0
				}
				if bad {
					okApp = false
					c.Fail("append-once", "hseq.unfold", lastPos(p), "the loop exit does not return the accumulated listing")
				}
				continue
			}
			// bottom-tested loop: the exit path carries the last iteration, its result is the listing after it
			if seqPhi != nil {
				next = p.Results[0]
			}
		}
		nIter++
		// find the appended literal on this path
		var lit *ir.Term
		nLit := 0
		for _, st := range p.Events(ir.KStore) {
			if st.A[1].Op == "lit" {
				for _, kv := range st.A[1].Args {
					if kv.Aux == "StructField" {
						lit = st.A[1]
						nLit++
					}
				}
			}
		}
		var rec *ir.Step
		nRec, recIdx := 0, -1
		for i := range p.Steps {
			st := &p.Steps[i]
			if st.Kind == ir.KCall && st.Static == uf {
				rec = st
				recIdx = i
				nRec++
			}
		}
		var appended *ir.Term
		if seqPhi != nil {
			appended = next
			if rec != nil {
				if !ir.Same(next, rec.R) {
					okApp = false
					c.Fail("append-once", "hseq.unfold", rec.Pos(), "the result of the recursive descent does not become the listing")
				}
				appended = rec.A[ui.seqP]
			}
		} else {
			// exactly one in-place update of the listing, before the descent, which runs on the same state object
			n, at := 0, -1
			for i := range p.Steps {
				st := &p.Steps[i]
				if st.Kind == ir.KStore && ir.Same(st.A[0], cell) {
					n++
					at = i
					appended = st.A[1]
				}
			}
			if n != 1 {
				appended = nil
			}
			if rec != nil {
				if at > recIdx {
					okApp = false
					c.Fail("append-once", "hseq.unfold", rec.Pos(), "the descent runs before the embedded struct's own entry is appended")
				}
				if !ui.closure && !paramOf(rec.A[ui.recvP], uf, ui.recvP) {
					okApp = false
					c.Fail("append-once", "hseq.unfold", rec.Pos(), "the descent does not continue on the same listing")
				}
			}
		}
		if nLit != 1 || nRec > 1 || appended == nil || appended.Op != "append" || len(appended.Args) != 2 || !ir.Same(appended.Args[0], cur) {
			okApp = false
			c.Fail("append-once", "hseq.unfold", lastPos(p), "each field must be appended exactly once to the current listing (and the descent, if any, run on the appended listing); found %d entry literals, %d descents, listing' = %s", nLit, nRec, short(appended))
			continue
		}
		if x := appendedOne(p, appended.Args[1]); x == nil || !ir.Same(x, lit) {
			okApp = false
			c.Fail("append-once", "hseq.unfold", lastPos(p), "what is appended is not exactly the entry built for this field")
			continue
		}
		// the literal's components
		var sf, id, pure *ir.Term
		for _, kv := range lit.Args {
			switch kv.Aux {
			case "StructField":
				sf = kv.Args[0]
			case "ID":
				id = kv.Args[0]
			case "PureType":
				pure = kv.Args[0]
			}
		}
		if !isFieldCall(sf, uf, catP, idx) {
			okApp = false
			c.Fail("append-once", "hseq.unfold", lastPos(p), "the appended entry describes %s, expected cat.Field(i) of the loop's own i", short(sf))
		}
		if !(id != nil && id.Op == "len" && ir.Same(id.Args[0], cur)) {
			okID = false
			c.Fail("id-consecutive", "hseq.unfold", lastPos(p), "ID is %s, expected len of the listing before the append", short(id))
		}
		// kind tests on this path
		isPtr := polarity(p, kindAtom(fType, 22))
		stripped := fType
		if isPtr > 0 {
			stripped = &ir.Term{Op: "pure", Aux: "(reflect.Type).Elem", Args: []*ir.Term{fType}}
		}
		if isPtr == 0 || !ir.Same(pure, stripped) {
			okPure = false
			c.Fail("puretype", "hseq.unfold", lastPos(p), "PureType is %s on a path where kind==Ptr is %d: expected the field type, pointer-stripped exactly when its kind is Ptr", short(pure), isPtr)
		}
		anon := polarity(p, &ir.Term{Op: "field", Aux: "Anonymous", Args: []*ir.Term{fieldT}})
		isStruct := polarity(p, kindAtom(stripped, 25))
		cond := and3(anon, isStruct)
		switch {
		case cond == 0:
			okDesc = false
			c.Fail("descend-cond", "hseq.unfold", lastPos(p), "a path decides neither (Anonymous && kind(stripped type) == Struct) nor its negation")
		case cond > 0 && rec == nil:
			okDesc = false
			c.Fail("descend-cond", "hseq.unfold", lastPos(p), "an embedded struct is listed but its fields are not unfolded")
		case cond < 0 && rec != nil:
			okDesc = false
			c.Fail("descend-cond", "hseq.unfold", rec.Pos(), "the unfolding descends into a field that is not an embedded struct")
		case cond > 0:
			if !ir.Same(rec.A[catP], stripped) {
				okDesc = false
				c.Fail("descend-cond", "hseq.unfold", rec.Pos(), "the descent unfolds %s, expected the embedded field's (pointer-stripped) type", short(rec.A[catP]))
			}
		}
	}
	if nIter == 0 {
		c.Fail("append-once", "hseq.unfold", uf.Pos(), "no iteration path")
		return
	}
	if okApp {
		c.Ok("append-once", "hseq.unfold", uf.Pos(), fmt.Sprintf("%d iteration paths, one append each", nIter))
	}
	if okID {
		c.Ok("id-consecutive", "hseq.unfold", uf.Pos(), "ID = len(seq) before append")
	}
	if okDesc {
		c.Ok("descend-cond", "hseq.unfold", uf.Pos(), "descent iff Anonymous && Struct (value or pointer embedded)")
	}
	if okPure {
		c.Ok("puretype", "hseq.unfold", uf.Pos(), "PureType = stripped field type")
	}
}

func kindAtom(t *ir.Term, k int64) *ir.Term {
	kt := &ir.Term{Op: "pure", Aux: "(reflect.Type).Kind", Args: []*ir.Term{t}}
	return &ir.Term{Op: "bin", Aux: "==", Args: sorted2(ir.Const(fmt.Sprint(k)), kt)}
}

func fieldKeyRule(c *core.Ctx) {
	fn := c.W.Method("hseq", "Type", "FieldKey")
	if fn == nil {
		c.Undecided("fieldkey", "hseq.Type.FieldKey", 0, "anchor not found")
		return
	}
	an := c.Analyze(fn)
	if problems(c, "fieldkey", "hseq.Type.FieldKey", an) {
		return
	}
	ok := true
	nTag, nName := 0, 0
	for _, p := range an.AllPaths() {
		if p.Exit != ir.ExitReturn || len(p.Results) != 1 {
			ok = false
			continue
		}
		r := p.Results[0]
		kind, emptyPol := fieldKeyKind(p, r)
		switch kind {
		case "tag":
			nTag++
		case "name":
			nName++
		default:
			ok = false
			c.Fail("fieldkey", "hseq.Type.FieldKey", lastPos(p), "a path returns %s with tag-empty=%d: expected the first comma-separated part of the `hseq` tag when non-empty, else the field name", short(r), emptyPol)
		}
	}
	if ok && nTag > 0 && nName > 0 {
		c.Ok("fieldkey", "hseq.Type.FieldKey", fn.Pos(), "tag part 0 if non-empty else Name")
	} else if ok {
		c.Fail("fieldkey", "hseq.Type.FieldKey", fn.Pos(), "expected a tag path and a name path (found %d / %d)", nTag, nName)
	}
}

// fieldKeyKind classifies the term r on path p as the key of a listing entry: "tag" when the path established that the
// first comma-separated part of the `hseq` tag is non-empty and r is that part, "name" when the path established that it
// is empty and r is the field name, "" otherwise. The second result is the polarity of the emptiness test on the path.
func fieldKeyKind(p *ir.Path, r *ir.Term) (string, int) {
	// the key asked from the entry itself: a call of Type.FieldKey too deep to be looked into here (its body is
	// decided by the rule `fieldkey`)
	if r.Op == "call" && len(r.Args) == 2 && r.Args[0].Op == "fn" && r.Args[0].Fn != nil {
		if f := r.Args[0].Fn; f.Name() == "FieldKey" && f.Signature.Recv() != nil {
			if o := f.Origin(); o != nil {
				f = o
			}
			if f.Pkg != nil && strings.HasSuffix(f.Pkg.Pkg.Path(), "/hseq") {
				return "call", 0
			}
		}
	}
	// tag := strings.Split(t.StructField.Tag.Get("hseq"), ",")[0]
	isGet := func(g *ir.Term) bool {
		return g.Op == "pure" && strings.HasSuffix(g.Aux, "StructTag).Get") && len(g.Args) == 2 && g.Args[1].Aux == `"hseq"` &&
			fieldRead(g.Args[0], "Tag")
	}
	isTag := func(t *ir.Term) bool {
		var base, idx *ir.Term
		switch {
		case t.Op == "extract" && t.Aux == "0" && t.Args[0].Op == "pure" && t.Args[0].Aux == "strings.Cut":
			// before, _, _ := strings.Cut(tag, ",") : the part before the first comma (the whole tag without one)
			cut := t.Args[0]
			return len(cut.Args) == 2 && cut.Args[1].Aux == `","` && isGet(cut.Args[0])
		case t.Op == "load" && t.Args[0].Op == "iaddr":
			base, idx = t.Args[0].Args[0], t.Args[0].Args[1]
		case t.Op == "index":
			base, idx = t.Args[0], t.Args[1]
		default:
			return false
		}
		k, isK := idx.IntConst()
		if !isK || k != 0 || base.Op != "pure" || base.Aux != "strings.Split" || len(base.Args) != 2 {
			return false
		}
		if base.Args[1].Aux != `","` {
			return false
		}
		return isGet(base.Args[0])
	}
	var tagT *ir.Term
	emptyPol := 0
	for _, s := range p.Events(ir.KBranch) {
		if s.Atom.Op == "bin" && s.Atom.Aux == "==" {
			for i := 0; i < 2; i++ {
				if s.Atom.Args[i].Aux == `""` && isTag(s.Atom.Args[1-i]) {
					tagT = s.Atom.Args[1-i]
					if s.Pol {
						emptyPol = 1
					} else {
						emptyPol = -1
					}
				}
			}
		}
	}
	if emptyPol == 0 {
		// the emptiness test written on the length: len(tag) > 0, len(tag) == 0, ...
		for _, s := range p.Events(ir.KBranch) {
			s.Atom.Walk(func(x *ir.Term) {
				if x.Op == "len" && len(x.Args) == 1 && isTag(x.Args[0]) && tagT == nil {
					tagT = x.Args[0]
				}
			})
		}
		if tagT != nil {
			emptyPol = polarity(p, &ir.Term{Op: "bin", Aux: "==", Args: sorted2(ir.Const("0"), &ir.Term{Op: "len", Args: []*ir.Term{tagT}})})
		}
	}
	switch {
	case emptyPol < 0 && ir.Same(r, tagT):
		return "tag", emptyPol
	case emptyPol > 0 && fieldRead(r, "Name"):
		return "name", emptyPol
	}
	return "", emptyPol
}

// fieldRead: t reads the field of that name - of a struct value (field) or through its address (load of faddr).
func fieldRead(t *ir.Term, name string) bool {
	if t.Op == "field" && t.Aux == name {
		return true
	}
	return t.Op == "load" && len(t.Args) >= 1 && t.Args[0].Op == "faddr" && t.Args[0].Aux == name
}

func firstMatchRules(c *core.Ctx) {
	for _, name := range []string{"ForName", "ForNameMaybe", "ForType"} {
		fn := c.W.Func("hseq", name)
		cname := "hseq." + name
		if fn == nil {
			c.Undecided("first-match", cname, 0, "anchor not found")
			continue
		}
		an := c.AnalyzeLoops(fn)
		if problems(c, "first-match", cname, an) {
			continue
		}
		if len(an.Headers) != 1 {
			c.Undecided("first-match", cname, fn.Pos(), "expected one scan loop, found %d", len(an.Headers))
			continue
		}
		h := an.Headers[0]
		l := countedLoop(an, h)
		if l == nil || l.RangeOver == nil || !paramOf(l.RangeOver, fn, 0) {
			c.Fail("first-match", cname, fn.Pos(), "the scan is not an ascending range over the listing argument")
			continue
		}
		elem := l.Elem(an)
		ok := true
		nFound := 0
		// nothing is answered before the scan: a returning path that never reached the loop (a memo of an earlier
		// answer, a shortcut for some arguments) answers without having looked at this listing
		for _, p := range an.Segs[nil] {
			if p.Exit != ir.ExitReturn {
				continue
			}
			absent := name == "ForNameMaybe" && len(p.Results) >= 1 && !mentionsTerm(p.Results[0], fn.Params[0])
			if l.Rotated() && absent {
				continue // bottom-tested scan skipped for an empty listing: reports absence
			}
			ok = false
			c.Fail("first-match", cname, lastPos(p), "the function answers %s without scanning the listing it was given", short(p.Results[0]))
		}
		for _, p := range an.Segs[h] {
			// match condition on this path
			match := 0
			sawStr, sawAssign, sawIdent, sawFalse := false, false, false, false
			badTypeSource := false
			for _, s := range p.Events(ir.KBranch) {
				at := s.Atom
				switch name {
				case "ForName", "ForNameMaybe":
					// f.FieldKey() == field : the call is inlined, so the atom compares a key term with the parameter
					if at.Op == "bin" && at.Aux == "==" && (paramOf(at.Args[0], fn, 1) || paramOf(at.Args[1], fn, 1)) {
						other := at.Args[0]
						if paramOf(other, fn, 1) {
							other = at.Args[1]
						}
						// the key must be derived from the current element only
						if !mentionsOnly(other, elem) {
							ok = false
							c.Fail("first-match", cname, s.Pos(), "the name is compared with %s, which is not the key of the element under inspection", short(other))
						} else if kind, _ := fieldKeyKind(p, other); kind == "" {
							// the key is what FieldKey defines: the tag's first part when non-empty, else the field name
							ok = false
							c.Fail("first-match", cname, s.Pos(), "the name is compared with %s, which is not the entry's key (the first part of its `hseq` tag when non-empty, else its field name)", short(other))
						}
						match = polInt(s.Pol)
					}
				case "ForType":
					// identity, or String()==String() && AssignableTo in either order: the conjunction of what the path
					// has tested
					// what is compared with the witness type is the entry's declared type (StructField.Type), not the
					// pointer-stripped PureType or anything else: an embedded *B is not a field of type B
					declared := func(t *ir.Term) bool {
						ok := true
						t.Walk(func(x *ir.Term) {
							if (x.Op == "field" || x.Op == "faddr") && x.Aux != "Type" && x.Aux != "StructField" && mentionsOnly(x, elem) {
								ok = false
							}
						})
						return ok
					}
					if !declared(at) && !badTypeSource {
						badTypeSource = true
						ok = false
						c.Fail("first-match", cname, s.Pos(), "the witness type is compared with %s, which is not the entry's declared type (StructField.Type): an entry of another type (an embedded *B for B) would be taken for it", short(at))
					}
					if at.Op == "bin" && at.Aux == "==" && len(at.Args) == 2 {
						a, b := at.Args[0], at.Args[1]
						isStr := func(t *ir.Term) bool { return t.Op == "pure" && strings.HasSuffix(t.Aux, ".String") }
						switch {
						case isStr(a) && isStr(b):
							if s.Pol {
								sawStr = true
							} else {
								sawFalse = true
							}
						case (a.Op == "rtype") != (b.Op == "rtype") && !a.IsConst() && !b.IsConst() && !isStr(a) && !isStr(b):
							if s.Pol {
								sawIdent = true
							} else {
								sawFalse = true
							}
						}
					}
					if at.Op == "pure" && strings.HasSuffix(at.Aux, ".AssignableTo") {
						if s.Pol {
							sawAssign = true
						} else {
							sawFalse = true
						}
					}
				}
			}
			if name == "ForType" {
				switch {
				case sawFalse:
					match = -1
				case sawIdent, sawStr && sawAssign:
					match = 1
				case sawStr:
					match = 2 // needs the AssignableTo conjunct as well
				case sawAssign:
					match = 3 // AssignableTo alone: too weak
				}
			}
			if match == 2 || match == 3 {
				ok = false
				c.Fail("first-match", cname, lastPos(p), "an element is accepted on assignability or on its printed name alone, not on type identity (String()-equality and AssignableTo together, or ==): a merely assignable earlier field would be returned")
				continue
			}
			// a lookup that reports presence next to the entry (ForNameMaybe): true exactly on a match
			if p.Exit == ir.ExitReturn && p.From != nil && len(p.Results) == 2 {
				flag := p.Results[1]
				want := "false"
				if match > 0 || mentionsTerm(p.Results[0], fn.Params[0]) {
					// (an entry of the listing is answered: found now, or remembered from an earlier pass)
					want = "true"
				}
				if !(flag.IsConst() && flag.Aux == want) {
					ok = false
					c.Fail("first-match", cname, lastPos(p), "the lookup reports %s next to its answer, expected %s on this path (an entry of the listing is%s answered)", short(flag), want, map[bool]string{true: "", false: " not"}[want == "true"])
				}
			}
			switch {
			case p.Exit == ir.ExitReturn && p.From != nil && match > 0:
				nFound++
				if !ir.Same(p.Results[0], elem) {
					ok = false
					c.Fail("first-match", cname, lastPos(p), "on a match the function returns %s, expected the element under inspection", short(p.Results[0]))
				}
			case p.To == h && match < 0:
			case p.To == h && match > 0:
				// remembering the index is the same as returning at once when the loop cannot make another pass: the
				// remembered slot starts negative, is set to the (non-negative) index of the element under the
				// match, every pass requires slot < 0, and after the loop slot >= 0 returns seq[slot]
				if why := rememberedIndexForm(an, h, l, fn, p); why != "" {
					ok = false
					c.Fail("first-match", cname, lastPos(p), "the scan continues after a match (remember-and-continue returns a later element): %s", why)
				} else {
					nFound++
				}
			case p.To == h && match == 0:
				ok = false
				c.Fail("first-match", cname, lastPos(p), "an iteration path tests no match condition")
			case p.Exit == ir.ExitReturn && p.From != nil && match <= 0 && polarity(p, l.boundAtom()) > 0:
				ok = false
				c.Fail("first-match", cname, lastPos(p), "an element is returned without a positive match")
			}
		}
		if ok && nFound > 0 {
			c.Ok("first-match", cname, fn.Pos(), "ascending scan, return of the current element directly under the match")
		} else if ok {
			c.Fail("first-match", cname, fn.Pos(), "no path returns a matching element")
		}
	}
}

// rememberedIndexForm checks the "first hit by index" idiom on the matching path p of the scan loop l; returns the
// reason why it is not that idiom ("" when it is).
func rememberedIndexForm(an *ir.Analysis, h *ssa.BasicBlock, l *Loop, fn *ssa.Function, p *ir.Path) string {
	if l == nil || l.tailForm || l.Rotated() {
		return "not an index scan"
	}
	if s0, isK := l.Start.IntConst(); !isK || s0 < -1 || l.Step != 1 {
		return "not an ascending index scan"
	}
	idx := l.Index(an)
	// the slot: an integer phi other than the loop counter that this path sets to the index
	var slot *ssa.Phi
	for _, in := range h.Instrs {
		phi, isPhi := in.(*ssa.Phi)
		if !isPhi {
			break
		}
		if phi != l.Phi && ir.Same(p.PhiOut[phi], idx) {
			slot = phi
		}
	}
	if slot == nil {
		return "the match is not recorded as the index of the element under inspection"
	}
	sym := an.Start[h].Reg(slot)
	neg := &ir.Term{Op: "bin", Aux: "<", Args: []*ir.Term{sym, ir.Const("0")}}
	lb := ir.LoopBlocks(h)
	for _, ps := range an.Segs {
		for _, q := range ps {
			if q.To != h {
				continue
			}
			if q.From == nil || !lb[q.From] {
				if k, isK := q.PhiOut[slot].IntConst(); !isK || k >= 0 {
					return "the remembered index does not start negative"
				}
				continue
			}
			// every pass of the loop runs only while nothing is remembered
			if polarity(q, neg) <= 0 {
				return "the loop can make another pass after a match was remembered"
			}
			if q != p && !ir.Same(q.PhiOut[slot], sym) && !ir.Same(q.PhiOut[slot], idx) {
				return "the remembered index is changed on a non-matching pass"
			}
		}
	}
	// after the loop: slot >= 0 => the element at the slot is returned
	seen := false
	for _, q := range an.Segs[h] {
		if q.To != nil {
			continue
		}
		switch polarity(q, neg) {
		case -1:
			seen = true
			if q.Exit != ir.ExitReturn || len(q.Results) == 0 {
				return "a remembered match is not returned"
			}
			r := q.Results[0]
			okR := false
			if r.Op == "load" && len(r.Args) == 1 && r.Args[0].Op == "iaddr" && ir.Same(r.Args[0].Args[0], l.RangeOver) && ir.Same(r.Args[0].Args[1], sym) {
				okR = true
			}
			if r.Op == "index" && len(r.Args) == 2 && ir.Same(r.Args[0], l.RangeOver) && ir.Same(r.Args[1], sym) {
				okR = true
			}
			if !okR {
				return "after the loop " + short(r) + " is returned, expected the element at the remembered index"
			}
		case 0:
			return "the loop is left without deciding whether a match was remembered"
		}
	}
	if !seen {
		return "no exit returns the remembered element"
	}
	return ""
}

func polInt(b bool) int {
	if b {
		return 1
	}
	return -1
}

// mentionsOnly: every element access inside t goes through elem.
func mentionsOnly(t, elem *ir.Term) bool {
	ok := true
	found := false
	listing := elem.Args[0].Args[0]
	t.Walk(func(x *ir.Term) {
		if x.Op == "iaddr" && ir.Same(x.Args[0], listing) {
			// an element of the listing: must be the one under inspection
			if ir.Same(x, elem.Args[0]) {
				found = true
			} else {
				ok = false
			}
		}
	})
	return ok && found
}

// boundAtom: the atom of the loop's continuation test.
func (l *Loop) boundAtom() *ir.Term {
	if l.Op == "range" {
		return &ir.Term{Op: "bin", Aux: "<", Args: []*ir.Term{{Op: "bin", Aux: "+", Args: sorted2(&ir.Term{Op: "phi"}, ir.Const("1"))}, l.Bound}}
	}
	return &ir.Term{Op: "bin", Aux: "<"}
}

func namesOrderRule(c *core.Ctx) {
	fn := c.W.Func("hseq", "New")
	if fn == nil {
		c.Undecided("names-order", "hseq.New", 0, "anchor not found")
		return
	}
	ui := unfoldInfoOf(c)
	if ui == nil {
		c.Undecided("names-order", "hseq.New", fn.Pos(), "unfolding function not found")
		return
	}
	uf := ui.fn
	forName := c.W.Func("hseq", "ForName")
	an := c.AnalyzeLoopsExcept(fn, forName, uf)
	if problems(c, "names-order", "hseq.New", an) {
		return
	}
	names := fn.Params[len(fn.Params)-1]
	isNames := func(t *ir.Term) bool { return t.Op == "param" && t.Src == ssa.Value(names) }
	ok := true
	var listing *ir.Term
	nEmpty, nStore := 0, 0
	var callInstr ssa.Value
	var badIter []*ir.Path
	var badN []int
	// the listing: the unfolding function's result, or - when it is a method of a state object - the content of
	// that object's listing cell after the call
	var cell *ir.Term
	for _, p := range an.AllPaths() {
		for _, st := range p.Events(ir.KCall) {
			if st.Static == uf {
				listing = st.R
				callInstr, _ = st.Instr.(ssa.Value)
				if ui.recvP >= 0 && ui.recvP < len(st.A) {
					cell = &ir.Term{Op: "faddr", Aux: ui.cellField, Args: []*ir.Term{st.A[ui.recvP]}}
				}
				if ui.closure && st.Callee != nil && st.Callee.Op == "closure" && ui.listFV < len(st.Callee.Args) {
					cell = st.Callee.Args[ui.listFV]
				}
			}
		}
	}
	if listing == nil || callInstr == nil {
		c.Fail("names-order", "hseq.New", fn.Pos(), "the full listing is not computed by the unfolding function")
		return
	}
	listing0 := listing
	for _, p := range an.AllPaths() {
		listing = nil
		for i := range p.Steps {
			st := &p.Steps[i]
			if st.Kind == ir.KCall && st.Static == uf {
				listing = st.R
				if cell != nil {
					// the first read of the cell after the call (no store to it may follow)
					listing = nil
					if p.End != nil {
						listing = p.End.MemAt(cell)
					}
					for _, s2 := range p.Steps[i+1:] {
						if s2.Kind == ir.KStore && ir.Same(s2.A[0], cell) {
							listing = nil
						}
					}
				}
			}
		}
		if listing == nil && p.From != nil {
			if cell != nil {
				listing = an.Start[p.From].MemAt(cell)
			} else {
				listing = an.Start[p.From].Reg(callInstr)
				if listing == nil && cell == nil {
					// the call was made in a helper that has returned since (its registers are gone); the loop runs
					// in another helper that received the listing as a parameter: the parameter whose value, on
					// every path entering the loop, is what the unfolding function returned on that path
					listing = listingParamAt(an, p.From, uf)
				}
				if listing == nil && cell == nil {
					listing = listing0
				}
			}
		}
		if listing == nil && p.Exit == ir.ExitPanic && len(p.Events(ir.KCall)) == 0 && len(nonLocalStores(p)) == 0 {
			continue // a refusal before anything was computed (a container type that is not a struct): nothing is returned
		}
		if listing == nil {
			ok = false
			c.Fail("names-order", "hseq.New", lastPos(p), "a path does not compute the full listing")
			continue
		}
		// no names => the full listing
		if pol := polarity(p, &ir.Term{Op: "bin", Aux: "==", Args: sorted2(ir.Const("0"), &ir.Term{Op: "len", Args: []*ir.Term{{Op: "param", Aux: names.Name()}}})}); pol > 0 {
			nEmpty++
			if p.Exit != ir.ExitReturn || !ir.Same(p.Results[0], listing) {
				ok = false
				c.Fail("names-order", "hseq.New", lastPos(p), "without names the full listing must be returned")
			}
		} else if p.Exit == ir.ExitReturn && len(p.Results) == 1 && ir.Same(p.Results[0], listing) {
			// names were given (or it is not known that none were): the answer is the selection in the requested
			// order, never the listing in declaration order
			ok = false
			c.Fail("names-order", "hseq.New", lastPos(p), "the full listing (declaration order) is returned on a path that has not established that no names were given: the requested order is lost")
		}
		// nseq[i] = ForName(seq, names[i]) - and nothing else is ever stored into the selection
		nHere := 0
		for _, st := range p.Events(ir.KStore) {
			if st.A[0].Op != "iaddr" || st.A[0].Args[0].Op != "mkslice" {
				continue
			}
			nStore++
			nHere++
			i := st.A[0].Args[1]
			good := false
			if m, callee, args, isC := callParts(st.A[1]); isC && m == "" && callee != nil && callee.Fn == forName {
				nm := args[1]
				good = ir.Same(args[0], listing) && nm.Op == "load" && nm.Args[0].Op == "iaddr" && isNames(nm.Args[0].Args[0]) && ir.Same(nm.Args[0].Args[1], i)
			}
			if !good {
				ok = false
				c.Fail("names-order", "hseq.New", st.Pos(), "position %s of the selection is filled with %s, expected ForName(listing, names[same index]) (the first matching entry)", short(i), short(st.A[1]))
			}
			if !(st.A[0].Args[0].Args[0].Op == "len" && isNames(st.A[0].Args[0].Args[0].Args[0])) {
				ok = false
				c.Fail("names-order", "hseq.New", st.Pos(), "the selection is not a fresh slice of len(names)")
			}
		}
		if p.From != nil && p.To == p.From && nHere != 1 {
			if l := countedLoop(an, p.From); l != nil && l.RangeOver != nil && isNames(l.RangeOver) {
				badIter = append(badIter, p)
				badN = append(badN, nHere)
			}
		}
	}
	if nStore > 0 {
		for i, p := range badIter {
			ok = false
			c.Fail("names-order", "hseq.New", lastPos(p), "an iteration over the names fills %d positions of the selection (want exactly 1)", badN[i])
		}
	}
	if ok && nEmpty > 0 && nStore == 0 {
		// the other way of filling positions in order: an initially empty selection grows by exactly one
		// ForName(listing, names[i]) per iteration of an ascending range over the names (so len == i throughout)
		nApp, why := namesAppendForm(c, fn, an, forName, callInstr, isNames)
		if why != "" {
			c.Fail("names-order", "hseq.New", fn.Pos(), "%s", why)
			return
		}
		nStore = nApp
	}
	if ok && nEmpty > 0 && nStore > 0 {
		c.Ok("names-order", "hseq.New", fn.Pos(), "nseq[i] = ForName(seq, names[i]); empty names => full listing")
	} else if ok {
		c.Fail("names-order", "hseq.New", fn.Pos(), "expected an empty-names path and a positional fill (found %d / %d)", nEmpty, nStore)
	}
}

// listingParamAt: the term that stands, at loop header h, for the parameter of the function the loop is written in
// whose value on every path entering the loop from outside is the result of the call of uf made on that path.
func listingParamAt(an *ir.Analysis, h *ssa.BasicBlock, uf *ssa.Function) *ir.Term {
	inLoop := ir.LoopBlocks(h)
	for _, prm := range h.Parent().Params {
		j := an.Start[h].Reg(prm)
		if j == nil {
			continue
		}
		n, good := 0, true
		for from, ps := range an.Segs {
			if from != nil && inLoop[from] {
				continue
			}
			for _, p := range ps {
				if p.To != h {
					continue
				}
				var res *ir.Term
				for _, st := range p.Events(ir.KCall) {
					if st.Static == uf {
						res = st.R
					}
				}
				if from != nil || res == nil || p.End == nil || !ir.Same(p.End.Reg(prm), res) {
					good = false
				}
				n++
			}
		}
		if good && n > 0 {
			return j
		}
	}
	return nil
}

// appendedOne: v is the variadic argument slice of an append holding exactly one element stored on p; returns it.
func appendedOne(p *ir.Path, v *ir.Term) *ir.Term {
	if v == nil || v.Op != "slice" || v.Args[0].Op != "alloc" {
		return nil
	}
	arr := v.Args[0]
	n := 0
	var x *ir.Term
	for _, st := range p.Events(ir.KStore) {
		if st.A[0].Op == "iaddr" && ir.Same(st.A[0].Args[0], arr) {
			n++
			if k, isK := st.A[0].Args[1].IntConst(); isK && k == 0 {
				x = st.A[1]
			}
		}
	}
	if n != 1 {
		return nil
	}
	return x
}

func namesAppendForm(c *core.Ctx, fn *ssa.Function, an *ir.Analysis, forName *ssa.Function, callInstr ssa.Value, isNames func(*ir.Term) bool) (int, string) {
	for _, h := range an.Headers {
		l := countedLoop(an, h)
		if l == nil || l.RangeOver == nil || !isNames(l.RangeOver) || l.Rotated() {
			continue
		}
		idx := l.Index(an)
		listing := an.Start[h].Reg(callInstr)
		for _, in := range h.Instrs {
			phi, isPhi := in.(*ssa.Phi)
			if !isPhi {
				break
			}
			if _, isSlice := phi.Type().Underlying().(*types.Slice); !isSlice || phi == l.Phi {
				continue
			}
			cur := an.Start[h].Reg(phi)
			// starts empty
			for _, ps := range an.Segs {
				for _, p := range ps {
					if p.To != h || (p.From != nil && ir.LoopBlocks(h)[p.From]) {
						continue
					}
					v := p.PhiOut[phi]
					empty := v != nil && (v.Op == "mkslice" && len(v.Args) > 0 && v.Args[0].Aux == "0" || v.IsConst() && v.Aux == "nil")
					if !empty {
						return 0, fmt.Sprintf("the selection starts as %s, expected an empty slice", short(v))
					}
				}
			}
			n := 0
			for _, p := range an.Segs[h] {
				if p.To != h {
					if p.Exit != ir.ExitReturn || len(p.Results) != 1 || !ir.Same(p.Results[0], cur) {
						return 0, "after the names are exhausted the function does not return the selection built so far"
					}
					continue
				}
				v := p.PhiOut[phi]
				if v == nil || v.Op != "append" || len(v.Args) != 2 || !ir.Same(v.Args[0], cur) {
					return 0, fmt.Sprintf("an iteration over the names turns the selection into %s, expected one append to it", short(v))
				}
				x := appendedOne(p, v.Args[1])
				good := false
				if x != nil {
					if m, callee, args, isC := callParts(x); isC && m == "" && callee != nil && callee.Fn == forName && len(args) == 2 {
						nm := args[1]
						good = ir.Same(args[0], listing) && nm.Op == "load" && nm.Args[0].Op == "iaddr" && isNames(nm.Args[0].Args[0]) && ir.Same(nm.Args[0].Args[1], idx)
					}
				}
				if !good {
					return 0, fmt.Sprintf("an iteration over the names appends %s, expected ForName(listing, names[i]) of the iteration's own name", short(x))
				}
				n++
			}
			if n > 0 {
				return n, ""
			}
		}
	}
	return 0, "expected a positional fill of the selection (indexed stores or one append per name), found none"
}

func fmapRule(c *core.Ctx) {
	fn := c.W.Func("hseq", "FMap")
	if fn == nil {
		c.Undecided("positional", "hseq.FMap", 0, "anchor not found")
		return
	}
	an := c.Analyze(fn)
	if problems(c, "positional", "hseq.FMap", an) || len(an.Headers) != 1 {
		return
	}
	h := an.Headers[0]
	l := countedLoop(an, h)
	if l == nil || l.RangeOver == nil || !paramOf(l.RangeOver, fn, 0) {
		c.Fail("positional", "hseq.FMap", fn.Pos(), "not an ascending range over the sequence")
		return
	}
	idx := l.Index(an)
	// a position kept in a cursor object is related to the loop counter by a lock-step invariant
	norm := lockstepRewrite(an, l)
	// calls of the user's function (helpers of the package that were followed into leave no call events)
	userCalls := func(p *ir.Path) []*ir.Step {
		var out []*ir.Step
		for _, s := range calls(p) {
			if s.Static == nil || s.Static.Pkg != fn.Pkg {
				out = append(out, s)
			}
		}
		return out
	}
	ok, n := true, 0
	if !l.Rotated() {
		if q := earlyExit(an, h); q != nil {
			ok = false
			c.Fail("positional", "hseq.FMap", lastPos(q), "the loop is left from inside its body: the entries behind that point are never mapped")
		}
	}
	for _, p := range an.Segs[h] {
		if p.To != h {
			continue
		}
		n++
		var st *ir.Step
		for _, s := range p.Events(ir.KStore) {
			if s.A[0].Op == "iaddr" && s.A[0].Args[0].Op == "mkslice" {
				st = s
			}
		}
		good := st != nil && ir.Same(norm(st.A[0].Args[1]), idx) && len(userCalls(p)) == 1
		if good {
			_, callee, args, isC := callParts(st.A[1])
			good = isC && paramOf(callee, fn, 1) && len(args) == 1 && args[0].Op == "load" && args[0].Args[0].Op == "iaddr" && ir.Same(args[0].Args[0].Args[0], l.RangeOver) && ir.Same(norm(args[0].Args[0].Args[1]), idx)
		}
		if !good {
			ok = false
			c.Fail("positional", "hseq.FMap", lastPos(p), "each iteration must store f(seq[i]) at val[i]")
		}
	}
	if ok && n > 0 {
		c.Ok("positional", "hseq.FMap", fn.Pos(), "val[i] = f(seq[i])")
	}
}

// pairingHseq: the hseq half of the positional families (New1..9, FMap1..9).
func pairingHseq(c *core.Ctx) {
	sub := core.NewCtx(c.W, c.Prop, c.Tier)
	pairingRules(sub)
	for _, o := range sub.Obl {
		if strings.HasPrefix(o.Construct, "hseq.") {
			if o.Status == core.Discharged {
				c.Ok("pairing", o.Construct, 0, o.Detail)
			} else {
				c.Fail("pairing", o.Construct, 0, "%s", o.Detail)
			}
		}
	}
}

// mentionsTerm: t contains parameter v.
func mentionsTerm(t *ir.Term, v *ssa.Parameter) bool {
	found := false
	t.Walk(func(x *ir.Term) {
		if x.Op == "param" && x.Src == ssa.Value(v) {
			found = true
		}
	})
	return found
}


// listingImmutable: a listing (hseq.Seq, a slice of hseq.Type) that a function of package hseq receives - as a
// parameter or as its receiver - is the caller's: its order is what the caller selected. No function of the package
// stores into an element of such a slice, sorts or reverses it, or copies onto it (a debug String() that sorts "for
// comparable logs" reorders the selection the caller goes on to use). Writes into slices the function made itself
// (New's selection, FMap's result) are fine.
func listingImmutable(c *core.Ctx) {
	isListing := func(t types.Type) bool {
		sl, ok := t.Underlying().(*types.Slice)
		return ok && isHseqType(sl.Elem())
	}
	strip := func(v ssa.Value) ssa.Value {
		for {
			switch x := v.(type) {
			case *ssa.MakeInterface:
				v = x.X
			case *ssa.ChangeType:
				v = x.X
			default:
				return v
			}
		}
	}
	bad, nFn := 0, 0
	for _, fn := range c.W.SourceFuncs("hseq") {
		nFn++
		name := "hseq." + fnLabel(fn)
		for _, b := range fn.Blocks {
			for _, in := range b.Instrs {
				switch x := in.(type) {
				case *ssa.Store:
					if ia, ok := x.Addr.(*ssa.IndexAddr); ok && isListing(ia.X.Type()) && !freshSlice(ia.X) {
						bad++
						c.Fail("listing-immutable", name, x.Pos(), "an element of a listing the function did not make itself is overwritten: the caller's selection is changed under its feet")
					}
				case *ssa.Call:
					if bi, ok := x.Call.Value.(*ssa.Builtin); ok && bi.Name() == "copy" && len(x.Call.Args) > 0 {
						if isListing(x.Call.Args[0].Type()) && !freshSlice(strip(x.Call.Args[0])) {
							bad++
							c.Fail("listing-immutable", name, x.Pos(), "copy onto a listing the function did not make itself")
						}
						continue
					}
					sc := x.Call.StaticCallee()
					if sc == nil || sc.Pkg == nil {
						continue
					}
					pp := sc.Pkg.Pkg.Path()
					mutates := pp == "sort" || pp == "slices" && (strings.HasPrefix(sc.Name(), "Sort") || sc.Name() == "Reverse" || strings.HasPrefix(sc.Name(), "Compact") || strings.HasPrefix(sc.Name(), "Delete") || sc.Name() == "Insert" || sc.Name() == "Replace")
					if !mutates {
						continue
					}
					for _, a := range x.Call.Args {
						v := strip(a)
						if isListing(v.Type()) && !freshSlice(v) {
							bad++
							c.Fail("listing-immutable", name, x.Pos(), "%s.%s reorders a listing the function did not make itself: a selection the caller asked for in its own order comes back sorted", pp, sc.Name())
						}
					}
				}
			}
		}
	}
	if bad == 0 {
		c.Check(nFn > 0, "listing-immutable", "hseq", 0, fmt.Sprintf("%d functions: no store into, sort of or copy onto a foreign listing", nFn), "package hseq not loaded")
	}
}
