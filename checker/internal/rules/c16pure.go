package rules

import (
	"fmt"
	"go/token"
	"go/types"
	"sort"
	"strings"

	"golang.org/x/tools/go/ssa"

	"verif/checker/internal/core"
	"verif/checker/internal/ir"
)

// typeOfPure: "recorded type names equal duct.TypeOf of the Go type parameters" presupposes that TypeOf is a
// function of the type alone. The functions TypeOf reaches inside the package may therefore touch package-level
// state only (a) read-only (tables written by the initializer), (b) as a lock, or (c) as a memo that obeys the
// memo discipline: every entry is written under the function's own, unmodified parameter and holds exactly the
// value that very call returns; every read is keyed by that parameter and its value is only returned.
func typeOfPure(c *core.Ctx) {
	c.Doc("type-name-pure", 1, "TypeOf depends on the type alone: no package state, except read-only tables, locks, and memos keyed by the queried type holding the returned name")
	statePurity(c, "type-name-pure", "duct", "TypeOf", "TypeOf")
}

// statePurity: the function pkg.rootName and what it reaches inside its package is a function of its arguments: it
// touches package-level state only read-only, as a lock, or as a memo obeying the memo discipline.
func statePurity(c *core.Ctx, rule, pkg, rootName, what string) {
	root := c.W.Func(pkg, rootName)
	if root == nil {
		c.Undecided(rule, pkgShort(pkg)+"."+rootName, 0, "anchor not found")
		return
	}
	// closure of static callees inside the package (generic instances resolved to their origin's package)
	seen := map[*ssa.Function]bool{}
	var order []*ssa.Function
	var visit func(fn *ssa.Function)
	samePkg := func(fn *ssa.Function) bool {
		o := fn
		if o.Origin() != nil {
			o = o.Origin()
		}
		for o.Parent() != nil {
			o = o.Parent()
		}
		return o.Pkg != nil && o.Pkg == root.Pkg
	}
	visit = func(fn *ssa.Function) {
		if fn == nil || seen[fn] || len(fn.Blocks) == 0 || !samePkg(fn) {
			return
		}
		seen[fn] = true
		order = append(order, fn)
		for _, b := range fn.Blocks {
			for _, in := range b.Instrs {
				if cc, isC := in.(ssa.CallInstruction); isC {
					visit(cc.Common().StaticCallee())
				}
				if mc, isMC := in.(*ssa.MakeClosure); isMC {
					visit(mc.Fn.(*ssa.Function))
				}
				for _, op := range in.Operands(nil) {
					if f, isF := (*op).(*ssa.Function); isF {
						visit(f)
					}
				}
			}
		}
	}
	visit(root)
	globals := map[*ssa.Global]bool{}
	for _, fn := range order {
		for _, b := range fn.Blocks {
			for _, in := range b.Instrs {
				for _, op := range in.Operands(nil) {
					if g, isG := (*op).(*ssa.Global); isG && g.Pkg == root.Pkg {
						globals[g] = true
					}
				}
			}
		}
	}
	if len(globals) == 0 {
		c.Ok(rule, pkgShort(pkg)+"."+rootName, root.Pos(), fmt.Sprintf("%d functions reached, no package-level state", len(order)))
		return
	}
	var gs []*ssa.Global
	for g := range globals {
		gs = append(gs, g)
	}
	sort.Slice(gs, func(i, j int) bool { return gs[i].Name() < gs[j].Name() })
	ok := true
	var kinds []string
	for _, g := range gs {
		kind, pos, why := classifyGlobalUse(c, pkg, g)
		if why != "" && writeOnlyCounter(c, pkg, g, seen) {
			kind, why = "counter that nothing reached from here reads", ""
		}
		if why != "" {
			ok = false
			c.Fail(rule, pkgShort(pkg)+"."+g.Name(), pos, "%s depends on the package variable %s: %s", what, g.Name(), why)
			continue
		}
		kinds = append(kinds, g.Name()+": "+kind)
	}
	if ok {
		c.Ok(rule, pkgShort(pkg)+"."+rootName, root.Pos(), strings.Join(kinds, "; "))
	}
}

func stripIface(v ssa.Value) ssa.Value {
	for {
		switch x := v.(type) {
		case *ssa.MakeInterface:
			v = x.X
		case *ssa.ChangeType:
			v = x.X
		case *ssa.ChangeInterface:
			v = x.X
		default:
			return v
		}
	}
}

func isSyncType(t types.Type, names ...string) bool {
	if p, isP := t.(*types.Pointer); isP {
		t = p.Elem()
	}
	nt, isN := t.(*types.Named)
	if !isN || nt.Obj().Pkg() == nil || nt.Obj().Pkg().Path() != "sync" {
		return false
	}
	for _, n := range names {
		if nt.Obj().Name() == n {
			return true
		}
	}
	return false
}

// classifyGlobalUse inspects every use of g in its package.
func classifyGlobalUse(c *core.Ctx, pkg string, g *ssa.Global) (kind string, pos token.Pos, why string) {
	if ir.ImmutableGlobal(g) {
		return "read-only table", 0, ""
	}
	elem := g.Type().(*types.Pointer).Elem()
	isLock := isSyncType(elem, "Mutex", "RWMutex")
	isSyncMap := isSyncType(elem, "Map")
	_, isMap := elem.Underlying().(*types.Map)
	if !isLock && !isSyncMap && !isMap {
		return "", g.Pos(), "it is mutable state of type " + elem.String() + " (not a read-only table, a lock or a memo)"
	}
	fns := c.W.SourceFuncs(pkg)
	if init := g.Pkg.Func("init"); init != nil {
		fns = append(fns, init)
	}
	nWrites, nReads := 0, 0
	readOnlyMap := isMap
	for _, fn := range fns {
		if fn.Synthetic == "package initializer" {
			continue
		}
		for _, b := range fn.Blocks {
			for _, in := range b.Instrs {
				switch in := in.(type) {
				case *ssa.DebugRef:
				case *ssa.Store:
					if in.Addr == ssa.Value(g) {
						readOnlyMap = false
					}
				case *ssa.UnOp:
					if in.X == ssa.Value(g) {
						for _, r := range *in.Referrers() {
							switch r.(type) {
							case *ssa.Lookup, *ssa.DebugRef, *ssa.Range:
							default:
								if call, isCall := r.(*ssa.Call); isCall {
									if bi, isB := call.Call.Value.(*ssa.Builtin); isB && bi.Name() == "len" {
										continue
									}
								}
								readOnlyMap = false
							}
						}
					}
				default:
					for _, op := range in.Operands(nil) {
						if *op == ssa.Value(g) {
							readOnlyMap = false
						}
					}
				}
			}
		}
	}
	if readOnlyMap && (g.Object() == nil || !g.Object().Exported()) {
		return "read-only table", 0, ""
	}
	for _, fn := range fns {
		inInit := fn.Synthetic == "package initializer"
		for _, b := range fn.Blocks {
			for _, in := range b.Instrs {
				uses := false
				for _, op := range in.Operands(nil) {
					if *op == ssa.Value(g) {
						uses = true
					}
				}
				if !uses {
					continue
				}
				switch in := in.(type) {
				case *ssa.DebugRef:
					continue
				case *ssa.Store:
					if inInit && in.Addr == ssa.Value(g) {
						continue // initial value
					}
					return "", in.Pos(), "the variable is reassigned in " + fn.Name()
				case *ssa.UnOp: // m := *g  (plain map)
					if !isMap || in.Op != token.MUL {
						return "", in.Pos(), "unrecognised use in " + fn.Name()
					}
					for _, r := range *in.Referrers() {
						switch r := r.(type) {
						case *ssa.Lookup:
							if r.X != ssa.Value(in) {
								return "", r.Pos(), "the memo map is used as a key"
							}
							nReads++
							if w := memoRead(fn, r.Index, r, r.CommaOk); w != "" {
								return "", r.Pos(), w
							}
						case *ssa.MapUpdate:
							if r.Map != ssa.Value(in) {
								return "", r.Pos(), "the memo map is stored elsewhere"
							}
							if inInit {
								continue
							}
							nWrites++
							if w := memoWrite(fn, r, r.Key, r.Value, nil); w != "" {
								return "", r.Pos(), w
							}
						case *ssa.DebugRef:
						default:
							return "", in.Pos(), "the memo map escapes in " + fn.Name()
						}
					}
				case ssa.CallInstruction:
					cm := in.Common()
					callee := cm.StaticCallee()
					if callee == nil || len(cm.Args) == 0 || cm.Args[0] != ssa.Value(g) || callee.Signature.Recv() == nil {
						return "", in.Pos(), "the variable is passed on in " + fn.Name()
					}
					m := callee.Name()
					switch {
					case isLock && (m == "Lock" || m == "Unlock" || m == "RLock" || m == "RUnlock"):
					case isSyncMap && m == "Load":
						nReads++
						if w := memoRead(fn, cm.Args[1], in.Value(), true); w != "" {
							return "", in.Pos(), w
						}
					case isSyncMap && (m == "Store" || m == "LoadOrStore"):
						nWrites++
						var res ssa.Value
						if m == "LoadOrStore" {
							res = in.Value()
						}
						if w := memoWrite(fn, in, cm.Args[1], cm.Args[2], res); w != "" {
							return "", in.Pos(), w
						}
					default:
						return "", in.Pos(), "unrecognised operation " + m + " on the memo in " + fn.Name()
					}
				default:
					return "", in.Pos(), "unrecognised use in " + fn.Name()
				}
			}
		}
	}
	if isLock {
		return "lock", 0, ""
	}
	return fmt.Sprintf("memo keyed by the queried type (%d writes, %d reads)", nWrites, nReads), 0, ""
}

// unspillReturn: with a defer in the function the result is spilled to a local and reloaded after rundefers;
// the value returned is the one last stored to that local in the returning block.
func unspillReturn(ret *ssa.Return, i int) ssa.Value {
	r := ret.Results[i]
	ld, isLd := r.(*ssa.UnOp)
	if !isLd || ld.Op != token.MUL {
		return r
	}
	al, isAl := ld.X.(*ssa.Alloc)
	if !isAl {
		return r
	}
	var last ssa.Value
	for _, in := range ret.Block().Instrs {
		if st, isSt := in.(*ssa.Store); isSt && st.Addr == ssa.Value(al) {
			last = st.Val
		}
	}
	if last != nil {
		return last
	}
	return r
}

// memoKeyIsParam: the key is the enclosing function's own parameter, unmodified.
func memoKeyIsParam(fn *ssa.Function, key ssa.Value) bool {
	k := stripIface(key)
	for _, p := range fn.Params {
		if k == ssa.Value(p) {
			return true
		}
	}
	return false
}

// memoRead: the entry is looked up under the function's parameter and its value is only returned / tested.
func memoRead(fn *ssa.Function, key ssa.Value, res ssa.Value, commaOk bool) string {
	if !memoKeyIsParam(fn, key) {
		return "a memo entry is read under " + key.Name() + " (" + key.String() + "), which is not the type " + fn.Name() + " was asked about"
	}
	return ""
}

// memoWrite: memo[param] = v where v is what this call returns on every return the write reaches.
func memoWrite(fn *ssa.Function, at ssa.Instruction, key, val ssa.Value, loadOrStore ssa.Value) string {
	nArgs := len(fn.Params)
	if fn.Signature.Recv() != nil {
		nArgs--
	}
	if nArgs > 1 {
		return "a memo entry is written by " + fn.Name() + ", which has " + fmt.Sprint(nArgs) + " parameters but remembers its result under one key: a call with the same key and other arguments is answered with a result computed for different ones"
	}
	if !memoKeyIsParam(fn, key) {
		return "a memo entry is written under " + key.Name() + " (" + strings.TrimSpace(key.String()) + "), which is not the unmodified parameter of " + fn.Name() + ": a later question about another type is answered with this name"
	}
	v := stripIface(val)
	// returns reachable from the write
	reach := map[*ssa.BasicBlock]bool{}
	var walk func(b *ssa.BasicBlock)
	walk = func(b *ssa.BasicBlock) {
		if reach[b] {
			return
		}
		reach[b] = true
		for _, s := range b.Succs {
			walk(s)
		}
	}
	walk(at.Block())
	n := 0
	for b := range reach {
		if len(b.Instrs) == 0 {
			continue
		}
		ret, isRet := b.Instrs[len(b.Instrs)-1].(*ssa.Return)
		if !isRet || len(ret.Results) == 0 {
			continue
		}
		if b == at.Block() {
			// the write must precede the return (always true: return is last)
		}
		n++
		r := unspillReturn(ret, 0)
		if r == v {
			continue
		}
		// LoadOrStore: the actual entry (first result, asserted back) may be returned instead
		if ta, isTA := r.(*ssa.TypeAssert); isTA && loadOrStore != nil {
			if ex, isEx := ta.X.(*ssa.Extract); isEx && ex.Tuple == loadOrStore && ex.Index == 0 {
				continue
			}
		}
		return "the memo entry written for the queried type holds " + v.Name() + " but the call returns " + r.Name() + ": the remembered name differs from the computed one"
	}
	if n == 0 {
		return "no return follows the memo write"
	}
	return ""
}


// writeOnlyCounter: g is an unexported sync/atomic counter or gauge (atomic.Int32/Int64/Uint32/Uint64/Uintptr/Bool, or
// a plain integer touched only through the sync/atomic functions) every use of which in its package is an atomic
// operation, and the functions reached from the analysed root only ever *write* it - Add / Store / Swap / And / Or with
// the result unused. Reads (Load, or a used result) sit in functions the root does not reach (a String() method, a
// debug dump): what the root computes cannot depend on the counter.
func writeOnlyCounter(c *core.Ctx, pkg string, g *ssa.Global, reached map[*ssa.Function]bool) bool {
	if g.Object() == nil || g.Object().Exported() {
		return false
	}
	elem := g.Type().(*types.Pointer).Elem()
	atomicType := false
	if nt, isN := elem.(*types.Named); isN && nt.Obj().Pkg() != nil && nt.Obj().Pkg().Path() == "sync/atomic" {
		switch nt.Obj().Name() {
		case "Int32", "Int64", "Uint32", "Uint64", "Uintptr", "Bool":
			atomicType = true
		}
	}
	if b, isB := elem.Underlying().(*types.Basic); !atomicType && !(isB && b.Info()&types.IsInteger != 0) {
		return false
	}
	fns := c.W.SourceFuncs(pkg)
	n := 0
	for _, fn := range fns {
		for _, b := range fn.Blocks {
			for _, in := range b.Instrs {
				uses := false
				for _, op := range in.Operands(nil) {
					if *op == ssa.Value(g) {
						uses = true
					}
				}
				if !uses {
					continue
				}
				if _, isDbg := in.(*ssa.DebugRef); isDbg {
					continue
				}
				var cc *ssa.CallCommon
				var val ssa.Value
				switch x := in.(type) {
				case *ssa.Call:
					cc, val = &x.Call, x
				case *ssa.Defer:
					cc = &x.Call
				}
				if cc == nil || len(cc.Args) == 0 || cc.Args[0] != ssa.Value(g) {
					return false
				}
				sc := cc.StaticCallee()
				if sc == nil || sc.Pkg == nil || sc.Pkg.Pkg.Path() != "sync/atomic" {
					return false
				}
				n++
				top := fn
				for top.Parent() != nil {
					top = top.Parent()
				}
				if !reached[fn] && !reached[top] {
					continue // a reader outside what the root reaches
				}
				if in.Block() != nil && ir.InAtomicSpinLoop(in.Block()) {
					continue // the gauge's own compare-and-swap update loop: its reads feed nothing but that update
				}
				name := sc.Name()
				isWrite := strings.HasPrefix(name, "Add") || strings.HasPrefix(name, "Store") || strings.HasPrefix(name, "Swap") || strings.HasPrefix(name, "And") || strings.HasPrefix(name, "Or")
				unused := val == nil || val.Referrers() == nil || len(*val.Referrers()) == 0
				if !isWrite || !unused {
					return false
				}
			}
		}
	}
	return n > 0
}
