// Package rules: the per-property rule packs.
package rules

import (
	"fmt"
	"go/ast"
	"go/importer"
	"go/parser"
	"go/token"
	"go/types"
	"sort"
	"strings"

	"golang.org/x/tools/go/packages"
	"golang.org/x/tools/go/ssa"
	"golang.org/x/tools/go/ssa/ssautil"

	"verif/checker/internal/core"
	"verif/checker/internal/ir"
)

type Pack struct {
	ID   string
	Meta core.Meta
	Run  func(c *core.Ctx)
}

// Needs: the logical packages a pack reads (a build configuration under which one of them does not
// type-check is skipped for that pack, with a note in the evidence).
var Needs = map[string][]string{
	"C01": {"optics", "hseq"},
	"C02": {"optics", "hseq"},
	"C03": {"hseq", "optics"},
	"C04": {"optics"},
	"C05": {"pipe"},
	"C06": {"pipe"},
	"C07": {"pipe", "pipe/fork"},
	"C08": {"pipe"},
	"C09": {"pipe", "pipe/fork"},
	"C10": {"pipe", "pipe/fork"},
	"C11": {"pipe"},
	"C12": {"pipe"},
	"C13": {"pipe"},
	"C14": {"trait/seq"},
	"C15": {"trait/pair"},
	"C16": {"duct"},
	"C17": {"pure/eq", "pure/ord", "pure/monoid", "pure/semigroup"},
	"C18": {"internal/maplike/skiplist", "pure/ord"},
	"C19": {"internal/seq", "internal/seq/list", "internal/seq/slice"},
	"C20": {"internal/pipe"},
}

var Packs = map[string]*Pack{}

func register(p *Pack) { Packs[p.ID] = p }

func IDs() []string {
	var s []string
	for k := range Packs {
		s = append(s, k)
	}
	sort.Strings(s)
	return s
}

// ---------------------------------------------------------------------------
// term helpers

// callParts splits a call-result term: method name ("" for non-invoke), callee term, receiver+args.
func callParts(t *ir.Term) (method string, callee *ir.Term, args []*ir.Term, ok bool) {
	if t == nil || t.Op != "call" || len(t.Args) == 0 {
		return "", nil, nil, false
	}
	if t.Args[0].Op == "method" {
		return t.Args[0].Aux, nil, t.Args[1:], true
	}
	return "", t.Args[0], t.Args[1:], true
}

func isParam(t *ir.Term, name string) bool {
	return t != nil && t.Op == "param" && t.Aux == name
}

// paramOf reports whether t is the i-th parameter of fn.
func paramOf(t *ir.Term, fn *ssa.Function, i int) bool {
	return t != nil && t.Op == "param" && i < len(fn.Params) && t.Src == ssa.Value(fn.Params[i])
}

func short(t *ir.Term) string {
	if t == nil {
		return "<nil>"
	}
	s := t.Key()
	s = strings.ReplaceAll(s, "github.com/fogfish/golem/", "")
	if len(s) > 300 {
		s = s[:300] + "…"
	}
	return s
}

// nonLocalStores returns store / mapupdate steps that are not initialisation of path-fresh cells.
func nonLocalStores(p *ir.Path) []*ir.Step {
	var out []*ir.Step
	for i := range p.Steps {
		s := &p.Steps[i]
		if s.Kind == ir.KMapUpdate || (s.Kind == ir.KStore && !s.LocalStore) {
			out = append(out, s)
		}
	}
	return out
}

func calls(p *ir.Path) []*ir.Step { return p.Events(ir.KCall) }

func problems(c *core.Ctx, rule, construct string, an *ir.Analysis) bool {
	if len(an.Problems) > 0 {
		c.Undecided(rule, construct, an.Fn.Pos(), "engine could not model the function: %s", strings.Join(an.Problems, "; "))
		return true
	}
	return false
}

// exportedFuncs lists exported package-level functions of a logical package.
func exportedFuncs(c *core.Ctx, pkg string) []*ssa.Function {
	sp := c.W.SSA[pkg]
	if sp == nil {
		return nil
	}
	var out []*ssa.Function
	for _, m := range sp.Members {
		if f, ok := m.(*ssa.Function); ok && token.IsExported(f.Name()) && len(f.Blocks) > 0 {
			out = append(out, f)
		}
	}
	sort.Slice(out, func(i, j int) bool { return out[i].Pos() < out[j].Pos() })
	return out
}

// ---------------------------------------------------------------------------
// engine Y: in-memory variants that the type checker must reject

type mapImporter map[string]*types.Package

func (m mapImporter) Import(path string) (*types.Package, error) {
	if p, ok := m[path]; ok {
		return p, nil
	}
	return nil, fmt.Errorf("package %s not available", path)
}

// TypeCheckVariant re-parses the files of pkg, lets mutate edit the ASTs and
// type-checks the result against the already loaded imports. It returns the
// type errors (nil = the variant compiles) and whether mutate applied.
func TypeCheckVariant(pkg *packages.Package, mutate func(fset *token.FileSet, files []*ast.File) bool) (errs []error, applied bool, perr error) {
	fset := token.NewFileSet()
	var files []*ast.File
	for _, fn := range pkg.CompiledGoFiles {
		f, err := parser.ParseFile(fset, fn, nil, parser.SkipObjectResolution)
		if err != nil {
			return nil, false, err
		}
		files = append(files, f)
	}
	applied = mutate(fset, files)
	if !applied {
		return nil, false, nil
	}
	imp := mapImporter{}
	var add func(p *packages.Package)
	add = func(p *packages.Package) {
		if _, ok := imp[p.PkgPath]; ok {
			return
		}
		imp[p.PkgPath] = p.Types
		for _, ip := range p.Imports {
			add(ip)
		}
	}
	for _, ip := range pkg.Imports {
		add(ip)
	}
	cfg := &types.Config{Importer: imp, Error: func(err error) { errs = append(errs, err) }}
	cfg.Check(pkg.PkgPath, fset, files, nil)
	return errs, true, nil
}

// funcDecl finds a function declaration by name (and receiver type name, "" for functions).
func funcDecl(files []*ast.File, recv, name string) *ast.FuncDecl {
	for _, f := range files {
		for _, d := range f.Decls {
			fd, ok := d.(*ast.FuncDecl)
			if !ok || fd.Name.Name != name {
				continue
			}
			r := ""
			if fd.Recv != nil && len(fd.Recv.List) > 0 {
				r = recvTypeName(fd.Recv.List[0].Type)
			}
			if r == recv {
				return fd
			}
		}
	}
	return nil
}

func recvTypeName(e ast.Expr) string {
	switch x := e.(type) {
	case *ast.StarExpr:
		return recvTypeName(x.X)
	case *ast.IndexExpr:
		return recvTypeName(x.X)
	case *ast.IndexListExpr:
		return recvTypeName(x.X)
	case *ast.Ident:
		return x.Name
	}
	return ""
}

// declOf returns (receiver type name, function name) of an ssa function's syntax.
func declOf(fn *ssa.Function) (string, string) {
	if fd, ok := fn.Syntax().(*ast.FuncDecl); ok {
		r := ""
		if fd.Recv != nil && len(fd.Recv.List) > 0 {
			r = recvTypeName(fd.Recv.List[0].Type)
		}
		return r, fd.Name.Name
	}
	return "", fn.Name()
}

// ---------------------------------------------------------------------------
// canaries: import-free snippets built to SSA in memory; an expected-zero
// census must recognise its positive example on every run.

func buildSnippet(src string) *ssa.Package {
	fset := token.NewFileSet()
	f, err := parser.ParseFile(fset, "canary.go", src, 0)
	if err != nil {
		return nil
	}
	pkg := types.NewPackage("canary", "canary")
	sp, _, err := ssautil.BuildPackage(&types.Config{Importer: importer.Default()}, fset, pkg, []*ast.File{f}, ssa.BuilderMode(0))
	if err != nil {
		return nil
	}
	return sp
}

// canaryUnsafe: the census predicate recognises an unsafe.Pointer conversion.
func canaryUnsafe() bool {
	sp := buildSnippet(`package canary
import "unsafe"
func F(p *int) *byte { return (*byte)(unsafe.Pointer(p)) }`)
	if sp == nil {
		return false
	}
	n := 0
	for _, b := range sp.Func("F").Blocks {
		for _, in := range b.Instrs {
			if cv, ok := in.(*ssa.Convert); ok && (isUnsafePtr(cv.Type()) || isUnsafePtr(cv.X.Type())) {
				n++
			}
		}
	}
	return n >= 2
}
