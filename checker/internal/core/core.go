// Package core: obligations, known findings, evidence, reporting.
package core

import (
	"go/types"
	"encoding/json"
	"fmt"
	"go/token"
	"os"
	"path/filepath"
	"sort"
	"strings"
	"time"

	"golang.org/x/tools/go/ssa"

	"verif/checker/internal/ir"
	"verif/checker/internal/load"
)

type Status string

const (
	Discharged Status = "discharged"
	Violated   Status = "violated"
	Undecided  Status = "undecided"
)

type Obligation struct {
	Property  string `json:"property"`
	Rule      string `json:"rule"`
	Construct string `json:"construct"`
	Status    Status `json:"status"`
	Pos       string `json:"pos,omitempty"`
	Detail    string `json:"detail,omitempty"`
	Known     string `json:"known_finding,omitempty"`
	Config    string `json:"config,omitempty"`
}

func (o *Obligation) Key() string { return o.Property + "/" + o.Rule + "/" + o.Construct }

type RuleInfo struct {
	Instances int    `json:"instances"`
	Floor     int    `json:"floor"`
	Doc       string `json:"doc,omitempty"`
}

// Ctx is handed to a property pack.
type Ctx struct {
	W        *load.World
	Prop     string
	Tier     string
	Config   string
	Obl      []*Obligation
	Rules    map[string]*RuleInfo
	Canaries []string
	Notes    []string
	// counters
	Funcs  map[string]bool
	Paths  int
	Events int
	opt    *ir.Options
	cache  map[string]*ir.Analysis
}

func NewCtx(w *load.World, prop, tier string) *Ctx {
	cfg := "linux/" + w.GOARCH
	if w.GOARCH == "" {
		cfg = "linux/amd64"
	}
	return &Ctx{W: w, Prop: prop, Tier: tier, Config: cfg, Rules: map[string]*RuleInfo{}, Funcs: map[string]bool{}, cache: map[string]*ir.Analysis{}}
}

func (c *Ctx) rule(r string) *RuleInfo {
	ri := c.Rules[r]
	if ri == nil {
		ri = &RuleInfo{}
		c.Rules[r] = ri
	}
	return ri
}

// Doc records the one-line statement of a rule and its instance floor.
func (c *Ctx) Doc(rule string, floor int, doc string) {
	ri := c.rule(rule)
	ri.Floor = floor
	ri.Doc = doc
}

func (c *Ctx) add(rule, construct string, st Status, pos token.Pos, detail string) *Obligation {
	for _, x := range c.Obl {
		if x.Rule == rule && x.Construct == construct && x.Status == st && x.Detail == detail {
			return x
		}
	}
	o := &Obligation{Property: c.Prop, Rule: rule, Construct: construct, Status: st, Detail: detail, Config: c.Config}
	if pos.IsValid() {
		o.Pos = c.W.Pos(pos)
	}
	c.rule(rule).Instances++
	c.Obl = append(c.Obl, o)
	return o
}

func (c *Ctx) Ok(rule, construct string, pos token.Pos, detail string) {
	c.add(rule, construct, Discharged, pos, detail)
}
func (c *Ctx) Fail(rule, construct string, pos token.Pos, format string, a ...any) {
	c.add(rule, construct, Violated, pos, fmt.Sprintf(format, a...))
}
func (c *Ctx) Undecided(rule, construct string, pos token.Pos, format string, a ...any) {
	c.add(rule, construct, Undecided, pos, fmt.Sprintf(format, a...))
}

// Check is a convenience: ok ? discharged : violated.
func (c *Ctx) Check(ok bool, rule, construct string, pos token.Pos, okDetail string, failFormat string, a ...any) bool {
	if ok {
		c.Ok(rule, construct, pos, okDetail)
	} else {
		c.Fail(rule, construct, pos, failFormat, a...)
	}
	return ok
}

func (c *Ctx) Canary(name string, fired bool) {
	if fired {
		c.Canaries = append(c.Canaries, name+": fired")
	} else {
		c.add("canary", name, Violated, token.NoPos, "the built-in positive example for this rule was not recognised: the rule is blind")
	}
}

func (c *Ctx) Note(format string, a ...any) { c.Notes = append(c.Notes, fmt.Sprintf(format, a...)) }

// Options returns the engine options shared by all packs.
func (c *Ctx) Options() *ir.Options {
	if c.opt != nil {
		return c.opt
	}
	depth := 4
	if c.Tier == "thorough" {
		depth = 7
	}
	c.opt = &ir.Options{
		MaxInline: depth,
		Inline: func(f *ssa.Function) bool {
			followed := func(path string) bool {
				// the repository's own code, and the standard iterator adapters (slices.Values, slices.AppendSeq,
				// maps.Keys ...): small generic functions whose source is part of the loaded program
				return load.Logical(path) != "" || path == "slices" || path == "maps" || path == "iter"
			}
			if f.Pkg == nil {
				// anonymous functions / instantiations: look at the parent / origin
				for p := f.Parent(); p != nil; p = p.Parent() {
					if p.Pkg != nil {
						return followed(p.Pkg.Pkg.Path())
					}
					if o := p.Origin(); o != nil && o.Pkg != nil {
						return followed(o.Pkg.Pkg.Path())
					}
				}
				if o := f.Origin(); o != nil && o.Pkg != nil {
					return followed(o.Pkg.Pkg.Path())
				}
				// synthetic wrappers of a method (the thunk of a method expression `T.m`, the bound closure of a method
				// value): one call of that method
				if f.Synthetic != "" {
					if obj, ok := f.Object().(*types.Func); ok && obj != nil && obj.Pkg() != nil {
						return followed(obj.Pkg().Path())
					}
				}
				return false
			}
			return followed(f.Pkg.Pkg.Path())
		},
		PureCall: PureCall,
	}
	return c.opt
}

// PureCall: the stdlib model table – results are functions of the arguments.
func PureCall(name string) bool {
	switch name {
	case "reflect.TypeOf", "reflect.TypeFor", "strings.Cut",
		"(reflect.Type).Field", "(reflect.Type).NumField", "(reflect.Type).Elem", "(reflect.Type).Kind",
		"(reflect.Type).String", "(reflect.Type).AssignableTo", "(reflect.Type).Name", "(reflect.Type).ConvertibleTo",
		"(reflect.Type).Implements", "(reflect.Type).Comparable", "(reflect.Type).PkgPath",
		"(reflect.StructTag).Get", "(reflect.StructTag).Lookup", "strings.Split", "strings.SplitN", "strings.TrimSpace",
		"(reflect.Kind).String", "fmt.Sprintf", "fmt.Errorf", "fmt.Sprint":
		return true
	}
	return false
}

// Analyze runs engine P on fn (root state) and counts coverage. Cached.
func (c *Ctx) Analyze(fn *ssa.Function) *ir.Analysis {
	return c.AnalyzeFrom(fn, ir.NewRootState(fn, nil, nil, nil), "")
}

func (c *Ctx) AnalyzeFrom(fn *ssa.Function, st *ir.State, cacheKey string) *ir.Analysis {
	k := ir.FuncName(fn) + "|" + cacheKey
	if cacheKey != "!" {
		if a, ok := c.cache[k]; ok {
			return a
		}
	}
	an := ir.Analyze(fn, st, c.Options())
	c.cache[k] = an
	if !c.Funcs[k] {
		c.Funcs[k] = true
		c.Paths += an.NPaths
		for _, p := range an.AllPaths() {
			c.Events += len(p.Steps)
		}
	}
	return an
}

// AnalyzeDeep: Analyze with a high inlining bound (definitions chained through many helper levels).
func (c *Ctx) AnalyzeDeep(fn *ssa.Function, st *ir.State, cacheKey string, depth int) *ir.Analysis {
	k := ir.FuncName(fn) + "|deep|" + cacheKey
	if a, ok := c.cache[k]; ok {
		return a
	}
	o := *c.Options()
	o.MaxInline = depth
	o.SelfNesting = depth
	an := ir.Analyze(fn, st, &o)
	c.cache[k] = an
	if !c.Funcs[k] {
		c.Funcs[k] = true
		c.Paths += an.NPaths
		for _, p := range an.AllPaths() {
			c.Events += len(p.Steps)
		}
	}
	return an
}

// AnalyzeLoops: like Analyze, but callees with loops are inlined too (helper extraction of a loop is followed).
func (c *Ctx) AnalyzeLoops(fn *ssa.Function) *ir.Analysis {
	return c.analyzeLoopsFrom(fn, ir.NewRootState(fn, nil, nil, nil), "")
}

func (c *Ctx) analyzeLoopsFrom(fn *ssa.Function, st *ir.State, cacheKey string) *ir.Analysis {
	k := ir.FuncName(fn) + "|loops|" + cacheKey
	if a, ok := c.cache[k]; ok {
		return a
	}
	o := *c.Options()
	o.LoopInline = true
	an := ir.Analyze(fn, st, &o)
	c.cache[k] = an
	if !c.Funcs[k] {
		c.Funcs[k] = true
		c.Paths += an.NPaths
		for _, p := range an.AllPaths() {
			c.Events += len(p.Steps)
		}
	}
	return an
}

// AnalyzeLoopsExcept: AnalyzeLoops keeping the given functions opaque (calls to them stay call events / terms).
func (c *Ctx) AnalyzeLoopsExcept(fn *ssa.Function, except ...*ssa.Function) *ir.Analysis {
	k := ir.FuncName(fn) + "|loops-except"
	for _, e := range except {
		if e != nil {
			k += "|" + ir.FuncName(e)
		}
	}
	if a, ok := c.cache[k]; ok {
		return a
	}
	o := *c.Options()
	o.LoopInline = true
	base := o.Inline
	o.Inline = func(f *ssa.Function) bool {
		g := f
		if og := f.Origin(); og != nil {
			g = og
		}
		for _, e := range except {
			if e != nil && (e == f || e == g) {
				return false
			}
		}
		return base == nil || base(f)
	}
	an := ir.Analyze(fn, ir.NewRootState(fn, nil, nil, nil), &o)
	c.cache[k] = an
	if !c.Funcs[k] {
		c.Funcs[k] = true
		c.Paths += an.NPaths
		for _, p := range an.AllPaths() {
			c.Events += len(p.Steps)
		}
	}
	return an
}

// AnalyzeKeeping analyses fn with the default inlining except that callees for which keep(callee origin) holds stay
// opaque call events; key names the predicate for the cache.
func (c *Ctx) AnalyzeKeeping(fn *ssa.Function, key string, keep func(*ssa.Function) bool) *ir.Analysis {
	return c.AnalyzeKeepingDepth(fn, key, keep, 0)
}

// AnalyzeKeepingDepth: AnalyzeKeeping with the inlining bound raised to depth (0 = the default bound).
func (c *Ctx) AnalyzeKeepingDepth(fn *ssa.Function, key string, keep func(*ssa.Function) bool, depth int) *ir.Analysis {
	k := ir.FuncName(fn) + "|keeping|" + key
	if depth > 0 {
		k += fmt.Sprintf("|%d", depth)
	}
	if a, ok := c.cache[k]; ok {
		return a
	}
	o := *c.Options()
	if depth > 0 {
		o.MaxInline = depth
	}
	base := o.Inline
	o.Inline = func(f *ssa.Function) bool {
		g := f
		if og := f.Origin(); og != nil {
			g = og
		}
		if keep(g) {
			return false
		}
		return base == nil || base(f)
	}
	an := ir.Analyze(fn, ir.NewRootState(fn, nil, nil, nil), &o)
	c.cache[k] = an
	if !c.Funcs[k] {
		c.Funcs[k] = true
		c.Paths += an.NPaths
		for _, p := range an.AllPaths() {
			c.Events += len(p.Steps)
		}
	}
	return an
}

// AnalyzeSpawnLoops: AnalyzeSpawn with loop inlining.
func (c *Ctx) AnalyzeSpawnLoops(s *ir.Step) (*ssa.Function, *ir.Analysis) {
	fn, st := ir.SpawnState(s)
	if fn == nil {
		return nil, nil
	}
	return fn, c.analyzeLoopsFrom(fn, st, "spawn@"+c.W.Pos(s.Pos())+"@"+s.Chain)
}

// AnalyzeSpawn analyses the function started by a go step.
func (c *Ctx) AnalyzeSpawn(s *ir.Step) (*ssa.Function, *ir.Analysis) {
	fn, st := ir.SpawnState(s)
	if fn == nil {
		return nil, nil
	}
	key := "spawn@" + c.W.Pos(s.Pos()) + "@" + s.Chain
	return fn, c.AnalyzeFrom(fn, st, key)
}

// ---------------------------------------------------------------------------
// Known findings

type Finding struct {
	Property  string `json:"property"`
	Rule      string `json:"rule"`
	Construct string `json:"construct"`
	What      string `json:"what"`
	Witness   string `json:"witness,omitempty"`
	ID        string `json:"id,omitempty"`
	// Detail, when given, is the exact finding text of the violated obligation: another violation of the same rule at
	// the same construct (a different way of being wrong) does not match and is reported
	Detail string `json:"detail,omitempty"`
}

type KnownFile struct {
	Comment  string    `json:"comment,omitempty"`
	Findings []Finding `json:"findings"`
	Fixed    []string  `json:"fixed"`
}

func LoadKnown(path string) (*KnownFile, error) {
	b, err := os.ReadFile(path)
	if err != nil {
		if os.IsNotExist(err) {
			return &KnownFile{}, nil
		}
		return nil, err
	}
	var k KnownFile
	if err := json.Unmarshal(b, &k); err != nil {
		return nil, fmt.Errorf("%s: %w", path, err)
	}
	return &k, nil
}

// ---------------------------------------------------------------------------
// Evidence

type Meta struct {
	Level       string
	Explanation string
	RuleText    string
	Assumptions []string
	TrustedBase []string
}

type Result struct {
	Property   string
	Tier       string
	Violations []*Obligation // not covered by a known finding (incl. undecided)
	Known      []*Obligation
	All        []*Obligation
	ExitCode   int
}

var CommonAssumptions = []string{
	"go/types and go/ssa (golang.org/x/tools v0.50.0, go1.26.8) represent the program faithfully",
	"Go language semantics: channel FIFO, select, defer LIFO, typed stores, interface dispatch",
	"modelled stdlib functions (reflect layout data, sync.WaitGroup, context, time) behave as documented",
	"user-supplied functions terminate, do not panic and do not retain or alias the channels/iterators handed to them",
	"only non-test code of the six modules and the staged internal/... trees is analysed (optics/examples is not loaded)",
	"the library's own assertion helpers (an unexported function whose whole body is a guard around one panic) never fire: the asserted condition is taken as a fact; the current tree has none",
}

// Finish applies floors and known findings, writes evidence + violation files, prints the verdict lines.
func Finish(verifDir string, ctxs []*Ctx, meta Meta, known *KnownFile, t0 time.Time, extra map[string]any) *Result {
	prop := ctxs[0].Prop
	tier := ctxs[0].Tier
	res := &Result{Property: prop, Tier: tier}
	rules := map[string]*RuleInfo{}
	funcs := map[string]bool{}
	paths, events := 0, 0
	var canaries, notes, configs []string
	for _, c := range ctxs {
		// floors
		var rn []string
		for r := range c.Rules {
			rn = append(rn, r)
		}
		sort.Strings(rn)
		for _, r := range rn {
			ri := c.Rules[r]
			if ri.Instances < ri.Floor {
				c.Obl = append(c.Obl, &Obligation{Property: prop, Rule: r, Construct: "#instance-floor", Status: Undecided, Config: c.Config,
					Detail: fmt.Sprintf("rule matched %d instances, fewer than the %d confirmed by hand: anchors unresolved or code reshaped beyond what the rule recognises", ri.Instances, ri.Floor)})
			}
			if c == ctxs[0] {
				cp := *ri
				rules[r] = &cp
			}
		}
		res.All = append(res.All, c.Obl...)
		for f := range c.Funcs {
			funcs[f] = true
		}
		paths += c.Paths
		events += c.Events
		canaries = append(canaries, c.Canaries...)
		notes = append(notes, c.Notes...)
		configs = append(configs, c.Config)
	}
	usedKnown := map[int]bool{}
	for _, o := range res.All {
		if o.Status == Discharged {
			continue
		}
		matched := false
		if o.Status == Violated {
			for i, f := range known.Findings {
				if f.Property == o.Property && f.Rule == o.Rule && f.Construct == o.Construct && (f.Detail == "" || f.Detail == o.Detail) {
					o.Known = f.What
					if f.ID != "" {
						o.Known = f.ID + ": " + f.What
					}
					usedKnown[i] = true
					matched = true
				}
			}
		}
		if matched {
			res.Known = append(res.Known, o)
		} else {
			res.Violations = append(res.Violations, o)
		}
	}
	// print
	seenK := map[string]bool{}
	for _, o := range res.Known {
		line := fmt.Sprintf("KNOWN-FINDING: property=%s rule=%s construct=%s at %s: %s", o.Property, o.Rule, o.Construct, o.Pos, o.Known)
		if !seenK[o.Key()] {
			fmt.Println(line)
			seenK[o.Key()] = true
		}
	}
	vdir := filepath.Join(verifDir, "evidence", "violations")
	// remove stale violation files of this property
	if ents, err := os.ReadDir(vdir); err == nil {
		for _, e := range ents {
			if strings.HasPrefix(e.Name(), prop+"-") {
				os.Remove(filepath.Join(vdir, e.Name()))
			}
		}
	}
	seenV := map[string]bool{}
	n := 0
	for _, o := range res.Violations {
		if seenV[o.Key()] {
			continue
		}
		seenV[o.Key()] = true
		n++
		os.MkdirAll(vdir, 0o755)
		p := filepath.Join(vdir, fmt.Sprintf("%s-%d.json", prop, n))
		b, _ := json.MarshalIndent(o, "", " ")
		os.WriteFile(p, b, 0o644)
		fmt.Printf("%s: %s %s/%s: %s\n", o.Pos, strings.ToUpper(string(o.Status)), o.Rule, o.Construct, o.Detail)
		fmt.Printf("VIOLATION property=%s replay=%s kind=%s rule=%s construct=%s\n", prop, p, o.Status, o.Rule, o.Construct)
	}
	if n > 0 {
		res.ExitCode = 1
	}
	// evidence
	total, disch := 0, 0
	distinct := map[string]bool{}
	var samples []any
	perRule := map[string]int{}
	for _, o := range res.All {
		if o.Rule == "canary" {
			continue
		}
		total++
		if o.Status == Discharged {
			disch++
		}
		distinct[o.Key()] = true
		if perRule[o.Rule] < 2 && len(samples) < 40 {
			perRule[o.Rule]++
			samples = append(samples, map[string]any{"rule": o.Rule, "construct": o.Construct, "pos": o.Pos, "status": o.Status, "detail": o.Detail})
		}
	}
	var listing []string
	for _, o := range res.All {
		d := o.Detail
		if i := strings.Index(d, "\n"); i >= 0 {
			d = d[:i] + " …"
		}
		listing = append(listing, fmt.Sprintf("%s | %s | %s | %s | %s | %s", o.Rule, o.Construct, o.Status, o.Pos, o.Config, d))
	}
	var fl []string
	for f := range funcs {
		fl = append(fl, f)
	}
	sort.Strings(fl)
	var knownList []string
	for k := range seenK {
		knownList = append(knownList, k)
	}
	sort.Strings(knownList)
	cov := map[string]any{
		"explanation":           meta.Explanation,
		"obligations":           total,
		"discharged":            disch,
		"violated_or_undecided": len(seenV),
		"known_findings":        knownList,
		"evaluations":           total,
		"distinct_nontrivial":   len(distinct),
		"rule":                  meta.RuleText,
		"samples":               samples,
		"exhaustive":            true,
		"rules":                 rules,
		"canaries":              canaries,
		"notes":                 notes,
		"configs":               configs,
		"packages":              ctxs[0].W.AllLogical(),
		"functions_analysed":    len(fl),
		"functions":             fl,
		"paths":                 paths,
		"events":                events,
		"checker_cmd":           fmt.Sprintf("/verif/bin/golemcheck check %s --tier %s", prop, tier),
		"trusted_base":          meta.TrustedBase,
		"obligation_list":       listing,
	}
	for k, v := range extra {
		cov[k] = v
	}
	seed := 0
	fmt.Sscan(os.Getenv("VERIF_SEED"), &seed)
	ev := map[string]any{
		"property_id": prop,
		"tier":        tier,
		"seed":        seed,
		"level":       meta.Level,
		"coverage":    cov,
		"assumptions": append(append([]string{}, CommonAssumptions...), meta.Assumptions...),
		"wall_s":      time.Since(t0).Seconds(),
		"violations":  len(seenV),
	}
	os.MkdirAll(filepath.Join(verifDir, "evidence"), 0o755)
	b, _ := json.MarshalIndent(ev, "", " ")
	os.WriteFile(filepath.Join(verifDir, "evidence", prop+".json"), b, 0o644)
	fmt.Printf("%s %s: %d obligations, %d discharged, %d known findings, %d violations/undecided; %d functions, %d paths, %d events; %.1fs\n",
		prop, tier, total, disch, len(seenK), len(seenV), len(fl), paths, events, time.Since(t0).Seconds())
	return res
}
