// Package load builds the analysed world: every non-test package of the six
// modules of fogfish/golem plus the module-less internal/... trees, loaded
// from the *working tree* of the repository, type-checked, and lowered to SSA
// (generic bodies, no instantiation).
package load

import (
	"fmt"
	"go/token"
	"go/types"
	"os"
	"os/exec"
	"path/filepath"
	"sort"
	"strings"

	"golang.org/x/tools/go/packages"
	"golang.org/x/tools/go/ssa"
	"golang.org/x/tools/go/ssa/ssautil"

	"verif/checker/internal/ir"
)

const GoRoot = "/opt/veriftools/go1.26.8"

// Modules of the repository: directory -> module path.
var Modules = [][2]string{
	{"duct", "github.com/fogfish/golem/duct"},
	{"hseq", "github.com/fogfish/golem/hseq"},
	{"optics", "github.com/fogfish/golem/optics"},
	{"pipe", "github.com/fogfish/golem/pipe/v2"},
	{"pure", "github.com/fogfish/golem/pure"},
	{"trait", "github.com/fogfish/golem/trait"},
}

// Staged internal trees: repo dir -> dir below the staged module
// github.com/fogfish/golem (the import paths these files use themselves).
var Staged = [][2]string{
	{"internal/maplike", "maplike"},
	{"internal/maplike/skiplist", "maplike/skiplist"},
	{"internal/seq", "seq"},
	{"internal/seq/list", "seq/list"},
	{"internal/seq/slice", "seq/slice"},
	{"internal/pipe", "fpipe"},
}

const StagedModule = "github.com/fogfish/golem"

type World struct {
	Repo   string
	GOARCH string
	Fset   *token.FileSet
	Pkgs   map[string]*packages.Package // by logical name, e.g. "pipe", "pipe/fork", "internal/seq/list"
	SSA    map[string]*ssa.Package
	Prog   *ssa.Program
	All    []*packages.Package
	tmp    string
	remap  [][2]string // staged dir prefix -> repo dir prefix
	// Dropped: packages that do not type-check under this build configuration (only tolerated for
	// the non-host configurations of the thorough tier): logical name -> first error
	Dropped map[string]string
}

// Env returns the environment every go invocation of the checker uses.
func Env(goarch string) []string {
	// packages.Load resolves "go" through the process PATH
	if !strings.HasPrefix(os.Getenv("PATH"), GoRoot+"/bin:") {
		os.Setenv("PATH", GoRoot+"/bin:"+os.Getenv("PATH"))
	}
	env := []string{}
	for _, kv := range os.Environ() {
		k := strings.SplitN(kv, "=", 2)[0]
		switch k {
		case "GOFLAGS", "GOPROXY", "GOSUMDB", "GOTOOLCHAIN", "GOWORK", "PATH", "GOARCH", "GOOS", "GOROOT", "CGO_ENABLED":
			continue
		}
		env = append(env, kv)
	}
	env = append(env,
		"GOFLAGS=-mod=mod", "GOPROXY=off", "GOSUMDB=off", "GOTOOLCHAIN=local", "GOWORK=off",
		"CGO_ENABLED=0",
		"PATH="+os.Getenv("PATH"),
	)
	if goarch != "" {
		env = append(env, "GOARCH="+goarch, "GOOS=linux")
	}
	return env
}

func RepoDir() string {
	if r := os.Getenv("VERIF_REPO"); r != "" {
		return r
	}
	return "/repo"
}

// Logical name of a package path.
func Logical(pkgPath string) string {
	for _, m := range Modules {
		if pkgPath == m[1] {
			return m[0]
		}
		if strings.HasPrefix(pkgPath, m[1]+"/") {
			return m[0] + "/" + strings.TrimPrefix(pkgPath, m[1]+"/")
		}
	}
	if strings.HasPrefix(pkgPath, StagedModule+"/") {
		rest := strings.TrimPrefix(pkgPath, StagedModule+"/")
		for _, s := range Staged {
			if rest == s[1] {
				return s[0]
			}
		}
	}
	return ""
}

func copyGoFiles(src, dst string) (int, error) {
	ents, err := os.ReadDir(src)
	if err != nil {
		return 0, err
	}
	if err := os.MkdirAll(dst, 0o755); err != nil {
		return 0, err
	}
	n := 0
	for _, e := range ents {
		if e.IsDir() || !strings.HasSuffix(e.Name(), ".go") || strings.HasSuffix(e.Name(), "_test.go") {
			continue
		}
		b, err := os.ReadFile(filepath.Join(src, e.Name()))
		if err != nil {
			return n, err
		}
		if err := os.WriteFile(filepath.Join(dst, e.Name()), b, 0o644); err != nil {
			return n, err
		}
		n++
	}
	return n, nil
}

// Load loads the world from repo (working tree). goarch "" = host.
func Load(repo, goarch string) (*World, error) {
	w := &World{Repo: repo, GOARCH: goarch, Pkgs: map[string]*packages.Package{}, SSA: map[string]*ssa.Package{}, Dropped: map[string]string{}}
	tmp, err := os.MkdirTemp("", "golemcheck-")
	if err != nil {
		return nil, err
	}
	w.tmp = tmp
	ok := false
	defer func() {
		if !ok {
			w.Close()
		}
	}()

	// --- staged module -----------------------------------------------------
	stage := filepath.Join(tmp, "stage")
	for _, s := range Staged {
		n, err := copyGoFiles(filepath.Join(repo, s[0]), filepath.Join(stage, s[1]))
		if err != nil {
			return nil, fmt.Errorf("staging %s: %w", s[0], err)
		}
		if n == 0 {
			return nil, fmt.Errorf("staging %s: no Go files", s[0])
		}
		w.remap = append(w.remap, [2]string{filepath.Join(stage, s[1]) + "/", filepath.Join(repo, s[0]) + "/"})
	}
	// longest prefix first
	sort.Slice(w.remap, func(i, j int) bool { return len(w.remap[i][0]) > len(w.remap[j][0]) })
	stageMod := "module " + StagedModule + "\n\ngo 1.24\n\nrequire github.com/fogfish/golem/pure v0.0.0\n\nreplace github.com/fogfish/golem/pure => " + filepath.Join(repo, "pure") + "\n"
	if err := os.WriteFile(filepath.Join(stage, "go.mod"), []byte(stageMod), 0o644); err != nil {
		return nil, err
	}

	// --- harness module ----------------------------------------------------
	har := filepath.Join(tmp, "harness")
	if err := os.MkdirAll(har, 0o755); err != nil {
		return nil, err
	}
	var gm strings.Builder
	gm.WriteString("module verif/harness\n\ngo 1.24\n\nrequire (\n")
	for _, m := range Modules {
		v := "v0.0.0"
		if strings.HasSuffix(m[1], "/v2") {
			v = "v2.0.0"
		}
		fmt.Fprintf(&gm, "\t%s %s\n", m[1], v)
	}
	fmt.Fprintf(&gm, "\t%s v0.0.0\n)\n\n", StagedModule)
	for _, m := range Modules {
		fmt.Fprintf(&gm, "replace %s => %s\n", m[1], filepath.Join(repo, m[0]))
	}
	fmt.Fprintf(&gm, "replace %s => %s\n", StagedModule, stage)
	if err := os.WriteFile(filepath.Join(har, "go.mod"), []byte(gm.String()), 0o644); err != nil {
		return nil, err
	}
	sums := map[string]bool{}
	for _, m := range Modules {
		b, err := os.ReadFile(filepath.Join(repo, m[0], "go.sum"))
		if err != nil {
			continue
		}
		for _, l := range strings.Split(string(b), "\n") {
			if strings.TrimSpace(l) != "" {
				sums[l] = true
			}
		}
	}
	var sl []string
	for l := range sums {
		sl = append(sl, l)
	}
	sort.Strings(sl)
	sumTxt := strings.Join(sl, "\n") + "\n"
	os.WriteFile(filepath.Join(har, "go.sum"), []byte(sumTxt), 0o644)
	os.WriteFile(filepath.Join(stage, "go.sum"), []byte(sumTxt), 0o644)
	// a file importing everything keeps `go mod` happy about requirements
	var imp strings.Builder
	imp.WriteString("package harness\n\nimport (\n")
	for _, m := range Modules {
		_ = m
	}
	imp.WriteString(")\n")

	env := Env(goarch)
	// resolve the requirement graph once (offline, replace-only + module cache)
	tidy := exec.Command(GoRoot+"/bin/go", "mod", "download", "-x")
	_ = tidy // not needed: -mod=mod resolves lazily

	patterns := []string{}
	for _, m := range Modules {
		patterns = append(patterns, m[1]+"/...")
	}
	patterns = append(patterns, StagedModule+"/...")
	// the standard iterator adapters are loaded with their source: a loop written as `range slices.Values(xs)` or
	// slices.AppendSeq(...) is followed into them like into the repository's own helpers
	stdFollowed := map[string]bool{"slices": true, "maps": true, "iter": true}
	for p := range stdFollowed {
		patterns = append(patterns, p)
	}

	cfg := &packages.Config{
		Mode:  packages.LoadSyntax | packages.NeedModule,
		Dir:   har,
		Env:   env,
		Tests: false,
	}
	pkgs, err := packages.Load(cfg, patterns...)
	if err != nil {
		return nil, fmt.Errorf("packages.Load: %w", err)
	}
	var errs []string
	bad := map[string]bool{}
	for _, p := range pkgs {
		for _, e := range p.Errors {
			if goarch != "" && Logical(p.PkgPath) != "" {
				// a non-host configuration: drop the package (and its dependants) instead of failing the load
				if !bad[p.PkgPath] {
					w.Dropped[Logical(p.PkgPath)] = w.MapPath(e.Error())
				}
				bad[p.PkgPath] = true
				continue
			}
			errs = append(errs, w.MapPath(e.Error()))
		}
		if len(p.IgnoredFiles) > 0 {
			errs = append(errs, fmt.Sprintf("package %s has build-constrained (ignored) files %v: coverage claim void", p.PkgPath, p.IgnoredFiles))
		}
	}
	if len(errs) > 0 {
		return nil, fmt.Errorf("load errors:\n  %s", strings.Join(errs, "\n  "))
	}
	// dependants of dropped packages are dropped too
	for changed := true; changed; {
		changed = false
		for _, p := range pkgs {
			if bad[p.PkgPath] {
				continue
			}
			for _, ip := range p.Imports {
				if bad[ip.PkgPath] {
					bad[p.PkgPath] = true
					if ln := Logical(p.PkgPath); ln != "" {
						w.Dropped[ln] = "imports a package that does not type-check under this configuration"
					}
					changed = true
				}
			}
		}
	}
	kept := pkgs[:0]
	for _, p := range pkgs {
		if !bad[p.PkgPath] {
			kept = append(kept, p)
		}
	}
	pkgs = kept
	for _, p := range pkgs {
		ln := Logical(p.PkgPath)
		if ln == "" {
			continue
		}
		if p.Fset != nil {
			w.Fset = p.Fset
		}
		w.Pkgs[ln] = p
		w.All = append(w.All, p)
	}
	sort.Slice(w.All, func(i, j int) bool { return w.All[i].PkgPath < w.All[j].PkgPath })
	withStd := append([]*packages.Package{}, w.All...)
	for _, p := range pkgs {
		if stdFollowed[p.PkgPath] && len(p.Syntax) > 0 {
			withStd = append(withStd, p)
		}
	}
	prog, ssapkgs := ssautil.Packages(withStd, ssa.BuilderMode(0))
	for i, sp := range ssapkgs {
		if sp == nil {
			return nil, fmt.Errorf("no SSA for %s", withStd[i].PkgPath)
		}
	}
	ssapkgs = ssapkgs[:len(w.All)]
	prog.Build()
	ir.ScanEnumUses(prog)
	w.Prog = prog
	for i, sp := range ssapkgs {
		w.SSA[Logical(w.All[i].PkgPath)] = sp
	}
	// optics must be analysed against /repo/hseq, not the module cache copy.
	for ln, p := range w.Pkgs {
		for _, f := range p.GoFiles {
			mf := w.MapPath(f)
			if !strings.HasPrefix(mf, repo+"/") {
				return nil, fmt.Errorf("package %s file %s is not under %s", ln, f, repo)
			}
		}
		for _, ip := range p.Imports {
			if strings.HasPrefix(ip.PkgPath, "github.com/fogfish/golem/") {
				for _, f := range ip.GoFiles {
					mf := w.MapPath(f)
					if !strings.HasPrefix(mf, repo+"/") {
						return nil, fmt.Errorf("package %s imports %s from %s (not the working tree)", ln, ip.PkgPath, f)
					}
				}
			}
		}
	}
	ok = true
	return w, nil
}

// Required logical packages (fail when fewer are loaded).
var Required = []string{
	"duct", "hseq", "optics", "pipe", "pipe/fork", "pure", "pure/eq", "pure/ord", "pure/monoid", "pure/semigroup", "pure/foldable",
	"trait/seq", "trait/pair",
	"internal/maplike", "internal/maplike/skiplist", "internal/seq", "internal/seq/list", "internal/seq/slice", "internal/pipe",
}

func (w *World) CheckComplete() error {
	for _, r := range Required {
		if _, dropped := w.Dropped[r]; dropped {
			continue
		}
		if w.Pkgs[r] == nil || w.SSA[r] == nil {
			return fmt.Errorf("required package %s not loaded", r)
		}
	}
	return nil
}

func (w *World) Close() {
	if w.tmp != "" {
		os.RemoveAll(w.tmp)
		w.tmp = ""
	}
}

// MapPath rewrites staged / harness temp paths to repository paths.
func (w *World) MapPath(s string) string {
	for _, r := range w.remap {
		s = strings.ReplaceAll(s, r[0], r[1])
	}
	return s
}

// Pos renders a position repo-relative.
func (w *World) Pos(p token.Pos) string {
	if !p.IsValid() || w.Fset == nil {
		return "-"
	}
	ps := w.Fset.Position(p)
	f := w.MapPath(ps.Filename)
	f = strings.TrimPrefix(f, w.Repo+"/")
	return fmt.Sprintf("%s:%d:%d", f, ps.Line, ps.Column)
}

// Func finds a package-level function by logical package and name.
func (w *World) Func(pkg, name string) *ssa.Function {
	sp := w.SSA[pkg]
	if sp == nil {
		return nil
	}
	return sp.Func(name)
}

// Method finds method `name` declared on named type `typ` (value or pointer receiver) in pkg.
func (w *World) Method(pkg, typ, name string) *ssa.Function {
	sp := w.SSA[pkg]
	if sp == nil {
		return nil
	}
	obj := sp.Pkg.Scope().Lookup(typ)
	tn, _ := obj.(*types.TypeName)
	if tn == nil {
		return nil
	}
	named, _ := tn.Type().(*types.Named)
	if named == nil {
		return nil
	}
	for i := 0; i < named.NumMethods(); i++ {
		m := named.Method(i)
		if m.Name() == name {
			return w.Prog.FuncValue(m)
		}
	}
	return nil
}

// SourceFuncs enumerates every source function (incl. methods of generic
// types and anonymous functions) of a logical package, deterministically.
func (w *World) SourceFuncs(pkg string) []*ssa.Function {
	sp := w.SSA[pkg]
	if sp == nil {
		return nil
	}
	var out []*ssa.Function
	seen := map[*ssa.Function]bool{}
	var add func(f *ssa.Function)
	add = func(f *ssa.Function) {
		if f == nil || seen[f] || f.Synthetic != "" && f.Syntax() == nil {
			return
		}
		seen[f] = true
		if len(f.Blocks) > 0 {
			out = append(out, f)
		}
		for _, a := range f.AnonFuncs {
			add(a)
		}
	}
	names := []string{}
	for n := range sp.Members {
		names = append(names, n)
	}
	sort.Strings(names)
	for _, n := range names {
		switch m := sp.Members[n].(type) {
		case *ssa.Function:
			if m.Name() == "init" && m.Synthetic != "" {
				// package initializer: keep (globals) but only if it has syntax-less blocks
				continue
			}
			add(m)
		case *ssa.Type:
			if named, ok := m.Type().(*types.Named); ok {
				for i := 0; i < named.NumMethods(); i++ {
					add(w.Prog.FuncValue(named.Method(i)))
				}
			}
		}
	}
	return out
}

// AllLogical returns loaded logical package names, sorted.
func (w *World) AllLogical() []string {
	var s []string
	for k := range w.Pkgs {
		s = append(s, k)
	}
	sort.Strings(s)
	return s
}
